(* C05 layer B: evaluating the decompiled program (PyEval) rebuilds a value observationally equal
   to the reference VM's.  Built on the simulation relation of SimRel / SimProofs (layer A). *)
From Coq Require Import List String ZArith Bool Arith Lia.
From Verif Require Import Base Ops AnalysisTable Interp RefVM ShapeProofs SimRel SimProofs PyEval.
Import ListNotations.
Local Open Scope nat_scope.
Local Open Scope list_scope.

(* ================= part 1: same_shape ================= *)
Lemma forallb2_impl {A B} (f g : A -> B -> bool) :
  (forall a b, f a b = true -> g a b = true) ->
  forall l l', forallb2 f l l' = true -> forallb2 g l l' = true.
Proof.
  intros H. induction l as [|a l IH]; destruct l' as [|b l']; cbn; try congruence.
  intros E. apply andb_true_iff in E. destruct E as [E1 E2].
  rewrite (H _ _ E1), (IH _ E2). reflexivity.
Qed.

Lemma forallb2_app {A B} (f : A -> B -> bool) l1 l1' l2 l2' :
  forallb2 f l1 l1' = true -> forallb2 f l2 l2' = true -> forallb2 f (l1 ++ l2) (l1' ++ l2') = true.
Proof.
  revert l1'. induction l1 as [|a l IH]; destruct l1' as [|b l']; cbn; try congruence.
  intros E F. apply andb_true_iff in E. destruct E as [E1 E2]. rewrite E1. cbn. auto.
Qed.

Lemma const_eqb_refl c : const_eqb c c = true.
Proof.
  destruct c; cbn; auto using Z.eqb_refl, String.eqb_refl. destruct b; reflexivity.
Qed.

Lemma same_shape_S n h1 h2 : forall a b,
  same_shape n h1 h2 a b = true -> same_shape (S n) h1 h2 a b = true.
Proof.
  induction n as [|n IH]; intros a b H; [discriminate|].
  remember (S n) as k. cbn [same_shape]. subst k. cbn [same_shape] in H.
  destruct a, b; try discriminate; try exact H;
    try (eapply forallb2_impl; [|exact H]; exact IH).
  destruct (nth_error h1 i) as [[l|l|kvs]|]; try discriminate;
  destruct (nth_error h2 i0) as [[l'|l'|kvs']|]; try discriminate;
    try (eapply forallb2_impl; [|exact H]; exact IH).
  eapply forallb2_impl; [|exact H]. intros p q E. cbn beta in E |- *.
  apply andb_true_iff in E. destruct E as [E1 E2]. apply andb_true_iff; split; apply IH; assumption.
Qed.

Lemma same_shape_le n m h1 h2 a b :
  n <= m -> same_shape n h1 h2 a b = true -> same_shape m h1 h2 a b = true.
Proof. induction 1; auto using same_shape_S. Qed.

(* the evaluator's heap only grows *)
Lemma same_shape_ext n h1 h2 x : forall a b,
  same_shape n h1 h2 a b = true -> same_shape n h1 (h2 ++ x) a b = true.
Proof.
  induction n as [|n IH]; intros a b H; [discriminate|].
  cbn [same_shape] in *.
  destruct a, b; try discriminate; try exact H;
    try (eapply forallb2_impl; [|exact H]; exact IH).
  destruct (nth_error h1 i) as [o1|]; [|discriminate].
  destruct (nth_error h2 i0) as [o2|] eqn:E2; [|destruct o1; discriminate].
  rewrite (nth_error_app1 h2 x), E2
    by (apply nth_error_Some; congruence).
  destruct o1 as [l|l|kvs], o2 as [l'|l'|kvs']; try discriminate;
    try (eapply forallb2_impl; [|exact H]; exact IH).
  eapply forallb2_impl; [|exact H]. intros p q E. cbn beta in E |- *.
  apply andb_true_iff in E. destruct E as [E1 E2']. apply andb_true_iff; split; apply IH; assumption.
Qed.

Lemma forallb2_same_ext n h1 h2 x l l' :
  forallb2 (same_shape n h1 h2) l l' = true -> forallb2 (same_shape n h1 (h2 ++ x)) l l' = true.
Proof. apply forallb2_impl. apply same_shape_ext. Qed.

(* hashability is a property of the shape *)
Lemma same_hashable n h1 h2 : forall a b,
  same_shape n h1 h2 a b = true -> hashable a = hashable b.
Proof.
  induction n as [|n IH]; intros a b H; [discriminate|].
  cbn [same_shape] in H. destruct a, b; try discriminate; try reflexivity.
  cbn [hashable]. revert l0 H. induction l as [|x l IHl]; destruct l0 as [|y l0]; cbn; try congruence.
  intros E. apply andb_true_iff in E. destruct E as [E1 E2].
  rewrite (IH _ _ E1), (IHl _ E2). reflexivity.
Qed.

Lemma forallb2_hashable n h1 h2 : forall l l',
  forallb2 (same_shape n h1 h2) l l' = true -> forallb hashable l = forallb hashable l'.
Proof.
  induction l as [|x l IHl]; destruct l' as [|y l']; cbn; try congruence.
  intros E. apply andb_true_iff in E. destruct E as [E1 E2].
  rewrite (same_hashable _ _ _ _ _ E1), (IHl _ E2). reflexivity.
Qed.

Lemma leaf_same_shape n h1 h2 a b : leaf_same a b = true -> same_shape (S n) h1 h2 a b = true.
Proof. destruct a, b; cbn; congruence. Qed.

(* ================= part 3: the evaluator rebuilds what an expression denotes ================= *)
Section Core.
Variable P : val -> bool.
Variable al : env.
Variable ns : list node.
Variable h : list hobj.                    (* the VM's FINAL heap *)
Variable imps : list (string * string).
Variable vars : list (nat * val).
Variable bound : nat.
Variable okname : string -> bool.
Hypothesis Hheap : Forall2 (rel_node al) ns h.
Hypothesis Hwf : forallb (obj_wf P) h = true.
Hypothesis Hvars : forall i x, i < bound -> nth_error al i = Some x ->
  exists y, lookup_var i vars = Some y /\ leaf_same x y = true.
Hypothesis Hnames : forall m n, P (VGlobal m n) = true -> okname n = true ->
  leaf_same (VGlobal m n) (lookup_name n imps) = true.

Definition denotes (n : nat) (e : expr) (v : val) : Prop :=
  forall hp, fits n ns bound okname e = true -> rel al e v -> wfv P v = true ->
  exists v' hp', eval ns imps vars n e hp = Ok (v', hp ++ hp') /\
                 same_shape n h (hp ++ hp') v v' = true.

Lemma eval_seq_denotes n :
  (forall e v, denotes n e v) ->
  forall es vs, Forall2 (rel al) es vs -> forall hp,
  forallb (fits n ns bound okname) es = true -> forallb (wfv P) vs = true ->
  exists vs' hp', eval_seq (eval ns imps vars n) es hp = Ok (vs', hp ++ hp') /\
                  forallb2 (same_shape n h (hp ++ hp')) vs vs' = true.
Proof.
  intros IH es vs F. induction F as [|e v es vs Hr F IHF]; intros hp Hf Hw.
  - exists [], []. rewrite app_nil_r. split; reflexivity.
  - cbn in Hf, Hw. apply andb_true_iff in Hf. destruct Hf as [Hf1 Hf2].
    apply andb_true_iff in Hw. destruct Hw as [Hw1 Hw2].
    destruct (IH e v hp Hf1 Hr Hw1) as (v' & hp1 & E1 & S1).
    destruct (IHF (hp ++ hp1) Hf2 Hw2) as (vs' & hp2 & E2 & S2).
    exists (v' :: vs'), (hp1 ++ hp2). cbn [eval_seq]. rewrite E1. cbn [bind]. rewrite E2. cbn [bind].
    rewrite app_assoc. split; [reflexivity|]. cbn [forallb2].
    rewrite <- app_assoc in S2 |- *. rewrite S2, andb_true_r.
    rewrite app_assoc. apply same_shape_ext. exact S1.
Qed.

Lemma eval_pairs_denotes n :
  (forall e v, denotes n e v) ->
  forall es vs, Forall2 (rel_pair al) es vs -> forall hp,
  forallb (fun kv => fits n ns bound okname (fst kv) && fits n ns bound okname (snd kv)) es = true ->
  forallb (fun kv => wfv P (fst kv) && wfv P (snd kv)) vs = true ->
  exists vs' hp', eval_pairs (eval ns imps vars n) es hp = Ok (vs', hp ++ hp') /\
    forallb2 (fun p q => same_shape n h (hp ++ hp') (fst p) (fst q) &&
                         same_shape n h (hp ++ hp') (snd p) (snd q)) vs vs' = true.
Proof.
  intros IH es vs F. induction F as [|[k x] [kv xv] es vs [Hk Hx] F IHF]; intros hp Hf Hw.
  - exists [], []. rewrite app_nil_r. split; reflexivity.
  - cbn in Hk, Hx. cbn [forallb fst snd] in Hf, Hw.
    apply andb_true_iff in Hf. destruct Hf as [Hf1 Hf2]. apply andb_true_iff in Hf1. destruct Hf1 as [Hfk Hfx].
    apply andb_true_iff in Hw. destruct Hw as [Hw1 Hw2]. apply andb_true_iff in Hw1. destruct Hw1 as [Hwk Hwx].
    destruct (IH k kv hp Hfk Hk Hwk) as (k' & hp1 & E1 & S1).
    destruct (IH x xv (hp ++ hp1) Hfx Hx Hwx) as (x' & hp2 & E2 & S2).
    destruct (IHF ((hp ++ hp1) ++ hp2) Hf2 Hw2) as (vs' & hp3 & E3 & S3).
    exists ((k', x') :: vs'), (hp1 ++ hp2 ++ hp3). cbn [eval_pairs]. rewrite E1. cbn [bind].
    rewrite E2. cbn [bind]. rewrite E3. cbn [bind].
    replace (hp ++ hp1 ++ hp2 ++ hp3) with (((hp ++ hp1) ++ hp2) ++ hp3) by (rewrite <- !app_assoc; reflexivity).
    split; [reflexivity|]. cbn [forallb2 fst snd]. rewrite S3, andb_true_r.
    apply andb_true_iff. split.
    + apply same_shape_ext. apply same_shape_ext. exact S1.
    + apply same_shape_ext. exact S2.
Qed.

Lemma heap_obj_wf i o : nth_error h i = Some o -> obj_wf P o = true.
Proof.
  intros E. apply nth_error_In in E. rewrite forallb_forall in Hwf. auto.
Qed.

Lemma dict_wf_split kvs :
  forallb (fun kv : val * val => hashable (fst kv) && (wfv P (fst kv) && wfv P (snd kv))) kvs = true ->
  forallb (fun kv => hashable (fst kv)) kvs = true /\
  forallb (fun kv => wfv P (fst kv) && wfv P (snd kv)) kvs = true.
Proof.
  induction kvs as [|kv r IH]; cbn; [auto|]. intros E.
  apply andb_true_iff in E. destruct E as [E1 E2]. apply andb_true_iff in E1. destruct E1 as [E1 E3].
  destruct (IH E2) as [A B]. rewrite E1, E3, A, B. auto.
Qed.

Lemma pairs_hashable n h2 : forall (l l' : list (val * val)),
  forallb2 (fun p q => same_shape n h h2 (fst p) (fst q) && same_shape n h h2 (snd p) (snd q)) l l' = true ->
  forallb (fun kv => hashable (fst kv)) l = forallb (fun kv => hashable (fst kv)) l'.
Proof.
  induction l as [|x l IHl]; destruct l' as [|y l']; cbn; try congruence.
  intros E. apply andb_true_iff in E. destruct E as [E1 E2]. apply andb_true_iff in E1. destruct E1 as [E1 _].
  rewrite (same_hashable _ _ _ _ _ E1), (IHl _ E2). reflexivity.
Qed.

Theorem eval_denotes : forall n e v, denotes n e v.
Proof.
  induction n as [|n IH]; intros e v hp Hf Hr Hw; [discriminate|].
  destruct Hr as [c|m nm|es vs F|i|i x Hx|es vs F].
  - exists (VConst c), []. rewrite app_nil_r. cbn. rewrite const_eqb_refl. auto.
  - exists (lookup_name nm imps), []. rewrite app_nil_r. split; [reflexivity|].
    apply leaf_same_shape. apply Hnames; [exact Hw | exact Hf].
  - cbn [fits] in Hf. cbn [wfv] in Hw.
    destruct (eval_seq_denotes n IH es vs F hp Hf Hw) as (vs' & hp' & E & S).
    exists (VTuple vs'), hp'. cbn [eval]. rewrite E. cbn [bind]. split; [reflexivity|]. exact S.
  - cbn [fits] in Hf. cbn [eval].
    destruct (nth_error ns i) as [nd|] eqn:En; [|discriminate].
    destruct (node_lookup _ _ _ Hheap _ _ En) as (o & Eo & Ro).
    pose proof (heap_obj_wf _ _ Eo) as Wo.
    destruct Ro as [es vs F|es vs F|kvs kvs' F]; cbn [obj_wf] in Wo.
    + destruct (eval_seq_denotes n IH es vs F hp Hf Wo) as (vs' & hp' & E & S).
      exists (VRef (List.length (hp ++ hp'))), (hp' ++ [HList vs']).
      rewrite E. cbn [bind]. unfold mk_list, alloc_obj. rewrite app_assoc. split; [reflexivity|].
      cbn [same_shape]. rewrite Eo, nth_error_snoc. apply forallb2_same_ext. exact S.
    + apply andb_true_iff in Wo. destruct Wo as [Wh Wo].
      destruct (eval_seq_denotes n IH es vs F hp Hf Wo) as (vs' & hp' & E & S).
      exists (VRef (List.length (hp ++ hp'))), (hp' ++ [HSet vs']).
      rewrite E. cbn [bind]. unfold mk_set, alloc_obj.
      rewrite <- (forallb2_hashable _ _ _ _ _ S), Wh. rewrite app_assoc. split; [reflexivity|].
      cbn [same_shape]. rewrite Eo, nth_error_snoc. apply forallb2_same_ext. exact S.
    + apply dict_wf_split in Wo. destruct Wo as [Wh Wo].
      destruct (eval_pairs_denotes n IH kvs kvs' F hp Hf Wo) as (vs' & hp' & E & S).
      exists (VRef (List.length (hp ++ hp'))), (hp' ++ [HDict vs']).
      rewrite E. cbn [bind]. unfold mk_dict, alloc_obj.
      rewrite <- (pairs_hashable _ _ _ _ S), Wh. rewrite app_assoc. split; [reflexivity|].
      cbn [same_shape]. rewrite Eo, nth_error_snoc.
      eapply forallb2_impl; [|exact S]. cbn. intros p q E'.
      apply andb_true_iff in E'. destruct E' as [E1 E2].
      rewrite (same_shape_ext _ _ _ _ _ _ E1), (same_shape_ext _ _ _ _ _ _ E2). reflexivity.
  - cbn [fits] in Hf. apply Nat.ltb_lt in Hf.
    destruct (Hvars i x Hf Hx) as (y & Ey & Sy).
    exists y, []. rewrite app_nil_r. cbn [eval]. unfold var_value. rewrite Ey. split; [reflexivity|].
    apply leaf_same_shape. exact Sy.
  - cbn [fits frozenset_arg] in Hf. cbn [eval frozenset_arg]. cbn in Hf |- *.
    cbn [wfv] in Hw. apply andb_true_iff in Hw. destruct Hw as [Wh Hw].
    destruct (eval_seq_denotes n IH es vs F hp Hf Hw) as (vs' & hp' & E & S).
    exists (VFrozen vs'), hp'. rewrite E. cbn [bind].
    rewrite <- (forallb2_hashable _ _ _ _ _ S), Wh. split; [reflexivity|]. exact S.
Qed.

End Core.

(* ================= part 2: well-formedness of VM states is invariant ================= *)
Lemma forallb_rev {A} (f : A -> bool) l : forallb f (rev l) = forallb f l.
Proof.
  induction l as [|a l IH]; cbn; [reflexivity|].
  rewrite forallb_app, IH. cbn. rewrite andb_true_r. apply andb_comm.
Qed.

Lemma forallb_set_nth {A} (f : A -> bool) x : forall l i,
  forallb f l = true -> f x = true -> forallb f (set_nth i x l) = true.
Proof.
  induction l as [|a l IH]; intros i H X; destruct i; cbn in *; auto.
  - apply andb_true_iff in H. destruct H as [_ H]. rewrite X, H. reflexivity.
  - apply andb_true_iff in H. destruct H as [H1 H]. rewrite H1, IH; auto.
Qed.

Lemma forallb_nth_error {A} (f : A -> bool) l i x :
  forallb f l = true -> nth_error l i = Some x -> f x = true.
Proof. intros H E. apply nth_error_In in E. rewrite forallb_forall in H. auto. Qed.

Section WF.
Variable P : val -> bool.

Record WF (s : vm) : Prop := mkWF {
  W_cur : forallb (wfv P) (cur s) = true;
  W_meta : forallb (forallb (wfv P)) (meta s) = true;
  W_memo : forallb (fun kv => wfv P (snd kv)) (vmemo s) = true;
  W_heap : forallb (obj_wf P) (heap s) = true;
  W_log : forallb (event_wf P) (log s) = true;
  W_stop : match vstopped s with Some v => wfv P v | None => true end = true
}.

Lemma vm_wf_WF s : vm_wf P s = true <-> WF s.
Proof.
  unfold vm_wf. split.
  - intros H. repeat (apply andb_true_iff in H; destruct H as [H ?]). constructor; assumption.
  - intros [A B C D E F]. rewrite A, B, C, D, E, F. reflexivity.
Qed.

Lemma memo_remove_wf k : forall m : list (Z * val),
  forallb (fun kv => wfv P (snd kv)) m = true ->
  forallb (fun kv => wfv P (snd kv)) (memo_remove k m) = true.
Proof.
  induction m as [|[k' v] m IH]; cbn; [auto|]. intros H.
  apply andb_true_iff in H. destruct H as [H1 H2].
  destruct (Z.eqb k k'); cbn; [auto | rewrite H1; auto].
Qed.

Lemma memo_put_wf k v (m : list (Z * val)) :
  wfv P v = true -> forallb (fun kv => wfv P (snd kv)) m = true ->
  forallb (fun kv => wfv P (snd kv)) (memo_put k v m) = true.
Proof. intros A B. unfold memo_put. cbn. rewrite A. apply memo_remove_wf. exact B. Qed.

Lemma memo_get_wf k : forall (m : list (Z * val)) v,
  forallb (fun kv => wfv P (snd kv)) m = true -> memo_get k m = Some v -> wfv P v = true.
Proof.
  induction m as [|[k' x] m IH]; cbn; [discriminate|]. intros v H G.
  apply andb_true_iff in H. destruct H as [H1 H2].
  destruct (Z.eqb k k'); [inversion G; subst; exact H1 | eauto].
Qed.

Lemma vpairs_wf : forall n l kvs, List.length l <= n ->
  vpairs_of l = Ok kvs -> forallb (wfv P) l = true ->
  forallb (fun kv => wfv P (fst kv) && wfv P (snd kv)) kvs = true.
Proof.
  induction n as [|n IH]; intros l kvs L H W.
  - destruct l; [|cbn in L; lia]. inversion H. reflexivity.
  - destruct l as [|a [|b l]]; [inversion H; reflexivity | discriminate |].
    cbn [vpairs_of] in H. apply bind_ok in H. destruct H as (t & H & Q). inversion Q; subst.
    cbn in W. apply andb_true_iff in W. destruct W as [Wa W]. apply andb_true_iff in W. destruct W as [Wb W].
    cbn. rewrite Wa, Wb. cbn. apply (IH l); [cbn in L; lia | exact H | exact W].
Qed.

Lemma dict_wf_join (kvs : list (val * val)) :
  forallb (fun kv => hashable (fst kv)) kvs = true ->
  forallb (fun kv => wfv P (fst kv) && wfv P (snd kv)) kvs = true ->
  forallb (fun kv => hashable (fst kv) && (wfv P (fst kv) && wfv P (snd kv))) kvs = true.
Proof.
  induction kvs as [|kv r IH]; cbn; [auto|]. intros A B.
  apply andb_true_iff in A. destruct A as [A1 A2]. apply andb_true_iff in B. destruct B as [B1 B2].
  rewrite A1, B1. cbn. auto.
Qed.

Lemma setitem_events_wf d (kvs : list (val * val)) :
  wfv P d = true -> forallb (fun kv => wfv P (fst kv) && wfv P (snd kv)) kvs = true ->
  forallb (event_wf P) (map (fun kv => EvSetItem d (fst kv) (snd kv)) kvs) = true.
Proof.
  intros D. induction kvs as [|kv r IH]; cbn; [auto|]. intros B.
  apply andb_true_iff in B. destruct B as [B1 B2]. rewrite D, B1. cbn. auto.
Qed.

Ltac bdestr :=
  repeat match goal with
  | H : _ && _ = true |- _ => apply andb_true_iff in H; destruct H
  end.
Ltac bsplit := repeat (apply andb_true_iff; split).

Ltac use_eqs :=
  repeat match goal with
  | E : cur ?s = _, H : context[cur ?s] |- _ => rewrite E in H
  | E : meta ?s = _, H : context[meta ?s] |- _ => rewrite E in H
  end.

Ltac wf_fin :=
  constructor; simp_proj;
  repeat match goal with
  | E : cur ?s = _ |- context[cur ?s] => rewrite E
  | E : meta ?s = _ |- context[meta ?s] => rewrite E
  end;
  rewrite ?forallb_app, ?forallb_rev; cbn [forallb wfv obj_wf event_wf fst snd];
  rewrite ?forallb_app, ?forallb_rev;
  bsplit; try assumption; try reflexivity.

Ltac wf_fin2 HPo HPg :=
  constructor; simp_proj;
  repeat match goal with
  | E : cur ?s = _ |- context[cur ?s] => rewrite E
  | E : meta ?s = _ |- context[meta ?s] => rewrite E
  end;
  try (apply forallb_set_nth; [assumption|]);
  rewrite ?forallb_app, ?forallb_rev; cbn [forallb wfv obj_wf event_wf fst snd];
  rewrite ?forallb_app, ?forallb_rev; cbn [forallb wfv obj_wf event_wf fst snd];
  bsplit; try assumption; try reflexivity; try (apply HPo);
  try (apply HPg; simp_proj; cbn; auto);
  try (apply dict_wf_join; assumption); try (apply memo_put_wf; assumption);
  try (apply setitem_events_wf; [cbn [wfv]; try assumption | assumption]).

Lemma wf_step o s s' :
  (data_op o = true \/
   ((forall k, P (VObj k) = true) /\
    (forall m n, In (EvResolve m n) (log s') -> P (VGlobal m n) = true))) ->
  vstep o s = Ok s' -> WF s -> WF s'.
Proof.
  intros HP H [Wc Wm Wme Wh Wl Ws].
  destruct o; cbn [vstep] in H; unfold do_call, find_class in H.
  all: repeat (progress (fk_inv; eqs; subst; simp_proj; vinv_pairs; crack)).
  all: use_eqs; cbn [forallb wfv] in *; rewrite ?forallb_app, ?forallb_rev in *; bdestr.
  all: try solve [wf_fin].
  all: try (destruct HP as [HP|[HPo HPg]]; [discriminate HP|]).
  all: try match goal with
       | G : vget_obj ?i _ = Some ?o |- _ =>
           unfold vget_obj in G; simp_proj;
           pose proof (forallb_nth_error _ _ _ _ Wh G) as Wold; cbn [obj_wf] in Wold; bdestr
       end.
  all: try match goal with
       | G : vpairs_of ?l = Ok ?kvs |- _ =>
           assert (forallb (fun kv => wfv P (fst kv) && wfv P (snd kv)) kvs = true) as Wkv
             by (apply (vpairs_wf (List.length l) l kvs (le_n _) G); rewrite ?forallb_rev; assumption)
       end.
  all: rewrite ?fold_vlog_eq.
  all: try match goal with
       | G : memo_get _ (vmemo _) = Some _ |- _ => pose proof (memo_get_wf _ _ _ Wme G)
       end.
  all: try match goal with
       | G : rev (cur _) = _ :: _ |- _ =>
           rewrite <- forallb_rev in Wc; rewrite G in Wc; cbn [forallb] in Wc; bdestr
       end.
  all: first [solve [wf_fin2 HPo HPg] | solve [wf_fin2 HP HP] | idtac].
  all: constructor; simp_proj; try assumption;
    try (apply memo_put_wf; assumption);
    match goal with E : cur _ = _ |- _ => rewrite E end; cbn [forallb]; bsplit; assumption.
Qed.
End WF.

Lemma vstep_log_grows o s s' : vstep o s = Ok s' -> exists ev, log s' = ev ++ log s.
Proof.
  intros H. destruct o; cbn [vstep] in H; unfold do_call, find_class in H.
  all: repeat (progress (fk_inv; eqs; subst; simp_proj; vinv_pairs; crack)).
  all: rewrite ?fold_vlog_eq; simp_proj.
  all: try (exists []; reflexivity).
  all: try (eexists [_]; reflexivity).
  all: try (eexists [_; _]; reflexivity).
  all: try (eexists; reflexivity).
Qed.

Lemma vrun_log_grows : forall p s s', vrun_from p s = Ok s' -> exists ev, log s' = ev ++ log s.
Proof.
  induction p as [|o r IH]; intros s s' H; cbn [vrun_from] in H.
  - inversion H; subst. exists []. reflexivity.
  - destruct (is_stopped s); [inversion H; subst; exists []; reflexivity|].
    apply bind_ok in H. destruct H as (s1 & H1 & H).
    destruct (vstep_log_grows _ _ _ H1) as (e1 & E1). destruct (IH _ _ H) as (e2 & E2).
    exists (e2 ++ e1). rewrite E2, E1, app_assoc. reflexivity.
Qed.

(* the invariant along a run, for plain data (no stand-in) or for a leaf predicate that accepts
   every opaque object and every global the run resolves *)
Lemma wf_run P : forall p s s',
  (forallb data_op p = true \/
   ((forall k, P (VObj k) = true) /\
    (forall m n, In (EvResolve m n) (log s') -> P (VGlobal m n) = true))) ->
  vrun_from p s = Ok s' -> WF P s -> WF P s'.
Proof.
  induction p as [|o r IH]; intros s s' HP H W; cbn [vrun_from] in H.
  - inversion H; subst; exact W.
  - destruct (is_stopped s); [inversion H; subst; exact W|].
    apply bind_ok in H. destruct H as (s1 & H1 & H).
    apply (IH s1 s'); [| exact H | eapply wf_step; [| exact H1 | exact W]].
    + destruct HP as [HP|HP]; [left | right; exact HP].
      cbn in HP. apply andb_true_iff in HP. tauto.
    + destruct HP as [HP|[HPo HPg]]; [left | right; split; [exact HPo|]].
      * cbn in HP. apply andb_true_iff in HP. tauto.
      * intros m n Hin. apply HPg. destruct (vrun_log_grows _ _ _ H) as (ev & E). rewrite E.
        apply in_or_app. right. exact Hin.
Qed.

Lemma WF_init P : WF P vm_init.
Proof. constructor; reflexivity. Qed.

(* ================= part 4: the call-free data fragment ================= *)
(* plain data: no stand-in ever exists, so the VM logs nothing ... *)
Lemma data_step_log o s s' :
  data_op o = true -> WF no_standin s -> vstep o s = Ok s' -> log s' = log s.
Proof.
  intros Hd [Wc Wm Wme Wh Wl Ws] H.
  destruct o; try discriminate Hd; cbn [vstep] in H.
  all: repeat (progress (fk_inv; eqs; subst; simp_proj; vinv_pairs; crack)); try reflexivity.
  all: repeat match goal with
       | E : cur ?s = _, H : context[cur ?s] |- _ => rewrite E in H
       | E : meta ?s = _, H : context[meta ?s] |- _ => rewrite E in H
       end; cbn in Wc, Wm; repeat rewrite ?andb_false_r, ?andb_false_l in *; try discriminate.
Qed.

(* ... and fickling emits no statement and creates no variable (SETITEM / SETITEMS always hit a
   dict node: the variable path needs a stand-in target) *)
Lemma rel_nil_ref e i : rel [] e (VRef i) -> e = ENode i.
Proof. intros H. inversion H; subst; [reflexivity | destruct i0; discriminate]. Qed.

Ltac bdestr' :=
  repeat match goal with
  | H : _ && _ = true |- _ => apply andb_true_iff in H; destruct H
  end.
Ltac kill_standin :=
  try match goal with W : wfv no_standin (VGlobal _ _) = true |- _ => cbn in W; discriminate W end;
  try match goal with W : wfv no_standin (VObj _) = true |- _ => cbn in W; discriminate W end.
Ltac dict_node Hs Rh :=
  match goal with X : rel [] _ (VRef _) |- _ => apply rel_nil_ref in X; subst end;
  match goal with
  | Hv : match vget_obj ?i ?st with _ => _ end = _ |- _ =>
      destruct (vget_obj i st) as [[| |kvs']|] eqn:G; try discriminate Hv;
      unfold vget_obj in G; simp_proj; unfold get_node in Hs; simp_proj;
      let En := fresh "En" in
      destruct (nth_error (nodes _) i) as [nd|] eqn:En;
      [ pose proof (Forall2_nth_error _ _ _ Rh _ _ _ En G) as Rn; inversion Rn; subst;
        inversion Hs; subst; simp_proj; auto
      | rewrite (lookup_none _ _ _ _ Rh En) in G; discriminate G ]
  end.

Lemma data_step_quiet o f v f' v' :
  data_op o = true -> R [] f v -> WF no_standin v ->
  step o f = Ok f' -> vstep o v = Ok v' ->
  ctr f' = ctr f /\
  (body f' = body f \/ exists e, o = OStop /\ body f' = SResult e :: body f).
Proof.
  intros Hd [Rs Rm Rh Re Rc Rv Rp] [Wc Wm Wme Wh Wl Ws] Hs Hv.
  destruct o; try discriminate Hd; cbn [step] in Hs.
  all: try solve [repeat (progress (fk_inv; eqs; subst; simp_proj; inv_pairs; crack));
                  simp_proj; split; [reflexivity | first [left; reflexivity | right; eauto]]].
  - (* SETITEM *)
    cbn [vstep] in Hv. sprep0. use_stack. inv_rs.
    match goal with E : cur v = _ |- _ => rewrite E in Wc end. cbn [forallb] in Wc. bdestr'.
    match type of Hv with match ?x with _ => _ end = _ => destruct x; try discriminate Hv; kill_standin end.
    dict_node Hs Rh.
  - (* SETITEMS *)
    cbn [vstep] in Hv. sprep0. slice. use_stack. inv_rs.
    match goal with E : meta v = _ |- _ => rewrite E in Wm end. cbn [forallb] in Wm. bdestr'.
    match type of Hv with match ?x with _ => _ end = _ => destruct x; try discriminate Hv; kill_standin end.
    dict_node Hs Rh.
Qed.

Record DI (f : fk) (v : vm) : Prop := mkDI {
  DI_R : R [] f v;
  DI_wf : WF no_standin v;
  DI_log : log v = [];
  DI_body : match vstopped v with
            | None => body f = []
            | Some _ => exists e, body f = [SResult e]
            end
}.

Lemma DI_init : DI (fk_init 0) vm_init.
Proof. constructor; [exact (R_init 0) | apply WF_init | reflexivity | reflexivity]. Qed.

Lemma DI_step o f v f' v' :
  data_op o = true -> vstopped v = None -> DI f v ->
  step o f = Ok f' -> vstep o v = Ok v' -> DI f' v'.
Proof.
  intros Hd NS [HR HW HL HB] Hs Hv. rewrite NS in HB.
  destruct (lockstep _ _ _ _ _ _ NS HR Hs Hv) as (al' & _ & HR').
  destruct (data_step_quiet _ _ _ _ _ Hd HR HW Hs Hv) as [Hc Hb].
  assert (al' = []) as ->.
  { pose proof (R_ctr _ _ _ HR') as C'. pose proof (R_ctr _ _ _ HR) as C.
    rewrite Hc, C in C'. destruct al'; [reflexivity | discriminate]. }
  constructor.
  - exact HR'.
  - eapply wf_step; [left; exact Hd | exact Hv | exact HW].
  - rewrite (data_step_log _ _ _ Hd HW Hv). exact HL.
  - pose proof (R_stop _ _ _ HR') as Rp.
    destruct (vstopped v') as [x|].
    + destruct Rp as (_ & e & b & Eb & _).
      destruct Hb as [Hb|(e' & _ & Hb)]; rewrite HB in Hb; rewrite Hb in Eb.
      * discriminate.
      * exists e'. exact Hb.
    + destruct Hb as [Hb|(e' & Ho & Hb)]; [rewrite Hb; exact HB|].
      subst o. cbn [step] in Hs. apply bind_ok in Hs. destruct Hs as ([e0 f0] & _ & Hs).
      inversion Hs; subst. cbn in Rp. discriminate.
Qed.

Lemma DI_run : forall p f v f' v',
  forallb data_op p = true -> DI f v ->
  run_from p f = Ok f' -> vrun_from p v = Ok v' -> DI f' v'.
Proof.
  induction p as [|o r IH]; intros f v f' v' Hd D Hs Hv; cbn [run_from vrun_from] in *.
  - inversion Hs; inversion Hv; subst. exact D.
  - pose proof (R_stopped_agree _ _ _ (DI_R _ _ D)) as St. rewrite <- St in Hv.
    destruct (stopped f) eqn:Sf.
    + inversion Hs; inversion Hv; subst. exact D.
    + apply bind_ok in Hs. destruct Hs as (f1 & S1 & Hs).
      apply bind_ok in Hv. destruct Hv as (v1 & V1 & Hv).
      assert (vstopped v = None) as NS.
      { unfold is_stopped in St. destruct (vstopped v); [discriminate | reflexivity]. }
      cbn in Hd. apply andb_true_iff in Hd. destruct Hd as [Hd1 Hd2].
      eapply IH; [exact Hd2 | | exact Hs | exact Hv].
      eapply DI_step; eauto.
Qed.

(* an acyclic VM value is denoted by an expression that prints within the same depth *)
Section Acyclic.
Variable ns : list node.
Variable h : list hobj.
Variable bound : nat.
Variable okname : string -> bool.
Hypothesis Hokname : forall s, okname s = true.
Hypothesis Hheap : Forall2 (rel_node []) ns h.

Lemma acyclic_fits_list n :
  (forall e v, same_shape n h h v v = true -> rel [] e v -> fits n ns bound okname e = true) ->
  forall es vs, Forall2 (rel []) es vs -> forallb2 (same_shape n h h) vs vs = true ->
  forallb (fits n ns bound okname) es = true.
Proof.
  intros IH es vs F. induction F as [|e v es vs Hr F IHF]; cbn; [reflexivity|].
  intros E. apply andb_true_iff in E. destruct E as [E1 E2].
  rewrite (IH _ _ E1 Hr), (IHF E2). reflexivity.
Qed.

Lemma acyclic_fits_pairs n :
  (forall e v, same_shape n h h v v = true -> rel [] e v -> fits n ns bound okname e = true) ->
  forall es vs, Forall2 (rel_pair []) es vs ->
  forallb2 (fun p q : val * val => same_shape n h h (fst p) (fst q) && same_shape n h h (snd p) (snd q))
           vs vs = true ->
  forallb (fun kv => fits n ns bound okname (fst kv) && fits n ns bound okname (snd kv)) es = true.
Proof.
  intros IH es vs F. induction F as [|[k x] [kv xv] es vs [Hk Hx] F IHF]; cbn; [reflexivity|].
  intros E. apply andb_true_iff in E. destruct E as [E1 E2]. apply andb_true_iff in E1. destruct E1 as [Ek Ex].
  cbn in Hk, Hx. rewrite (IH _ _ Ek Hk), (IH _ _ Ex Hx), (IHF E2). reflexivity.
Qed.

Lemma acyclic_fits : forall n e v,
  same_shape n h h v v = true -> rel [] e v -> fits n ns bound okname e = true.
Proof.
  induction n as [|n IH]; intros e v S Hr; [discriminate|].
  destruct Hr as [c|m nm|es vs F|i|i x Hx|es vs F]; cbn [same_shape] in S.
  - reflexivity.
  - cbn. apply Hokname.
  - cbn [fits]. eapply acyclic_fits_list; eauto.
  - cbn [fits]. destruct (nth_error ns i) as [nd|] eqn:En.
    + destruct (node_lookup _ _ _ Hheap _ _ En) as (o & Eo & Ro). rewrite Eo in S.
      destruct Ro as [es vs F|es vs F|kvs kvs' F].
      * eapply acyclic_fits_list; eauto.
      * eapply acyclic_fits_list; eauto.
      * eapply acyclic_fits_pairs; eauto.
    + rewrite (lookup_none _ _ _ _ Hheap En) in S. discriminate.
  - destruct i; discriminate.
  - cbn. eapply acyclic_fits_list; eauto.
Qed.
End Acyclic.

(* plain data, any length / nesting / sharing: the decompiled program evaluates, logs nothing, and
   its result unfolds to the same tree as the VM's value *)
Theorem plain_data_eval p n f v x :
  forallb data_op p = true -> run p = Ok f -> vrun p = Ok v -> vstopped v = Some x ->
  same_shape n (heap v) (heap v) x x = true ->
  exists st r, py_run n p = Ok st /\ presult st = Some r /\ plog st = [] /\ log v = [] /\
               same_shape n (heap v) (pheap st) x r = true.
Proof.
  intros Hd Hs Hv Hx Hac.
  pose proof (DI_run p _ _ _ _ Hd DI_init Hs Hv) as [HR HW HL HB].
  rewrite Hx in HB. destruct HB as (e & Eb).
  pose proof (R_stop _ _ _ HR) as Rp. rewrite Hx in Rp. destruct Rp as (_ & e' & b & Eb' & Hr).
  rewrite Eb in Eb'. inversion Eb'; subst e' b.
  pose proof (R_heap _ _ _ HR) as Rh.
  pose proof (W_stop _ _ HW) as Wx. rewrite Hx in Wx.
  assert (fits n (nodes f) 0 (fun _ => true) e = true) as Hf by (eapply acyclic_fits; eauto).
  destruct (eval_denotes no_standin [] (nodes f) (heap v) [] [] 0 (fun _ => true) Rh (W_heap _ _ HW)) with
    (n := n) (e := e) (v := x) (hp := @nil hobj) as (r & hp' & E & S); auto.
  - intros i y Hi. lia.
  - intros m nm Hc. discriminate.
  - unfold py_run. rewrite Hs. cbn [bind]. unfold py_eval_fk. rewrite Eb. cbn [rev app exec_module exec_stmt].
    unfold peval. cbn [pst_init pimports pvars pheap]. rewrite E. cbn.
    eexists _, r. repeat split; auto.
Qed.

(* ================= part 5: calls -- invariants of the two machines ================= *)
(* opaque objects are numbered in creation order, and the VM's counter is their number *)
Fixpoint numbered (l : list event) (n : nat) : Prop :=
  match l with
  | [] => n = 0
  | EvCall _ _ _ k :: r => n = S k /\ numbered r k
  | EvPersLoad _ k :: r => n = S k /\ numbered r k
  | _ :: r => numbered r n
  end.

Lemma numbered_setitems d (kvs : list (val * val)) n : forall l,
  numbered l n -> numbered (rev (map (fun kv => EvSetItem d (fst kv) (snd kv)) kvs) ++ l) n.
Proof.
  induction kvs as [|kv r IH]; intros l H; cbn; [exact H|].
  rewrite <- app_assoc. apply IH. cbn. exact H.
Qed.

Lemma numbered_step o s s' :
  vstep o s = Ok s' -> numbered (log s) (nobj s) -> numbered (log s') (nobj s').
Proof.
  intros H N. destruct o; cbn [vstep] in H; unfold do_call, find_class in H.
  all: repeat (progress (fk_inv; eqs; subst; simp_proj; vinv_pairs; crack)).
  all: rewrite ?fold_vlog_eq; simp_proj; cbn [numbered]; auto using numbered_setitems.
Qed.

Lemma numbered_run : forall p s s',
  vrun_from p s = Ok s' -> numbered (log s) (nobj s) -> numbered (log s') (nobj s').
Proof.
  induction p as [|o r IH]; intros s s' H N; cbn [vrun_from] in H.
  - inversion H; subst; exact N.
  - destruct (is_stopped s); [inversion H; subst; exact N|].
    apply bind_ok in H. destruct H as (s1 & H1 & H). eauto using numbered_step.
Qed.

(* fickling assigns its variables _var0, _var1, ... in order, each exactly once *)
Fixpoint assigns (b : list stmt) (c : nat) : Prop :=
  match b with
  | [] => c = 0
  | SAssignV i _ :: r => c = S i /\ assigns r i
  | _ :: r => assigns r c
  end.

Lemma assigns_setitems name (kvs : list (expr * expr)) c : forall b,
  assigns b c -> assigns (rev (map (fun kv => SSetItemV name (fst kv) (snd kv)) kvs) ++ b) c.
Proof.
  induction kvs as [|kv r IH]; intros b H; cbn; [exact H|].
  rewrite <- app_assoc. apply IH. cbn. exact H.
Qed.

Lemma assigns_step o f f' :
  step o f = Ok f' -> assigns (body f) (ctr f) -> assigns (body f') (ctr f').
Proof.
  intros H N. destruct o; cbn [step] in H; unfold bind_call, emit_import in H.
  all: repeat (progress (fk_inv; eqs; subst; simp_proj; inv_pairs; crack)).
  all: rewrite ?fold_emit_eq; simp_proj; cbn [assigns body ctr]; auto.
  all: try (apply assigns_setitems; cbn [assigns]; auto).
  all: repeat match goal with |- context[is_builtins ?m] => destruct (is_builtins m) end;
    simp_proj; cbn [assigns body ctr]; auto.
Qed.

Lemma assigns_run : forall p f f',
  run_from p f = Ok f' -> assigns (body f) (ctr f) -> assigns (body f') (ctr f').
Proof.
  induction p as [|o r IH]; intros f f' H N; cbn [run_from] in H.
  - inversion H; subst; exact N.
  - destruct (stopped f); [inversion H; subst; exact N|].
    apply bind_ok in H. destruct H as (s1 & H1 & H). eauto using assigns_step.
Qed.

Lemma assigns_nassign : forall b c, assigns b c -> nassign b = c.
Proof.
  induction b as [|st r IH]; intros c H; cbn in *; [congruence|].
  destruct st; try (apply IH; exact H). destruct H as [-> H]. rewrite (IH _ H). reflexivity.
Qed.

(* ---------- keyword arguments are dicts; dicts stay dicts ---------- *)
Definition kw_dict (h : list hobj) (e : event) : bool :=
  match e with
  | EvCall _ _ (Some kw) _ =>
      match kw with
      | VRef i => match nth_error h i with Some (HDict _) => true | _ => false end
      | _ => false
      end
  | _ => true
  end.

Definition dicts_stay (h h' : list hobj) : Prop :=
  forall i kvs, nth_error h i = Some (HDict kvs) -> exists kvs', nth_error h' i = Some (HDict kvs').

Lemma dicts_stay_refl h : dicts_stay h h.
Proof. intros i kvs H. eauto. Qed.

Lemma dicts_stay_app h x : dicts_stay h (h ++ x).
Proof.
  intros i kvs H. exists kvs. rewrite nth_error_app1; [exact H | apply nth_error_Some; congruence].
Qed.

Lemma nth_error_set_nth_eq {A} (x : A) : forall l i a, nth_error l i = Some a -> nth_error (set_nth i x l) i = Some x.
Proof. induction l as [|y l IH]; intros [|i] a H; cbn in *; try discriminate; eauto. Qed.

Lemma nth_error_set_nth_neq {A} (x : A) : forall l i j, i <> j -> nth_error (set_nth i x l) j = nth_error l j.
Proof.
  induction l as [|y l IH]; intros [|i] [|j] H; cbn; try reflexivity; try congruence.
  apply IH. congruence.
Qed.

Lemma dicts_stay_set h i o o' :
  nth_error h i = Some o -> (forall kvs, o = HDict kvs -> exists kvs', o' = HDict kvs') ->
  dicts_stay h (set_nth i o' h).
Proof.
  intros Ho K j kvs Hj. destruct (Nat.eq_dec i j) as [->|N].
  - rewrite Ho in Hj. inversion Hj; subst. destruct (K _ eq_refl) as (kvs' & ->).
    exists kvs'. eapply nth_error_set_nth_eq; eauto.
  - exists kvs. rewrite nth_error_set_nth_neq; assumption.
Qed.

Lemma kw_dict_mono h h' e : dicts_stay h h' -> kw_dict h e = true -> kw_dict h' e = true.
Proof.
  intros M. destruct e; cbn; auto. destruct kw as [[| | |i| |]|]; auto.
  destruct (nth_error h i) as [[| |kvs]|] eqn:E; try discriminate.
  destruct (M _ _ E) as (kvs' & ->). auto.
Qed.

Lemma kw_log_mono h h' l : dicts_stay h h' -> forallb (kw_dict h) l = true -> forallb (kw_dict h') l = true.
Proof.
  intros M H. rewrite forallb_forall in *. intros e He. eapply kw_dict_mono; eauto.
Qed.

Lemma dicts_stay_step o s s' : vstep o s = Ok s' -> dicts_stay (heap s) (heap s').
Proof.
  intros H. destruct o; cbn [vstep] in H; unfold do_call, find_class in H.
  all: repeat (progress (fk_inv; eqs; subst; simp_proj; vinv_pairs; crack)).
  all: rewrite ?fold_vlog_eq; simp_proj.
  all: try apply dicts_stay_refl; try apply dicts_stay_app.
  all: match goal with G : vget_obj ?i _ = Some ?o |- _ =>
         unfold vget_obj in G; simp_proj; eapply dicts_stay_set; [exact G|];
         intros kvs0 E0; try discriminate E0; eauto end.
Qed.

Lemma kw_step o s s' :
  vstep o s = Ok s' -> forallb (kw_dict (heap s)) (log s) = true ->
  forallb (kw_dict (heap s')) (log s') = true.
Proof.
  intros H K. pose proof (kw_log_mono _ _ _ (dicts_stay_step _ _ _ H) K) as K'. clear K.
  destruct o; cbn [vstep] in H; unfold do_call, find_class in H.
  all: repeat (progress (fk_inv; eqs; subst; simp_proj; vinv_pairs; crack)).
  all: rewrite ?fold_vlog_eq in *; simp_proj; cbn [forallb kw_dict]; try exact K'.
  all: try (rewrite forallb_app; apply andb_true_iff; split; [|exact K'];
            rewrite forallb_forall; intros e He; apply in_rev in He; apply in_map_iff in He;
            destruct He as (kv & <- & _); reflexivity).
  all: match goal with G : vget_obj ?i _ = Some _ |- _ => unfold vget_obj in G; simp_proj; rewrite G end;
       exact K'.
Qed.

Lemma kw_run : forall p s s', vrun_from p s = Ok s' ->
  forallb (kw_dict (heap s)) (log s) = true -> forallb (kw_dict (heap s')) (log s') = true.
Proof.
  induction p as [|o r IH]; intros s s' H K; cbn [vrun_from] in H.
  - inversion H; subst; exact K.
  - destruct (is_stopped s); [inversion H; subst; exact K|].
    apply bind_ok in H. destruct H as (s1 & H1 & H). eauto using kw_step.
Qed.

(* ---------- every variable of fickling is bound to a well-formed stand-in ---------- *)
Lemma step_ctr_top o f f' : step o f = Ok f' ->
  ctr f' = ctr f \/ (ctr f' = S (ctr f) /\ exists r, stack f' = IE (EVar (ctr f)) :: r).
Proof.
  intros H. destruct o; cbn [step] in H; unfold bind_call, emit_import in H.
  all: repeat (progress (fk_inv; eqs; subst; simp_proj; inv_pairs; crack)).
  all: rewrite ?fold_emit_eq; simp_proj; cbn [ctr stack push with_stack]; eauto.
  all: repeat match goal with |- context[is_builtins ?m] => destruct (is_builtins m) end;
       simp_proj; cbn [ctr stack push with_stack emit]; eauto.
Qed.

Lemma ext_same_length : forall al al' : env, ext al al' -> List.length al' = List.length al -> al' = al.
Proof.
  induction al as [|x al IH]; intros [|y al'] X L; cbn in L; try discriminate; [reflexivity|].
  pose proof (X 0 x eq_refl) as H0. cbn in H0. inversion H0; subst. f_equal. apply IH; [|lia].
  intros i z Hi. exact (X (S i) z Hi).
Qed.

Lemma ext_snoc : forall al al' : env, ext al al' -> List.length al' = S (List.length al) ->
  exists x, al' = al ++ [x].
Proof.
  induction al as [|x al IH]; intros [|y al'] X L; cbn in L; try discriminate.
  - destruct al'; [|discriminate]. exists y. reflexivity.
  - pose proof (X 0 x eq_refl) as H0. cbn in H0. inversion H0; subst.
    destruct (IH al') as (z & ->); [intros i w Hi; exact (X (S i) w Hi) | lia|]. exists z. reflexivity.
Qed.

Theorem run_lockstep_wf P : forall p al f v f' v',
  (forall k, P (VObj k) = true) ->
  (forall m n, In (EvResolve m n) (log v') -> P (VGlobal m n) = true) ->
  R al f v -> WF P v -> Forall (fun y => wfv P y = true) al ->
  run_from p f = Ok f' -> vrun_from p v = Ok v' ->
  exists al', ext al al' /\ R al' f' v' /\ WF P v' /\ Forall (fun y => wfv P y = true) al'.
Proof.
  induction p as [|o r IH]; intros al f v f' v' HPo HPg HR HW Hal Hs Hv; cbn [run_from vrun_from] in *.
  - inversion Hs; inversion Hv; subst. exists al. split; [apply ext_refl|]. split; [assumption|]. split; assumption.
  - pose proof (R_stopped_agree _ _ _ HR) as St. rewrite <- St in Hv.
    destruct (stopped f) eqn:Sf.
    + inversion Hs; inversion Hv; subst. exists al. split; [apply ext_refl|]. split; [assumption|]. split; assumption.
    + apply bind_ok in Hs. destruct Hs as (f1 & S1 & Hs).
      apply bind_ok in Hv. destruct Hv as (v1 & V1 & Hv).
      assert (vstopped v = None) as NS.
      { unfold is_stopped in St. destruct (vstopped v); [discriminate | reflexivity]. }
      destruct (lockstep _ _ _ _ _ _ NS HR S1 V1) as (al1 & X1 & R1).
      assert (WF P v1) as W1.
      { eapply wf_step; [right; split; [exact HPo|] | exact V1 | exact HW].
        intros m n Hin. apply HPg. destruct (vrun_log_grows _ _ _ Hv) as (ev & E). rewrite E.
        apply in_or_app. right. exact Hin. }
      assert (Forall (fun y => wfv P y = true) al1) as Hal1.
      { pose proof (R_ctr _ _ _ HR) as C0. pose proof (R_ctr _ _ _ R1) as C1.
        destruct (step_ctr_top _ _ _ S1) as [Ec|(Ec & r0 & Et)].
        - rewrite (ext_same_length _ _ X1); [exact Hal | congruence].
        - destruct (ext_snoc _ _ X1) as (x & ->); [congruence|].
          apply Forall_app. split; [exact Hal|]. constructor; [|constructor].
          pose proof (R_stack _ _ _ R1) as Rs. rewrite Et in Rs.
          apply rs_inv_val in Rs. destruct Rs as (y & c' & Ecur & Hrel & _).
          inversion Hrel as [| | | |i0 x0 Hn|]; subst.
          rewrite C0, nth_error_snoc in Hn. inversion Hn; subst.
          pose proof (W_cur _ _ W1) as Wc. rewrite Ecur in Wc. cbn in Wc.
          apply andb_true_iff in Wc. tauto. }
      destruct (IH _ _ _ _ _ HPo HPg R1 W1 Hal1 Hs Hv) as (al2 & X2 & R2 & W2 & Hal2).
      exists al2. split; [eapply ext_trans; eauto|]. split; [assumption|]. split; assumption.
Qed.

(* ---------- small list facts ---------- *)
Lemma mem_str_In x l : mem_str x l = true <-> In x l.
Proof.
  induction l as [|y l IH]; cbn; [split; [discriminate | tauto]|].
  destruct (String.eqb x y) eqn:E.
  - apply String.eqb_eq in E. subst. tauto.
  - apply String.eqb_neq in E. rewrite IH. split; [tauto | intros [H|H]; [congruence | exact H]].
Qed.

Lemma assoc_str_In {A} x (l : list (string * A)) v : assoc_str x l = Some v -> In (x, v) l.
Proof.
  induction l as [|[k a] l IH]; cbn; [discriminate|].
  destruct (String.eqb x k) eqn:E.
  - apply String.eqb_eq in E. subst. intros H; inversion H; subst. left; reflexivity.
  - intros H. right. apply IH. exact H.
Qed.

Lemma assoc_str_None {A} x (l : list (string * A)) :
  assoc_str x l = None -> mem_str x (map fst l) = false.
Proof.
  induction l as [|[k a] l IH]; cbn; [reflexivity|].
  destruct (String.eqb x k); [discriminate | exact IH].
Qed.

Lemma assoc_str_Some_mem {A} x (l : list (string * A)) :
  mem_str x (map fst l) = true -> exists v, assoc_str x l = Some v.
Proof.
  induction l as [|[k a] l IH]; cbn; [discriminate|].
  destruct (String.eqb x k); [eauto | exact IH].
Qed.

Lemma imports_of_body_In nm m : forall b, In (nm, m) (imports_of_body b) -> In (SImport m nm) b.
Proof.
  induction b as [|st r IH]; cbn; [tauto|].
  destruct st; cbn; try (intros H; right; apply IH; exact H).
  intros [H|H]; [inversion H; subst; left; reflexivity | right; apply IH; exact H].
Qed.

Lemma resolves_In m nm : forall l, In (EvResolve m nm) l <-> In (m, nm) (resolves l).
Proof.
  induction l as [|e l IH]; cbn; [tauto|].
  destruct e; cbn; rewrite <- IH; try (split; [intros [H|H]; [discriminate H | exact H] | auto]).
  split; intros [H|H]; auto; inversion H; subst; auto.
Qed.

Lemma resolved_in_In L m nm : resolved_in L (VGlobal m nm) = true -> In (EvResolve m nm) L.
Proof.
  cbn. intros H. apply existsb_exists in H. destruct H as ([a b] & Hin & E). cbn in E.
  apply andb_true_iff in E. destruct E as [E1 E2]. apply String.eqb_eq in E1, E2. subst.
  apply resolves_In. exact Hin.
Qed.

Lemma In_resolved_in L m nm : In (EvResolve m nm) L -> resolved_in L (VGlobal m nm) = true.
Proof.
  intros H. cbn. apply existsb_exists. exists (m, nm). split; [apply resolves_In; exact H|].
  cbn. rewrite !String.eqb_refl. reflexivity.
Qed.

Lemma distinct_names_spec L m1 m2 nm :
  distinct_attr_names L = true -> In (EvResolve m1 nm) L -> In (EvResolve m2 nm) L ->
  gnorm m1 = gnorm m2.
Proof.
  unfold distinct_attr_names. intros H A B. apply resolves_In in A, B.
  rewrite forallb_forall in H. specialize (H _ A). rewrite forallb_forall in H. specialize (H _ B).
  cbn in H. rewrite String.eqb_refl in H. cbn in H. apply String.eqb_eq. exact H.
Qed.

Lemma events_imports al b l : rel_events al b l ->
  forall m nm, In (SImport m nm) b -> In (EvResolve m nm) l /\ is_builtins m = false.
Proof.
  induction 1; intros m0 nm0 Hin; cbn in Hin |- *;
    try (destruct Hin as [Hin|Hin]; [discriminate Hin|]);
    try (destruct (IHrel_events _ _ Hin) as [A B]; split; [auto using in_or_app | exact B]).
  - contradiction.
  - destruct Hin as [Hin|Hin]; [inversion Hin; subst; auto|].
    destruct (IHrel_events _ _ Hin) as [A B]; auto.
Qed.

Lemma numbered_fun : forall l a b, numbered l a -> numbered l b -> a = b.
Proof.
  induction l as [|e l IH]; intros a b A B; cbn in *; [congruence|].
  destruct e; eauto; destruct A, B; congruence.
Qed.

(* the log relation survives growth of the evaluator's heap *)
Lemma same_event_ext k h1 h2 x a b :
  same_event k h1 h2 a b = true -> same_event k h1 (h2 ++ x) a b = true.
Proof.
  destruct a, b; cbn; try congruence; intros H;
    repeat (apply andb_true_iff in H; destruct H as [H ?]);
    repeat (apply andb_true_iff; split); auto using same_shape_ext, forallb2_same_ext.
  destruct kw, kw0; cbn in *; auto using same_shape_ext.
Qed.

Lemma same_log_ext k h1 h2 x l l' :
  forallb2 (same_event k h1 h2) l l' = true -> forallb2 (same_event k h1 (h2 ++ x)) l l' = true.
Proof. apply forallb2_impl. intros a b. apply same_event_ext. Qed.

Lemma leaf_callable x y : leaf_same x y = true -> callable x = true -> callable y = true.
Proof. destruct x, y; cbn; congruence. Qed.

Lemma exec_module_app ns k : forall a b s,
  exec_module ns k (a ++ b) s = bind (exec_module ns k a s) (exec_module ns k b).
Proof.
  induction a as [|st a IH]; intros b s; cbn; [reflexivity|].
  destruct (exec_stmt ns k st s); cbn; [apply IH | reflexivity].
Qed.

Lemma eval_args_seq ns imps vars k al : forall es vs, Forall2 (rel al) es vs -> forall hp,
  eval_args ns imps vars k es hp = eval_seq (eval ns imps vars k) es hp.
Proof.
  induction 1 as [|e v es vs Hr F IH]; intros hp; [reflexivity|].
  cbn [eval_seq]. destruct Hr; cbn [eval_args];
    (match goal with |- context[eval ns imps vars k ?e hp] => destruct (eval ns imps vars k e hp) as [[v1 hp1]|] end;
     cbn [bind]; [rewrite IH; reflexivity | reflexivity]).
Qed.

Lemma same_shape_leaf k h1 h2 x y :
  callable x = true -> same_shape k h1 h2 x y = true -> leaf_same x y = true.
Proof. destruct k; [discriminate|]. destruct x, y; cbn; congruence. Qed.

(* ================= part 6: calls -- executing the decompiled statements ================= *)
Section Calls.
Variable n : nat.
Variable al : env.
Variable ns : list node.
Variable h : list hobj.        (* the VM's final heap *)
Variable L : list event.       (* the VM's final log *)
Variable all : list string.    (* every name the decompiled program imports *)
Let P := resolved_in L.
Hypothesis Hheap : Forall2 (rel_node al) ns h.
Hypothesis Hwf : forallb (obj_wf P) h = true.
Hypothesis Hal : Forall (fun y => callable y = true) al.
Hypothesis HD14 : distinct_attr_names L = true.
Hypothesis Hall : forall m nm, In (EvResolve m nm) L -> is_builtins m = false -> mem_str nm all = true.
Hypothesis Hbi : is_builtins "builtins" = true.
Hypothesis Hal_wf : Forall (fun y => wfv P y = true) al.
Hypothesis HkwL : forallb (kw_dict h) L = true.

Lemma names_ok_at (r : list stmt) :
  (forall m nm, In (SImport m nm) r -> In (EvResolve m nm) L /\ is_builtins m = false) ->
  forall m nm, P (VGlobal m nm) = true -> okname_at all (imports_of_body r) nm = true ->
  leaf_same (VGlobal m nm) (lookup_name nm (imports_of_body r)) = true.
Proof.
  intros Hr m nm Hp Hok. apply resolved_in_In in Hp. unfold lookup_name.
  unfold okname_at in Hok. apply orb_true_iff in Hok.
  destruct (assoc_str nm (imports_of_body r)) as [m'|] eqn:E.
  - apply assoc_str_In, imports_of_body_In, Hr in E. destruct E as [E Eb].
    unfold leaf_same. rewrite (distinct_names_spec _ _ _ _ HD14 Hp E), !String.eqb_refl. reflexivity.
  - destruct Hok as [Hok|Hok]; [rewrite (assoc_str_None _ _ E) in Hok; discriminate|].
    destruct (is_builtins m) eqn:Bm.
    + unfold leaf_same, gnorm. rewrite Bm, Hbi, !String.eqb_refl. reflexivity.
    + rewrite (Hall _ _ Hp Bm) in Hok. discriminate.
Qed.

Definition vars_ok (bound : nat) (vars : list (nat * val)) : Prop :=
  forall i x, i < bound -> nth_error al i = Some x ->
  exists y, lookup_var i vars = Some y /\ leaf_same x y = true.

Lemma peval_denotes st r e v :
  (forall m nm, In (SImport m nm) r -> In (EvResolve m nm) L /\ is_builtins m = false) ->
  vars_ok (nassign r) (pvars st) -> pimports st = imports_of_body r ->
  fits n ns (nassign r) (okname_at all (imports_of_body r)) e = true ->
  rel al e v -> wfv P v = true ->
  exists v' hp', peval ns n e st = Ok (v', with_heap st (pheap st ++ hp')) /\
                 same_shape n h (pheap st ++ hp') v v' = true.
Proof.
  intros Hr Hv Hi Hf Hrel Hw.
  destruct (eval_denotes P al ns h (pimports st) (pvars st) (nassign r)
              (okname_at all (imports_of_body r)) Hheap Hwf Hv) with
    (n := n) (e := e) (v := v) (hp := pheap st) as (v' & hp' & E & S); auto.
  - rewrite Hi. apply names_ok_at. exact Hr.
  - exists v', hp'. unfold peval. rewrite E. cbn. split; [reflexivity | exact S].
Qed.

Record Inv (b : list stmt) (l : list event) (st : pst) : Prop := mkInv {
  I_log : forallb2 (same_event n h (pheap st)) (filter visible_event l) (plog st) = true;
  I_nobj : numbered l (pnobj st);
  I_vars : vars_ok (nassign b) (pvars st);
  I_imps : pimports st = imports_of_body b;
  I_res : match b with
          | SResult e :: _ =>
              forall x, rel al e x -> wfv P x = true ->
              exists r, presult st = Some r /\ same_shape n h (pheap st) x r = true
          | _ => True
          end
}.

Lemma exec_snoc r s0 st st' :
  exec_module ns n (rev r) pst_init = Ok st -> exec_stmt ns n s0 st = Ok st' ->
  exec_module ns n (rev (s0 :: r)) pst_init = Ok st'.
Proof.
  intros A B. cbn [rev]. rewrite exec_module_app, A. cbn [bind exec_module]. rewrite B. reflexivity.
Qed.

Lemma pargs_denotes st r es vs hp :
  (forall m nm, In (SImport m nm) r -> In (EvResolve m nm) L /\ is_builtins m = false) ->
  vars_ok (nassign r) (pvars st) -> pimports st = imports_of_body r ->
  forallb (fits n ns (nassign r) (okname_at all (imports_of_body r))) es = true ->
  Forall2 (rel al) es vs -> forallb (wfv P) vs = true ->
  exists vs' hp', eval_args ns (pimports st) (pvars st) n es hp = Ok (vs', hp ++ hp') /\
                  forallb2 (same_shape n h (hp ++ hp')) vs vs' = true.
Proof.
  intros Hr Hv Hi Hf Hrel Hw. rewrite (eval_args_seq _ _ _ _ _ _ _ Hrel).
  apply (eval_seq_denotes P al ns h (pimports st) (pvars st) (nassign r)
           (okname_at all (imports_of_body r))); auto.
  apply eval_denotes; auto. rewrite Hi. apply names_ok_at. exact Hr.
Qed.

Definition eval_kw (kw : option expr) (s2 : pst) : res (option val * pst) :=
  match kw with
  | None => Ok (None, s2)
  | Some k =>
      do '(d, s3) <- peval ns n k s2;
      match d with
      | VRef i => match nth_error (pheap s3) i with
                  | Some (HDict _) => Ok (Some d, s3)
                  | _ => Err EType
                  end
      | _ => Err EType
      end
  end.

Lemma exec_call_generic f args kw s :
  match f with EAttr _ _ => false | _ => true end = true ->
  exec_call ns n f args kw s =
  (do '(fv, s1) <- peval ns n f s;
   if negb (callable fv) then Err EType else
   do '(avs, hp2) <- eval_args ns (pimports s1) (pvars s1) n args (pheap s1);
   let s2 := with_heap s1 hp2 in
   do '(kwv, s3) <- eval_kw kw s2;
   let '(k, s4) := pfresh s3 in Ok (VObj k, plog_add (EvCall fv avs kwv k) s4)).
Proof. intros H. destruct f; try discriminate H; reflexivity. Qed.

Lemma same_shape_dict k h1 h2 i kvs d :
  nth_error h1 i = Some (HDict kvs) -> same_shape k h1 h2 (VRef i) d = true ->
  exists j kvs', d = VRef j /\ nth_error h2 j = Some (HDict kvs').
Proof.
  intros E H. destruct k; [discriminate|]. cbn [same_shape] in H. destruct d; try discriminate.
  rewrite E in H. destruct (nth_error h2 i0) as [[| |kvs']|] eqn:E2; try discriminate. eauto.
Qed.

Lemma with_heap_id s : with_heap s (pheap s) = s.
Proof. destruct s; reflexivity. Qed.

Lemma assoc_str_None_mem {A} x (l : list (string * A)) :
  mem_str x (map fst l) = false -> assoc_str x l = None.
Proof.
  induction l as [|[k a] l IH]; cbn; [reflexivity|].
  destruct (String.eqb x k); [discriminate | exact IH].
Qed.

Lemma exec_call_pers pid s :
  imported "UNPICKLER" s = false ->
  exec_call ns n (EAttr (EName "UNPICKLER") "persistent_load") [pid] None s =
  (do '(p, s1) <- peval ns n pid s;
   let '(k, s2) := pfresh s1 in Ok (VObj k, plog_add (EvPersLoad p k) s2)).
Proof.
  intros H. unfold exec_call.
  change (is_pers_load (EAttr (EName "UNPICKLER") "persistent_load")) with true.
  cbn iota. rewrite H. reflexivity.
Qed.

Lemma exec_call_setstate i st0 s :
  exec_call ns n (EAttr (EVar i) "__setstate__") [st0] None s =
  (do '(o, s1) <- peval ns n (EVar i) s;
   if negb (callable o) then Err EUnmodelled else
   do '(sv, s2) <- peval ns n st0 s1; Ok (VConst CNone, plog_add (EvSetState o sv) s2)).
Proof.
  unfold exec_call. cbn [is_pers_load]. cbn iota.
  destruct (peval ns n (EVar i) s) as [[o s1]|]; cbn [bind]; [|reflexivity].
  destruct (negb (callable o)); [reflexivity|].
  change ("__setstate__" =? "__setstate__")%string with true. cbn iota. reflexivity.
Qed.

Lemma peval_var k i s : peval ns (S k) (EVar i) s = Ok (var_value i (pvars s), s).
Proof. unfold peval. cbn [eval bind]. rewrite with_heap_id. reflexivity. Qed.

Lemma fits_S k bd ok e : fits k ns bd ok e = true -> exists k', k = S k'.
Proof. destruct k; [discriminate | eauto]. Qed.

Lemma var_ready r st i obj :
  vars_ok (nassign r) (pvars st) -> Nat.ltb i (nassign r) = true -> nth_error al i = Some obj ->
  exists y, var_value i (pvars st) = y /\ leaf_same obj y = true /\ callable y = true.
Proof.
  intros Iv Hlt Hi. apply Nat.ltb_lt in Hlt. destruct (Iv i obj Hlt Hi) as (y & Ey & Sy).
  exists y. unfold var_value. rewrite Ey. repeat split; auto.
  eapply leaf_callable; [exact Sy|]. eapply env_callable; eauto.
Qed.

Lemma pkw_denotes st r kw kw' :
  (forall m nm, In (SImport m nm) r -> In (EvResolve m nm) L /\ is_builtins m = false) ->
  vars_ok (nassign r) (pvars st) -> pimports st = imports_of_body r ->
  match kw with
  | Some k => fits n ns (nassign r) (okname_at all (imports_of_body r)) k = true
  | None => True
  end ->
  rel_opt al kw kw' ->
  match kw' with Some x => wfv P x = true | None => True end ->
  kw_dict h (EvCall (VConst CNone) [] kw' 0) = true ->
  exists kwd hp', eval_kw kw st = Ok (kwd, with_heap st (pheap st ++ hp')) /\
                  same_opt n h (pheap st ++ hp') kw' kwd = true.
Proof.
  intros Hr Hv Hi Hf Hrel Hw Hk. destruct kw as [k|], kw' as [x|]; cbn in Hrel; try contradiction.
  - destruct (peval_denotes st r k x Hr Hv Hi Hf Hrel Hw) as (d & hp' & E & S).
    cbn [kw_dict] in Hk. destruct x; try discriminate Hk.
    destruct (nth_error h i) as [[| |kvs]|] eqn:Ei; try discriminate Hk.
    destruct (same_shape_dict _ _ _ _ _ _ Ei S) as (j & kvs' & -> & Ej).
    exists (Some (VRef j)), hp'. cbn [eval_kw]. rewrite E. cbn [bind with_heap pheap]. rewrite Ej.
    split; [reflexivity | exact S].
  - exists None, []. cbn [eval_kw]. rewrite app_nil_r, with_heap_id. split; reflexivity.
Qed.

Lemma exec_agrees : forall b l, rel_events al b l ->
  forall c K, assigns b c -> numbered l K -> (forall e, In e l -> In e L) ->
  forallb (event_wf P) l = true -> body_fits n ns all b = true ->
  (forall e, In (SResult e) b -> exists x, rel al e x /\ wfv P x = true) ->
  exists st, exec_module ns n (rev b) pst_init = Ok st /\ Inv b l st.
Proof.
  induction 1 as [ | m nm b l Hb Hre IH | m nm b l Hb Hre IH
                 | i f args kw f' args' kw' k b l Hf Hargs Hkw Hi Hre IH
                 | i pid pid' k b l Hpid Hi Hre IH
                 | i st0 obj st0' b l Hi Hst Hre IH
                 | i e x b l He Hi Hre IH
                 | i k0 v0 obj k0' v0' b l Hi Hk Hv Hre IH
                 | e v b l He Hre IH ];
    intros c K Has Hnum Hincl Hewf Hfit Hres.
  - (* nil *)
    exists pst_init. split; [reflexivity|]. constructor; cbn; auto.
    intros i x Hlt. lia.
  - (* import *)
    cbn [assigns] in Has. cbn [numbered] in Hnum. cbn [forallb event_wf] in Hewf.
    cbn [body_fits] in Hfit. apply andb_true_iff in Hfit. destruct Hfit as [Hs Hfit].
    destruct (IH c K Has Hnum (fun e He => Hincl e (or_intror He)) Hewf Hfit
                 (fun e He => Hres e (or_intror He))) as (st & Ex & [Il In_ Iv Ii Ir]).
    cbn [stmt_fits] in Hs.
    eexists. split.
    + eapply exec_snoc; [exact Ex|]. cbn [exec_stmt].
      destruct (prefix_str "_var" nm); [discriminate Hs | reflexivity].
    + constructor; cbn [pheap plog pnobj pvars pimports presult nassign imports_of_body filter visible_event numbered].
      * rewrite Hb. cbn [negb forallb2 same_event]. rewrite !String.eqb_refl, Il. reflexivity.
      * exact In_.
      * exact Iv.
      * rewrite Ii. reflexivity.
      * exact I.
  - (* builtin resolve: no statement *)
    cbn [numbered] in Hnum. cbn [forallb event_wf] in Hewf.
    destruct (IH c K Has Hnum (fun e He => Hincl e (or_intror He)) Hewf Hfit Hres)
      as (st & Ex & [Il In_ Iv Ii Ir]).
    exists st. split; [exact Ex|]. constructor; auto.
    cbn [filter visible_event]. rewrite Hb. exact Il.
  - (* a call bound to a variable *)
    cbn [assigns] in Has. destruct Has as [-> Has]. cbn [numbered] in Hnum. destruct Hnum as [-> Hnum].
    cbn [body_fits] in Hfit. apply andb_true_iff in Hfit. destruct Hfit as [Hs Hfit].
    cbn [forallb] in Hewf. apply andb_true_iff in Hewf. destruct Hewf as [Hev Hewf].
    destruct (IH i k Has Hnum (fun e He => Hincl e (or_intror He)) Hewf Hfit
                 (fun e He => Hres e (or_intror He))) as (st & Ex & [Il In_ Iv Ii Ir]).
    pose proof (assigns_nassign _ _ Has) as Na.
    assert (Hr : forall m nm, In (SImport m nm) b -> In (EvResolve m nm) L /\ is_builtins m = false).
    { intros m nm Hin. destruct (events_imports _ _ _ Hre _ _ Hin) as [A B].
      split; [apply Hincl; right; exact A | exact B]. }
    cbn [stmt_fits] in Hs.
    assert (is_pers_load f = false) as Hpl by (destruct Hf; reflexivity).
    rewrite Hpl in Hs.
    apply andb_true_iff in Hs. destruct Hs as [Hs Hfk]. apply andb_true_iff in Hs. destruct Hs as [Hff Hfa].
    assert (kw_dict h (EvCall f' args' kw' k) = true) as Hkd.
    { pose proof HkwL as HK. rewrite forallb_forall in HK. apply HK. apply Hincl. left. reflexivity. }
    cbn [event_wf] in Hev. bdestr'.
    match goal with Hc : callable f' = true, Hw1 : wfv P f' = true, Hw2 : forallb (wfv P) args' = true,
                    Hw3 : match kw' with Some _ => _ | None => _ end = true |- _ =>
      rename Hc into Hcal; rename Hw1 into Hwf'; rename Hw2 into Hwa; rename Hw3 into Hwk end.
    destruct (peval_denotes st b f f' Hr Iv Ii Hff Hf Hwf') as (fv & hp1 & E1 & S1).
    destruct (pargs_denotes (with_heap st (pheap st ++ hp1)) b args args' (pheap st ++ hp1) Hr Iv Ii Hfa Hargs Hwa)
      as (avs & hp2 & E2 & S2).
    destruct (pkw_denotes (with_heap (with_heap st (pheap st ++ hp1)) ((pheap st ++ hp1) ++ hp2)) b kw kw')
      as (kwd & hp3 & E3 & S3); auto.
    { destruct kw; [exact Hfk | exact Logic.I]. }
    { destruct kw'; [exact Hwk | exact Logic.I]. }
    pose proof (numbered_fun _ _ _ In_ Hnum) as Ek.
    eexists. split.
    + eapply exec_snoc; [exact Ex|]. cbn [exec_stmt].
      rewrite exec_call_generic by (destruct Hf; reflexivity).
      rewrite E1. cbn [bind].
      rewrite (leaf_callable _ _ (same_shape_leaf _ _ _ _ _ Hcal S1) Hcal). cbn [negb].
      cbn [with_heap pimports pvars pheap] in E2 |- *. rewrite E2. cbn [bind].
      cbn [with_heap pimports pvars pheap plog pnobj presult] in E3 |- *. rewrite E3.
      cbn [bind pfresh with_heap pnobj]. reflexivity.
    + constructor; cbn [pbind plog_add pheap plog pnobj pvars pimports presult nassign imports_of_body
                        filter visible_event numbered with_heap].
      * cbn [forallb2 same_event with_heap pheap plog].
        cbn [with_heap pheap] in S3. rewrite Ek, Nat.eqb_refl, S3, andb_true_r.
        rewrite (forallb2_same_ext _ _ _ _ _ _ S2).
        rewrite (same_shape_ext _ _ _ _ _ _ (same_shape_ext _ _ _ _ _ _ S1)). cbn [andb].
        apply same_log_ext. apply same_log_ext. apply same_log_ext. exact Il.
      * rewrite Ek. split; [reflexivity | exact Hnum].
      * intros j x Hj Hx. cbn [lookup_var]. destruct (Nat.eqb j i) eqn:Eji.
        -- apply Nat.eqb_eq in Eji. subst j. rewrite Hi in Hx. injection Hx as <-.
           exists (VObj k). rewrite Ek. split; [reflexivity | cbn; apply Nat.eqb_refl].
        -- apply Nat.eqb_neq in Eji. apply Iv; [rewrite Na; lia | exact Hx].
      * exact Ii.
      * exact I.
  - (* persistent load *)
    cbn [assigns] in Has. destruct Has as [-> Has]. cbn [numbered] in Hnum. destruct Hnum as [-> Hnum].
    cbn [body_fits] in Hfit. apply andb_true_iff in Hfit. destruct Hfit as [Hs Hfit].
    cbn [forallb] in Hewf. apply andb_true_iff in Hewf. destruct Hewf as [Hev Hewf].
    destruct (IH i k Has Hnum (fun e He => Hincl e (or_intror He)) Hewf Hfit
                 (fun e He => Hres e (or_intror He))) as (st & Ex & [Il In_ Iv Ii Ir]).
    pose proof (assigns_nassign _ _ Has) as Na.
    assert (Hr : forall m nm, In (SImport m nm) b -> In (EvResolve m nm) L /\ is_builtins m = false).
    { intros m nm Hin. destruct (events_imports _ _ _ Hre _ _ Hin) as [A B].
      split; [apply Hincl; right; exact A | exact B]. }
    cbn [stmt_fits] in Hs.
    change (is_pers_load (EAttr (EName "UNPICKLER") "persistent_load")) with true in Hs. cbn iota in Hs.
    apply andb_true_iff in Hs. destruct Hs as [Hfp Hun]. apply negb_true_iff in Hun.
    cbn [event_wf] in Hev.
    destruct (peval_denotes st b pid pid' Hr Iv Ii Hfp Hpid Hev) as (pv & hp1 & E1 & S1).
    pose proof (numbered_fun _ _ _ In_ Hnum) as Ek.
    eexists. split.
    + eapply exec_snoc; [exact Ex|]. cbn [exec_stmt].
      rewrite exec_call_pers by (unfold imported; rewrite Ii, (assoc_str_None_mem _ _ Hun); reflexivity).
      rewrite E1. cbn [bind pfresh with_heap pnobj]. reflexivity.
    + constructor; cbn [pbind plog_add pheap plog pnobj pvars pimports presult nassign imports_of_body
                        filter visible_event numbered with_heap].
      * cbn [forallb2 same_event]. rewrite Ek, Nat.eqb_refl, S1. cbn [andb].
        apply same_log_ext. exact Il.
      * rewrite Ek. split; [reflexivity | exact Hnum].
      * intros j x Hj Hx. cbn [lookup_var]. destruct (Nat.eqb j i) eqn:Eji.
        -- apply Nat.eqb_eq in Eji. subst j. rewrite Hi in Hx. injection Hx as <-.
           exists (VObj k). rewrite Ek. split; [reflexivity | cbn; apply Nat.eqb_refl].
        -- apply Nat.eqb_neq in Eji. apply Iv; [rewrite Na; lia | exact Hx].
      * exact Ii.
      * exact I.
  - (* x.__setstate__(state) *)
    cbn [assigns] in Has. cbn [numbered] in Hnum.
    cbn [body_fits] in Hfit. apply andb_true_iff in Hfit. destruct Hfit as [Hs Hfit].
    cbn [forallb] in Hewf. apply andb_true_iff in Hewf. destruct Hewf as [Hev Hewf].
    destruct (IH c K Has Hnum (fun e He => Hincl e (or_intror He)) Hewf Hfit
                 (fun e He => Hres e (or_intror He))) as (st & Ex & [Il In_ Iv Ii Ir]).
    assert (Hr : forall m nm, In (SImport m nm) b -> In (EvResolve m nm) L /\ is_builtins m = false).
    { intros m nm Hin. destruct (events_imports _ _ _ Hre _ _ Hin) as [A B].
      split; [apply Hincl; right; exact A | exact B]. }
    cbn [stmt_fits] in Hs.
    change ("__setstate__" =? "__setstate__")%string with true in Hs. cbn [andb] in Hs.
    apply andb_true_iff in Hs. destruct Hs as [Hlt Hfs].
    destruct (fits_S _ _ _ _ Hfs) as (n' & En).
    destruct (var_ready b st i obj Iv Hlt Hi) as (y & Ey & Sy & Cy).
    cbn [event_wf] in Hev. apply andb_true_iff in Hev. destruct Hev as [Hwo Hws].
    destruct (peval_denotes st b st0 st0' Hr Iv Ii Hfs Hst Hws) as (sv & hp1 & E1 & S1).
    eexists. split.
    + eapply exec_snoc; [exact Ex|]. cbn [exec_stmt frozenset_arg].
      rewrite exec_call_setstate. rewrite En at 1. rewrite peval_var. cbn [bind]. rewrite Ey, Cy. cbn [negb].
      rewrite E1. cbn [bind]. reflexivity.
    + constructor; cbn [plog_add pheap plog pnobj pvars pimports presult nassign imports_of_body
                        filter visible_event numbered with_heap].
      * cbn [forallb2 same_event]. rewrite S1, andb_true_r.
        rewrite En at 1. rewrite (leaf_same_shape _ _ _ _ _ Sy). cbn [andb].
        apply same_log_ext. exact Il.
      * exact In_.
      * exact Iv.
      * exact Ii.
      * exact I.
  - (* _var<i> = _var<j> *)
    cbn [assigns] in Has. destruct Has as [-> Has].
    cbn [body_fits] in Hfit. apply andb_true_iff in Hfit. destruct Hfit as [Hs Hfit].
    destruct (IH i K Has Hnum Hincl Hewf Hfit (fun e He => Hres e (or_intror He)))
      as (st & Ex & [Il In_ Iv Ii Ir]).
    pose proof (assigns_nassign _ _ Has) as Na.
    pose proof (env_callable _ _ _ Hal Hi) as Cx.
    assert (wfv P x = true) as Wx.
    { rewrite Forall_forall in Hal_wf. apply Hal_wf. eapply nth_error_In; eauto. }
    assert (Hr : forall m nm, In (SImport m nm) b -> In (EvResolve m nm) L /\ is_builtins m = false).
    { intros m nm Hin. destruct (events_imports _ _ _ Hre _ _ Hin) as [A B].
      split; [apply Hincl; exact A | exact B]. }
    assert (exists r0 hp1, peval ns n e st = Ok (r0, with_heap st (pheap st ++ hp1)) /\
                           same_shape n h (pheap st ++ hp1) x r0 = true /\
                           exec_stmt ns n (SAssignV i e) st =
                           (do '(v, s1) <- peval ns n e st; Ok (pbind i v s1))) as (r0 & hp1 & E1 & S1 & Est).
    { destruct He as [c0|m nm|es vs F|i0|j x Hj|es vs F]; cbn in Cx; try discriminate Cx;
        cbn [stmt_fits] in Hs.
      - destruct (peval_denotes st b (EName nm) (VGlobal m nm) Hr Iv Ii Hs (RGlobal al m nm) Wx)
          as (r0 & hp1 & E1 & S1). exists r0, hp1. repeat split; auto.
      - destruct (peval_denotes st b (EVar j) x Hr Iv Ii Hs (RVar al j x Hj) Wx)
          as (r0 & hp1 & E1 & S1). exists r0, hp1. repeat split; auto. }
    pose proof (same_shape_leaf _ _ _ _ _ Cx S1) as Sy.
    eexists. split.
    + eapply exec_snoc; [exact Ex|]. rewrite Est, E1. cbn [bind]. reflexivity.
    + constructor; cbn [pbind pheap plog pnobj pvars pimports presult nassign imports_of_body with_heap]; auto.
      * apply same_log_ext. exact Il.
      * intros j' z Hj' Hz. cbn [lookup_var]. destruct (Nat.eqb j' i) eqn:Eji.
        -- apply Nat.eqb_eq in Eji. subst j'. rewrite Hi in Hz. injection Hz as <-.
           exists r0. split; [reflexivity | exact Sy].
        -- apply Nat.eqb_neq in Eji. apply Iv; [rewrite Na; lia | exact Hz].
  - (* x[k] = v on a stand-in *)
    cbn [assigns] in Has. cbn [numbered] in Hnum.
    cbn [body_fits] in Hfit. apply andb_true_iff in Hfit. destruct Hfit as [Hs Hfit].
    cbn [forallb] in Hewf. apply andb_true_iff in Hewf. destruct Hewf as [Hev Hewf].
    destruct (IH c K Has Hnum (fun e He => Hincl e (or_intror He)) Hewf Hfit
                 (fun e He => Hres e (or_intror He))) as (st & Ex & [Il In_ Iv Ii Ir]).
    assert (Hr : forall m nm, In (SImport m nm) b -> In (EvResolve m nm) L /\ is_builtins m = false).
    { intros m nm Hin. destruct (events_imports _ _ _ Hre _ _ Hin) as [A B].
      split; [apply Hincl; right; exact A | exact B]. }
    cbn [stmt_fits] in Hs.
    apply andb_true_iff in Hs. destruct Hs as [Hs Hfv]. apply andb_true_iff in Hs. destruct Hs as [Hlt Hfk].
    destruct (fits_S _ _ _ _ Hfk) as (n' & En).
    destruct (var_ready b st i obj Iv Hlt Hi) as (y & Ey & Sy & Cy).
    cbn [event_wf] in Hev. apply andb_true_iff in Hev. destruct Hev as [Hwo Hev].
    apply andb_true_iff in Hev. destruct Hev as [Hwk Hwv].
    destruct (peval_denotes st b v0 v0' Hr Iv Ii Hfv Hv Hwv) as (vv & hp1 & E1 & S1).
    destruct (peval_denotes (with_heap st (pheap st ++ hp1)) b k0 k0' Hr Iv Ii Hfk Hk Hwk)
      as (kv & hp2 & E2 & S2).
    eexists. split.
    + eapply exec_snoc; [exact Ex|]. cbn [exec_stmt]. rewrite E1. cbn [bind].
      cbn [with_heap pvars]. rewrite Ey, Cy. cbn [negb]. rewrite E2. cbn [bind]. reflexivity.
    + constructor; cbn [plog_add pheap plog pnobj pvars pimports presult nassign imports_of_body
                        filter visible_event numbered with_heap].
      * cbn [forallb2 same_event]. cbn [with_heap pheap] in S2. rewrite S2.
        rewrite (same_shape_ext _ _ _ _ _ _ S1), andb_true_r.
        rewrite En at 1. rewrite (leaf_same_shape _ _ _ _ _ Sy). cbn [andb].
        apply same_log_ext. apply same_log_ext. exact Il.
      * exact In_.
      * exact Iv.
      * exact Ii.
      * exact I.
  - (* result = e *)
    cbn [assigns] in Has.
    cbn [body_fits] in Hfit. apply andb_true_iff in Hfit. destruct Hfit as [Hs Hfit].
    destruct (IH c K Has Hnum Hincl Hewf Hfit (fun e He => Hres e (or_intror He)))
      as (st & Ex & [Il In_ Iv Ii Ir]).
    assert (Hr : forall m nm, In (SImport m nm) b -> In (EvResolve m nm) L /\ is_builtins m = false).
    { intros m nm Hin. destruct (events_imports _ _ _ Hre _ _ Hin) as [A B].
      split; [apply Hincl; exact A | exact B]. }
    cbn [stmt_fits] in Hs.
    destruct (Hres e (or_introl eq_refl)) as (x0 & Hx0 & Hwx0).
    destruct (peval_denotes st b e x0 Hr Iv Ii Hs Hx0 Hwx0) as (r0 & hp1 & E1 & S1).
    eexists. split.
    + eapply exec_snoc; [exact Ex|]. cbn [exec_stmt]. rewrite E1. cbn [bind]. reflexivity.
    + constructor; cbn [pheap plog pnobj pvars pimports presult nassign imports_of_body with_heap]; auto.
      * apply same_log_ext. exact Il.
      * intros x Hx Hwx.
        destruct (peval_denotes st b e x Hr Iv Ii Hs Hx Hwx) as (r1 & hp1' & E1' & S1').
        rewrite E1 in E1'. inversion E1' as [[Er Eh]]. apply app_inv_head in Eh. subst.
        exists r1. split; [reflexivity | exact S1'].
Qed.

End Calls.

Lemma In_imports_of_body nm m : forall b, In (SImport m nm) b -> In (nm, m) (imports_of_body b).
Proof.
  induction b as [|st r IH]; cbn; [tauto|].
  intros [H|H]; [subst; left; reflexivity|].
  destruct st; cbn; auto.
Qed.

(* Calls (REDUCE / NEWOBJ / NEWOBJ_EX with keyword arguments / OBJ / INST / GLOBAL / STACK_GLOBAL /
   BINPERSID / BUILD, SETITEM and SETITEMS on an object or on a global itself) on top of arbitrary data: the decompiled program evaluates, its result
   unfolds to the same tree as the VM's value, and its event log is the VM's (same callee, same
   arguments, same order, results numbered alike; builtins resolves are implicit). *)
Theorem eval_agrees p n f v x :
  run p = Ok f -> vrun p = Ok v -> vstopped v = Some x ->
  defined_before_use n f = true -> distinct_attr_names (log v) = true ->
  exists st r, py_run n p = Ok st /\ presult st = Some r /\
    same_shape n (heap v) (pheap st) x r = true /\
    forallb2 (same_event n (heap v) (pheap st)) (filter visible_event (log v)) (plog st) = true.
Proof.
  intros Hs Hv Hx Hd HD14.
  set (P := resolved_in (log v)).
  destruct (run_lockstep_wf P p _ _ _ _ _ (fun k => eq_refl)
              (fun m nm Hin => In_resolved_in _ _ _ Hin) (R_init 0) (WF_init P) (Forall_nil _) Hs Hv)
    as (al & _ & HR & HW & Halwf).
  pose proof HR as [Rs Rm Rh Re Rc Rv Rp].
  assert (numbered (log v) (nobj v)) as Hnum by (eapply numbered_run; [exact Hv | reflexivity]).
  assert (assigns (body f) (ctr f)) as Has by (eapply assigns_run; [exact Hs | reflexivity]).
  assert (forallb (kw_dict (heap v)) (log v) = true) as Hkw by (eapply kw_run; [exact Hv | reflexivity]).
  unfold defined_before_use in Hd. apply andb_true_iff in Hd. destruct Hd as [Hfit Hone].
  rewrite Hx in Rp. destruct Rp as (_ & e & b0 & Eb & Hrx).
  pose proof (W_stop _ _ HW) as Wx. rewrite Hx in Wx.
  rewrite Eb in Hone.
  destruct (exec_agrees n al (nodes f) (heap v) (log v) (map fst (imports_of_body (body f))))
    with (b := body f) (l := log v) (c := ctr f) (K := nobj v) as (st & Ex & Hinv); auto.
  - exact (W_heap _ _ HW).
  - intros m nm Hin Hb. apply mem_str_In. apply in_map_iff. exists (nm, m). split; [reflexivity|].
    apply In_imports_of_body. eapply events_imports_covered; eauto.
  - exact (W_log _ _ HW).
  - intros e' Hin. rewrite Eb in Hin. destruct Hin as [Hin|Hin].
    + inversion Hin; subst. exists x. split; assumption.
    + apply negb_true_iff in Hone. assert (existsb is_result b0 = true) as C.
      { apply existsb_exists. exists (SResult e'). split; [exact Hin | reflexivity]. }
      rewrite C in Hone. discriminate.
  - destruct Hinv as [Il In_ Iv Ii Ir]. rewrite Eb in Ir.
    destruct (Ir x Hrx Wx) as (r & Er & Sr).
    exists st, r. unfold py_run. rewrite Hs. cbn [bind]. unfold py_eval_fk.
    repeat split; auto.
Qed.
