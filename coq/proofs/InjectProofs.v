(* C08: lemmas about the injector model (Inject.v) over the reference VM (RefVM.v). *)
From Coq Require Import List String ZArith Bool Arith Lia.
From Verif Require Import Base Ops Interp RefVM Shape ShapeProofs Inject.
Import ListNotations.
Local Open Scope nat_scope.
Local Open Scope list_scope.

(* ------------------------------------------------------------------ list surgery *)
Lemma py_insert_last {A} (x s : A) q : py_insert (-1) x (q ++ [s]) = q ++ [x; s].
Proof.
  unfold py_insert. rewrite app_length. cbn [List.length].
  assert ((-1 <? 0)%Z = true) as -> by reflexivity.
  replace (Z.to_nat (Z.max 0 (Z.of_nat (List.length q + 1) + -1))) with (List.length q) by lia.
  rewrite firstn_app, Nat.sub_diag, firstn_all. cbn [firstn]. rewrite app_nil_r.
  rewrite skipn_app, Nat.sub_diag, skipn_all. cbn [skipn app]. reflexivity.
Qed.

Lemma insert_last_seq_app {A} (xs : list A) q s :
  insert_last_seq xs (q ++ [s]) = q ++ xs ++ [s].
Proof.
  unfold insert_last_seq. revert q. induction xs as [|x r IH]; intros q; cbn [fold_left app].
  - reflexivity.
  - rewrite py_insert_last. replace (q ++ [x; s]) with ((q ++ [x]) ++ [s]) by (rewrite <- app_assoc; reflexivity).
    rewrite IH. rewrite <- app_assoc. reflexivity.
Qed.

Lemma ends_with_stop_split p : ends_with_stop p = true -> exists q, p = q ++ [OStop].
Proof.
  unfold ends_with_stop. intros H. induction p as [|o r _] using rev_ind; [discriminate|].
  rewrite last_last in H. destruct o; try discriminate. eauto.
Qed.

Lemma skip_noops_split p :
  p = repeat ONoop (skip_noops p) ++ skipn (skip_noops p) p.
Proof.
  induction p as [|o r IH]; [reflexivity|]. destruct o; try reflexivity.
  cbn [skip_noops repeat skipn app]. f_equal. exact IH.
Qed.

Lemma firstn_skip_noops p : firstn (skip_noops p) p = repeat ONoop (skip_noops p).
Proof.
  induction p as [|o r IH]; [reflexivity|]. destruct o; try reflexivity.
  cbn [skip_noops repeat firstn]. f_equal. exact IH.
Qed.

Lemma skip_noops_app_stop q : skip_noops (q ++ [OStop]) = skip_noops q.
Proof.
  induction q as [|o r IH]; [reflexivity|]. destruct o; try reflexivity.
  cbn [app skip_noops]. f_equal. exact IH.
Qed.

Lemma skip_noops_le q : skip_noops q <= List.length q.
Proof. induction q as [|o r IH]; cbn; [lia|]. destruct o; cbn; lia. Qed.

(* the block lands after the leading PROTO/FRAME opcodes *)
Lemma insert_block_split blk q :
  insert_block (skip_noops (q ++ [OStop])) blk (q ++ [OStop]) =
  repeat ONoop (skip_noops q) ++ blk ++ skipn (skip_noops q) q ++ [OStop].
Proof.
  unfold insert_block. rewrite skip_noops_app_stop.
  pose proof (skip_noops_le q) as L.
  rewrite firstn_app, skipn_app.
  replace (skip_noops q - List.length q) with 0 by lia. cbn [firstn skipn].
  rewrite app_nil_r, firstn_skip_noops. reflexivity.
Qed.

(* ------------------------------------------------------------------ running programs *)
Definition stop_free (q : list op) : bool := forallb (fun o => negb (is_stop o)) q.

Lemma vrun_stopped p s : is_stopped s = true -> vrun_from p s = Ok s.
Proof. destruct p; cbn; [reflexivity|]. intros ->. reflexivity. Qed.

Lemma vrun_app a b s : vrun_from (a ++ b) s = bind (vrun_from a s) (vrun_from b).
Proof.
  revert s. induction a as [|o r IH]; intros s; cbn [app vrun_from bind]; [reflexivity|].
  destruct (is_stopped s) eqn:E.
  - cbn [bind]. symmetry. apply vrun_stopped. exact E.
  - destruct (vstep o s) as [s1|e]; cbn [bind]; [apply IH | reflexivity].
Qed.

Lemma vrun_noops k r s : vrun_from (repeat ONoop k ++ r) s = vrun_from r s.
Proof.
  induction k as [|k IH]; [reflexivity|]. cbn [repeat app vrun_from].
  destruct (is_stopped s) eqn:E; [symmetry; apply vrun_stopped; exact E|].
  cbn [vstep bind]. exact IH.
Qed.


(* ------------------------------------------------------------------ the base pickle *)
(* "p ends in its only executed STOP, with exactly its result on the stack":
   base_run p = Some (r, sq): p = q ++ [STOP], q runs from the empty machine to sq without
   stopping, and sq's stack is exactly [r] (no open mark) *)
Definition base_run (p : list op) : option (val * vm) :=
  if ends_with_stop p then
    match vrun_from (removelast p) vm_init with
    | Ok sq => if is_stopped sq then None else
               match cur sq, meta sq with
               | [r], [] => Some (r, sq)
               | _, _ => None
               end
    | Err _ => None
    end
  else None.

Definition stopped_with (r : val) (sq : vm) : vm :=
  mkVm [] [] (vmemo sq) (heap sq) (log sq) (nobj sq) (Some r).

Lemma base_run_inv p r sq :
  base_run p = Some (r, sq) ->
  exists q, p = q ++ [OStop] /\ vrun_from q vm_init = Ok sq /\ is_stopped sq = false /\
            cur sq = [r] /\ meta sq = [].
Proof.
  unfold base_run. destruct (ends_with_stop p) eqn:E; [|discriminate].
  apply ends_with_stop_split in E. destruct E as (q & ->). rewrite removelast_last.
  destruct (vrun_from q vm_init) as [s|] eqn:R; [|discriminate].
  destruct (is_stopped s) eqn:S; [discriminate|].
  destruct (cur s) as [|x [|? ?]] eqn:C; try discriminate.
  destruct (meta s) eqn:M; try discriminate.
  intros H. injection H as <- <-. exists q. auto.
Qed.

(* what the base pickle itself does *)
Lemma base_run_result p r sq :
  base_run p = Some (r, sq) -> vrun_from p vm_init = Ok (stopped_with r sq).
Proof.
  intros H. apply base_run_inv in H. destruct H as (q & -> & R & S & C & M).
  rewrite vrun_app, R. cbn [bind vrun_from]. rewrite S. unfold vstep, vpop. rewrite C.
  cbn. unfold stopped_with. rewrite M. reflexivity.
Qed.

(* pushing constants *)
Lemma vrun_consts cs rest c m mm h lg n :
  vrun_from (map OConst cs ++ rest) (mkVm c m mm h lg n None) =
  vrun_from rest (mkVm (rev (map VConst cs) ++ c) m mm h lg n None).
Proof.
  revert c. induction cs as [|x r IH]; intros c; [reflexivity|].
  cbn [map app vrun_from is_stopped vstopped vstep vpush vpush' with_frames bind cur meta vmemo heap log nobj].
  unfold vpush', with_frames. cbn [cur meta vmemo heap log nobj vstopped].
  rewrite IH. cbn [rev map]. rewrite <- app_assoc. reflexivity.
Qed.

(* ------------------------------------------------------------------ append_python *)
Definition plain2 (m n : string) : bool := plain m && plain n.

Lemma memo_get_put {A} k (v : A) m : memo_get k (memo_put k v m) = Some v.
Proof. unfold memo_put. cbn [memo_get]. rewrite Z.eqb_refl. reflexivity. Qed.

(* single steps on explicit states *)
Lemma st_global m n c me mm h lg k st :
  plain2 m n = true ->
  vstep (OGlobal m n) (mkVm c me mm h lg k st) = Ok (mkVm (VGlobal m n :: c) me mm h (EvResolve m n :: lg) k st).
Proof. intros P. unfold vstep, find_class. unfold plain2 in P. rewrite P. reflexivity. Qed.
Lemma st_mark c me mm h lg k st :
  vstep OMark (mkVm c me mm h lg k st) = Ok (mkVm [] (c :: me) mm h lg k st).
Proof. reflexivity. Qed.
Lemma st_tuple c p me mm h lg k st :
  vstep OTuple (mkVm c (p :: me) mm h lg k st) = Ok (mkVm (VTuple (rev c) :: p) me mm h lg k st).
Proof. reflexivity. Qed.
Lemma st_reduce_global m n l c me mm h lg k st :
  vstep OReduce (mkVm (VTuple l :: VGlobal m n :: c) me mm h lg k st) =
  Ok (mkVm (VObj k :: c) me mm h (EvCall (VGlobal m n) l None k :: lg) (S k) st).
Proof. reflexivity. Qed.
Lemma st_reduce_obj j l c me mm h lg k st :
  vstep OReduce (mkVm (VTuple l :: VObj j :: c) me mm h lg k st) =
  Ok (mkVm (VObj k :: c) me mm h (EvCall (VObj j) l None k :: lg) (S k) st).
Proof. reflexivity. Qed.
Lemma st_pop x c me mm h lg k st :
  vstep OPop (mkVm (x :: c) me mm h lg k st) = Ok (mkVm c me mm h lg k st).
Proof. reflexivity. Qed.
Lemma st_const x c me mm h lg k st :
  vstep (OConst x) (mkVm c me mm h lg k st) = Ok (mkVm (VConst x :: c) me mm h lg k st).
Proof. reflexivity. Qed.
Lemma st_put key x c me mm h lg k st :
  (0 <= key)%Z ->
  vstep (OPut key) (mkVm (x :: c) me mm h lg k st) = Ok (mkVm (x :: c) me (memo_put key x mm) h lg k st).
Proof. intros K. unfold vstep. cbn [vtop cur bind]. destruct (key <? 0)%Z eqn:E; [lia|reflexivity]. Qed.
Lemma st_get key c me mm h lg k st :
  vstep (OGet key) (mkVm c me mm h lg k st) =
  match memo_get key mm with Some x => Ok (mkVm (x :: c) me mm h lg k st) | None => Err EKey end.
Proof. reflexivity. Qed.
Lemma st_memoize x c me mm h lg k st :
  vstep OMemoize (mkVm (x :: c) me mm h lg k st) =
  Ok (mkVm (x :: c) me (memo_put (Z.of_nat (List.length mm)) x mm) h lg k st).
Proof. reflexivity. Qed.
Lemma st_stop x c me mm h lg k st :
  vstep OStop (mkVm (x :: c) me mm h lg k st) = Ok (mkVm c me mm h lg k (Some x)).
Proof. reflexivity. Qed.

Lemma vrun_cons o r c me mm h lg k :
  vrun_from (o :: r) (mkVm c me mm h lg k None) = bind (vstep o (mkVm c me mm h lg k None)) (vrun_from r).
Proof. reflexivity. Qed.

Ltac vsteps :=
  repeat (rewrite vrun_cons;
          first [ rewrite st_global by assumption | rewrite st_mark | rewrite st_tuple
                | rewrite st_reduce_global | rewrite st_reduce_obj | rewrite st_pop | rewrite st_const
                | rewrite st_put by (try unfold KEEP_KEY; lia) | rewrite st_memoize | rewrite st_stop
                | rewrite st_get;
                  first [ rewrite memo_get_put | cbn [memo_get memo_put memo_remove Z.eqb Pos.eqb] ] ];
          cbn [bind]).

(* GLOBAL m n, MARK, constants, TUPLE, REDUCE run on top of any stack without open mark *)
Lemma vrun_call_consts m n cs rest c mm h lg k :
  plain2 m n = true ->
  vrun_from ([OGlobal m n; OMark] ++ map OConst cs ++ [OTuple; OReduce] ++ rest) (mkVm c [] mm h lg k None) =
  vrun_from rest (mkVm (VObj k :: c) [] mm h
                       (EvCall (VGlobal m n) (map VConst cs) None k :: EvResolve m n :: lg) (S k) None).
Proof.
  intros P. cbn [app]. vsteps. rewrite vrun_consts. cbn [app]. vsteps.
  rewrite app_nil_r, rev_involutive. reflexivity.
Qed.

Lemma append_ops_eq m n cs pop rest :
  append_ops m n cs pop ++ rest =
  [OGlobal m n; OMark] ++ map OConst cs ++ [OTuple; OReduce] ++ (if pop then [OPop] else []) ++ rest.
Proof. unfold append_ops. repeat (rewrite <- app_assoc; cbn [app]). reflexivity. Qed.

Lemma append_python_ok m n cs pop p p' :
  append_python m n cs pop p = Ok p' ->
  forallb const_ok cs = true /\ p' = insert_last_seq (append_ops m n cs pop) p.
Proof.
  unfold append_python. destruct (ends_with_stop p); destruct (forallb const_ok cs);
    intros H; try discriminate H. inversion H. auto.
Qed.

(* append_python: the base runs unchanged, then the call; pop_result decides what is returned and
   whether the original object stays on the stack *)
Theorem append_python_spec p r sq m n cs pop p' :
  base_run p = Some (r, sq) -> plain2 m n = true ->
  append_python m n cs pop p = Ok p' ->
  let k := nobj sq in
  let lg := EvCall (VGlobal m n) (map VConst cs) None k :: EvResolve m n :: log sq in
  vrun_from p' vm_init =
  Ok (mkVm (if pop then [] else [r]) [] (vmemo sq) (heap sq) lg (S k) (Some (if pop then r else VObj k))).
Proof.
  intros HB P HI. apply base_run_inv in HB. destruct HB as (q & -> & R & S & C & M).
  apply append_python_ok in HI. destruct HI as (_ & ->).
  intros k0 lg0. subst k0 lg0.
  rewrite insert_last_seq_app, vrun_app, R. cbn [bind].
  destruct sq as [c me mm h lg k st]. cbn in C, M, S. subst c me.
  destruct st; [discriminate|]. cbn [nobj log vmemo heap].
  rewrite append_ops_eq, vrun_call_consts by exact P.
  destruct pop; cbn [app]; vsteps; reflexivity.
Qed.

(* ------------------------------------------------------------------ insert_function_call_on_unpickled_object *)
Lemma callobj_ok fdef fname bc cargs p p' :
  insert_call_on_object fdef fname bc cargs p = Ok p' ->
  p' = insert_last_seq (call_on_object_ops fdef fname bc cargs) p.
Proof.
  unfold insert_call_on_object. destruct (ends_with_stop p); destruct (forallb const_ok cargs);
    intros H; try discriminate H. inversion H. auto.
Qed.

Definition callobj_log (fdef fname : string) (bc : option string) (k : nat) (lg : list event) : list event :=
  match bc with
  | None =>
      [EvCall (VGlobal "builtins" "eval") [VConst (CStr fname)] None (S k);
       EvResolve "builtins" "eval";
       EvCall (VGlobal "builtins" "exec") [VConst (CStr fdef)] None k;
       EvResolve "builtins" "exec"] ++ lg
  | Some code =>
      [EvCall (VGlobal "builtins" "eval") [VConst (CStr fname)] None (S (S k));
       EvResolve "builtins" "eval";
       EvCall (VGlobal "builtins" "exec") [VObj k] None (S k);
       EvResolve "builtins" "exec";
       EvCall (VGlobal "marshal" "loads") [VConst (CBytes code)] None k;
       EvResolve "marshal" "loads"] ++ lg
  end.

(* the function object is what eval(fname) returned: the (1 or 2)-nd injected call's result *)
Definition callobj_fn (bc : option string) (k : nat) : nat :=
  match bc with None => S k | Some _ => S (S k) end.

Theorem callobj_spec p r sq fdef fname bc cargs p' :
  base_run p = Some (r, sq) ->
  insert_call_on_object fdef fname bc cargs p = Ok p' ->
  let k := nobj sq in
  let f := callobj_fn bc k in
  exists mm',
  vrun_from p' vm_init =
  Ok (mkVm [] [] mm' (heap sq)
           (EvCall (VObj f) (r :: map VConst cargs) None (S f) :: callobj_log fdef fname bc k (log sq))
           (S (S f)) (Some (VObj (S f)))).
Proof.
  intros HB HI. apply base_run_inv in HB. destruct HB as (q & -> & R & S & C & M).
  apply callobj_ok in HI. subst p'. intros k0 f0. subst k0 f0.
  rewrite insert_last_seq_app, vrun_app, R. cbn [bind].
  destruct sq as [c me mm h lg k st]. cbn in C, M, S. subst c me.
  destruct st; [discriminate|]. cbn [nobj log vmemo heap].
  unfold call_on_object_ops.
  assert (plain2 "builtins" "exec" = true) as P1 by reflexivity.
  assert (plain2 "builtins" "eval" = true) as P2 by reflexivity.
  assert (plain2 "marshal" "loads" = true) as P3 by reflexivity.
  destruct bc as [code|]; unfold callobj_fn, callobj_log.
  - eexists. repeat rewrite <- app_assoc. rewrite (append_ops_eq "marshal" "loads"). rewrite vrun_call_consts by exact P3.
    cbn [app]. vsteps. rewrite (append_ops_eq "builtins" "eval"), vrun_call_consts by exact P2.
    cbn [app]. vsteps. rewrite vrun_consts. cbn [app]. vsteps.
    rewrite rev_app_distr, rev_involutive. cbn [rev app]. reflexivity.
  - eexists. repeat rewrite <- app_assoc. rewrite (append_ops_eq "builtins" "exec"), vrun_call_consts by exact P1.
    cbn [app]. vsteps. rewrite (append_ops_eq "builtins" "eval"), vrun_call_consts by exact P2.
    cbn [app]. vsteps. rewrite vrun_consts. cbn [app]. vsteps.
    rewrite rev_app_distr, rev_involutive. cbn [rev app]. reflexivity.
Qed.

(* ------------------------------------------------------------------ insert_magic_int *)
Lemma firstn_skipn_run a b s x :
  vrun_from (a ++ OConst x :: OPop :: b) s = vrun_from (a ++ b) s.
Proof.
  rewrite !vrun_app. destruct (vrun_from a s) as [sa|]; [|reflexivity]. cbn [bind vrun_from].
  destruct (is_stopped sa) eqn:E; [symmetry; apply vrun_stopped; exact E|].
  destruct sa as [c me mm h lg k st]. cbn in E. destruct st; [discriminate|].
  cbn [vstep vpush bind]. unfold vpush', with_frames. cbn [cur meta vmemo heap log nobj vstopped is_stopped].
  cbn [vstep]. cbn [cur meta bind]. unfold with_frames. cbn [cur meta vmemo heap log nobj vstopped]. reflexivity.
Qed.

Lemma py_insert_nonneg {A} (i : nat) (x : A) l :
  i <= List.length l -> py_insert (Z.of_nat i) x l = firstn i l ++ x :: skipn i l.
Proof.
  intros L. unfold py_insert. destruct (Z.of_nat i <? 0)%Z eqn:E; [lia|].
  replace (Z.to_nat (Z.min (Z.of_nat i) (Z.of_nat (List.length l)))) with i by lia. reflexivity.
Qed.

Lemma py_insert_length {A} (i : Z) (x : A) l : List.length (py_insert i x l) = S (List.length l).
Proof.
  unfold py_insert. rewrite app_length. cbn [List.length]. rewrite firstn_length, skipn_length.
  destruct (i <? 0)%Z; lia.
Qed.

(* where the marker ends up: slot j = the resolved index clamped to the length *)
Definition magic_pos (index : Z) (p : list op) : nat :=
  Nat.min (Z.to_nat (magic_slot index p)) (List.length p).

Lemma magic_slot_nonneg index p : (0 <= magic_slot index p)%Z.
Proof. unfold magic_slot. destruct (index <? 0)%Z eqn:E; lia. Qed.

Lemma magic_shape magic index p :
  insert_magic_int magic index p =
  firstn (magic_pos index p) p ++ OConst (CInt magic) :: OPop :: skipn (magic_pos index p) p.
Proof.
  unfold insert_magic_int, magic_pos. cbv zeta.
  pose proof (magic_slot_nonneg index p) as N. set (i := magic_slot index p) in *.
  set (j := Nat.min (Z.to_nat i) (List.length p)).
  assert (py_insert i (OConst (CInt magic)) p = firstn j p ++ OConst (CInt magic) :: skipn j p) as E1.
  { unfold py_insert. destruct (i <? 0)%Z eqn:E; [lia|].
    replace (Z.to_nat (Z.min i (Z.of_nat (List.length p)))) with j by (unfold j; lia). reflexivity. }
  assert (j <= List.length p) as L by (unfold j; lia).
  assert (List.length (firstn j p) = j) as FL by (rewrite firstn_length; lia).
  rewrite E1. unfold py_insert. destruct (i + 1 <? 0)%Z eqn:E; [lia|].
  match goal with |- context[Z.to_nat (Z.min (i + 1) (Z.of_nat ?len))] =>
    replace (Z.to_nat (Z.min (i + 1) (Z.of_nat len))) with (List.length (firstn j p) + 1) end.
  2:{ rewrite app_length. cbn [List.length]. rewrite skipn_length, FL. unfold j. lia. }
  rewrite firstn_app_2, skipn_app. cbn [firstn].
  rewrite skipn_all2 by lia.
  replace (List.length (firstn j p) + 1 - List.length (firstn j p)) with 1 by lia.
  cbn [skipn app]. rewrite <- app_assoc. reflexivity.
Qed.

(* the marker is invisible to the VM wherever it is placed -- ANY index, positive, negative or out of
   range (Python clamps): the rewritten program runs to exactly the same final state *)
Theorem magic_run_same magic index p s :
  vrun_from (insert_magic_int magic index p) s = vrun_from p s.
Proof. rewrite magic_shape, firstn_skipn_run, firstn_skipn. reflexivity. Qed.

(* default position: just before the last opcode *)
Lemma magic_shape_default magic q s :
  insert_magic_int magic (-1) (q ++ [s]) = q ++ [OConst (CInt magic); OPop; s].
Proof.
  rewrite magic_shape. unfold magic_pos, magic_slot. cbn [Z.ltb Z.compare].
  rewrite app_length. cbn [List.length].
  replace (Nat.min (Z.to_nat (Z.max (Z.of_nat (List.length q + 1) + -1) 0)) (List.length q + 1))
    with (List.length q + 0) by lia.
  rewrite firstn_app_2, skipn_app. cbn [firstn]. rewrite app_nil_r.
  rewrite skipn_all2 by lia. replace (List.length q + 0 - List.length q) with 0 by lia.
  cbn [skipn app]. reflexivity.
Qed.

(* ------------------------------------------------------------------ FRAME lemma for the reference VM
   A run behaves identically (a) above extra values [b] at the bottom of the stack (below every mark),
   (b) after [dn] earlier calls (opaque object ids shifted), (c) with [hp] earlier heap objects (heap
   references shifted) and (d) with an earlier event log [lg0] -- leaving all of them untouched. *)
Section Lift.
Variable dn : nat.
Variable hp : list hobj.
Variable lg0 : list event.
Variable b : list val.
Let dh := List.length hp.

Fixpoint shv (v : val) : val :=
  match v with
  | VConst c => VConst c
  | VGlobal m n => VGlobal m n
  | VTuple l => VTuple (map shv l)
  | VRef i => VRef (dh + i)
  | VFrozen l => VFrozen (map shv l)
  | VObj k => VObj (k + dn)
  end.

Definition shp (kv : val * val) : val * val := (shv (fst kv), shv (snd kv)).
Definition shh (o : hobj) : hobj :=
  match o with
  | HList l => HList (map shv l)
  | HSet l => HSet (map shv l)
  | HDict kvs => HDict (map shp kvs)
  end.
Definition she (e : event) : event :=
  match e with
  | EvResolve m n => EvResolve m n
  | EvCall f args kw r => EvCall (shv f) (map shv args) (option_map shv kw) (r + dn)
  | EvPersLoad pid r => EvPersLoad (shv pid) (r + dn)
  | EvSetState o st => EvSetState (shv o) (shv st)
  | EvSetItem o k v => EvSetItem (shv o) (shv k) (shv v)
  end.
Definition shm (kv : Z * val) : Z * val := (fst kv, shv (snd kv)).

Fixpoint ext_frames (c : list val) (m : list (list val)) : list val * list (list val) :=
  match m with
  | [] => (c ++ b, [])
  | p :: r => (c, fst (ext_frames p r) :: snd (ext_frames p r))
  end.

Definition lift (s : vm) : vm :=
  let e := ext_frames (map shv (cur s)) (map (map shv) (meta s)) in
  mkVm (fst e) (snd e) (map shm (vmemo s)) (hp ++ map shh (heap s)) (map she (log s) ++ lg0)
       (nobj s + dn) (option_map shv (vstopped s)).

Lemma ext_cons x c m :
  ext_frames (x :: c) m = (x :: fst (ext_frames c m), snd (ext_frames c m)).
Proof. destruct m; reflexivity. Qed.

Lemma lift_stopped s : is_stopped (lift s) = is_stopped s.
Proof. unfold is_stopped, lift. cbn [vstopped]. destruct (vstopped s); reflexivity. Qed.

Lemma vpush'_lift v s : lift (vpush' v s) = vpush' (shv v) (lift s).
Proof.
  unfold lift, vpush', with_frames. cbn [cur meta vmemo heap log nobj vstopped map].
  rewrite ext_cons. reflexivity.
Qed.

Lemma vpop_lift s v s1 : vpop s = Ok (v, s1) -> vpop (lift s) = Ok (shv v, lift s1).
Proof.
  unfold vpop. destruct s as [c m mm h lg n st]. cbn [cur meta].
  destruct c as [|x c]; [discriminate|]. intros H. injection H as <- <-.
  unfold lift, with_frames. cbn [cur meta vmemo heap log nobj vstopped map].
  rewrite ext_cons. reflexivity.
Qed.

Lemma vtop_lift s v : vtop s = Ok v -> vtop (lift s) = Ok (shv v).
Proof.
  unfold vtop. destruct s as [c m mm h lg n st]. cbn [cur].
  destruct c as [|x c]; [discriminate|]. intros H. injection H as <-.
  unfold lift. cbn [cur meta map]. rewrite ext_cons. reflexivity.
Qed.

Lemma vpop_mark_lift s items s1 :
  vpop_mark s = Ok (items, s1) -> vpop_mark (lift s) = Ok (map shv items, lift s1).
Proof.
  unfold vpop_mark. destruct s as [c m mm h lg n st]. cbn [cur meta].
  destruct m as [|p r]; [discriminate|]. intros H. injection H as <- <-.
  unfold lift, with_frames. cbn [cur meta vmemo heap log nobj vstopped map ext_frames fst snd].
  rewrite map_rev. reflexivity.
Qed.

Lemma valloc_lift o s : 
  valloc (shh o) (lift s) = (dh + fst (valloc o s), lift (snd (valloc o s))).
Proof.
  unfold valloc, lift. cbn [cur meta vmemo heap log nobj vstopped fst snd].
  rewrite app_length, map_length, map_app, app_assoc. reflexivity.
Qed.

Lemma set_nth_app {A} (l1 l2 : list A) i x :
  set_nth (List.length l1 + i) x (l1 ++ l2) = l1 ++ set_nth i x l2.
Proof. induction l1 as [|y r IH]; [reflexivity|]. cbn. rewrite IH. reflexivity. Qed.

Lemma set_nth_map {A B} (f : A -> B) l i x : set_nth i (f x) (map f l) = map f (set_nth i x l).
Proof.
  revert i. induction l as [|y r IH]; intros i; [destruct i; reflexivity|].
  destruct i; cbn; [reflexivity|]. rewrite IH. reflexivity.
Qed.

Lemma vset_obj_lift i o s : lift (vset_obj i o s) = vset_obj (dh + i) (shh o) (lift s).
Proof.
  unfold lift, vset_obj. cbn [cur meta vmemo heap log nobj vstopped].
  unfold dh. rewrite set_nth_app, set_nth_map. reflexivity.
Qed.

Lemma vget_obj_lift i s : vget_obj (dh + i) (lift s) = option_map shh (vget_obj i s).
Proof.
  unfold vget_obj, lift. cbn [heap]. unfold dh.
  rewrite nth_error_app2 by lia. replace (List.length hp + i - List.length hp) with i by lia.
  rewrite nth_error_map. reflexivity.
Qed.

Lemma vlog_lift e s : lift (vlog e s) = vlog (she e) (lift s).
Proof. reflexivity. Qed.

Lemma fresh_obj_lift s : fresh_obj (lift s) = (fst (fresh_obj s) + dn, lift (snd (fresh_obj s))).
Proof. reflexivity. Qed.

Lemma callable_shv v : callable (shv v) = callable v.
Proof. destruct v; reflexivity. Qed.

Lemma do_call_lift f args kw s s' :
  do_call f args kw s = Ok s' ->
  do_call (shv f) (map shv args) (option_map shv kw) (lift s) = Ok (lift s').
Proof.
  unfold do_call. rewrite callable_shv. destruct (callable f); [|discriminate].
  rewrite fresh_obj_lift. destruct (fresh_obj s) as [k s1] eqn:F. cbn [fst snd].
  unfold vpush. intros H. injection H as <-.
  rewrite vpush'_lift, vlog_lift. reflexivity.
Qed.

Lemma find_class_lift m n s s' : find_class m n s = Ok s' -> find_class m n (lift s) = Ok (lift s').
Proof.
  unfold find_class. destruct (plain m && plain n); [|discriminate].
  unfold vpush. intros H. injection H as <-. rewrite vpush'_lift, vlog_lift. reflexivity.
Qed.

Lemma hashable_shv v : hashable (shv v) = hashable v.
Proof.
  revert v. fix IH 1. intros v. destruct v as [c|m n|l|i|l|k]; try reflexivity.
  cbn [shv hashable]. induction l as [|x r IHl]; [reflexivity|].
  cbn [map forallb]. rewrite IH, IHl. reflexivity.
Qed.

Lemma forallb_hashable_map l : forallb hashable (map shv l) = forallb hashable l.
Proof. induction l as [|x r IH]; [reflexivity|]. cbn. rewrite hashable_shv, IH. reflexivity. Qed.

Lemma vpairs_of_lift l kvs : vpairs_of l = Ok kvs -> vpairs_of (map shv l) = Ok (map shp kvs).
Proof.
  revert l kvs. fix IH 1. intros l kvs. destruct l as [|k [|v r]]; cbn [vpairs_of map].
  - intros H. injection H as <-. reflexivity.
  - discriminate.
  - destruct (vpairs_of r) as [t|] eqn:E; cbn [bind]; [|discriminate].
    intros H. injection H as <-. rewrite (IH r t E). reflexivity.
Qed.

Lemma forallb_hash_keys kvs :
  forallb (fun kv => hashable (fst kv)) (map shp kvs) = forallb (fun kv => hashable (fst kv)) kvs.
Proof.
  induction kvs as [|x r IH]; [reflexivity|]. cbn. rewrite hashable_shv, IH. reflexivity.
Qed.

Lemma memo_remove_lift k m : memo_remove k (map shm m) = map shm (memo_remove k m).
Proof.
  induction m as [|[k' v] r IH]; [reflexivity|]. cbn. destruct (Z.eqb k k'); [exact IH|].
  cbn. rewrite IH. reflexivity.
Qed.
Lemma memo_put_lift k v m : memo_put k (shv v) (map shm m) = map shm (memo_put k v m).
Proof. unfold memo_put. rewrite memo_remove_lift. reflexivity. Qed.
Lemma memo_get_lift k m : memo_get k (map shm m) = option_map shv (memo_get k m).
Proof.
  induction m as [|[k' v] r IH]; [reflexivity|]. cbn. destruct (Z.eqb k k'); [reflexivity|exact IH].
Qed.

Lemma fold_vlog_lift d kvs s :
  lift (fold_left (fun st kv => vlog (EvSetItem d (fst kv) (snd kv)) st) kvs s) =
  fold_left (fun st kv => vlog (EvSetItem (shv d) (fst kv) (snd kv)) st) (map shp kvs) (lift s).
Proof.
  revert s. induction kvs as [|x r IH]; intros s; [reflexivity|]. cbn [fold_left map]. rewrite IH. reflexivity.
Qed.

Ltac inv_step H :=
  repeat (cbn [bind] in H;
   match type of H with
   | bind ?r _ = Ok _ => let E := fresh "E" in destruct r eqn:E; [|discriminate H]
   | (let '(_, _) := ?x in _) = Ok _ => is_var x; destruct x
   | (let '(_, _) := ?x in _) = Ok _ => let E := fresh "E" in destruct x eqn:E
   end); cbn [bind] in H.

Ltac lift_hyps :=
  repeat match goal with
  | E : vpop ?s = Ok (_, _) |- _ =>
      lazymatch s with lift _ => fail | _ => apply vpop_lift in E end
  | E : vtop ?s = Ok _ |- _ =>
      lazymatch s with lift _ => fail | _ => apply vtop_lift in E end
  | E : vpop_mark ?s = Ok (_, _) |- _ =>
      lazymatch s with lift _ => fail | _ => apply vpop_mark_lift in E end
  | E : vpairs_of ?l = Ok _ |- _ =>
      lazymatch l with map shv _ => fail | _ => apply vpairs_of_lift in E end
  end.

Ltac use_hyps :=
  repeat match goal with
  | E : vpop (lift _) = Ok _ |- _ => rewrite E; cbn [bind]
  | E : vtop (lift _) = Ok _ |- _ => rewrite E; cbn [bind]
  | E : vpop_mark (lift _) = Ok _ |- _ => rewrite E; cbn [bind]
  | E : vpairs_of (map shv _) = Ok _ |- _ => rewrite E; cbn [bind]
  end.

Ltac case_inv H :=
  repeat match type of H with
  | match ?x with _ => _ end = Ok _ => let E := fresh "D" in destruct x eqn:E; try discriminate H
  | (if ?x then _ else _) = Ok _ => let E := fresh "D" in destruct x eqn:E; try discriminate H
  end.

Ltac alloc_case :=
  rewrite valloc_lift; match goal with E : valloc _ _ = _ |- _ => rewrite E end; cbn [fst snd].

Ltac fin :=
  cbn [shv shh option_map];
  repeat first [ rewrite vget_obj_lift | rewrite hashable_shv | rewrite forallb_hashable_map
               | rewrite forallb_hash_keys | rewrite callable_shv ];
  repeat match goal with D : vget_obj _ _ = _ |- _ => rewrite D; clear D end;
  repeat match goal with D : hashable _ = _ |- _ => rewrite D; clear D end;
  repeat match goal with D : forallb _ _ = _ |- _ => rewrite D; clear D end;
  repeat match goal with D : callable _ = _ |- _ => rewrite D; clear D end;
  cbn [shv shh option_map].

Lemma vstep_lift o s s' : vstep o s = Ok s' -> vstep o (lift s) = Ok (lift s').
Proof.
  intros H. destruct o; cbn [vstep] in H |- *.
  - (* OConst *) unfold vpush in *. injection H as <-. rewrite vpush'_lift. reflexivity.
  - (* OMark *) injection H as <-. reflexivity.
  - (* OStop *) inv_step H. lift_hyps. use_hyps. injection H as <-. reflexivity.
  - (* OPop *)
    destruct s as [c m mm h lg n st]. cbn [cur meta] in H.
    destruct c as [|x c].
    + destruct m as [|p r]; [discriminate|]. injection H as <-. reflexivity.
    + injection H as <-. unfold lift. cbn [cur meta map]. rewrite ext_cons. reflexivity.
  - (* OPopMark *) inv_step H. lift_hyps. use_hyps. injection H as <-. reflexivity.
  - (* ODup *) inv_step H. lift_hyps. use_hyps. unfold vpush in *. injection H as <-.
    rewrite vpush'_lift. reflexivity.
  - (* OEmptyList *)
    inv_step H. change (HList []) with (shh (HList [])). alloc_case.
    unfold vpush in *. injection H as <-. rewrite vpush'_lift. reflexivity.
  - inv_step H. change (HDict []) with (shh (HDict [])). alloc_case.
    unfold vpush in *. injection H as <-. rewrite vpush'_lift. reflexivity.
  - inv_step H. change (HSet []) with (shh (HSet [])). alloc_case.
    unfold vpush in *. injection H as <-. rewrite vpush'_lift. reflexivity.
  - (* OEmptyTuple *) unfold vpush in *. injection H as <-. rewrite vpush'_lift. reflexivity.
  - (* OAppend *) inv_step H. lift_hyps. use_hyps. case_inv H. injection H as <-. fin.
    rewrite vset_obj_lift. cbn [shh]. rewrite map_app. reflexivity.
  - (* OAppends *) inv_step H. lift_hyps. use_hyps. case_inv H. injection H as <-. fin.
    rewrite vset_obj_lift. cbn [shh]. rewrite map_app. reflexivity.
  - (* OList *) inv_step H. lift_hyps. use_hyps.
    change (HList (map shv l)) with (shh (HList l)). alloc_case. unfold vpush in *. injection H as <-.
    rewrite vpush'_lift. reflexivity.
  - (* OTuple *) inv_step H. lift_hyps. use_hyps. unfold vpush in *. injection H as <-.
    rewrite vpush'_lift. reflexivity.
  - inv_step H. lift_hyps. use_hyps. unfold vpush in *. injection H as <-. rewrite vpush'_lift. reflexivity.
  - inv_step H. lift_hyps. use_hyps. unfold vpush in *. injection H as <-. rewrite vpush'_lift. reflexivity.
  - inv_step H. lift_hyps. use_hyps. unfold vpush in *. injection H as <-. rewrite vpush'_lift. reflexivity.
  - (* ODict *) inv_step H. lift_hyps. use_hyps. case_inv H. inv_step H. fin.
    match goal with |- context [valloc (HDict (map shp ?x))] =>
      change (HDict (map shp x)) with (shh (HDict x)) end. alloc_case. unfold vpush in *. injection H as <-.
    rewrite vpush'_lift. reflexivity.
  - (* OSetItem *) inv_step H. lift_hyps. use_hyps. case_inv H; injection H as <-; fin.
    + reflexivity.
    + rewrite vset_obj_lift. cbn [shh]. rewrite map_app. reflexivity.
    + reflexivity.
  - (* OSetItems *) inv_step H. lift_hyps. use_hyps. case_inv H; injection H as <-; fin.
    + rewrite fold_vlog_lift. reflexivity.
    + rewrite vset_obj_lift. cbn [shh]. rewrite map_app. reflexivity.
    + rewrite fold_vlog_lift. reflexivity.
  - (* OAddItems *) inv_step H. lift_hyps. use_hyps. case_inv H. injection H as <-. fin.
    rewrite vset_obj_lift. cbn [shh]. rewrite map_app. reflexivity.
  - (* OFrozenSet *) inv_step H. lift_hyps. use_hyps. case_inv H. fin.
    unfold vpush in *. injection H as <-. rewrite vpush'_lift. reflexivity.
  - (* OGlobal *) apply find_class_lift. exact H.
  - (* OStackGlobal *) inv_step H. lift_hyps. use_hyps. case_inv H. cbn [shv]. apply find_class_lift. exact H.
  - (* OInst *) inv_step H. lift_hyps. use_hyps. case_inv H.
    change (vlog (EvResolve m n) (lift v)) with (lift (vlog (EvResolve m n) v)).
    exact (do_call_lift (VGlobal m n) _ None _ _ H).
  - (* OObj *) inv_step H. lift_hyps. use_hyps. case_inv H. cbn [map].
    exact (do_call_lift _ _ None _ _ H).
  - (* ONewObj *) inv_step H. lift_hyps. use_hyps. case_inv H. cbn [shv].
    exact (do_call_lift _ _ None _ _ H).
  - (* ONewObjEx *) inv_step H. lift_hyps. use_hyps. case_inv H. fin.
    exact (do_call_lift _ _ (Some _) _ _ H).
  - (* OReduce *) inv_step H. lift_hyps. use_hyps. case_inv H. cbn [shv].
    exact (do_call_lift _ _ None _ _ H).
  - (* OBuild *) inv_step H. lift_hyps. use_hyps. case_inv H. fin. injection H as <-. reflexivity.
  - (* OBinPersId *) inv_step H. lift_hyps. use_hyps.
    rewrite fresh_obj_lift. match goal with E : fresh_obj _ = _ |- _ => rewrite E end.
    cbn [fst snd]. unfold vpush in *.
    injection H as <-. rewrite vpush'_lift, vlog_lift. reflexivity.
  - (* OPut *) inv_step H. lift_hyps. use_hyps. case_inv H. injection H as <-.
    unfold lift. cbn [cur meta vmemo heap log nobj vstopped]. rewrite memo_put_lift. reflexivity.
  - (* OGet *) case_inv H. unfold lift at 1. cbn [vmemo]. rewrite memo_get_lift, D. cbn [option_map].
    unfold vpush in *. injection H as <-. rewrite vpush'_lift. reflexivity.
  - (* OMemoize *) inv_step H. lift_hyps. use_hyps. injection H as <-.
    unfold lift. cbn [cur meta vmemo heap log nobj vstopped]. rewrite map_length, memo_put_lift. reflexivity.
  - (* ONoop *) injection H as <-. reflexivity.
  - discriminate.
Qed.

Lemma vrun_lift p s s' : vrun_from p s = Ok s' -> vrun_from p (lift s) = Ok (lift s').
Proof.
  revert s. induction p as [|o r IH]; intros s; cbn [vrun_from].
  - intros H. injection H as <-. reflexivity.
  - rewrite lift_stopped. destruct (is_stopped s).
    + intros H. injection H as <-. reflexivity.
    + destruct (vstep o s) as [s1|] eqn:E; cbn [bind]; [|discriminate].
      rewrite (vstep_lift _ _ _ E). cbn [bind]. apply IH.
Qed.
End Lift.

(* ------------------------------------------------------------------ insert_python *)
Lemma run_shape_agree : forall p s v s' v',
  shape_fk s = shape_vm v -> run_from p s = Ok s' -> vrun_from p v = Ok v' -> shape_fk s' = shape_vm v'.
Proof.
  induction p as [|o r IH]; intros s v s' v' E Hs Hv; cbn [run_from vrun_from] in Hs, Hv.
  - injection Hs as <-. injection Hv as <-. exact E.
  - assert (stopped s = is_stopped v) as St by (unfold shape_fk, shape_vm in E; inversion E; reflexivity).
    rewrite <- St in Hv. destruct (stopped s).
    + injection Hs as <-. injection Hv as <-. exact E.
    + destruct (step o s) as [s1|] eqn:S1; [|discriminate].
      destruct (vstep o v) as [v1|] eqn:V1; [|discriminate]. cbn [bind] in Hs, Hv.
      exact (IH _ _ _ _ (step_agree _ _ _ _ _ E S1 V1) Hs Hv).
Qed.

(* the symbolic run the injector consults sees as many memo keys as the VM has *)
Lemma memo_len_agree p f v :
  Interp.run p = Ok f -> vrun_from p vm_init = Ok v -> List.length (memo f) = List.length (vmemo v).
Proof.
  intros Hf Hv. pose proof (run_shape_agree p _ _ _ _ (init_shapes 0) Hf Hv) as E.
  unfold shape_fk, shape_vm in E. inversion E as [[F K S]].
  rewrite <- (map_length fst (memo f)), K, map_length. reflexivity.
Qed.

(* what the call set-up GLOBAL m n, MARK, <encoded arguments>, TUPLE evaluates to on the reference VM
   from the empty machine: [vals] are the decoded arguments, [hp] the heap objects (lists / dicts)
   they allocate *)
Definition args_eval (m n : string) (args : list arg) (vals : list val) (hp : list hobj) : Prop :=
  vrun_from (call_setup m n (encode_objs args)) vm_init =
  Ok (mkVm [VTuple vals; VGlobal m n] [] [] hp [EvResolve m n] 0 None).

Lemma args_eval_consts m n cs :
  plain2 m n = true -> args_eval m n (map AConst cs) (map VConst cs) [].
Proof.
  intros P. unfold args_eval, call_setup, encode_objs.
  replace (flat_map encode_obj (map AConst cs)) with (map OConst cs)
    by (induction cs as [|c r IH]; [reflexivity| cbn; rewrite <- IH; reflexivity]).
  unfold vm_init. cbn [app]. vsteps. rewrite vrun_consts. cbn [app]. vsteps.
  rewrite app_nil_r, rev_involutive. reflexivity.
Qed.

Lemma insert_python_ok m n args rf rep p p' :
  insert_python m n args rf rep p = Ok p' ->
  ends_with_stop p = true /\
  let i := skip_noops p in
  let blk := call_setup m n (encode_objs args) in
  let p1 := insert_block i blk p in
  if rf then
    p' = insert_last_seq (if rep then [OPop] else [OPut KEEP_KEY; OPop; OPop; OGet KEEP_KEY])
                         (insert_block (i + List.length blk) [OReduce] p1)
  else if rep then p' = insert_last_seq [OPop; OReduce] p1
  else exists f, Interp.run p1 = Ok f /\
       p' = insert_last_seq [OMemoize; OPop; OReduce; OPop; OGet (Z.of_nat (List.length (memo f)))] p1.
Proof.
  unfold insert_python. destruct (ends_with_stop p); [|discriminate].
  destruct (forallb arg_ok args); [|discriminate]. cbn [negb].
  destruct rf; [destruct rep|destruct rep]; intros H; split; try reflexivity; cbv zeta.
  - inversion H. reflexivity.
  - inversion H. reflexivity.
  - inversion H. reflexivity.
  - destruct (run _) as [f|] eqn:R; cbn [bind] in H; [|discriminate]. exists f. inversion H. auto.
Qed.

Lemma insert_block_at {A} (a x rest : list A) :
  insert_block (List.length a) x (a ++ rest) = a ++ x ++ rest.
Proof.
  unfold insert_block. rewrite firstn_app, Nat.sub_diag, firstn_all. cbn [firstn]. rewrite app_nil_r.
  rewrite skipn_app, Nat.sub_diag, skipn_all. reflexivity.
Qed.

Lemma insert_block_after k (blk x rest : list op) :
  insert_block (k + List.length blk) x (repeat ONoop k ++ blk ++ rest) = repeat ONoop k ++ blk ++ x ++ rest.
Proof.
  replace (k + List.length blk) with (List.length (repeat ONoop k ++ blk))
    by (rewrite app_length, repeat_length; reflexivity).
  rewrite (app_assoc (repeat ONoop k) blk rest), insert_block_at, <- app_assoc. reflexivity.
Qed.

Section Insert.
Variables (m n : string) (args : list arg) (vals : list val) (hp : list hobj).
Hypothesis P : plain2 m n = true.
Hypothesis AE : args_eval m n args vals hp.

(* the base pickle's own objects, renamed: run-first puts one call (object 0) and the arguments'
   heap objects before them; run-last only the heap objects *)
Definition sh_first := shv 1 hp.
Definition she_first := she 1 hp.
Definition sh_last := shv 0 hp.
Definition she_last := she 0 hp.

Theorem insert_run_first_spec p r sq rep p' :
  base_run p = Some (r, sq) ->
  insert_python m n args true rep p = Ok p' ->
  exists mm',
  vrun_from p' vm_init =
  Ok (mkVm [] [] mm' (hp ++ map (shh 1 hp) (heap sq))
           (map she_first (log sq) ++ [EvCall (VGlobal m n) vals None 0; EvResolve m n])
           (nobj sq + 1) (Some (if rep then VObj 0 else sh_first r))).
Proof.
  intros HB HI. apply base_run_inv in HB. destruct HB as (q0 & -> & R & S & C & M).
  apply insert_python_ok in HI. destruct HI as (_ & HI). cbv zeta in HI. subst p'.
  rewrite insert_block_split, skip_noops_app_stop, insert_block_after.
  set (k := skip_noops q0). set (q := skipn k q0).
  assert (vrun_from q vm_init = Ok sq) as Rq.
  { rewrite (skip_noops_split q0), vrun_noops in R. exact R. }
  pose (lg0 := [EvCall (VGlobal m n) vals None 0; EvResolve m n]).
  pose proof (vrun_lift 1 hp lg0 [VObj 0] q _ _ Rq) as RL.
  replace (repeat ONoop k ++ call_setup m n (encode_objs args) ++ [OReduce] ++ q ++ [OStop])
    with ((repeat ONoop k ++ call_setup m n (encode_objs args) ++ [OReduce] ++ q) ++ [OStop])
    by (repeat rewrite <- app_assoc; reflexivity).
  rewrite insert_last_seq_app. repeat rewrite <- app_assoc.
  rewrite vrun_noops, vrun_app. unfold args_eval in AE. rewrite AE. cbn [bind app]. vsteps.
  rewrite vrun_app.
  change (mkVm [VObj 0] [] [] hp [EvCall (VGlobal m n) vals None 0; EvResolve m n] 1 None)
    with (mkVm ([] ++ [VObj 0]) [] [] hp lg0 (0 + 1) None).
  assert (lift 1 hp lg0 [VObj 0] vm_init = mkVm ([] ++ [VObj 0]) [] [] hp lg0 (0 + 1) None) as LI.
  { unfold lift, vm_init. cbn. rewrite app_nil_r. reflexivity. }
  rewrite <- LI, RL. cbn [bind].
  unfold lift. rewrite C, M. cbn [map ext_frames fst snd app]. unfold is_stopped in S.
  destruct (vstopped sq); [discriminate|]. cbn [option_map].
  destruct rep; cbn [app]; vsteps; eexists; reflexivity.
Qed.

Theorem insert_run_last_spec p r sq rep p' :
  base_run p = Some (r, sq) ->
  insert_python m n args false rep p = Ok p' ->
  exists mm',
  vrun_from p' vm_init =
  Ok (mkVm [] [] mm' (hp ++ map (shh 0 hp) (heap sq))
           (EvCall (VGlobal m n) vals None (nobj sq + 0) :: map she_last (log sq) ++ [EvResolve m n])
           (S (nobj sq + 0)) (Some (if rep then VObj (nobj sq + 0) else sh_last r))).
Proof.
  intros HB HI. apply base_run_inv in HB. destruct HB as (q0 & -> & R & S & C & M).
  apply insert_python_ok in HI. destruct HI as (_ & HI). cbv zeta in HI.
  rewrite insert_block_split in HI.
  set (k := skip_noops q0) in *. set (q := skipn k q0) in *.
  assert (vrun_from q vm_init = Ok sq) as Rq.
  { rewrite (skip_noops_split q0), vrun_noops in R. exact R. }
  pose (lg0 := [EvResolve m n]).
  pose proof (vrun_lift 0 hp lg0 [VTuple vals; VGlobal m n] q _ _ Rq) as RL.
  assert (lift 0 hp lg0 [VTuple vals; VGlobal m n] vm_init =
          mkVm [VTuple vals; VGlobal m n] [] [] hp [EvResolve m n] 0 None) as LI.
  { unfold lift, vm_init. cbn. rewrite app_nil_r. reflexivity. }
  assert (forall tail,
    vrun_from (repeat ONoop k ++ call_setup m n (encode_objs args) ++ q ++ tail) vm_init =
    vrun_from tail (lift 0 hp lg0 [VTuple vals; VGlobal m n] sq)) as RUN.
  { intros tail. rewrite vrun_noops, vrun_app. unfold args_eval in AE. rewrite AE. cbn [bind].
    rewrite vrun_app, <- LI, RL. reflexivity. }
  replace (repeat ONoop k ++ call_setup m n (encode_objs args) ++ q ++ [OStop])
    with ((repeat ONoop k ++ call_setup m n (encode_objs args) ++ q) ++ [OStop]) in HI
    by (repeat rewrite <- app_assoc; reflexivity).
  unfold is_stopped in S. destruct (vstopped sq) eqn:ST; [discriminate|].
  destruct rep.
  - subst p'. rewrite insert_last_seq_app. repeat rewrite <- app_assoc. rewrite RUN.
    unfold lift. rewrite C, M, ST. cbn [map ext_frames fst snd app option_map].
    vsteps. eexists. reflexivity.
  - destruct HI as (f & RF & ->).
    (* the VM run of the program the injector interpreted *)
    assert (vrun_from ((repeat ONoop k ++ call_setup m n (encode_objs args) ++ q) ++ [OStop]) vm_init =
            Ok (mkVm [VTuple vals; VGlobal m n] [] (map (shm 0 hp) (vmemo sq)) (hp ++ map (shh 0 hp) (heap sq))
                     (map she_last (log sq) ++ lg0) (nobj sq + 0) (Some (sh_last r)))) as RV.
    { repeat rewrite <- app_assoc. rewrite RUN. unfold lift. rewrite C, M, ST.
      cbn [map ext_frames fst snd app option_map]. vsteps. reflexivity. }
    pose proof (memo_len_agree _ _ _ RF RV) as ML. cbn [vmemo] in ML.
    rewrite insert_last_seq_app. repeat rewrite <- app_assoc. rewrite RUN.
    unfold lift. rewrite C, M, ST. cbn [map ext_frames fst snd app option_map].
    rewrite ML. vsteps. eexists. reflexivity.
Qed.
End Insert.

(* ------------------------------------------------------------------ the argument block, all arguments
   What _encode_python_obj's opcodes build on the reference VM, as a direct recursive function:
   dec a h = (value, heap after) when run with heap h.  Lists and dicts allocate one heap object
   each, inner objects first. *)
Fixpoint dec (a : arg) (h : list hobj) : val * list hobj :=
  match a with
  | AConst c => (VConst c, h)
  | AList l =>
      let r := (fix go (l : list arg) (h : list hobj) : list val * list hobj :=
                  match l with
                  | [] => ([], h)
                  | x :: t => let r1 := dec x h in let r2 := go t (snd r1) in (fst r1 :: fst r2, snd r2)
                  end) l h in
      (VRef (List.length (snd r)), snd r ++ [HList (fst r)])
  | ADict kvs =>
      let r := (fix go (kvs : list (const * arg)) (h : list hobj) : list (val * val) * list hobj :=
                  match kvs with
                  | [] => ([], h)
                  | (k, v) :: t => let r1 := dec v h in let r2 := go t (snd r1) in
                                   ((VConst k, fst r1) :: fst r2, snd r2)
                  end) kvs h in
      (VRef (List.length (snd r)), snd r ++ [HDict (fst r)])
  end.

Fixpoint dec_list (l : list arg) (h : list hobj) : list val * list hobj :=
  match l with
  | [] => ([], h)
  | x :: t => let r1 := dec x h in let r2 := dec_list t (snd r1) in (fst r1 :: fst r2, snd r2)
  end.
Fixpoint dec_dict (kvs : list (const * arg)) (h : list hobj) : list (val * val) * list hobj :=
  match kvs with
  | [] => ([], h)
  | (k, v) :: t => let r1 := dec v h in let r2 := dec_dict t (snd r1) in
                   ((VConst k, fst r1) :: fst r2, snd r2)
  end.
Fixpoint enc_list (l : list arg) : list op :=
  match l with [] => [] | x :: r => encode_obj x ++ enc_list r end.
Fixpoint enc_dict (kvs : list (const * arg)) : list op :=
  match kvs with [] => [] | (k, v) :: r => OConst k :: encode_obj v ++ enc_dict r end.

Lemma dec_AList l h :
  dec (AList l) h = (VRef (List.length (snd (dec_list l h))), snd (dec_list l h) ++ [HList (fst (dec_list l h))]).
Proof.
  cbn [dec].
  assert (forall l' h', (fix go (l : list arg) (h : list hobj) : list val * list hobj :=
                  match l with
                  | [] => ([], h)
                  | x :: t => let r1 := dec x h in let r2 := go t (snd r1) in (fst r1 :: fst r2, snd r2)
                  end) l' h' = dec_list l' h') as E.
  { intros l'. induction l' as [|x t IH]; intros h0; [reflexivity|]. cbn [dec_list]. rewrite IH. reflexivity. }
  rewrite E. reflexivity.
Qed.

Lemma dec_ADict kvs h :
  dec (ADict kvs) h = (VRef (List.length (snd (dec_dict kvs h))), snd (dec_dict kvs h) ++ [HDict (fst (dec_dict kvs h))]).
Proof.
  cbn [dec].
  assert (forall kvs' h', (fix go (kvs : list (const * arg)) (h : list hobj) : list (val * val) * list hobj :=
                  match kvs with
                  | [] => ([], h)
                  | (k, v) :: t => let r1 := dec v h in let r2 := go t (snd r1) in
                                   ((VConst k, fst r1) :: fst r2, snd r2)
                  end) kvs' h' = dec_dict kvs' h') as E.
  { intros kvs'. induction kvs' as [|[k v] t IH]; intros h0; [reflexivity|]. cbn [dec_dict]. rewrite IH. reflexivity. }
  rewrite E. reflexivity.
Qed.

Lemma encode_AList l : encode_obj (AList l) = OMark :: enc_list l ++ [OList].
Proof.
  reflexivity.
Qed.
Lemma encode_ADict_cons kv kvs : encode_obj (ADict (kv :: kvs)) = OMark :: enc_dict (kv :: kvs) ++ [ODict].
Proof.
  reflexivity.
Qed.

(* nested induction principle for arguments *)
Section ArgInd.
Variable P : arg -> Prop.
Hypothesis Hc : forall c, P (AConst c).
Hypothesis Hl : forall l, Forall P l -> P (AList l).
Hypothesis Hd : forall kvs, Forall (fun kv => P (snd kv)) kvs -> P (ADict kvs).
Fixpoint arg_ind' (a : arg) : P a :=
  match a with
  | AConst c => Hc c
  | AList l => Hl l ((fix go (l : list arg) : Forall P l :=
                        match l with
                        | [] => Forall_nil P
                        | x :: r => Forall_cons x (arg_ind' x) (go r)
                        end) l)
  | ADict kvs => Hd kvs ((fix go (kvs : list (const * arg)) : Forall (fun kv => P (snd kv)) kvs :=
                            match kvs with
                            | [] => Forall_nil _
                            | kv :: r => Forall_cons kv (arg_ind' (snd kv)) (go r)
                            end) kvs)
  end.
End ArgInd.

Definition pushes (a : arg) : Prop :=
  forall rest c me mm h lg k,
    vrun_from (encode_obj a ++ rest) (mkVm c me mm h lg k None) =
    vrun_from rest (mkVm (fst (dec a h) :: c) me mm (snd (dec a h)) lg k None).

Lemma st_list c p me mm h lg k st :
  vstep OList (mkVm c (p :: me) mm h lg k st) =
  Ok (mkVm (VRef (List.length h) :: p) me mm (h ++ [HList (rev c)]) lg k st).
Proof. reflexivity. Qed.
Lemma st_empty_dict c me mm h lg k st :
  vstep OEmptyDict (mkVm c me mm h lg k st) = Ok (mkVm (VRef (List.length h) :: c) me mm (h ++ [HDict []]) lg k st).
Proof. reflexivity. Qed.

Lemma enc_list_run l : Forall pushes l ->
  forall rest c me mm h lg k,
    vrun_from (enc_list l ++ rest) (mkVm c me mm h lg k None) =
    vrun_from rest (mkVm (rev (fst (dec_list l h)) ++ c) me mm (snd (dec_list l h)) lg k None).
Proof.
  induction 1 as [|x r Hx _ IH]; intros rest c me mm h lg k; [reflexivity|].
  cbn [enc_list dec_list fst snd]. rewrite <- app_assoc, Hx, IH. cbn [rev]. rewrite <- app_assoc. reflexivity.
Qed.

(* the interleaved key / value list a dict argument leaves above its mark *)
Fixpoint flat_pairs (ps : list (val * val)) : list val :=
  match ps with [] => [] | (k, v) :: r => k :: v :: flat_pairs r end.

Lemma enc_dict_run kvs : Forall (fun kv => pushes (snd kv)) kvs ->
  forall rest c me mm h lg k,
    vrun_from (enc_dict kvs ++ rest) (mkVm c me mm h lg k None) =
    vrun_from rest (mkVm (rev (flat_pairs (fst (dec_dict kvs h))) ++ c) me mm (snd (dec_dict kvs h)) lg k None).
Proof.
  induction 1 as [|[kc v] r Hx _ IH]; intros rest c me mm h lg k; [reflexivity|].
  cbn [enc_dict dec_dict fst snd flat_pairs app]. rewrite vrun_cons, st_const. cbn [bind].
  rewrite <- app_assoc. cbn [snd] in Hx. rewrite Hx, IH. cbn [rev]. repeat rewrite <- app_assoc. reflexivity.
Qed.

Lemma vpairs_flat ps : vpairs_of (flat_pairs ps) = Ok ps.
Proof. induction ps as [|[k v] r IH]; [reflexivity|]. cbn [flat_pairs vpairs_of]. rewrite IH. reflexivity. Qed.

Lemma dec_dict_keys_hashable kvs h :
  forallb (fun kv => hashable (fst kv)) (fst (dec_dict kvs h)) = true.
Proof.
  revert h. induction kvs as [|[k v] r IH]; intros h; [reflexivity|]. cbn [dec_dict fst forallb hashable andb]. apply IH.
Qed.

Lemma st_dict c p me mm h lg k st ps :
  rev c = flat_pairs ps -> forallb (fun kv => hashable (fst kv)) ps = true ->
  vstep ODict (mkVm c (p :: me) mm h lg k st) =
  Ok (mkVm (VRef (List.length h) :: p) me mm (h ++ [HDict ps]) lg k st).
Proof.
  intros E H. unfold vstep, vpop_mark. cbn [meta cur bind]. rewrite E, vpairs_flat. cbn [bind]. rewrite H. reflexivity.
Qed.

Lemma encode_obj_pushes : forall a, pushes a.
Proof.
  apply arg_ind'.
  - intros c rest st me mm h lg k. cbn [encode_obj app dec fst snd]. rewrite vrun_cons, st_const. reflexivity.
  - intros l F rest c me mm h lg k. rewrite encode_AList, dec_AList. cbn [app fst snd].
    rewrite vrun_cons, st_mark. cbn [bind]. rewrite <- app_assoc, (enc_list_run l F). cbn [app].
    rewrite vrun_cons, st_list. cbn [bind]. rewrite app_nil_r, rev_involutive. reflexivity.
  - intros kvs F rest c me mm h lg k. destruct kvs as [|kv kvs].
    + cbn [encode_obj app]. rewrite dec_ADict. cbn [dec_dict fst snd]. rewrite vrun_cons, st_empty_dict. reflexivity.
    + rewrite encode_ADict_cons, dec_ADict. cbn [app fst snd].
      rewrite vrun_cons, st_mark. cbn [bind]. rewrite <- app_assoc, (enc_dict_run _ F). cbn [app].
      rewrite vrun_cons, (st_dict _ _ _ _ _ _ _ _ (fst (dec_dict (kv :: kvs) h))).
      * reflexivity.
      * rewrite app_nil_r, rev_involutive. reflexivity.
      * apply dec_dict_keys_hashable.
Qed.

Lemma encode_objs_enc_list args : encode_objs args = enc_list args.
Proof. unfold encode_objs. induction args as [|x r IH]; [reflexivity|]. cbn. rewrite IH. reflexivity. Qed.

(* the decoded arguments and the heap objects they allocate, from the empty heap *)
Definition dec_args (args : list arg) : list val * list hobj := dec_list args [].

Theorem args_eval_total m n args :
  plain2 m n = true -> args_eval m n args (fst (dec_args args)) (snd (dec_args args)).
Proof.
  intros P. unfold args_eval, call_setup, vm_init. rewrite encode_objs_enc_list. cbn [app]. vsteps.
  rewrite enc_list_run by (apply Forall_forall; intros a _; apply encode_obj_pushes).
  cbn [app]. vsteps. rewrite app_nil_r, rev_involutive. reflexivity.
Qed.

Lemma dec_args_consts cs : dec_args (map AConst cs) = (map VConst cs, []).
Proof.
  unfold dec_args. generalize (@nil hobj). induction cs as [|c r IH]; intros h; [reflexivity|].
  cbn [map dec_list dec fst snd]. rewrite IH. reflexivity.
Qed.

(* ------------------------------------------------------------------ the single final STOP (pure list reasoning) *)
Definition const_eq_dec : forall a b : const, {a = b} + {a <> b}.
Proof. decide equality; try apply string_dec; try apply Z.eq_dec; apply bool_dec. Defined.
Definition op_eq_dec : forall a b : op, {a = b} + {a <> b}.
Proof. decide equality; try apply string_dec; try apply Z.eq_dec; apply const_eq_dec. Defined.

Definition nstops (p : list op) : nat := count_occ op_eq_dec p OStop.

Lemma nstops_app a b : nstops (a ++ b) = nstops a + nstops b.
Proof. apply count_occ_app. Qed.

Lemma stop_free_nstops a : stop_free a = true -> nstops a = 0.
Proof.
  unfold nstops. induction a as [|o r IH]; [reflexivity|]. cbn [stop_free forallb]. intros H.
  apply andb_prop in H. destruct H as [H1 H2]. cbn [count_occ].
  destruct (op_eq_dec o OStop) as [->|_]; [discriminate H1|]. apply IH. exact H2.
Qed.

Lemma stop_free_app a b : stop_free (a ++ b) = stop_free a && stop_free b.
Proof. apply forallb_app. Qed.

Lemma stop_free_repeat k : stop_free (repeat ONoop k) = true.
Proof. induction k; [reflexivity|exact IHk]. Qed.

Lemma stop_free_consts cs : stop_free (map OConst cs) = true.
Proof. induction cs; [reflexivity|exact IHcs]. Qed.

Lemma stop_free_skipn k a : stop_free a = true -> stop_free (skipn k a) = true.
Proof. intros H. rewrite <- (firstn_skipn k a), stop_free_app in H. apply andb_prop in H. tauto. Qed.
Lemma stop_free_firstn k a : stop_free a = true -> stop_free (firstn k a) = true.
Proof. intros H. rewrite <- (firstn_skipn k a), stop_free_app in H. apply andb_prop in H. tauto. Qed.

Lemma stop_free_encode_obj : forall a, stop_free (encode_obj a) = true.
Proof.
  apply arg_ind'.
  - reflexivity.
  - intros l F. rewrite encode_AList. cbn [stop_free forallb is_stop negb andb]. fold (stop_free (enc_list l ++ [OList])).
    rewrite stop_free_app. cbn [stop_free forallb is_stop negb andb]. rewrite andb_true_r.
    induction F as [|x r Hx _ IH]; [reflexivity|]. cbn [enc_list]. rewrite stop_free_app, Hx. exact IH.
  - intros kvs F. destruct kvs as [|kv kvs]; [reflexivity|]. rewrite encode_ADict_cons.
    cbn [stop_free forallb is_stop negb andb]. fold (stop_free (enc_dict (kv :: kvs) ++ [ODict])).
    rewrite stop_free_app. cbn [stop_free forallb is_stop negb andb]. rewrite andb_true_r.
    induction F as [|[k v] r Hx _ IH]; [reflexivity|]. cbn [enc_dict stop_free forallb is_stop negb andb].
    fold (stop_free (encode_obj v ++ enc_dict r)). rewrite stop_free_app. cbn [snd] in Hx. rewrite Hx. exact IH.
Qed.

Lemma stop_free_encode_objs args : stop_free (encode_objs args) = true.
Proof.
  unfold encode_objs. induction args as [|a r IH]; [reflexivity|]. cbn [flat_map].
  rewrite stop_free_app, stop_free_encode_obj. exact IH.
Qed.

Lemma stop_free_call_setup m n args : stop_free (call_setup m n (encode_objs args)) = true.
Proof.
  unfold call_setup. cbn [app stop_free forallb is_stop negb andb].
  fold (stop_free (encode_objs args ++ [OTuple])). rewrite stop_free_app, stop_free_encode_objs. reflexivity.
Qed.

Lemma stop_free_append_ops m n cs pop : stop_free (append_ops m n cs pop) = true.
Proof.
  unfold append_ops. cbn [app stop_free forallb is_stop negb andb].
  fold (stop_free (map OConst cs ++ [OTuple; OReduce] ++ (if pop then [OPop] else []))).
  rewrite stop_free_app, stop_free_consts. destruct pop; reflexivity.
Qed.

Lemma stop_free_callobj_ops fdef fname bc cargs : stop_free (call_on_object_ops fdef fname bc cargs) = true.
Proof.
  unfold call_on_object_ops. repeat rewrite stop_free_app. rewrite !stop_free_append_ops, stop_free_consts.
  destruct bc; [rewrite stop_free_app, stop_free_append_ops|rewrite stop_free_append_ops]; reflexivity.
Qed.

(* a program that is stop-free up to a final STOP *)
Lemma single_stop_intro a :
  stop_free a = true -> ends_with_stop (a ++ [OStop]) = true /\ nstops (a ++ [OStop]) = 1.
Proof.
  intros H. split.
  - unfold ends_with_stop. rewrite last_last. reflexivity.
  - rewrite nstops_app, (stop_free_nstops a H). reflexivity.
Qed.

(* "the base ends in its only STOP" *)
Definition single_final_stop (p : list op) : bool := ends_with_stop p && stop_free (removelast p).

Lemma single_final_stop_inv p :
  single_final_stop p = true -> exists q, p = q ++ [OStop] /\ stop_free q = true.
Proof.
  unfold single_final_stop. intros H. apply andb_prop in H. destruct H as [E S].
  apply ends_with_stop_split in E. destruct E as (q & ->). rewrite removelast_last in S. eauto.
Qed.

Theorem inject_single_final_stop md p p' :
  single_final_stop p = true -> inject md p = Ok p' ->
  nstops p' = 1 /\
  (match md with
   | MMagic _ index => (magic_slot index p < Z.of_nat (List.length p))%Z
   | _ => True
   end -> ends_with_stop p' = true).
Proof.
  intros HS HI. apply single_final_stop_inv in HS. destruct HS as (q0 & -> & SF).
  destruct md as [m n args rf rep|m n cs pop|magic index|fdef fname bc cargs]; cbn [inject] in HI.
  - (* insert_python *)
    apply insert_python_ok in HI. destruct HI as (_ & HI). cbv zeta in HI.
    rewrite insert_block_split in HI.
    set (k := skip_noops q0) in *. set (q := skipn k q0) in *.
    set (blk := call_setup m n (encode_objs args)) in *.
    assert (stop_free blk = true) as SB by apply stop_free_call_setup.
    assert (stop_free q = true) as SQ by (apply stop_free_skipn; exact SF).
    assert (forall pre tail, stop_free pre = true -> stop_free tail = true ->
              stop_free ((repeat ONoop k ++ blk ++ pre ++ q) ++ tail) = true) as ALL.
    { intros pre tail S1 S2. repeat rewrite stop_free_app. rewrite stop_free_repeat, SB, S1, SQ, S2. reflexivity. }
    destruct rf.
    + rewrite skip_noops_app_stop, insert_block_after in HI. fold k in HI.
      replace (repeat ONoop k ++ blk ++ [OReduce] ++ q ++ [OStop])
        with ((repeat ONoop k ++ blk ++ [OReduce] ++ q) ++ [OStop]) in HI
        by (repeat rewrite <- app_assoc; reflexivity).
      rewrite insert_last_seq_app in HI. subst p'. rewrite app_assoc.
      destruct (single_stop_intro _ (ALL [OReduce] _ eq_refl
                  (ltac:(destruct rep; reflexivity) :
                     stop_free (if rep then [OPop] else [OPut KEEP_KEY; OPop; OPop; OGet KEEP_KEY]) = true))) as [E N].
      split; [exact N|intros _; exact E].
    + replace (repeat ONoop k ++ blk ++ q ++ [OStop]) with ((repeat ONoop k ++ blk ++ [] ++ q) ++ [OStop]) in HI
        by (cbn [app]; repeat rewrite <- app_assoc; reflexivity).
      destruct rep.
      * rewrite insert_last_seq_app in HI. subst p'. rewrite app_assoc.
        destruct (single_stop_intro _ (ALL [] [OPop; OReduce] eq_refl eq_refl)) as [E N].
        split; [exact N|intros _; exact E].
      * destruct HI as (f & _ & ->). rewrite insert_last_seq_app, app_assoc.
        destruct (single_stop_intro _ (ALL [] [OMemoize; OPop; OReduce; OPop; OGet (Z.of_nat (List.length (memo f)))]
                                           eq_refl eq_refl)) as [E N].
        split; [exact N|intros _; exact E].
  - (* append_python *)
    apply append_python_ok in HI. destruct HI as (_ & ->). rewrite insert_last_seq_app, app_assoc.
    destruct (single_stop_intro (q0 ++ append_ops m n cs pop)) as [E N].
    { rewrite stop_free_app, SF, stop_free_append_ops. reflexivity. }
    split; [exact N|intros _; exact E].
  - (* insert_magic_int *)
    injection HI as <-. rewrite magic_shape. set (j := magic_pos index (q0 ++ [OStop])).
    split.
    + change (OConst (CInt magic) :: OPop :: skipn j (q0 ++ [OStop]))
        with ([OConst (CInt magic); OPop] ++ skipn j (q0 ++ [OStop])).
      assert (nstops [OConst (CInt magic); OPop] = 0) as Z0 by reflexivity.
      rewrite !nstops_app, Z0.
      replace (nstops (firstn j (q0 ++ [OStop])) + (0 + nstops (skipn j (q0 ++ [OStop]))))
        with (nstops (firstn j (q0 ++ [OStop]) ++ skipn j (q0 ++ [OStop]))) by (rewrite nstops_app; lia).
      rewrite firstn_skipn. apply single_stop_intro. exact SF.
    + intros LT. assert (j <= List.length q0) as L.
      { unfold j, magic_pos. rewrite app_length in *. cbn [List.length] in *. lia. }
      rewrite skipn_app. replace (j - List.length q0) with 0 by lia. cbn [skipn].
      unfold ends_with_stop.
      replace (firstn j (q0 ++ [OStop]) ++ OConst (CInt magic) :: OPop :: skipn j q0 ++ [OStop])
        with ((firstn j (q0 ++ [OStop]) ++ OConst (CInt magic) :: OPop :: skipn j q0) ++ [OStop])
        by (rewrite <- app_assoc; reflexivity).
      rewrite last_last. reflexivity.
  - (* call on object *)
    apply callobj_ok in HI. subst p'. rewrite insert_last_seq_app, app_assoc.
    destruct (single_stop_intro (q0 ++ call_on_object_ops fdef fname bc cargs)) as [E N].
    { rewrite stop_free_app, SF, stop_free_callobj_ops. reflexivity. }
    split; [exact N|intros _; exact E].
Qed.
