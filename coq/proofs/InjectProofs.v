(* C08: lemmas about the injector model (Inject.v) over the reference VM (RefVM.v). *)
From Coq Require Import List String ZArith Bool Arith Lia.
From Verif Require Import Base Ops Interp RefVM Inject.
Import ListNotations.
