(* Lockstep simulation: every opcode preserves the relation R between the reference VM and
   fickling's symbolic interpreter.  C03, C05 (layer A) and the value part of C09 are corollaries. *)
From Coq Require Import List String ZArith Bool Arith Lia.
From Verif Require Import Base Ops AnalysisTable Interp RefVM ShapeProofs SimRel.
Import ListNotations.
Local Open Scope nat_scope.
Local Open Scope list_scope.

(* ---------- list helpers ---------- *)
Lemma Forall2_rev {A B} (P : A -> B -> Prop) l l' : Forall2 P l l' -> Forall2 P (rev l) (rev l').
Proof.
  induction 1 as [|a b l l' H _ IH]; cbn; [constructor|].
  apply Forall2_app; [exact IH | constructor; [exact H | constructor]].
Qed.

Lemma Forall2_nth_error {A B} (P : A -> B -> Prop) l l' :
  Forall2 P l l' -> forall i a b, nth_error l i = Some a -> nth_error l' i = Some b -> P a b.
Proof.
  induction 1 as [|x y l l' H _ IH]; intros i a b Ha Hb.
  - destruct i; discriminate.
  - destruct i; cbn in *; [inversion Ha; inversion Hb; subst; exact H | eauto].
Qed.

Lemma Forall2_set_nth {A B} (P : A -> B -> Prop) l l' :
  Forall2 P l l' -> forall i a b, P a b -> Forall2 P (set_nth i a l) (set_nth i b l').
Proof.
  induction 1 as [|x y l l' H Ht IH]; intros i a b Hab; cbn.
  - destruct i; constructor.
  - destruct i; constructor; auto.
Qed.

Lemma Forall2_length' {A B} (P : A -> B -> Prop) l l' : Forall2 P l l' -> List.length l = List.length l'.
Proof. induction 1; cbn; congruence. Qed.

(* ---------- memo ---------- *)
Lemma rel_memo_remove al k m m' :
  Forall2 (rel_memo al) m m' -> Forall2 (rel_memo al) (memo_remove k m) (memo_remove k m').
Proof.
  induction 1 as [|[k1 e] [k2 x] l l' [H1 H2] _ IH]; cbn; [constructor|].
  cbn in H1. subst k2. destruct (Z.eqb k k1); [exact IH | constructor; [split; auto | exact IH]].
Qed.

Lemma rel_memo_put al k e x m m' :
  rel al e x -> Forall2 (rel_memo al) m m' ->
  Forall2 (rel_memo al) (memo_put k e m) (memo_put k x m').
Proof.
  intros H F. unfold memo_put. constructor; [split; auto | apply rel_memo_remove; exact F].
Qed.

Lemma rel_memo_get al k m m' e x :
  Forall2 (rel_memo al) m m' -> memo_get k m = Some e -> memo_get k m' = Some x -> rel al e x.
Proof.
  induction 1 as [|[k1 e1] [k2 x2] l l' [H1 H2] _ IH]; cbn; [discriminate|].
  cbn in H1. subst k2. destruct (Z.eqb k k1).
  - intros A B. inversion A; inversion B; subst. exact H2.
  - exact IH.
Qed.

(* ---------- stack primitives as state equations ---------- *)
Lemma pop_val_eq s e s1 :
  pop_val s = Ok (e, s1) -> exists r, stack s = IE e :: r /\ s1 = with_stack s r.
Proof.
  unfold pop_val. destruct (stack s) as [|[|x] r] eqn:E; try discriminate.
  intros H; inversion H; subst. eauto.
Qed.

Lemma split_mark_eq st : forall acc items r,
  split_mark st acc = Ok (items, r) ->
  exists top, st = map IE top ++ IMark :: r /\ items = rev top ++ acc.
Proof.
  induction st as [|[|e] st IH]; intros acc items r H; cbn in H; try discriminate.
  - inversion H; subst. exists []. auto.
  - apply IH in H. destruct H as (top & -> & ->). exists (e :: top). cbn.
    rewrite <- app_assoc. auto.
Qed.

Lemma pop_slice_eq s items s1 :
  pop_slice s = Ok (items, s1) ->
  exists top r, stack s = map IE top ++ IMark :: r /\ items = rev top /\ s1 = with_stack s r.
Proof.
  unfold pop_slice. intros H. apply bind_ok in H. destruct H as ([it r] & H1 & H2).
  inversion H2; subst. apply split_mark_eq in H1. destruct H1 as (top & A & B).
  rewrite app_nil_r in B. eauto.
Qed.

Lemma top_val_eq s e : top_val s = Ok e -> exists r, stack s = IE e :: r.
Proof. apply top_val_ok. Qed.

Lemma vpop_eq v x v1 :
  vpop v = Ok (x, v1) -> exists c, cur v = x :: c /\ v1 = with_frames v c (meta v).
Proof.
  unfold vpop. destruct (cur v) eqn:E; try discriminate.
  intros H; inversion H; subst. eauto.
Qed.

Lemma vtop_eq v x : vtop v = Ok x -> exists c, cur v = x :: c.
Proof. apply vtop_ok. Qed.

Lemma vpop_mark_eq v items v1 :
  vpop_mark v = Ok (items, v1) ->
  exists p m, meta v = p :: m /\ items = rev (cur v) /\ v1 = with_frames v p m.
Proof.
  unfold vpop_mark. destruct (meta v) eqn:E; try discriminate.
  intros H; inversion H; subst. eauto.
Qed.

Lemma rel_stack_slice al top : forall r c p m,
  rel_stack al (map IE top ++ IMark :: r) c (p :: m) ->
  Forall2 (rel al) top c /\ rel_stack al r p m.
Proof.
  induction top as [|e top IH]; intros r c p m H; cbn in H.
  - inversion H; subst. split; [constructor | assumption].
  - inversion H; subst. apply IH in H5. destruct H5. split; [constructor; assumption | assumption].
Qed.

(* ---------- R under environment extension ---------- *)
Lemma R_components_ext al al' f v :
  ext al al' -> R al f v ->
  rel_stack al' (stack f) (cur v) (meta v) /\
  Forall2 (rel_memo al') (memo f) (vmemo v) /\
  Forall2 (rel_node al') (nodes f) (heap v) /\
  rel_events al' (body f) (log v).
Proof.
  intros X [A B C D _ _ _]. repeat split;
    eauto using rel_stack_mono, rel_memo_mono, rel_heap_mono, rel_events_mono.
Qed.

Lemma nth_error_snoc {A} (l : list A) x : nth_error (l ++ [x]) (List.length l) = Some x.
Proof. rewrite nth_error_app2, Nat.sub_diag; [reflexivity | lia]. Qed.

(* ---------- the lockstep lemma ---------- *)
Ltac simp_proj :=
  cbn [stack memo nodes body ctr stopped cur meta vmemo heap log nobj vstopped
       with_stack with_frames push vpush' emit vlog set_node vset_obj fst snd] in *.

Ltac eqs :=
  repeat match goal with
  | H : pop_val _ = Ok (_, _) |- _ => apply pop_val_eq in H; destruct H as (? & ? & ?)
  | H : pop_slice _ = Ok (_, _) |- _ => apply pop_slice_eq in H; destruct H as (? & ? & ? & ? & ?)
  | H : top_val _ = Ok _ |- _ => apply top_val_eq in H; destruct H as (? & ?)
  | H : vpop _ = Ok (_, _) |- _ => apply vpop_eq in H; destruct H as (? & ? & ?)
  | H : vtop _ = Ok _ |- _ => apply vtop_eq in H; destruct H as (? & ?)
  | H : vpop_mark _ = Ok (_, _) |- _ => apply vpop_mark_eq in H; destruct H as (? & ? & ? & ? & ?)
  | H : vpush _ _ = Ok _ |- _ => unfold vpush in H; inversion H; subst; clear H
  end.

Ltac sprep := repeat (progress (fk_inv; eqs; subst; simp_proj; inv_pairs; vinv_pairs; crack)).

Ltac use_stack :=
  repeat match goal with
  | E : stack ?s = _, H : rel_stack _ (stack ?s) _ _ |- _ => rewrite E in H
  | E : cur ?v = _, H : rel_stack _ _ (cur ?v) _ |- _ => rewrite E in H
  | E : meta ?v = _, H : rel_stack _ _ _ (meta ?v) |- _ => rewrite E in H
  end.

Ltac inv_rs :=
  repeat match goal with
  | H : rel_stack _ (IE _ :: _) _ _ |- _ => inversion H; subst; clear H
  | H : rel_stack _ (IMark :: _) _ _ |- _ => inversion H; subst; clear H
  | H : rel_stack _ (map IE _ ++ IMark :: _) _ (_ :: _) |- _ =>
      apply rel_stack_slice in H; destruct H
  end.

Ltac goal_eqs :=
  repeat match goal with
  | E : stack ?s = _ |- context[stack ?s] => rewrite E
  | E : cur ?v = _ |- context[cur ?v] => rewrite E
  | E : meta ?v = _ |- context[meta ?v] => rewrite E
  end.

Ltac fin_same al :=
  exists al; split; [apply ext_refl|]; constructor; simp_proj; goal_eqs;
  try assumption; try solve [repeat (constructor; try assumption)].

Ltac sprep0 := repeat (progress (fk_inv; eqs; subst; simp_proj; inv_pairs; vinv_pairs)).

Lemma rs_inv_val al e st c m :
  rel_stack al (IE e :: st) c m -> exists x c', c = x :: c' /\ rel al e x /\ rel_stack al st c' m.
Proof. intros H; inversion H; subst; eauto. Qed.

Lemma rs_inv_mark al st c m :
  rel_stack al (IMark :: st) c m -> exists p m', c = [] /\ m = p :: m' /\ rel_stack al st p m'.
Proof. intros H; inversion H; subst; eauto. Qed.

Lemma rs_inv_nil al c m : rel_stack al [] c m -> c = [] /\ m = [].
Proof. intros H; inversion H; subst; auto. Qed.

Lemma heap_alloc al ns hs n h :
  Forall2 (rel_node al) ns hs -> rel_node al n h ->
  Forall2 (rel_node al) (ns ++ [n]) (hs ++ [h]) /\ List.length ns = List.length hs.
Proof.
  intros F H. split; [apply Forall2_app; [exact F | constructor; [exact H | constructor]] |
                      eapply Forall2_length'; exact F].
Qed.

Definition Goal_ al f' v' := exists al', ext al al' /\ R al' f' v'.

Lemma ls_pop al f v f' v' : R al f v -> step OPop f = Ok f' -> vstep OPop v = Ok v' -> Goal_ al f' v'.
Proof.
  intros [Rs Rm Rh Re Rc Rv Rp] Hs Hv. cbn [step vstep] in *.
  destruct (stack f) as [|[|e] r] eqn:E; [discriminate| |]; inversion Hs; subst; clear Hs.
  - apply rs_inv_mark in Rs. destruct Rs as (p & m' & Ec & Em & Rs). rewrite Ec, Em in Hv.
    inversion Hv; subst; clear Hv. fin_same al.
  - apply rs_inv_val in Rs. destruct Rs as (x & c' & Ec & Hr & Rs). rewrite Ec in Hv.
    inversion Hv; subst; clear Hv. fin_same al.
Qed.

Lemma ls_empty al f v f' v' n h o :
  (o = OEmptyList /\ n = NList [] /\ h = HList []) \/
  (o = OEmptyDict /\ n = NDict [] /\ h = HDict []) \/
  (o = OEmptySet /\ n = NSet [] /\ h = HSet []) ->
  R al f v -> step o f = Ok f' -> vstep o v = Ok v' -> Goal_ al f' v'.
Proof.
  intros Ho [Rs Rm Rh Re Rc Rv Rp] Hs Hv.
  assert (rel_node al n h) as Hn.
  { destruct Ho as [(?&?&?)|[(?&?&?)|(?&?&?)]]; subst; repeat constructor. }
  destruct (heap_alloc _ _ _ _ _ Rh Hn) as [Hh Hl].
  destruct Ho as [(?&?&?)|[(?&?&?)|(?&?&?)]]; subst; cbn [step vstep] in *; sprep0;
    (exists al; split; [apply ext_refl|]; constructor; simp_proj; try assumption;
     rewrite Hl; repeat (constructor; try assumption)).
Qed.

Lemma rel_inv_node al i x : rel al (ENode i) x -> x = VRef i.
Proof. intros H; inversion H; reflexivity. Qed.

Lemma node_lookup al ns hs :
  Forall2 (rel_node al) ns hs -> forall i n, nth_error ns i = Some n ->
  exists h, nth_error hs i = Some h /\ rel_node al n h.
Proof.
  induction 1 as [|a b l l' H Ht IH]; intros i n Hn.
  - destruct i; discriminate.
  - destruct i; cbn in *; [inversion Hn; subst; eauto | eauto].
Qed.

Lemma pairs_rel al : forall n es vs kvs,
  List.length es <= n -> Forall2 (rel al) es vs -> vpairs_of vs = Ok kvs ->
  Forall2 (rel_pair al) (pairs_of es) kvs.
Proof.
  induction n as [|n IH]; intros es vs kvs L F P.
  - destruct es; [|cbn in L; lia]. inversion F; subst. cbn in P. inversion P. constructor.
  - destruct F as [|a b l l' H1 F]; [cbn in P; inversion P; constructor|].
    destruct F as [|a2 b2 l2 l2' H2 F]; [discriminate|].
    cbn [vpairs_of] in P. apply bind_ok in P. destruct P as (t & P & Q). inversion Q; subst.
    cbn [pairs_of]. constructor; [split; assumption|].
    destruct n; [cbn in L; lia|]. apply (IH l2 l2'); [cbn in L; lia | exact F | exact P].
Qed.

(* slice facts in one step *)
Lemma slice_rel al f v top r p m :
  rel_stack al (stack f) (cur v) (meta v) ->
  stack f = map IE top ++ IMark :: r -> meta v = p :: m ->
  Forall2 (rel al) (rev top) (rev (cur v)) /\ rel_stack al r p m.
Proof.
  intros Rs E M. rewrite E, M in Rs. apply rel_stack_slice in Rs. destruct Rs as [A B].
  split; [apply Forall2_rev; exact A | exact B].
Qed.

Ltac slice :=
  match goal with
  | Rs : rel_stack _ (stack ?f) (cur ?v) (meta ?v),
    E : stack ?f = map IE _ ++ IMark :: _, M : meta ?v = _ :: _ |- _ =>
      let A := fresh "Hitems" in let B := fresh "Hrest" in
      destruct (slice_rel _ _ _ _ _ _ _ Rs E M) as [A B]
  end.

Lemma ls_tuple al f v f' v' : R al f v -> step OTuple f = Ok f' -> vstep OTuple v = Ok v' -> Goal_ al f' v'.
Proof.
  intros [Rs Rm Rh Re Rc Rv Rp] Hs Hv. cbn [step vstep] in *. sprep0. slice.
  exists al; split; [apply ext_refl|]; constructor; simp_proj; try assumption.
  constructor; [constructor; assumption | assumption].
Qed.

Lemma ls_frozenset al f v f' v' :
  R al f v -> step OFrozenSet f = Ok f' -> vstep OFrozenSet v = Ok v' -> Goal_ al f' v'.
Proof.
  intros [Rs Rm Rh Re Rc Rv Rp] Hs Hv. cbn [step vstep] in *. sprep0. slice.
  destruct (forallb hashable (rev (cur v))); [|discriminate]. inversion Hv; subst; clear Hv.
  exists al; split; [apply ext_refl|]; constructor; simp_proj; try assumption.
  constructor; [constructor; assumption | assumption].
Qed.

Lemma ls_list al f v f' v' : R al f v -> step OList f = Ok f' -> vstep OList v = Ok v' -> Goal_ al f' v'.
Proof.
  intros [Rs Rm Rh Re Rc Rv Rp] Hs Hv. cbn [step vstep] in *. sprep0. slice.
  destruct (heap_alloc al _ _ (NList (rev x)) (HList (rev (cur v))) Rh) as [Hh Hl]; [constructor; assumption|].
  exists al; split; [apply ext_refl|]; constructor; simp_proj; try assumption.
  rewrite Hl. constructor; [constructor | assumption].
Qed.

Lemma ls_dict al f v f' v' : R al f v -> step ODict f = Ok f' -> vstep ODict v = Ok v' -> Goal_ al f' v'.
Proof.
  intros [Rs Rm Rh Re Rc Rv Rp] Hs Hv. cbn [step vstep] in *. sprep0. slice.
  destruct (Nat.even _); [|discriminate].
  match goal with H : (if ?c then _ else _) = Ok _ |- _ => destruct c; [|discriminate] end.
  sprep0.
  match goal with P : vpairs_of _ = Ok ?kvs |- _ =>
    pose proof (pairs_rel al _ _ _ _ (le_n _) Hitems P) as Hp end.
  match goal with |- context[NDict ?a] => match goal with |- context[HDict ?b] =>
    destruct (heap_alloc al _ _ (NDict a) (HDict b) Rh) as [Hh Hl]; [constructor; assumption|] end end.
  exists al; split; [apply ext_refl|]; constructor; simp_proj; try assumption.
  rewrite Hl. constructor; [constructor | assumption].
Qed.

(* in-place updates *)
Lemma ls_append al f v f' v' : R al f v -> step OAppend f = Ok f' -> vstep OAppend v = Ok v' -> Goal_ al f' v'.
Proof.
  intros [Rs Rm Rh Re Rc Rv Rp] Hs Hv. cbn [step vstep] in *. sprep0.
  destruct x as [|[|[]] r]; try discriminate.
  match goal with H : context[get_node ?i _] |- _ => destruct (get_node i _) as [[l0| |]|] eqn:G; try discriminate end.
  inversion Hs; subst; clear Hs. unfold get_node in G. simp_proj.
  rewrite H0, H in Rs.
  apply rs_inv_val in Rs. destruct Rs as (a & c1 & E1 & Ra & Rs).
  inversion E1; subst; clear E1.
  apply rs_inv_val in Rs. destruct Rs as (b & c2 & E2 & Rb & Rs).
  inversion E2; subst; clear E2.
  apply rel_inv_node in Rb. subst.
  destruct (node_lookup _ _ _ Rh _ _ G) as (h & Gh & Hn).
  unfold vget_obj in Hv. simp_proj. rewrite Gh in Hv. inversion Hn; subst.
  inversion Hv; subst; clear Hv. unfold Goal_.
  exists al; split; [apply ext_refl|]; constructor; simp_proj; try assumption.
  - constructor; [constructor | assumption].
  - apply Forall2_set_nth; [assumption|]. constructor.
    apply Forall2_app; [assumption | repeat constructor; assumption].
Qed.

Ltac pops Rs :=
  repeat (let a := fresh "a" in let c := fresh "c" in let E := fresh "E" in let Ra := fresh "Ra" in
          apply rs_inv_val in Rs; destruct Rs as (a & c & E & Ra & Rs); inversion E; subst; clear E).

Ltac crack_fk Hs :=
  repeat match type of Hs with
  | match ?x with _ => _ end = Ok _ => destruct x eqn:?; try discriminate Hs
  end.

Lemma ls_appends al f v f' v' : R al f v -> step OAppends f = Ok f' -> vstep OAppends v = Ok v' -> Goal_ al f' v'.
Proof.
  intros [Rs Rm Rh Re Rc Rv Rp] Hs Hv. cbn [step vstep] in *. sprep0. slice.
  match type of Hs with match ?r with _ => _ end = _ => destruct r as [|[|[]] r']; try discriminate end.
  match goal with H : context[get_node ?i _] |- _ => destruct (get_node i _) as [[l0| |]|] eqn:G; try discriminate end.
  inversion Hs; subst; clear Hs. unfold get_node in G. simp_proj.
  pops Hrest. match goal with H : rel al (ENode _) _ |- _ => apply rel_inv_node in H; subst end.
  destruct (node_lookup _ _ _ Rh _ _ G) as (h & Gh & Hn).
  unfold vget_obj in Hv. simp_proj. rewrite Gh in Hv. inversion Hn; subst.
  inversion Hv; subst; clear Hv. unfold Goal_.
  exists al; split; [apply ext_refl|]; constructor; simp_proj; try assumption.
  - constructor; [constructor | assumption].
  - apply Forall2_set_nth; [assumption|]. constructor. apply Forall2_app; assumption.
Qed.

Lemma ls_additems al f v f' v' : R al f v -> step OAddItems f = Ok f' -> vstep OAddItems v = Ok v' -> Goal_ al f' v'.
Proof.
  intros [Rs Rm Rh Re Rc Rv Rp] Hs Hv. cbn [step vstep] in *. sprep0. slice.
  match type of Hs with match ?r with _ => _ end = _ => destruct r as [|[|[]] r']; try discriminate end.
  match goal with H : context[get_node ?i _] |- _ => destruct (get_node i _) as [[|l0|]|] eqn:G; try discriminate end.
  inversion Hs; subst; clear Hs. unfold get_node in G. simp_proj.
  pops Hrest. match goal with H : rel al (ENode _) _ |- _ => apply rel_inv_node in H; subst end.
  destruct (node_lookup _ _ _ Rh _ _ G) as (h & Gh & Hn).
  unfold vget_obj in Hv. simp_proj. rewrite Gh in Hv. inversion Hn; subst.
  destruct (forallb hashable _); [|discriminate].
  inversion Hv; subst; clear Hv. unfold Goal_.
  exists al; split; [apply ext_refl|]; constructor; simp_proj; try assumption.
  - constructor; [constructor | assumption].
  - apply Forall2_set_nth; [assumption|]. constructor. apply Forall2_app; assumption.
Qed.

(* ---------- binding a fresh variable ---------- *)
Lemma newvar_env al f v x :
  R al f v -> callable x = true ->
  ext al (al ++ [x]) /\
  nth_error (al ++ [x]) (ctr f) = Some x /\
  S (ctr f) = List.length (al ++ [x]) /\
  Forall (fun y => callable y = true) (al ++ [x]) /\
  rel_stack (al ++ [x]) (stack f) (cur v) (meta v) /\
  Forall2 (rel_memo (al ++ [x])) (memo f) (vmemo v) /\
  Forall2 (rel_node (al ++ [x])) (nodes f) (heap v) /\
  rel_events (al ++ [x]) (body f) (log v).
Proof.
  intros HR Hc. pose proof (ext_app al x) as X.
  destruct (R_components_ext _ _ _ _ X HR) as (A & B & C & D).
  destruct HR as [_ _ _ _ Rc Rv _].
  repeat split; try assumption.
  - rewrite Rc. apply nth_error_snoc.
  - rewrite app_length, Rc. cbn. lia.
  - apply Forall_app. split; [assumption | repeat constructor; assumption].
Qed.

Lemma lookup_none al ns hs i :
  Forall2 (rel_node al) ns hs -> nth_error ns i = None -> nth_error hs i = None.
Proof.
  intros F H. apply nth_error_None. apply nth_error_None in H.
  rewrite <- (Forall2_length' _ _ _ F). exact H.
Qed.

Lemma env_callable al i x : Forall (fun y => callable y = true) al -> nth_error al i = Some x -> callable x = true.
Proof. intros F H. rewrite Forall_forall in F. apply F. eapply nth_error_In; eauto. Qed.

Lemma Rp_mono al al' f v : ext al al' ->
  match vstopped v with
  | None => stopped f = false
  | Some x => stopped f = true /\ exists e b, body f = SResult e :: b /\ rel al e x
  end ->
  vstopped v = None -> stopped f = false.
Proof. intros _ H E. rewrite E in H. exact H. Qed.

Ltac var_path al HR a1 Hcall :=
  match goal with Hs : Ok _ = Ok _ |- _ => inversion Hs; subst; clear Hs end;
  match goal with Hv : Ok _ = Ok _ |- _ => inversion Hv; subst; clear Hv end;
  let X := fresh "X" in let N := fresh "N" in let L := fresh "L" in let Fv := fresh "Fv" in
  let S' := fresh "S'" in let M' := fresh "M'" in let H' := fresh "H'" in let E' := fresh "E'" in
  destruct (newvar_env _ _ _ a1 HR Hcall) as (X & N & L & Fv & S' & M' & H' & E');
  unfold Goal_; exists (al ++ [a1]); split; [exact X|]; constructor; simp_proj;
  try assumption.

Lemma ls_setitem al f v f' v' :
  vstopped v = None ->
  R al f v -> step OSetItem f = Ok f' -> vstep OSetItem v = Ok v' -> Goal_ al f' v'.
Proof.
  intros NS HR Hs Hv. pose proof HR as [Rs Rm Rh Re Rc Rv Rp]. cbn [step vstep] in *. sprep0.
  match goal with E1 : stack f = _, E2 : cur v = _ |- _ => rewrite E1, E2 in Rs end. pops Rs.
  rewrite NS in Rp.
  inversion Ra1; subst; cbn in Hs, Hv; try discriminate.
  - (* a global stand-in *)
    var_path al HR (VGlobal m n) (eq_refl true).
    + constructor; [constructor; exact N | eapply rel_stack_mono; eauto].
    + eapply RE_setitem; [exact N | eapply rel_mono; eauto | eapply rel_mono; eauto |].
      eapply RE_alias; [eapply rel_mono; eauto | exact N | exact E'].
    + rewrite NS; exact Rp.
  - (* a node *)
    destruct (get_node i _) as [nd|] eqn:G; unfold get_node in G; simp_proj.
    + destruct (node_lookup _ _ _ Rh _ _ G) as (h & Gh & Hn).
      unfold vget_obj in Hv; simp_proj. rewrite Gh in Hv.
      inversion Hn; subst; try discriminate.
      destruct (hashable a0); [|discriminate].
      inversion Hs; subst; clear Hs. inversion Hv; subst; clear Hv. unfold Goal_.
      exists al; split; [apply ext_refl|]; constructor; simp_proj; try assumption.
      * constructor; [constructor | assumption].
      * apply Forall2_set_nth; [assumption|]. constructor.
        apply Forall2_app; [assumption | constructor; [split; assumption | constructor]].
      * rewrite NS; exact Rp.
    + unfold vget_obj in Hv; simp_proj. rewrite (lookup_none _ _ _ _ Rh G) in Hv. discriminate.
  - (* a variable: bound to a stand-in *)
    match goal with H : nth_error al _ = Some ?x |- _ => pose proof (env_callable _ _ _ Rv H) as Hc end.
    destruct a1; try discriminate Hc.
    + var_path al HR (VGlobal m n) (eq_refl true).
      * constructor; [constructor; exact N | eapply rel_stack_mono; eauto].
      * eapply RE_setitem; [exact N | eapply rel_mono; eauto | eapply rel_mono; eauto |].
        eapply RE_alias; [eapply rel_mono; eauto | exact N | exact E'].
      * rewrite NS; exact Rp.
    + var_path al HR (VObj k) (eq_refl true).
      * constructor; [constructor; exact N | eapply rel_stack_mono; eauto].
      * eapply RE_setitem; [exact N | eapply rel_mono; eauto | eapply rel_mono; eauto |].
        eapply RE_alias; [eapply rel_mono; eauto | exact N | exact E'].
      * rewrite NS; exact Rp.
Qed.

Lemma fold_vlog_eq d kvs : forall s,
  fold_left (fun st kv => vlog (EvSetItem d (fst kv) (snd kv)) st) kvs s =
  mkVm (cur s) (meta s) (vmemo s) (heap s)
       (rev (map (fun kv => EvSetItem d (fst kv) (snd kv)) kvs) ++ log s) (nobj s) (vstopped s).
Proof.
  induction kvs as [|kv r IH]; intros s; cbn.
  - destruct s; reflexivity.
  - rewrite IH. cbn. rewrite <- app_assoc. reflexivity.
Qed.

Lemma fold_emit_eq name (kvs : list (expr * expr)) : forall s,
  fold_left (fun st kv => emit (SSetItemV name (fst kv) (snd kv)) st) kvs s =
  mkFk (stack s) (memo s) (nodes s)
       (rev (map (fun kv => SSetItemV name (fst kv) (snd kv)) kvs) ++ body s) (ctr s) (stopped s).
Proof.
  induction kvs as [|kv r IH]; intros s; cbn.
  - destruct s; reflexivity.
  - rewrite IH. cbn. rewrite <- app_assoc. reflexivity.
Qed.

(* SETITEMS on an object: one item assignment per pair, statement by statement against the log *)
Lemma rel_events_setitems al i obj : forall kvs kvs' b l,
  nth_error al i = Some obj -> Forall2 (rel_pair al) kvs kvs' -> rel_events al b l ->
  rel_events al (rev (map (fun kv => SSetItemV i (fst kv) (snd kv)) kvs) ++ b)
             (rev (map (fun kv => EvSetItem obj (fst kv) (snd kv)) kvs') ++ l).
Proof.
  intros kvs kvs' b l N F. revert b l. induction F as [|p q kvs kvs' [H1 H2] _ IH]; intros b l E.
  - exact E.
  - cbn. rewrite <- !app_assoc. apply IH. cbn. eapply RE_setitem; eauto.
Qed.

Lemma ls_setitems al f v f' v' :
  vstopped v = None ->
  R al f v -> step OSetItems f = Ok f' -> vstep OSetItems v = Ok v' -> Goal_ al f' v'.
Proof.
  intros NS HR Hs Hv. pose proof HR as [Rs Rm Rh Re Rc Rv Rp]. cbn [step vstep] in *. sprep0. slice.
  pops Hrest. rewrite NS in Rp.
  match goal with P : vpairs_of _ = Ok ?kvs |- _ =>
    pose proof (pairs_rel al _ _ _ _ (le_n _) Hitems P) as Hp end.
  assert (forall x' : val, callable x' = true -> a = x' ->
            forall fz vz,
            Ok (push (EVar (ctr f))
                  (fold_left (fun st kv => emit (SSetItemV (ctr f) (fst kv) (snd kv)) st) (pairs_of (rev x0))
                        (snd (new_variable e (with_stack (with_stack f (IE e :: x)) x))))) = Ok fz ->
            Ok (fold_left (fun st kv => vlog (EvSetItem x' (fst kv) (snd kv)) st) x2
                          (with_frames v (a :: c) x6)) = Ok vz ->
            Goal_ al fz vz) as VP.
  { intros x' Hc -> fz vz E1 E2. rewrite fold_vlog_eq in E2. rewrite fold_emit_eq in E1.
    inversion E1; subst; clear E1. inversion E2; subst; clear E2.
    destruct (newvar_env _ _ _ x' HR Hc) as (X & N & L & Fv & S' & M' & H' & E').
    unfold Goal_; exists (al ++ [x']); split; [exact X|]; constructor; simp_proj; try assumption.
    - constructor; [constructor; exact N | eapply rel_stack_mono; eauto].
    - apply rel_events_setitems; [exact N | eapply rel_pairs_mono; eauto |].
      eapply RE_alias; [eapply rel_mono; eauto | exact N | exact E'].
    - rewrite NS; exact Rp. }
  inversion Ra; subst; cbn in Hs, Hv; try discriminate.
  - eapply VP; eauto. reflexivity.
  - destruct (get_node i _) as [nd|] eqn:G; unfold get_node in G; simp_proj.
    + destruct (node_lookup _ _ _ Rh _ _ G) as (h & Gh & Hn).
      unfold vget_obj in Hv; simp_proj. rewrite Gh in Hv.
      inversion Hn; subst; try discriminate.
      destruct (forallb _ x2); [|discriminate].
      inversion Hs; subst; clear Hs. inversion Hv; subst; clear Hv. unfold Goal_.
      exists al; split; [apply ext_refl|]; constructor; simp_proj; try assumption.
      * constructor; [constructor | assumption].
      * apply Forall2_set_nth; [assumption|]. constructor. apply Forall2_app; assumption.
      * rewrite NS; exact Rp.
    + unfold vget_obj in Hv; simp_proj. rewrite (lookup_none _ _ _ _ Rh G) in Hv. discriminate.
  - match goal with H : nth_error al _ = Some ?x |- _ => pose proof (env_callable _ _ _ Rv H) as Hc end.
    destruct a; try discriminate Hc; eapply VP; eauto; reflexivity.
Qed.

(* ---------- calls, imports ---------- *)
Lemma R_restack al f v r c m :
  R al f v -> rel_stack al r c m -> R al (with_stack f r) (with_frames v c m).
Proof. intros [Rs Rm Rh Re Rc Rv Rp] H. constructor; simp_proj; assumption. Qed.

Lemma call_step al f v fe args kw f' args' kw' v' :
  vstopped v = None -> R al f v ->
  rel al fe f' -> Forall2 (rel al) args args' -> rel_opt al kw kw' ->
  do_call f' args' kw' v = Ok v' ->
  Goal_ al (bind_call (ECall fe args kw) f) v'.
Proof.
  intros NS HR Hf Ha Hk Hc. pose proof HR as [Rs Rm Rh Re Rc Rv Rp]. rewrite NS in Rp.
  unfold do_call in Hc. destruct (callable f'); [|discriminate].
  unfold fresh_obj, vpush in Hc. cbn in Hc. inversion Hc; subst; clear Hc.
  destruct (newvar_env _ _ _ (VObj (nobj v)) HR (eq_refl true)) as (X & N & L & Fv & S' & M' & H' & E').
  unfold Goal_, bind_call, new_variable. cbn.
  exists (al ++ [VObj (nobj v)]); split; [exact X|]; constructor; simp_proj; try assumption.
  - constructor; [constructor; exact N | exact S'].
  - eapply RE_call; eauto using rel_mono, rel_list_mono, rel_opt_mono.
  - rewrite NS; exact Rp.
Qed.

Lemma import_step al f v m n :
  vstopped v = None -> R al f v -> R al (emit_import m n f) (vlog (EvResolve m n) v).
Proof.
  intros NS [Rs Rm Rh Re Rc Rv Rp]. rewrite NS in Rp. unfold emit_import.
  destruct (is_builtins m) eqn:B; constructor; simp_proj; try assumption.
  - apply RE_builtin; assumption.
  - rewrite NS; exact Rp.
  - apply RE_import; assumption.
  - rewrite NS; exact Rp.
Qed.

Lemma rel_tuple_args al args l' :
  Forall (fun y => callable y = true) al -> rel al args (VTuple l') ->
  exists l, args = ETuple l /\ Forall2 (rel al) l l'.
Proof.
  intros Fv H. inversion H; subst; eauto.
  exfalso. pose proof (env_callable _ _ _ Fv H0) as C. discriminate C.
Qed.

Lemma ls_reduce al f v f' v' :
  vstopped v = None ->
  R al f v -> step OReduce f = Ok f' -> vstep OReduce v = Ok v' -> Goal_ al f' v'.
Proof.
  intros NS HR Hs Hv. pose proof HR as [Rs Rm Rh Re Rc Rv Rp]. cbn [step vstep] in *. sprep0.
  match goal with E1 : stack f = _, E2 : cur v = _ |- _ => rewrite E1, E2 in Rs end. pops Rs.
  destruct a; try discriminate.
  destruct (rel_tuple_args _ _ _ Rv Ra) as (l0 & -> & Hl). cbn [call_with].
  eapply call_step; [ | | exact Ra0 | exact Hl | | exact Hv];
    [exact NS | constructor; simp_proj; assumption | exact I].
Qed.

Lemma ls_newobj al f v f' v' :
  vstopped v = None ->
  R al f v -> step ONewObj f = Ok f' -> vstep ONewObj v = Ok v' -> Goal_ al f' v'.
Proof.
  intros NS HR Hs Hv. pose proof HR as [Rs Rm Rh Re Rc Rv Rp]. cbn [step vstep] in *. sprep0.
  match goal with E1 : stack f = _, E2 : cur v = _ |- _ => rewrite E1, E2 in Rs end. pops Rs.
  destruct a; try discriminate.
  destruct (rel_tuple_args _ _ _ Rv Ra) as (l0 & -> & Hl). cbn [call_with].
  eapply call_step; [ | | exact Ra0 | exact Hl | | exact Hv];
    [exact NS | constructor; simp_proj; assumption | exact I].
Qed.

Lemma ls_newobjex al f v f' v' :
  vstopped v = None ->
  R al f v -> step ONewObjEx f = Ok f' -> vstep ONewObjEx v = Ok v' -> Goal_ al f' v'.
Proof.
  intros NS HR Hs Hv. pose proof HR as [Rs Rm Rh Re Rc Rv Rp]. cbn [step vstep] in *. sprep0.
  match goal with E1 : stack f = _, E2 : cur v = _ |- _ => rewrite E1, E2 in Rs end. pops Rs.
  destruct a0; try discriminate. destruct a; try discriminate.
  destruct (vget_obj _ _) as [[]|]; try discriminate.
  destruct (rel_tuple_args _ _ _ Rv Ra0) as (l0 & -> & Hl). cbn [call_with].
  eapply call_step; [ | | exact Ra1 | exact Hl | | exact Hv];
    [exact NS | constructor; simp_proj; assumption | exact Ra].
Qed.

Lemma ls_obj al f v f' v' :
  vstopped v = None ->
  R al f v -> step OObj f = Ok f' -> vstep OObj v = Ok v' -> Goal_ al f' v'.
Proof.
  intros NS HR Hs Hv. pose proof HR as [Rs Rm Rh Re Rc Rv Rp]. cbn [step vstep] in *. sprep0. slice.
  destruct (rev x) as [|k args]; [discriminate|]. destruct (rev (cur v)) as [|k' args']; [discriminate|].
  inversion Hitems; subst. inversion Hs; subst; clear Hs.
  eapply call_step; [ | | eassumption | eassumption | | exact Hv];
    [exact NS | constructor; simp_proj; assumption | exact I].
Qed.

Lemma ls_inst al f v f' v' m n :
  vstopped v = None ->
  R al f v -> step (OInst m n) f = Ok f' -> vstep (OInst m n) v = Ok v' -> Goal_ al f' v'.
Proof.
  intros NS HR Hs Hv. pose proof HR as [Rs Rm Rh Re Rc Rv Rp]. cbn [step vstep] in *. sprep0. slice.
  destruct (plain m && plain n); [|discriminate]. inversion Hs; subst; clear Hs.
  eapply call_step; [ | | | | | exact Hv]; [exact NS | | constructor | exact Hitems | exact I].
  apply import_step; [exact NS|]. constructor; simp_proj; assumption.
Qed.

Lemma ls_stop al f v f' v' :
  R al f v -> step OStop f = Ok f' -> vstep OStop v = Ok v' -> Goal_ al f' v'.
Proof.
  intros [Rs Rm Rh Re Rc Rv Rp] Hs Hv. cbn [step vstep] in *. sprep0.
  match goal with E1 : stack f = _, E2 : cur v = _ |- _ => rewrite E1, E2 in Rs end. pops Rs.
  unfold Goal_. exists al; split; [apply ext_refl|]; constructor; simp_proj; try assumption.
  - eapply RE_result; eauto.
  - split; [reflexivity | eauto].
Qed.

Lemma ls_global al f v f' v' m n :
  vstopped v = None ->
  R al f v -> step (OGlobal m n) f = Ok f' -> vstep (OGlobal m n) v = Ok v' -> Goal_ al f' v'.
Proof.
  intros NS HR Hs Hv. cbn [step vstep] in *. unfold find_class in Hv.
  destruct (plain m && plain n); [|discriminate].
  inversion Hs; subst; clear Hs. unfold vpush in Hv. inversion Hv; subst; clear Hv.
  destruct (import_step al f v m n NS HR) as [Rs Rm Rh Re Rc Rv Rp].
  unfold Goal_. exists al; split; [apply ext_refl|]; constructor; simp_proj; try assumption.
  constructor; [constructor | assumption].
Qed.

Lemma rel_inv_str al s x : rel al (EConst (CStr s)) x -> x = VConst (CStr s).
Proof. intros H; inversion H; reflexivity. Qed.

Lemma ls_stackglobal al f v f' v' :
  vstopped v = None ->
  R al f v -> step OStackGlobal f = Ok f' -> vstep OStackGlobal v = Ok v' -> Goal_ al f' v'.
Proof.
  intros NS HR Hs Hv. pose proof HR as [Rs Rm Rh Re Rc Rv Rp]. cbn [step vstep] in *. sprep0.
  match goal with E1 : stack f = _, E2 : cur v = _ |- _ => rewrite E1, E2 in Rs end. pops Rs.
  destruct e0 as [[]| | | | | | | | |]; try discriminate.
  destruct e as [[]| | | | | | | | |]; try discriminate.
  apply rel_inv_str in Ra, Ra0. subst. cbn in Hv. unfold find_class in Hv.
  destruct (plain _ && plain _); [|discriminate].
  inversion Hs; subst; clear Hs. unfold vpush in Hv. inversion Hv; subst; clear Hv.
  match goal with |- Goal_ _ (push _ (emit_import ?m ?n ?f0)) (vpush' _ (vlog _ ?v0)) =>
    assert (R al f0 v0) as HR0 by (constructor; simp_proj; assumption);
    destruct (import_step al f0 v0 m n NS HR0) as [Rs' Rm' Rh' Re' Rc' Rv' Rp'] end.
  unfold Goal_. exists al; split; [apply ext_refl|]; constructor; simp_proj; try assumption.
  constructor; [constructor | assumption].
Qed.

Lemma ls_build al f v f' v' :
  vstopped v = None ->
  R al f v -> step OBuild f = Ok f' -> vstep OBuild v = Ok v' -> Goal_ al f' v'.
Proof.
  intros NS HR Hs Hv. pose proof HR as [Rs Rm Rh Re Rc Rv Rp]. cbn [step vstep] in *. sprep0.
  match goal with E1 : stack f = _, E2 : cur v = _ |- _ => rewrite E1, E2 in Rs end. pops Rs.
  rewrite NS in Rp.
  destruct (callable a0) eqn:Hc; [|discriminate]. inversion Hv; subst; clear Hv.
  destruct (newvar_env _ _ _ a0 HR Hc) as (X & N & L & Fv & S' & M' & H' & E').
  unfold Goal_; exists (al ++ [a0]); split; [exact X|]; constructor; simp_proj; try assumption.
  - constructor; [constructor; exact N | eapply rel_stack_mono; eauto].
  - eapply RE_setstate; [exact N | eapply rel_mono; eauto |].
    eapply RE_alias; [eapply rel_mono; eauto | exact N | exact E'].
  - rewrite NS; exact Rp.
Qed.

Lemma ls_binpersid al f v f' v' :
  vstopped v = None ->
  R al f v -> step OBinPersId f = Ok f' -> vstep OBinPersId v = Ok v' -> Goal_ al f' v'.
Proof.
  intros NS HR Hs Hv. pose proof HR as [Rs Rm Rh Re Rc Rv Rp]. cbn [step vstep] in *. sprep0.
  match goal with E1 : stack f = _, E2 : cur v = _ |- _ => rewrite E1, E2 in Rs end. pops Rs.
  rewrite NS in Rp.
  destruct (newvar_env _ _ _ (VObj (nobj v)) HR (eq_refl true)) as (X & N & L & Fv & S' & M' & H' & E').
  unfold Goal_, bind_call, new_variable; cbn.
  exists (al ++ [VObj (nobj v)]); split; [exact X|]; constructor; simp_proj; try assumption.
  - constructor; [constructor; exact N | eapply rel_stack_mono; eauto].
  - eapply RE_pers; [eapply rel_mono; eauto | exact N | exact E'].
  - rewrite NS; exact Rp.
Qed.

Lemma ls_put al f v f' v' k :
  R al f v -> step (OPut k) f = Ok f' -> vstep (OPut k) v = Ok v' -> Goal_ al f' v'.
Proof.
  intros [Rs Rm Rh Re Rc Rv Rp] Hs Hv. cbn [step vstep] in *. sprep0.
  destruct (k <? 0)%Z; [discriminate|]. inversion Hv; subst; clear Hv.
  pose proof Rs as Rs0.
  match goal with E1 : stack f = _, E2 : cur v = _ |- _ => rewrite E1, E2 in Rs0 end.
  apply rs_inv_val in Rs0. destruct Rs0 as (a & c & E & Ra & _). inversion E; subst.
  unfold Goal_. exists al; split; [apply ext_refl|]; constructor; simp_proj; try assumption.
  apply rel_memo_put; assumption.
Qed.

Lemma ls_memoize al f v f' v' :
  R al f v -> step OMemoize f = Ok f' -> vstep OMemoize v = Ok v' -> Goal_ al f' v'.
Proof.
  intros [Rs Rm Rh Re Rc Rv Rp] Hs Hv. cbn [step vstep] in *. sprep0.
  pose proof Rs as Rs0.
  match goal with E1 : stack f = _, E2 : cur v = _ |- _ => rewrite E1, E2 in Rs0 end.
  apply rs_inv_val in Rs0. destruct Rs0 as (a & c & E & Ra & _). inversion E; subst.
  unfold Goal_. exists al; split; [apply ext_refl|]; constructor; simp_proj; try assumption.
  rewrite (Forall2_length' _ _ _ Rm). apply rel_memo_put; assumption.
Qed.

Lemma ls_get al f v f' v' k :
  R al f v -> step (OGet k) f = Ok f' -> vstep (OGet k) v = Ok v' -> Goal_ al f' v'.
Proof.
  intros [Rs Rm Rh Re Rc Rv Rp] Hs Hv. cbn [step vstep] in *.
  destruct (memo_get k (memo f)) eqn:G1; [|discriminate].
  destruct (memo_get k (vmemo v)) eqn:G2; [|discriminate].
  inversion Hs; subst; clear Hs. unfold vpush in Hv. inversion Hv; subst; clear Hv.
  pose proof (rel_memo_get _ _ _ _ _ _ Rm G1 G2) as Hr.
  unfold Goal_. exists al; split; [apply ext_refl|]; constructor; simp_proj; try assumption.
  constructor; assumption.
Qed.

Lemma ls_simple al f v f' v' o :
  match o with
  | OConst _ | OMark | OPopMark | ODup | OEmptyTuple | OTuple1 | OTuple2 | OTuple3 | ONoop | ONoRun => True
  | _ => False
  end ->
  R al f v -> step o f = Ok f' -> vstep o v = Ok v' -> Goal_ al f' v'.
Proof.
  intros Ho [Rs Rm Rh Re Rc Rv Rp] Hs Hv.
  destruct o; try contradiction; cbn [step vstep] in *; sprep0; use_stack; inv_rs;
    try discriminate; unfold Goal_; fin_same al.
Qed.

(* ---------- all opcodes ---------- *)
Theorem lockstep o al f v f' v' :
  vstopped v = None -> R al f v -> step o f = Ok f' -> vstep o v = Ok v' ->
  exists al', ext al al' /\ R al' f' v'.
Proof.
  intros NS HR Hs Hv. change (Goal_ al f' v').
  destruct o.
  - eapply ls_simple; eauto; exact I.
  - eapply ls_simple; eauto; exact I.
  - eapply ls_stop; eauto.
  - eapply ls_pop; eauto.
  - eapply ls_simple; eauto; exact I.
  - eapply ls_simple; eauto; exact I.
  - eapply (ls_empty al f v f' v' (NList []) (HList []) OEmptyList); eauto.
  - eapply (ls_empty al f v f' v' (NDict []) (HDict []) OEmptyDict); eauto 6.
  - eapply (ls_empty al f v f' v' (NSet []) (HSet []) OEmptySet); eauto 6.
  - eapply ls_simple; eauto; exact I.
  - eapply ls_append; eauto.
  - eapply ls_appends; eauto.
  - eapply ls_list; eauto.
  - eapply ls_tuple; eauto.
  - eapply ls_simple; eauto; exact I.
  - eapply ls_simple; eauto; exact I.
  - eapply ls_simple; eauto; exact I.
  - eapply ls_dict; eauto.
  - eapply ls_setitem; eauto.
  - eapply ls_setitems; eauto.
  - eapply ls_additems; eauto.
  - eapply ls_frozenset; eauto.
  - eapply ls_global; eauto.
  - eapply ls_stackglobal; eauto.
  - eapply ls_inst; eauto.
  - eapply ls_obj; eauto.
  - eapply ls_newobj; eauto.
  - eapply ls_newobjex; eauto.
  - eapply ls_reduce; eauto.
  - eapply ls_build; eauto.
  - eapply ls_binpersid; eauto.
  - eapply ls_put; eauto.
  - eapply ls_get; eauto.
  - eapply ls_memoize; eauto.
  - eapply ls_simple; eauto; exact I.
  - eapply ls_simple; eauto; exact I.
Qed.

Lemma ext_trans a b c : ext a b -> ext b c -> ext a c.
Proof. intros X Y i x H. apply Y, X, H. Qed.

Lemma R_stopped_agree al f v : R al f v -> stopped f = is_stopped v.
Proof.
  intros [_ _ _ _ _ _ Rp]. unfold is_stopped. destruct (vstopped v); [destruct Rp; assumption | assumption].
Qed.

Theorem run_lockstep : forall p al f v f' v',
  R al f v -> run_from p f = Ok f' -> vrun_from p v = Ok v' ->
  exists al', ext al al' /\ R al' f' v'.
Proof.
  induction p as [|o r IH]; intros al f v f' v' HR Hs Hv; cbn [run_from vrun_from] in *.
  - inversion Hs; inversion Hv; subst. exists al. split; [apply ext_refl | exact HR].
  - pose proof (R_stopped_agree _ _ _ HR) as St. rewrite <- St in Hv.
    destruct (stopped f) eqn:Sf.
    + inversion Hs; inversion Hv; subst. exists al. split; [apply ext_refl | exact HR].
    + apply bind_ok in Hs. destruct Hs as (f1 & S1 & Hs).
      apply bind_ok in Hv. destruct Hv as (v1 & V1 & Hv).
      assert (vstopped v = None) as NS.
      { unfold is_stopped in St. destruct (vstopped v); [discriminate | reflexivity]. }
      destruct (lockstep _ _ _ _ _ _ NS HR S1 V1) as (al1 & X1 & R1).
      destruct (IH _ _ _ _ _ R1 Hs Hv) as (al2 & X2 & R2).
      exists al2. split; [eapply ext_trans; eauto | exact R2].
Qed.

Definition init_env (first_var : nat) : env := repeat (VGlobal "" "") first_var.

Lemma R_init n : R (init_env n) (fk_init n) vm_init.
Proof.
  constructor; cbn; try constructor.
  - unfold init_env. rewrite repeat_length. reflexivity.
  - unfold init_env. apply Forall_forall. intros x Hx. apply repeat_spec in Hx. subst. reflexivity.
Qed.

(* ---------- what the relation says about the decompiled program ---------- *)
Lemma events_calls_covered al b l :
  rel_events al b l ->
  forall f' args' kw' k, In (EvCall f' args' kw' k) l ->
  exists i f args kw, In (SAssignV i (ECall f args kw)) b /\
    rel al f f' /\ Forall2 (rel al) args args' /\ rel_opt al kw kw' /\ nth_error al i = Some (VObj k).
Proof.
  induction 1; intros f0 args0 kw0 k0 Hin; cbn in Hin.
  - contradiction.
  - destruct Hin as [Hin|Hin]; [discriminate|].
    destruct (IHrel_events _ _ _ _ Hin) as (i & fe & a & kw1 & Hi & ?). exists i, fe, a, kw1. split; [right; exact Hi | assumption].
  - destruct Hin as [Hin|Hin]; [discriminate|]. eauto.
  - destruct Hin as [Hin|Hin].
    + inversion Hin; subst. exists i, f, args, kw. split; [left; reflexivity | auto].
    + destruct (IHrel_events _ _ _ _ Hin) as (i1 & fe & a & kw1 & Hi & ?). exists i1, fe, a, kw1. split; [right; exact Hi | assumption].
  - destruct Hin as [Hin|Hin]; [discriminate|].
    destruct (IHrel_events _ _ _ _ Hin) as (i1 & fe & a & kw1 & Hi & ?). exists i1, fe, a, kw1. split; [right; exact Hi | assumption].
  - destruct Hin as [Hin|Hin]; [discriminate|].
    destruct (IHrel_events _ _ _ _ Hin) as (i1 & fe & a & kw1 & Hi & ?). exists i1, fe, a, kw1. split; [right; exact Hi | assumption].
  - destruct (IHrel_events _ _ _ _ Hin) as (i1 & fe & a & kw1 & Hi & ?). exists i1, fe, a, kw1. split; [right; exact Hi | assumption].
  - destruct Hin as [Hin|Hin]; [discriminate|].
    destruct (IHrel_events _ _ _ _ Hin) as (i1 & fe & a & kw1 & Hi & ?). exists i1, fe, a, kw1. split; [right; exact Hi | assumption].
  - destruct (IHrel_events _ _ _ _ Hin) as (i1 & fe & a & kw1 & Hi & ?). exists i1, fe, a, kw1. split; [right; exact Hi | assumption].
Qed.

Lemma events_imports_covered al b l :
  rel_events al b l ->
  forall m n, In (EvResolve m n) l -> is_builtins m = false -> In (SImport m n) b.
Proof.
  induction 1; intros m0 n0 Hin Hb; cbn in Hin.
  - contradiction.
  - destruct Hin as [Hin|Hin]; [inversion Hin; subst; left; reflexivity | right; eauto].
  - destruct Hin as [Hin|Hin]; [inversion Hin; subst; congruence | eauto].
  - destruct Hin as [Hin|Hin]; [discriminate | right; eauto].
  - destruct Hin as [Hin|Hin]; [discriminate | right; eauto].
  - destruct Hin as [Hin|Hin]; [discriminate | right; eauto].
  - right; eauto.
  - destruct Hin as [Hin|Hin]; [discriminate | right; eauto].
  - right; eauto.
Qed.

Lemma events_setstate_covered al b l :
  rel_events al b l ->
  forall obj st', In (EvSetState obj st') l ->
  exists i st, In (SExpr (ECall (EAttr (EVar i) "__setstate__") [st] None)) b /\
               nth_error al i = Some obj /\ rel al st st'.
Proof.
  induction 1; intros o0 s0 Hin; cbn in Hin.
  - contradiction.
  - destruct Hin as [Hin|Hin]; [discriminate|]. destruct (IHrel_events _ _ Hin) as (i1 & st1 & Hi & ?). exists i1, st1. split; [right; exact Hi | assumption].
  - destruct Hin as [Hin|Hin]; [discriminate|]. eauto.
  - destruct Hin as [Hin|Hin]; [discriminate|]. destruct (IHrel_events _ _ Hin) as (i1 & st1 & Hi & ?). exists i1, st1. split; [right; exact Hi | assumption].
  - destruct Hin as [Hin|Hin]; [discriminate|]. destruct (IHrel_events _ _ Hin) as (i1 & st1 & Hi & ?). exists i1, st1. split; [right; exact Hi | assumption].
  - destruct Hin as [Hin|Hin].
    + inversion Hin; subst. exists i, st. split; [left; reflexivity | auto].
    + destruct (IHrel_events _ _ Hin) as (i1 & st1 & Hi & ?). exists i1, st1. split; [right; exact Hi | assumption].
  - destruct (IHrel_events _ _ Hin) as (i1 & st1 & Hi & ?). exists i1, st1. split; [right; exact Hi | assumption].
  - destruct Hin as [Hin|Hin]; [discriminate|]. destruct (IHrel_events _ _ Hin) as (i1 & st1 & Hi & ?). exists i1, st1. split; [right; exact Hi | assumption].
  - destruct (IHrel_events _ _ Hin) as (i1 & st1 & Hi & ?). exists i1, st1. split; [right; exact Hi | assumption].
Qed.
