(* Truncation invariance of the token loop (the converse of CodecProofs' prefix determinism), and
   what C13 needs from it: loading exactly the bytes dumps() returns for a successfully parsed
   pickle succeeds, stops at their end, and returns the same opcodes (class row, data) at shifted
   positions.  All inductions are over lists of arbitrary length. *)
From Coq Require Import List String Ascii ZArith NArith Bool Arith Lia.
From Coq.Strings Require Import Byte.
From Verif Require Import Base OpTable Codec CodecProofs.
Import ListNotations.
Local Open Scope nat_scope.
Local Open Scope list_scope.

Lemma line_len_firstn : forall l n m, line_len l = Some n -> n <= m -> line_len (firstn m l) = Some n.
Proof.
  induction l as [|b l IH]; simpl; intros n m H L; [discriminate|].
  destruct m as [|m].
  - destruct (Byte.eqb b x0a); [inversion H; subst; lia|].
    destruct (line_len l); [inversion H; subst; lia|discriminate].
  - simpl. destruct (Byte.eqb b x0a); [exact H|].
    destruct (line_len l) as [k|] eqn:E; [|discriminate]. inversion H; subst.
    rewrite (IH k m eq_refl) by lia. reflexivity.
Qed.

(* the reader looks at no byte beyond the ones it consumes: cutting the data anywhere at or after
   the end of the argument changes nothing *)
Lemma arg_len_firstn : forall k args n m, arg_len k args = Ok n -> n <= m ->
  arg_len k (firstn m args) = Ok n.
Proof.
  intros k args n m H L. destruct k as [| f | | | w sg]; red_arg_len H; cbv beta iota zeta delta [arg_len].
  - exact H.
  - brk H. inversion H; subst. rewrite firstn_firstn. replace (Nat.min n m) with n by lia.
    rewrite E. reflexivity.
  - brk H. inversion H; subst. rewrite (line_len_firstn _ _ m E) by lia. reflexivity.
  - brk H. inversion H; subst. rewrite (line_len_firstn _ _ m E) by lia.
    rewrite skipn_firstn_comm. rewrite (line_len_firstn _ _ (m - n0) E0) by lia. reflexivity.
  - brk H. inversion H; subst.
    pose proof E as E'. apply negb_false_iff in E'. apply Nat.eqb_eq in E'.
    assert (w <= List.length args) by (rewrite firstn_length in E'; lia).
    rewrite firstn_firstn. replace (Nat.min w m) with w by lia. rewrite E, E0, E1.
    apply N.ltb_ge in E2. rewrite skipn_length in E2.
    assert (N.ltb (N.of_nat (List.length (skipn w (firstn m args)))) (le_N (firstn w args)) = false) as ->.
    { apply N.ltb_ge. rewrite skipn_length, firstn_length. lia. }
    reflexivity.
Qed.

Lemma next_token_firstn : forall rest row len m, next_token rest = Ok (row, len) -> len <= m ->
  next_token (firstn m rest) = Ok (row, len).
Proof.
  intros rest row len m H L. apply next_token_inv in H.
  destruct H as (c & args & k & n & -> & LK & K & A & ->).
  destruct m as [|m]; [lia|]. simpl. rewrite LK, K.
  rewrite (arg_len_firstn _ _ _ m A) by lia. reflexivity.
Qed.

Lemma genops_len_le : forall fuel rest pos ts st, genops fuel rest pos = (ts, st) ->
  List.length ts <= sum_len ts.
Proof.
  induction fuel as [|f IH]; simpl; intros rest pos ts st H.
  - inversion H. simpl. lia.
  - destruct (next_token rest) as [[row len]|e] eqn:N; [|inversion H; simpl; lia].
    pose proof (next_token_bound _ _ _ N) as B.
    destruct (N.eqb (row_code row) stop_code).
    + inversion H; subst. simpl. lia.
    + destruct (genops f (skipn len rest) (len + pos)) as [ts' st'] eqn:G.
      inversion H; subst. specialize (IH _ _ _ _ G). simpl. lia.
Qed.

(* a completed token loop is unchanged by cutting the data anywhere at or after its last token, and by
   any fuel that covers the number of tokens *)
Lemma genops_trunc : forall fuel rest pos ts, genops fuel rest pos = (ts, TDone) ->
  forall fuel' m, List.length ts <= fuel' -> sum_len ts <= m ->
  genops fuel' (firstn m rest) pos = (ts, TDone).
Proof.
  induction fuel as [|f IH]; simpl; intros rest pos ts H fuel' m LF LM; [discriminate|].
  destruct (next_token rest) as [[row len]|e] eqn:N; [|discriminate].
  destruct (N.eqb (row_code row) stop_code) eqn:S.
  - inversion H; subst. cbn [List.length sum_len t_len] in *.
    destruct fuel' as [|f']; [lia|]. simpl.
    rewrite (next_token_firstn _ _ _ m N) by lia. rewrite S. reflexivity.
  - destruct (genops f (skipn len rest) (len + pos)) as [ts' st'] eqn:G.
    inversion H; subst. cbn [List.length sum_len t_len] in *.
    destruct fuel' as [|f']; [lia|]. simpl.
    rewrite (next_token_firstn _ _ _ m N) by lia. rewrite S.
    rewrite skipn_firstn_comm. rewrite (IH _ _ _ G f' (m - len)) by lia. reflexivity.
Qed.

Lemma map_shift_tok_length : forall k ts, sum_len (map (shift_tok k) ts) = sum_len ts.
Proof. induction ts as [|t r IH]; simpl; [reflexivity|]. rewrite IH. reflexivity. Qed.

(* THE LINK: whenever Pickled.load succeeds on a stream at an offset, the bytes [start, e) it
   consumed are by themselves a complete pickle, and the parse is the parse of those bytes shifted *)
Lemma load_stream_truncate : forall buf start ops e,
  load_stream buf start = LOk (ops, e) ->
  exists p0, complete (read_at buf start (e - start)) p0 /\ ops = map (shift_opc start) p0.
Proof.
  intros buf start ops e H.
  destruct (load_stream_exact _ _ _ _ H) as (_ & (B1 & B2) & _).
  destruct (load_stream_ok_inv _ _ _ _ H) as (ts' & tl & G).
  pose proof H as H'. rewrite (load_stream_eq _ _ _ _ G) in H'.
  destruct (existsb classless (ts' ++ [tl])) eqn:CL; [discriminate|]. inversion H'; subst ops e. clear H'.
  pose proof G as G'. unfold genops_at in G'.
  pose proof (genops_chain _ _ _ _ _ G') as C.
  pose proof (chain_end_bound _ _ _ C ltac:(destruct ts'; discriminate)) as EB.
  pose proof (chain_app_inv _ _ _ _ C) as [_ C2]. apply chain_head in C2. destruct C2 as (P & OKl & _).
  destruct (genops_done _ _ _ _ G') as (a & t & EQ & ST & _).
  apply app_inj_tail in EQ. destruct EQ as [<- <-].
  destruct (stop_imm_none _ _ OKl ST) as (_ & _ & L1 & _).
  set (ts := ts' ++ [tl]) in *.
  assert (sum_len ts = sum_len ts' + 1) as SL by (unfold ts; rewrite sum_len_app_one; lia).
  assert (S (t_pos tl) - start = sum_len ts) as EL by lia.
  rewrite EL. unfold read_at.
  set (b := firstn (sum_len ts) (skipn start buf)).
  assert (List.length b = sum_len ts) as LB
    by (unfold b; rewrite firstn_length, skipn_length; lia).
  (* the token loop over b alone *)
  pose proof (genops_trunc _ _ _ _ G' (S (List.length b)) (sum_len ts)) as T.
  specialize (T ltac:(pose proof (genops_len_le _ _ _ _ _ G'); lia) ltac:(lia)). fold b in T.
  destruct (genops (S (List.length b)) b 0) as [ts0 st0] eqn:G0.
  pose proof (genops_shift _ _ _ start _ _ G0) as SH. rewrite Nat.add_0_r, T in SH.
  inversion SH as [[ET ES]]. subst st0.
  assert (genops_at b 0 = (ts0, TDone)) as GA by (unfold genops_at; cbn [skipn]; exact G0).
  destruct (genops_done _ _ _ _ G0) as (a0 & t0 & E0 & _ & _). subst ts0.
  pose proof (load_stream_eq _ _ _ _ GA) as LS.
  rewrite <- (existsb_classless_shift start), <- ET, CL in LS.
  (* embed b back into buf *)
  assert (buf = firstn start buf ++ b ++ skipn (sum_len ts) (skipn start buf)) as DEC
    by (unfold b; rewrite firstn_skipn, firstn_skipn; reflexivity).
  assert (List.length (firstn start buf) = start) as LP by (rewrite firstn_length; lia).
  pose proof (load_stream_prefix (firstn start buf) b (skipn (sum_len ts) (skipn start buf)) _ _ LS) as PR.
  rewrite <- DEC, LP, H in PR. injection PR as EO EE.
  exists (map (fill b) a0 ++ [fresh b t0]). split; [|exact EO].
  unfold complete. rewrite LS. f_equal. f_equal. lia.
Qed.

(* re-parse of dumps(): for EVERY successful parse, at any offset of any stream *)
Lemma reparse_exact : forall buf start ops e,
  load_stream buf start = LOk (ops, e) ->
  exists d p0,
    dumps ops = Ok d /\ d = read_at buf start (e - start) /\
    load_stream d 0 = LOk (p0, List.length d) /\
    ops = map (shift_opc start) p0 /\
    dumps p0 = Ok d.
Proof.
  intros buf start ops e H.
  destruct (load_stream_truncate _ _ _ _ H) as (p0 & CP & EO).
  destruct (load_stream_exact _ _ _ _ H) as (D & _).
  exists (read_at buf start (e - start)), p0.
  split; [exact D|]. split; [reflexivity|]. split; [exact CP|]. split; [exact EO|].
  rewrite <- (dumps_shift start), <- EO. exact D.
Qed.

(* ... in terms of Pickled.load's three stream kinds: Pickled.load(p.dumps()) succeeds, consumes all of
   the bytes, and its opcodes are those of p at positions counted from the start of the pickle *)
Lemma reparse_model : forall k bs off r,
  load_model k bs off = LOk r ->
  exists d r' sh,
    dumps (l_ops r) = Ok d /\
    load_model KBytes d 0 = LOk r' /\
    l_end r' = List.length d /\
    l_ops r = map (shift_opc sh) (l_ops r') /\
    dumps (l_ops r') = Ok d.
Proof.
  intros k bs off r H. unfold load_model in H.
  destruct k.
  - destruct (load_stream bs 0) as [[ops e]|x] eqn:E; [|discriminate]. inversion H; subst. cbn [l_ops].
    destruct (reparse_exact _ _ _ _ E) as (d & p0 & D & _ & L & EO & D0).
    exists d, (mkLoaded p0 (List.length d) None), 0. unfold load_model. rewrite L. cbn [l_ops l_end]. auto.
  - destruct (load_stream bs off) as [[ops e]|x] eqn:E; [|discriminate]. inversion H; subst. cbn [l_ops].
    destruct (reparse_exact _ _ _ _ E) as (d & p0 & D & _ & L & EO & D0).
    exists d, (mkLoaded p0 (List.length d) None), off. unfold load_model. rewrite L. cbn [l_ops l_end]. auto.
  - rewrite load_stream_rec_eq in H.
    destruct (load_stream (skipn off bs) 0) as [[ops e]|x] eqn:E; [|discriminate]. inversion H; subst.
    cbn [l_ops].
    destruct (reparse_exact _ _ _ _ E) as (d & p0 & D & _ & L & EO & D0).
    exists d, (mkLoaded p0 (List.length d) None), 0. unfold load_model. rewrite L. cbn [l_ops l_end]. auto.
Qed.
