(* Lemmas about the allowlist heap model (C11).  The theorems are about copy_deep (the fixed
   FicklingMLUnpickler.__init__); the invariant is "no cell reachable from the module-level table
   is reachable from an instance": every instance's cells are allocated after the heap that
   existed when it was built, and building an instance never changes that older heap. *)
From Coq Require Import List String Bool Arith Lia.
From Verif Require Import Base MLTable Allowlist.
Import ListNotations.
Local Open Scope list_scope.
Local Open Scope nat_scope.

(* ---------- functional view of an outer dict ---------- *)
Definition vdict := list (string * cell).

Definition view (h : heap) (o : odict) : vdict :=
  map (fun mc => (fst mc, cell_at h (snd mc))) o.

Definition vpermits (v : vdict) (g : gname) : bool :=
  match assoc_str (fst g) v with
  | Some c => mem_key (snd g) c
  | None => false
  end.

(* update the first entry with key m *)
Fixpoint vupd (v : vdict) (m : string) (f : cell -> cell) : vdict :=
  match v with
  | [] => []
  | (k, c) :: r => if String.eqb m k then (k, f c) :: r else (k, c) :: vupd r m f
  end.

Definition vadd (v : vdict) (g : gname) : vdict :=
  match assoc_str (fst g) v with
  | Some _ => vupd v (fst g) (fun c => dict_set c (snd g) user_msg)
  | None => v ++ [(fst g, [(snd g, user_msg)])]
  end.

Lemma assoc_view h o m :
  assoc_str m (view h o) = option_map (cell_at h) (assoc_str m o).
Proof.
  induction o as [|[k c] r IH]; simpl; [reflexivity|].
  destruct (String.eqb m k); [reflexivity|exact IH].
Qed.

Lemma permits_view h o g : permits h o g = vpermits (view h o) g.
Proof.
  unfold permits, vpermits. rewrite assoc_view. destruct (assoc_str (fst g) o); reflexivity.
Qed.

(* ---------- dict_set / mem_key ---------- *)
Lemma mem_key_dict_set c n v x :
  mem_key x (dict_set c n v) = mem_key x c || String.eqb x n.
Proof.
  induction c as [|[k w] r IH]; simpl.
  - destruct (String.eqb x n); reflexivity.
  - destruct (String.eqb n k) eqn:E; simpl.
    + apply String.eqb_eq in E. subst k. destruct (String.eqb x n); simpl; rewrite ?orb_false_r; reflexivity.
    + destruct (String.eqb x k); [reflexivity|exact IH].
Qed.

(* ---------- the pure functional also_allow loop ---------- *)
Lemma assoc_vupd_same v m f :
  assoc_str m (vupd v m f) = option_map f (assoc_str m v).
Proof.
  induction v as [|[k c] r IH]; simpl; [reflexivity|].
  destruct (String.eqb m k) eqn:E; simpl; rewrite E; [reflexivity|exact IH].
Qed.

Lemma assoc_vupd_other v m f x :
  String.eqb x m = false -> assoc_str x (vupd v m f) = assoc_str x v.
Proof.
  intros Hx. induction v as [|[k c] r IH]; simpl; [reflexivity|].
  destruct (String.eqb m k) eqn:E; simpl.
  - apply String.eqb_eq in E. subst k. rewrite Hx. reflexivity.
  - destruct (String.eqb x k); [reflexivity|exact IH].
Qed.

Lemma assoc_app_none {A} x (v w : list (string * A)) :
  assoc_str x v = None -> assoc_str x (v ++ w) = assoc_str x w.
Proof.
  induction v as [|[k c] r IH]; simpl; [reflexivity|].
  destruct (String.eqb x k); [discriminate|exact IH].
Qed.

Lemma assoc_app_some {A} x (v w : list (string * A)) c :
  assoc_str x v = Some c -> assoc_str x (v ++ w) = Some c.
Proof.
  induction v as [|[k d] r IH]; simpl; [discriminate|].
  destruct (String.eqb x k); [auto|exact IH].
Qed.

Lemma vpermits_vadd v g x :
  vpermits (vadd v g) x = vpermits v x || gname_eqb x g.
Proof.
  unfold vadd, vpermits, gname_eqb. destruct g as [m n], x as [xm xn]. simpl.
  destruct (assoc_str m v) as [c|] eqn:Em.
  - destruct (String.eqb xm m) eqn:Ex.
    + apply String.eqb_eq in Ex. subst xm. rewrite assoc_vupd_same, Em. simpl.
      apply mem_key_dict_set.
    + rewrite assoc_vupd_other by exact Ex. simpl.
      destruct (assoc_str xm v); [rewrite orb_false_r|]; reflexivity.
  - destruct (assoc_str xm v) as [d|] eqn:Exm.
    + rewrite (assoc_app_some _ _ _ _ Exm).
      destruct (String.eqb xm m) eqn:Ex.
      * apply String.eqb_eq in Ex. subst xm. congruence.
      * simpl. rewrite orb_false_r. reflexivity.
    + rewrite (assoc_app_none _ _ _ Exm). simpl.
      destruct (String.eqb xm m); simpl; [|reflexivity].
      destruct (String.eqb xn n); reflexivity.
Qed.

Lemma vpermits_fold adds : forall v x,
  vpermits (fold_left vadd adds v) x = vpermits v x || mem_g x adds.
Proof.
  induction adds as [|g r IH]; intros v x; simpl.
  - rewrite orb_false_r. reflexivity.
  - rewrite IH, vpermits_vadd. destruct (gname_eqb x g); simpl.
    + rewrite orb_true_r. reflexivity.
    + rewrite orb_false_r. reflexivity.
Qed.

(* ---------- heap facts ---------- *)
Lemma cell_at_app1 h e c : c < List.length h -> cell_at (h ++ e) c = cell_at h c.
Proof. intros H. unfold cell_at. apply app_nth1. exact H. Qed.

Lemma cell_at_middle h x e : cell_at (h ++ x :: e) (List.length h) = x.
Proof. unfold cell_at. apply nth_middle. Qed.

Definition cells_below (n : nat) (o : odict) : Prop := forall m c, In (m, c) o -> c < n.

Lemma view_app h e o : cells_below (List.length h) o -> view (h ++ e) o = view h o.
Proof.
  intros H. unfold view. apply map_ext_in. intros [m c] Hin. simpl.
  rewrite cell_at_app1; [reflexivity|]. eapply H. exact Hin.
Qed.

Lemma heap_upd_length h c f : List.length (heap_upd h c f) = List.length h.
Proof.
  revert c. induction h as [|x r IH]; intros c; simpl; [reflexivity|].
  destruct c; simpl; [reflexivity|]. rewrite IH. reflexivity.
Qed.

Lemma cell_at_upd_same h c f : c < List.length h -> cell_at (heap_upd h c f) c = f (cell_at h c).
Proof.
  revert c. induction h as [|x r IH]; intros c Hc; simpl in *; [lia|].
  destruct c; [reflexivity|]. unfold cell_at in *. simpl. apply IH. lia.
Qed.

Lemma cell_at_upd_other h c f d : d <> c -> cell_at (heap_upd h c f) d = cell_at h d.
Proof.
  revert c d. induction h as [|x r IH]; intros c d Hd; simpl; [reflexivity|].
  destruct c; destruct d; try reflexivity; try lia.
  unfold cell_at in *. simpl. apply IH. lia.
Qed.

Lemma heap_upd_app2 h0 e c f :
  List.length h0 <= c -> heap_upd (h0 ++ e) c f = h0 ++ heap_upd e (c - List.length h0) f.
Proof.
  revert c. induction h0 as [|x r IH]; intros c Hc; simpl in *.
  - rewrite Nat.sub_0_r. reflexivity.
  - destruct c; [lia|]. simpl. rewrite IH by lia. reflexivity.
Qed.

(* ---------- deep copy ---------- *)
Lemma deep_copy_spec o : forall h,
  cells_below (List.length h) o ->
  exists e,
    fst (deep_copy h o) = h ++ e /\ List.length e = List.length o /\
    map snd (snd (deep_copy h o)) = seq (List.length h) (List.length o) /\
    view (fst (deep_copy h o)) (snd (deep_copy h o)) = view h o.
Proof.
  induction o as [|[m c] r IH]; intros h Hb; simpl.
  - exists []. rewrite app_nil_r. repeat split; reflexivity.
  - assert (Hb1 : cells_below (List.length (h ++ [cell_at h c])) r).
    { intros m' c' Hin. rewrite app_length. simpl. specialize (Hb m' c' (or_intror Hin)). lia. }
    destruct (IH (h ++ [cell_at h c]) Hb1) as (e & He & Hl & Hs & Hv).
    destruct (deep_copy (h ++ [cell_at h c]) r) as [h2 o2] eqn:Ed. simpl in *.
    exists (cell_at h c :: e). rewrite He, <- app_assoc. simpl. repeat split.
    + rewrite Hl. reflexivity.
    + rewrite Hs, app_length. simpl. rewrite Nat.add_1_r. reflexivity.
    + rewrite cell_at_middle. apply f_equal.
      assert (E2 : h ++ cell_at h c :: e = h2) by (rewrite He, <- app_assoc; reflexivity).
      rewrite E2, Hv. apply view_app.
      intros m' c' Hin. apply (Hb m' c'). right. exact Hin.
Qed.

(* ---------- one iteration of the also_allow loop on a well-formed instance ---------- *)
(* every cell of the instance lies in [n, |h|) and no two modules share a cell *)
Definition wfo (n : nat) (h : heap) (o : odict) : Prop :=
  (forall m c, In (m, c) o -> n <= c < List.length h) /\ NoDup (map snd o).

Lemma assoc_in {A} m (o : list (string * A)) c : assoc_str m o = Some c -> exists k, In (k, c) o /\ String.eqb m k = true.
Proof.
  induction o as [|[k d] r IH]; simpl; [discriminate|].
  destruct (String.eqb m k) eqn:E.
  - intros H. inversion H; subst. exists k. split; [left; reflexivity|exact E].
  - intros H. destruct (IH H) as (k' & Hin & Hk). exists k'. split; [right; exact Hin|exact Hk].
Qed.

Lemma view_upd h o m c f :
  assoc_str m o = Some c -> NoDup (map snd o) -> c < List.length h ->
  view (heap_upd h c f) o = vupd (view h o) m f.
Proof.
  induction o as [|[k d] r IH]; simpl; [discriminate|].
  intros Ha Hn Hc. inversion Hn as [|x l Hnotin Hn']; subst.
  destruct (String.eqb m k) eqn:E.
  - inversion Ha; subst d. f_equal.
    + rewrite cell_at_upd_same by exact Hc. reflexivity.
    + unfold view. apply map_ext_in. intros [m' c'] Hin. simpl.
      rewrite cell_at_upd_other; [reflexivity|].
      intros Heq. subst c'. apply Hnotin. apply in_map_iff. exists (m', c). split; [reflexivity|exact Hin].
  - f_equal.
    + rewrite cell_at_upd_other; [reflexivity|].
      intros Heq. subst d. destruct (assoc_in _ _ _ Ha) as (k' & Hin & _).
      apply Hnotin. apply in_map_iff. exists (k', c). split; [reflexivity|exact Hin].
    + apply IH; assumption.
Qed.

Lemma NoDup_snoc {A} (l : list A) x : NoDup l -> ~ In x l -> NoDup (l ++ [x]).
Proof.
  induction l as [|a r IH]; simpl; intros Hn Hx.
  - constructor; [intros []|constructor].
  - inversion Hn; subst. constructor.
    + intros Hin. apply in_app_or in Hin. destruct Hin as [H|[H|[]]]; [auto|].
      subst. apply Hx. left. reflexivity.
    + apply IH; [assumption|]. intros H. apply Hx. right. exact H.
Qed.

Lemma add_one_spec n h0 e o g :
  List.length h0 = n -> wfo n (h0 ++ e) o ->
  exists e',
    fst (add_one (h0 ++ e, o) g) = h0 ++ e' /\
    wfo n (h0 ++ e') (snd (add_one (h0 ++ e, o) g)) /\
    view (h0 ++ e') (snd (add_one (h0 ++ e, o) g)) = vadd (view (h0 ++ e) o) g.
Proof.
  intros Hn [Hr Hd]. unfold add_one, vadd. rewrite assoc_view.
  destruct (assoc_str (fst g) o) as [c|] eqn:Ea; simpl.
  - destruct (assoc_in _ _ _ Ea) as (k & Hin & _). destruct (Hr k c Hin) as [Hlo Hhi].
    exists (heap_upd e (c - List.length h0) (fun cl => dict_set cl (snd g) user_msg)).
    rewrite <- heap_upd_app2 by lia. split; [reflexivity|]. split.
    + split; [|exact Hd]. intros m' c' Hin'. rewrite heap_upd_length. apply (Hr m' c' Hin').
    + apply view_upd; assumption.
  - exists (e ++ [[(snd g, user_msg)]]). rewrite app_assoc. split; [reflexivity|]. split.
    + split.
      * intros m' c' Hin'. rewrite app_length. simpl. apply in_app_or in Hin'. destruct Hin' as [H|H].
        -- specialize (Hr m' c' H). lia.
        -- destruct H as [H|[]]. inversion H; subst. rewrite app_length. lia.
      * rewrite map_app. simpl. apply NoDup_snoc; [exact Hd|].
        intros Hin'. apply in_map_iff in Hin'. destruct Hin' as ([m' c'] & Heq & Hin'). simpl in Heq. subst c'.
        specialize (Hr m' _ Hin'). lia.
    + unfold view. rewrite map_app. simpl. f_equal.
      * apply map_ext_in. intros [m' c'] Hin'. simpl. rewrite cell_at_app1; [reflexivity|].
        apply (Hr m' c' Hin').
      * rewrite cell_at_middle. reflexivity.
Qed.

Lemma fold_add_spec adds : forall n h0 e o,
  List.length h0 = n -> wfo n (h0 ++ e) o ->
  exists e',
    fst (fold_left add_one adds (h0 ++ e, o)) = h0 ++ e' /\
    wfo n (h0 ++ e') (snd (fold_left add_one adds (h0 ++ e, o))) /\
    view (h0 ++ e') (snd (fold_left add_one adds (h0 ++ e, o))) =
      fold_left vadd adds (view (h0 ++ e) o).
Proof.
  induction adds as [|g r IH]; intros n h0 e o Hn Hw; cbn [fold_left].
  - exists e. split; [reflexivity|]. split; [exact Hw|reflexivity].
  - destruct (add_one_spec n h0 e o g Hn Hw) as (e1 & H1 & H2 & H3).
    destruct (add_one (h0 ++ e, o) g) as [h1 o1] eqn:Ea. simpl in H1, H2, H3. subst h1.
    destruct (IH n h0 e1 o1 Hn H2) as (e2 & A & B & C).
    exists e2. rewrite <- H3. split; [exact A|]. split; [exact B|exact C].
Qed.

(* FicklingMLUnpickler.__init__ with the deep copy: the old heap is a prefix of the new one
   (nothing that existed is written to), the instance only points at new cells, and it permits
   exactly what the table permitted plus the additions *)
Lemma new_unpickler_deep_spec h table adds :
  cells_below (List.length h) table ->
  exists e,
    fst (new_unpickler copy_deep h table adds) = h ++ e /\
    cells_below (List.length (h ++ e)) (snd (new_unpickler copy_deep h table adds)) /\
    forall g, permits (h ++ e) (snd (new_unpickler copy_deep h table adds)) g =
              vpermits (view h table) g || mem_g g adds.
Proof.
  intros Hb.
  change (new_unpickler copy_deep h table adds) with (fold_left add_one adds (deep_copy h table)).
  destruct (deep_copy_spec table h Hb) as (e0 & He & Hl & Hs & Hv).
  destruct (deep_copy h table) as [h1 o1] eqn:Ed. simpl in He, Hs, Hv. subst h1.
  assert (Hw : wfo (List.length h) (h ++ e0) o1).
  { split.
    - intros m c Hin. assert (Hc : In c (map snd o1)).
      { apply in_map_iff. exists (m, c). split; [reflexivity|exact Hin]. }
      rewrite Hs in Hc. apply in_seq in Hc. rewrite app_length. lia.
    - rewrite Hs. apply seq_NoDup. }
  destruct (fold_add_spec adds (List.length h) h e0 o1 eq_refl Hw) as (e' & A & [B1 B2] & C).
  exists e'. split; [exact A|]. split.
  - intros m c Hin. apply (B1 m c Hin).
  - intros g. rewrite permits_view.
    transitivity (vpermits (fold_left vadd adds (view (h ++ e0) o1)) g).
    + apply (f_equal (fun v => vpermits v g)). exact C.
    + rewrite vpermits_fold. apply (f_equal (fun v => vpermits v g || mem_g g adds)). exact Hv.
Qed.

(* ---------- the built-in table ---------- *)
Lemma view_combine_seq {A} (f : A -> cell) (key : A -> string) (l : list A) : forall pre,
  view (pre ++ map f l) (combine (map key l) (seq (List.length pre) (List.length l))) =
  map (fun x => (key x, f x)) l.
Proof.
  induction l as [|a r IH]; intros pre; simpl; [reflexivity|].
  unfold view at 1. simpl. rewrite cell_at_middle. apply f_equal.
  specialize (IH (pre ++ [f a])). rewrite app_length in IH. simpl in IH.
  rewrite Nat.add_1_r, <- app_assoc in IH. simpl in IH. exact IH.
Qed.

Definition base_view : vdict := map (fun mn => (fst mn, map base_item (snd mn))) ml_allowlist.

Lemma view_init : view init_heap init_tbl = base_view.
Proof.
  unfold init_heap, init_tbl, base_view.
  exact (view_combine_seq (fun mn => map base_item (snd mn)) fst ml_allowlist []).
Qed.

Lemma mem_key_base x names : mem_key x (map base_item names) = mem_str x names.
Proof.
  induction names as [|n r IH]; simpl; [reflexivity|].
  destruct (String.eqb x n); [reflexivity|exact IH].
Qed.

Lemma vpermits_base g : vpermits base_view g = in_base g.
Proof.
  unfold vpermits, in_base, base_view.
  induction ml_allowlist as [|[m names] r IH]; simpl; [reflexivity|].
  destruct (String.eqb (fst g) m); [apply mem_key_base|exact IH].
Qed.

Lemma init_cells_below : cells_below (List.length init_heap) init_tbl.
Proof.
  intros m c Hin. unfold init_tbl in Hin. apply in_combine_r in Hin. apply in_seq in Hin.
  unfold init_heap. rewrite map_length. lia.
Qed.

(* ---------- the invariant over histories (copy_deep) ---------- *)
Definition inst_ok (h : heap) (o : odict) (a : list gname) : Prop :=
  cells_below (List.length h) o /\ forall g, permits h o g = spec_permits a g.

Definition inv (s : st) (al : list (list gname)) : Prop :=
  tbl s = init_tbl /\
  (exists e, hp s = init_heap ++ e) /\
  Forall2 (inst_ok (hp s)) (insts s) al.

Lemma permits_app h e o g : cells_below (List.length h) o -> permits (h ++ e) o g = permits h o g.
Proof. intros H. rewrite !permits_view, view_app by exact H. reflexivity. Qed.

Lemma inst_ok_app h e o a : inst_ok h o a -> inst_ok (h ++ e) o a.
Proof.
  intros [Hb Hp]. split.
  - intros m c Hin. rewrite app_length. specialize (Hb m c Hin). lia.
  - intros g. rewrite permits_app by exact Hb. apply Hp.
Qed.

Lemma view_table_inv s : tbl s = init_tbl -> (exists e, hp s = init_heap ++ e) ->
  view (hp s) (tbl s) = base_view /\ cells_below (List.length (hp s)) (tbl s).
Proof.
  intros Ht [e He]. rewrite Ht, He. split.
  - rewrite view_app by exact init_cells_below. exact view_init.
  - intros m c Hin. rewrite app_length. pose proof (init_cells_below m c Hin). lia.
Qed.

(* a fresh instance built in an invariant state permits exactly BASE + its additions *)
Lemma fresh_instance s al adds :
  inv s al ->
  exists e,
    fst (new_unpickler copy_deep (hp s) (tbl s) adds) = hp s ++ e /\
    inst_ok (hp s ++ e) (snd (new_unpickler copy_deep (hp s) (tbl s) adds)) adds.
Proof.
  intros (Ht & He & _). destruct (view_table_inv s Ht He) as [Hv Hb].
  destruct (new_unpickler_deep_spec (hp s) (tbl s) adds Hb) as (e & A & B & C).
  exists e. split; [exact A|]. split; [exact B|].
  intros g. rewrite C, Hv, vpermits_base. reflexivity.
Qed.

Lemma Forall2_weaken {A B} (P Q : A -> B -> Prop) l1 l2 :
  (forall a b, P a b -> Q a b) -> Forall2 P l1 l2 -> Forall2 Q l1 l2.
Proof. intros H F. induction F; constructor; auto. Qed.

Definition op_constructs (o : op) : list (list gname) :=
  match o with Construct a => [a] | _ => [] end.

Lemma inv_step s al o : inv s al -> inv (step copy_deep s o) (al ++ op_constructs o).
Proof.
  intros Hi. pose proof Hi as (Ht & [e0 He] & Hf).
  destruct o; simpl; try (rewrite app_nil_r).
  - split; [exact Ht|]. split; [exists e0; exact He|exact Hf].
  - split; [exact Ht|]. split; [exists e0; exact He|exact Hf].
  - destruct (fresh_instance s al adds Hi) as (e & A & B).
    destruct (new_unpickler copy_deep (hp s) (tbl s) adds) as [h1 o1]. simpl in A, B. subst h1.
    simpl. split; [exact Ht|]. split.
    + exists (e0 ++ e). rewrite He, app_assoc. reflexivity.
    + apply Forall2_app.
      * eapply Forall2_weaken; [|exact Hf]. intros o a. apply inst_ok_app.
      * constructor; [exact B|constructor].
  - destruct (active s) as [adds|] eqn:Ea.
    + destruct (fresh_instance s al adds Hi) as (e & A & B).
      destruct (new_unpickler copy_deep (hp s) (tbl s) adds) as [h1 o1]. simpl in A, B. subst h1.
      simpl. split; [exact Ht|]. split.
      * exists (e0 ++ e). rewrite He, app_assoc. reflexivity.
      * eapply Forall2_weaken; [|exact Hf]. intros o a. apply inst_ok_app.
    + split; [exact Ht|]. split; [exists e0; exact He|exact Hf].
  - split; [exact Ht|]. split; [exists e0; exact He|exact Hf].
Qed.

Lemma inv_run h : forall s al, inv s al -> inv (run copy_deep s h) (al ++ constructed h).
Proof.
  induction h as [|o r IH]; intros s al Hi.
  - simpl. rewrite app_nil_r. exact Hi.
  - cbn [run]. specialize (IH _ _ (inv_step s al o Hi)).
    assert (E : al ++ constructed (o :: r) = (al ++ op_constructs o) ++ constructed r).
    { rewrite <- app_assoc. destruct o; reflexivity. }
    rewrite E. exact IH.
Qed.

Lemma inv_init : inv init [].
Proof.
  split; [reflexivity|]. split; [exists []; symmetry; apply app_nil_r|constructor].
Qed.

Lemma inv_reachable h : inv (run copy_deep init h) (constructed h).
Proof. exact (inv_run h init [] inv_init). Qed.

Lemma active_step mode s o :
  active (step mode s o) =
  match o with Activate a => Some a | Deactivate => None | _ => active s end.
Proof.
  destruct s as [h0 t0 a0 i0]. destruct o; simpl; try reflexivity.
  - destruct (new_unpickler mode h0 t0 adds). reflexivity.
  - destruct a0 as [l|]; [destruct (new_unpickler mode h0 t0 l)|]; reflexivity.
Qed.

Lemma active_run mode h : forall s, active (run mode s h) = current_adds (active s) h.
Proof.
  induction h as [|o r IH]; intros s; [reflexivity|].
  cbn [run current_adds]. rewrite IH, active_step. destruct o; reflexivity.
Qed.

(* ---------- the statements used by props/C11.v ---------- *)
Lemma permitted_exact h g :
  observe copy_deep (run copy_deep init h) (Probe g) =
  Some (match current_adds None h with
        | Some a => of_bool (spec_permits a g)
        | None => Unmediated
        end).
Proof.
  pose proof (inv_reachable h) as Hi. pose proof (active_run copy_deep h init) as Ha.
  simpl in Ha. unfold observe. rewrite Ha.
  destruct (current_adds None h) as [a|]; [|reflexivity].
  destruct (fresh_instance _ _ a Hi) as (e & A & [_ B]).
  destruct (new_unpickler copy_deep _ _ a) as [h1 o1]. simpl in A, B. subst h1.
  rewrite B. reflexivity.
Qed.

Lemma base_unchanged h : table_view (run copy_deep init h) = table_view init.
Proof.
  destruct (inv_reachable h) as (Ht & He & _).
  change (view (hp (run copy_deep init h)) (tbl (run copy_deep init h)) = view init_heap init_tbl).
  rewrite (proj1 (view_table_inv _ Ht He)), view_init. reflexivity.
Qed.

Lemma table_is_base : table_view init = map (fun mn => (fst mn, map base_item (snd mn))) ml_allowlist.
Proof. exact view_init. Qed.

Lemma Forall2_nth_error {A B} (R : A -> B -> Prop) l1 l2 : Forall2 R l1 l2 -> forall i,
  match nth_error l1 i, nth_error l2 i with
  | Some x, Some y => R x y
  | None, None => True
  | _, _ => False
  end.
Proof.
  induction 1; intros i; destruct i; simpl; auto. apply IHForall2.
Qed.

Lemma instance_exact h i g :
  observe copy_deep (run copy_deep init h) (ProbeInst i g) =
  Some (match nth_error (constructed h) i with
        | Some a => of_bool (spec_permits a g)
        | None => NoSuchInstance
        end).
Proof.
  destruct (inv_reachable h) as (_ & _ & Hf).
  pose proof (Forall2_nth_error _ _ _ Hf i) as H. unfold observe.
  destruct (nth_error (insts (run copy_deep init h)) i) as [o|];
    destruct (nth_error (constructed h) i) as [a|]; try contradiction; [|reflexivity].
  destruct H as [_ Hp]. rewrite Hp. reflexivity.
Qed.
