(* C04, fourth floor: a call whose callee is not one of the four bad builtins (another builtin, a
   non-stdlib global, a computed callee) is reported by OvertlyBadEvals at >= LIKELY_UNSAFE -- unless the
   callee's NAME is also imported from a stdlib module ("likely safe" by name only).  The shared
   de-duplication set cannot suppress it: when OvertlyBadEvals runs the set only holds import texts
   (NonStandardImports, UnsafeImportsML) and texts BadCalls reported as OVERTLY_MALICIOUS. *)
From Coq Require Import List String Ascii ZArith Bool Arith Lia DecimalString.
From Verif Require Import Base Ops Interp RefVM Unparse Severity SeverityProofs AnalysisTable MLTable
  Analysis AnalysisProofs FloorProofs SimRel SimProofs.
Import ListNotations.
Local Open Scope nat_scope.
Local Open Scope list_scope.

(* ---------- membership ---------- *)
Lemma mem_str_In x l : mem_str x l = true -> In x l.
Proof.
  induction l as [|y r IH]; cbn; [discriminate|].
  destruct (String.eqb_spec x y) as [->|_]; [left; reflexivity | right; auto].
Qed.

Lemma In_mem_str x l : In x l -> mem_str x l = true.
Proof.
  induction l as [|y r IH]; cbn; [tauto|]. intros [->|H].
  - rewrite String.eqb_refl. reflexivity.
  - destruct (String.eqb x y); auto.
Qed.

Lemma in_add x t d : In x (add t d) -> x = t \/ In x d.
Proof. unfold add. destruct (mem_str t d); cbn; intuition. Qed.

(* ---------- texts: an import text never equals a call text ---------- *)
Fixpoint has_paren (s : string) : bool :=
  match s with
  | EmptyString => false
  | String c r => Ascii.eqb c "("%char || has_paren r
  end.

(* the first blank or opening parenthesis of a text *)
Fixpoint stopc (s : string) : option ascii :=
  match s with
  | EmptyString => None
  | String c r => if Ascii.eqb c " "%char then Some c else if Ascii.eqb c "("%char then Some c else stopc r
  end.

Lemma has_space_cons c r : has_space (String c r) = false -> Ascii.eqb c " "%char = false /\ has_space r = false.
Proof.
  cbn. destruct (Ascii.eqb c " "%char); [discriminate|].
  destruct (Ascii.eqb c "010"%char); [discriminate|]. auto.
Qed.

Lemma stopc_call f rest : has_space f = false -> stopc (f ++ String "("%char rest)%string = Some "("%char.
Proof.
  induction f as [|c r IH]; intros H; [reflexivity|].
  apply has_space_cons in H. destruct H as [Hc Hr]. cbn [append stopc]. rewrite Hc.
  destruct (Ascii.eqb_spec c "("%char) as [->|_]; [reflexivity | apply IH; exact Hr].
Qed.

Lemma before_paren_call f rest : has_space f = false ->
  exists bp, before_paren (f ++ String "("%char rest)%string = Some bp /\ has_space bp = false.
Proof.
  induction f as [|c r IH]; intros H.
  - exists EmptyString. split; reflexivity.
  - pose proof (has_space_cons _ _ H) as [Hc Hr]. cbn [append before_paren].
    destruct (Ascii.eqb c "("%char); [exists EmptyString; split; reflexivity|].
    destruct (IH Hr) as (bp & -> & Hb). exists (String c bp). split; [reflexivity|].
    cbn. cbn in H. rewrite Hc in *. destruct (Ascii.eqb c "010"%char); [discriminate | exact Hb].
Qed.

Lemma rstrip_nospace s : has_space s = false -> rstrip_sp s = s.
Proof.
  induction s as [|c r IH]; intros H; [reflexivity|].
  apply has_space_cons in H. destruct H as [Hc Hr]. cbn [rstrip_sp]. rewrite (IH Hr).
  destruct r; [rewrite Hc|]; reflexivity.
Qed.

Lemma stopc_shorten_call f rest :
  has_space f = false -> stopc (shorten (f ++ String "("%char rest)%string) = Some "("%char.
Proof.
  intros H. unfold shorten. destruct (32 <? py_len _).
  - destruct (before_paren_call f rest H) as (bp & -> & Hb). rewrite (rstrip_nospace bp Hb).
    apply (stopc_call bp "...)"). exact Hb.
  - apply stopc_call. exact H.
Qed.

Lemma has_paren_app a b : has_paren (a ++ b)%string = has_paren a || has_paren b.
Proof. induction a as [|c r IH]; cbn; [reflexivity|]. rewrite IH. apply orb_assoc. Qed.

Lemma before_paren_none s : has_paren s = false -> before_paren s = None.
Proof.
  induction s as [|c r IH]; cbn; [reflexivity|]. intros H. apply orb_false_iff in H. destruct H as [Hc Hr].
  rewrite Hc, (IH Hr). reflexivity.
Qed.

Lemma shorten_import m n :
  has_paren m = false -> has_paren n = false -> shorten (imp_text (m, n)) = imp_text (m, n).
Proof.
  intros Hm Hn. unfold shorten. rewrite before_paren_none; [destruct (32 <? py_len _); reflexivity|].
  unfold imp_text. cbn [fst snd]. rewrite !has_paren_app, Hm, Hn. reflexivity.
Qed.

Lemma stopc_import m n : stopc (imp_text (m, n)) = Some " "%char.
Proof. reflexivity. Qed.

(* decimal numerals contain no blank *)
Lemma uint_nospace : forall u, has_space (NilEmpty.string_of_uint u) = false.
Proof. induction u; cbn; auto. Qed.

Lemma z_to_string_nospace z : has_space (z_to_string z) = false.
Proof.
  unfold z_to_string, NilZero.string_of_int, NilZero.string_of_uint, Z.to_int.
  destruct z as [|q|q]; [reflexivity| |].
  - destruct (Pos.to_uint q) eqn:E; try (rewrite <- E; apply uint_nospace). reflexivity.
  - destruct (Pos.to_uint q) eqn:E; cbn [has_space]; try (rewrite <- E; apply uint_nospace); reflexivity.
Qed.

Lemma has_space_app a b : has_space (a ++ b)%string = has_space a || has_space b.
Proof.
  induction a as [|c r IH]; cbn; [reflexivity|]. rewrite IH.
  destruct (Ascii.eqb c " "%char); [reflexivity|]. destruct (Ascii.eqb c "010"%char); reflexivity.
Qed.

Lemma var_name_nospace j : has_space (var_name j) = false.
Proof. unfold var_name, nat_to_string. rewrite has_space_app, z_to_string_nospace. reflexivity. Qed.

(* the name under which fickling prints a callee it does not print as a complex expression *)
Definition callee_name (fe : expr) : option string :=
  match fe with
  | EName n => Some n
  | EVar j => Some (var_name j)
  | _ => None
  end.

Section Other.
Variable crepr : const -> string.
Variable std : string -> bool.

Lemma unparse_call_gen n ns fe args kw :
  unparse_expr crepr (S (S n)) ns (ECall fe args kw) =
  (unparse_expr crepr (S n) ns fe ++
   String "("%char (commas (map (unparse_expr crepr (S n) ns) args ++
                      match kw with Some k => ["**" ++ unparse_expr crepr (S n) ns k] | None => [] end)
     ++ ")"))%string.
Proof. reflexivity. Qed.

Lemma call_text_callee ns fe nm args kw :
  callee_name fe = Some nm ->
  exists rest, call_text crepr ns (ECall fe args kw) = (nm ++ String "("%char rest)%string.
Proof.
  intros H. unfold call_text. change UDEPTH with (S (S 38)). rewrite unparse_call_gen.
  destruct fe; try discriminate; inversion H; subst; eexists; reflexivity.
Qed.

Local Opaque unparse_expr shorten.

(* ---------- provenance of the de-duplication set ---------- *)
Lemma nonstd_dedup : forall imps d t,
  In t (snd (non_standard_imports std imps d)) ->
  In t d \/ exists mn, In mn imps /\ t = shorten (imp_text mn).
Proof.
  induction imps as [|mn r IH]; intros d t H; cbn [non_standard_imports] in H; [left; exact H|].
  destruct (std (fst mn)).
  - destruct (IH d t H) as [?|(x & ? & ?)]; [left; assumption | right; exists x; split; [right|]; assumption].
  - specialize (IH (add (shorten (imp_text mn)) d) t).
    destruct (non_standard_imports std r _) as [fs d']. cbn [snd] in *.
    destruct (IH H) as [Hd|(x & ? & ?)].
    + apply in_add in Hd. destruct Hd as [->|Hd]; [right; exists mn; split; [left|]; reflexivity | left; exact Hd].
    + right; exists x; split; [right|]; assumption.
Qed.

Lemma unsafe_ml_dedup : forall imps d t,
  In t (snd (unsafe_imports_ml imps d)) ->
  In t d \/ exists mn, In mn imps /\ t = shorten (imp_text mn).
Proof.
  induction imps as [|mn r IH]; intros d t H; cbn [unsafe_imports_ml] in H; [left; exact H|].
  specialize (IH (add (shorten (imp_text mn)) d) t).
  destruct (unsafe_imports_ml r _) as [fs d']. cbn [snd] in *.
  destruct (IH H) as [Hd|(x & ? & ?)].
  - apply in_add in Hd. destruct Hd as [->|Hd]; [right; exists mn; split; [left|]; reflexivity | left; exact Hd].
  - right; exists x; split; [right|]; assumption.
Qed.

Lemma bad_calls_dedup ns : forall calls d t,
  In t (snd (bad_calls_an crepr ns calls d)) ->
  In t d \/ exists f, In f (fst (bad_calls_an crepr ns calls d)) /\ f_sev f = "OVERTLY_MALICIOUS"%string.
Proof.
  induction calls as [|c r IH]; intros d t H; cbn [bad_calls_an] in *; [left; exact H|].
  destruct (bad_prefix _).
  - destruct (bad_calls_an crepr ns r _) as [fs d'] eqn:E. cbn [fst snd] in *.
    right. eexists. split; [left; reflexivity | reflexivity].
  - apply IH. exact H.
Qed.

(* ---------- OvertlyBadEvals reports every call it does not skip, or the text was already in the set ---------- *)
Definition skipped (safe : list string) (c : expr) : bool :=
  match callee_id c with Some s => mem_str s safe | None => false end.

Lemma overt_reports ns safe : forall calls d c0,
  In c0 calls -> skipped safe c0 = false ->
  (exists f, In f (fst (overtly_bad_evals crepr ns safe calls d)) /\
             (f_sev f = "OVERTLY_MALICIOUS"%string \/ f_sev f = "LIKELY_UNSAFE"%string)) \/
  In (shorten (call_text crepr ns c0)) d.
Proof.
  induction calls as [|c r IH]; intros d c0 Hin Hs; [destruct Hin|].
  cbn [overtly_bad_evals]. fold (skipped safe c).
  destruct (skipped safe c) eqn:Sk.
  - destruct Hin as [->|Hin]; [congruence|]. apply IH; assumption.
  - set (t := shorten (call_text crepr ns c)).
    assert ((exists f, In f (if overt_prefix t
                             then [mkF "OvertlyBadEvals" 0 "OvertlyBadEval" "OVERTLY_MALICIOUS" t [BStr t]]
                             else if mem_str t d then []
                             else [mkF "OvertlyBadEvals" 1 "OvertlyBadEval" "LIKELY_UNSAFE" t [BStr t]])
                        /\ (f_sev f = "OVERTLY_MALICIOUS"%string \/ f_sev f = "LIKELY_UNSAFE"%string))
            \/ In t d) as Here.
    { destruct (overt_prefix t); [left; eexists; split; [left; reflexivity | left; reflexivity]|].
      destruct (mem_str t d) eqn:M; [right; apply mem_str_In; exact M|].
      left; eexists; split; [left; reflexivity | right; reflexivity]. }
    assert (shorten (call_text crepr ns c0) = t \/ In c0 r) as Cases.
    { destruct Hin as [->|Hin]; [left; reflexivity | right; exact Hin]. }
    specialize (IH (add t d) c0).
    destruct (overtly_bad_evals crepr ns safe r (add t d)) as [fs d'] eqn:E. cbn [fst] in *.
    destruct Cases as [Eq|Hr].
    + rewrite Eq. destruct Here as [(f & Hf & Hsev)|Hd]; [|right; exact Hd].
      left. exists f. split; [apply in_or_app; left; exact Hf | exact Hsev].
    + destruct (IH Hr Hs) as [(f & Hf & Hsev)|Hd].
      * left. exists f. split; [apply in_or_app; right; exact Hf | exact Hsev].
      * apply in_add in Hd. destruct Hd as [Eq|Hd]; [|right; exact Hd].
        rewrite Eq. destruct Here as [(f & Hf & Hsev)|Hd]; [|right; exact Hd].
        left. exists f. split; [apply in_or_app; left; exact Hf | exact Hsev].
Qed.

Lemma imps_in_body b m n : In (m, n) (imports_of (rev b)) -> In (SImport m n) b.
Proof.
  unfold imports_of. intros H. apply in_flat_map in H. destruct H as (st & Hst & Hx).
  apply in_rev in Hst. destruct st; cbn in Hx; try contradiction. destruct Hx as [Hx|[]]. inversion Hx; subst. exact Hst.
Qed.

(* ---------- the body-level floor ---------- *)
Theorem body_floor_other_call protos s fs i fe nm args kw :
  analyze crepr std protos s = Some fs ->
  In (SAssignV i (ECall fe args kw)) (body s) ->
  callee_name fe = Some nm -> has_space nm = false ->
  (forall m', In (SImport m' nm) (body s) -> std m' = false) ->
  (forall m n, In (SImport m n) (body s) -> has_paren m = false /\ has_paren n = false) ->
  3 <= doc_rank (verdict fs).
Proof.
  intros HA Hin Hnm Hsp Hshadow Hident.
  rewrite analyze_eq in HA. cbv zeta in HA. inversion HA as [HF]; clear HA.
  set (ns := nodes s) in *. set (imps := imports_of (rev (body s))) in *.
  set (c0 := ECall fe args kw) in *.
  set (safe := map snd (filter (fun mn => std (fst mn)) imps)) in *.
  set (calls := flat_map (stmt_calls ns) (rev (body s))) in *.
  assert (In c0 (filter (fun c => negb (is_setstate_call c)) calls)) as Hc.
  { apply filter_In. split.
    - eapply stmt_call_in; [apply -> in_rev; exact Hin | subst c0; eauto].
    - subst c0. destruct fe; try discriminate; reflexivity. }
  assert (skipped safe c0 = false) as Hsk.
  { unfold skipped. assert (callee_id c0 = Some nm) as -> by (subst c0; destruct fe; try discriminate; exact Hnm).
    destruct (mem_str nm safe) eqn:M; [|reflexivity]. exfalso.
    apply mem_str_In in M. subst safe. apply in_map_iff in M. destruct M as ([m' n'] & E & Hf).
    cbn in E. subst n'. apply filter_In in Hf. destruct Hf as [Hi Hs]. cbn in Hs.
    apply imps_in_body in Hi. rewrite (Hshadow m' Hi) in Hs. discriminate. }
  set (r3 := non_standard_imports std imps []) in *.
  set (r4 := unsafe_imports_ml imps (snd r3)) in *.
  set (r5 := bad_calls_an crepr ns calls (snd r4)) in *.

  destruct (overt_reports ns safe _ (snd r5) c0 Hc Hsk) as [(f & Hf & Hsev)|Hd].
  - destruct Hsev as [Hsev|Hsev]; [apply Nat.le_trans with 5; [lia|]|];
      (eapply floor_from_finding; [ | exact Hsev | apply rank_names];
       do 5 (apply in_or_app; right); apply in_or_app; left; exact Hf).
  - (* the text was in the set before OvertlyBadEvals ran: BadCalls reported it, or it is an import text *)
    destruct (call_text_callee ns fe nm args kw Hnm) as (rest & Ht).
    assert (forall mn, In mn imps -> shorten (call_text crepr ns c0) <> shorten (imp_text mn)) as Hneq.
    { intros [m n] Hi E. apply imps_in_body in Hi. destruct (Hident m n Hi) as [Hm Hn].
      assert (stopc (shorten (call_text crepr ns c0)) = Some "("%char) as S1.
      { subst c0. rewrite Ht. apply stopc_shorten_call. exact Hsp. }
      rewrite E, (shorten_import m n Hm Hn), stopc_import in S1. discriminate. }
    destruct (bad_calls_dedup ns calls (snd r4) _ Hd) as [Hd4|(f & Hf & Hsev)].
    + exfalso. destruct (unsafe_ml_dedup imps (snd r3) _ Hd4) as [Hd3|(mn & Hi & E)]; [|exact (Hneq mn Hi E)].
      destruct (nonstd_dedup imps [] _ Hd3) as [[]|(mn & Hi & E)]. exact (Hneq mn Hi E).
    + apply Nat.le_trans with 5; [lia|].
      eapply floor_from_finding; [ | exact Hsev | apply rank_names].
      do 4 (apply in_or_app; right). apply in_or_app; left. exact Hf.
Qed.

End Other.

(* ---------- what the relation says about imports, the other direction ---------- *)
Lemma events_imports_sound al b l :
  rel_events al b l -> forall m n, In (SImport m n) b -> In (EvResolve m n) l /\ is_builtins m = false.
Proof.
  induction 1; intros m0 n0 Hin; cbn in Hin.
  - contradiction.
  - destruct Hin as [Hin|Hin]; [inversion Hin; subst; split; [left; reflexivity | assumption]|].
    destruct (IHrel_events _ _ Hin). split; [right|]; assumption.
  - destruct (IHrel_events _ _ Hin). split; [right|]; assumption.
  - destruct Hin as [Hin|Hin]; [discriminate|]. destruct (IHrel_events _ _ Hin). split; [right|]; assumption.
  - destruct Hin as [Hin|Hin]; [discriminate|]. destruct (IHrel_events _ _ Hin). split; [right|]; assumption.
  - destruct Hin as [Hin|Hin]; [discriminate|]. destruct (IHrel_events _ _ Hin). split; [right|]; assumption.
  - destruct Hin as [Hin|Hin]; [discriminate|]. eauto.
  - destruct Hin as [Hin|Hin]; [discriminate|]. destruct (IHrel_events _ _ Hin). split; [right|]; assumption.
  - destruct Hin as [Hin|Hin]; [discriminate|]. eauto.
Qed.
