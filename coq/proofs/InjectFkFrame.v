(* C08: a frame lemma for fickling's SYMBOLIC interpreter, driven by the reference VM's acceptance:
   while the reference VM accepts a program from a state of the same shape, the interpreter running
   above extra bottom-of-stack items never reads or changes them. *)
From Coq Require Import List String Ascii ZArith Bool Arith Lia.
From Verif Require Import Base Ops Interp RefVM Shape ShapeProofs Inject InjectProofs InjectSevProofs.
Import ListNotations.
Local Open Scope nat_scope.
Local Open Scope list_scope.

Definition app_bot (bot : list item) (s : fk) : fk :=
  mkFk (stack s ++ bot) (memo s) (nodes s) (body s) (ctr s) (stopped s).

(* a symbolic stack whose top segment holds n values *)
Lemma frames_decomp : forall st n fs,
  frames_of st = n :: fs ->
  exists items r, st = map IE items ++ r /\ List.length items = n /\
                  ((fs = [] /\ r = []) \/ (exists r', r = IMark :: r' /\ frames_of r' = fs)).
Proof.
  induction st as [|[|e] st IH]; intros n fs H; cbn [frames_of] in H.
  - injection H as <- <-. exists [], []. auto.
  - injection H as <- <-. exists [], (IMark :: st). split; [reflexivity|]. split; [reflexivity|]. right. eauto.
  - destruct (frames_of st) as [|h t] eqn:F.
    + destruct (frames_of_cons st) as (h & t & F'). rewrite F' in F. discriminate.
    + injection H as <- <-. destruct (IH h t eq_refl) as (items & r & -> & L & D).
      exists (e :: items), r. split; [reflexivity|]. split; [cbn; lia|exact D].
Qed.

Lemma emit_import_eq m n s :
  emit_import m n s = mkFk (stack s) (memo s) (nodes s) (import_stmt m n (body s)) (ctr s) (stopped s).
Proof. unfold emit_import, import_stmt, emit. destruct (is_builtins m); destruct s; reflexivity. Qed.
Opaque import_stmt emit_import.

Ltac unfold_fk H :=
  unfold step in H; rewrite ?emit_import_eq in H;
  unfold pop_val, pop_slice, top_val, push, with_stack, alloc, set_node, get_node, emit,
    bind_call, new_variable, call_with, emit, bind in H.
Ltac unfold_fk_goal :=
  unfold step; rewrite ?emit_import_eq;
  unfold pop_val, pop_slice, top_val, push, with_stack, alloc, set_node, get_node, emit,
    bind_call, new_variable, call_with, emit, bind.
Ltac unfold_vm H :=
  unfold vstep, vpop, vtop, vpop_mark, vpush, vpush', with_frames, find_class, do_call, bind in H.

Ltac peel items L :=
  repeat (match type of L with
          | List.length items = S _ =>
              destruct items as [|? items]; [discriminate L|]; cbn [List.length] in L; apply eq_add_S in L
          end).

Ltac use_eqs :=
  repeat match goal with
         | E : ?x = _ |- context [?x] => rewrite E
         end.

Lemma fold_setitem_app_bot bot ct kvs : forall st mm ns bd c sp,
  let f := (fun (st0 : fk) (kv : expr * expr) =>
              mkFk (stack st0) (memo st0) (nodes st0) (SSetItemV ct (fst kv) (snd kv) :: body st0)
                   (ctr st0) (stopped st0)) in
  fold_left f kvs (mkFk (st ++ bot) mm ns bd c sp) = app_bot bot (fold_left f kvs (mkFk st mm ns bd c sp)).
Proof.
  induction kvs as [|kv r IH]; intros st mm ns bd c sp f; cbn [fold_left]; [reflexivity|].
  unfold f at 2 4. cbn [stack memo nodes body ctr stopped]. apply IH.
Qed.

Lemma step_unlift bot o s v v' t :
  frames_of (stack s) = List.length (cur v) :: map (@List.length val) (meta v) ->
  vstep o v = Ok v' -> step o (app_bot bot s) = Ok t ->
  exists s', step o s = Ok s' /\ t = app_bot bot s'.
Proof.
  intros F Hv Ht. destruct s as [st mm ns bd ct sp]. destruct v as [c me vmm h lg k vst].
  unfold app_bot in *. cbn [stack memo nodes body ctr stopped cur meta] in *.
  destruct o.
  all: unfold_vm Hv; cbn in Hv; crush Hv; crush_hyps; cbn [cur meta vmemo heap log nobj vstopped] in *; subst; cbn [List.length map] in F;
       destruct (frames_decomp _ _ _ F) as (items & r & -> & L & D); peel items L.
  all: try (unfold_fk Ht; cbn in Ht; crush Ht; crush_hyps;
            eexists; split; unfold_fk_goal; cbn; use_eqs; rewrite ?emit_import_eq; cbn; use_eqs; reflexivity).
  (* opcodes that look for a mark *)
  all: try (destruct D as [[D1 _]|(r' & -> & F')]; [discriminate D1|];
            cbn [List.length map] in F';
            destruct (frames_decomp _ _ _ F') as (items2 & r2 & -> & L2 & D2); peel items2 L2;
            rewrite <- app_assoc in Ht; cbn [app map] in Ht;
            unfold step, pop_slice in Ht |- *; cbn [stack] in Ht |- *;
            rewrite split_mark_items in Ht; rewrite split_mark_items;
            unfold_fk Ht; cbn in Ht; crush Ht; crush_hyps;
            eexists; split; unfold_fk_goal; cbn; use_eqs; rewrite ?emit_import_eq; cbn; use_eqs; reflexivity).
  1: { destruct items; [|discriminate L]. destruct D as [[D1 _]|(r' & -> & _)]; [discriminate D1|].
       cbn in Ht. injection Ht as <-. eexists; split; reflexivity. }
  all: destruct D as [[D1 _]|(r' & -> & F')]; [discriminate D1|];
            cbn [List.length map] in F';
            destruct (frames_decomp _ _ _ F') as (items2 & r2 & -> & L2 & D2); peel items2 L2;
            rewrite <- app_assoc in Ht; cbn [app map] in Ht;
            unfold step, pop_slice in Ht |- *; cbn [stack] in Ht |- *;
            rewrite split_mark_items in Ht; rewrite split_mark_items;
            unfold_fk Ht; cbn in Ht; crush Ht; crush_hyps.
  all: eexists; split. all: unfold_fk_goal; cbn; use_eqs; rewrite ?emit_import_eq; cbn; use_eqs. all: try reflexivity.
  all: rewrite (fold_setitem_app_bot bot ct); reflexivity.
Qed.

Lemma shape_frames s v :
  shape_fk s = shape_vm v ->
  frames_of (stack s) = List.length (cur v) :: map (@List.length val) (meta v) /\ stopped s = is_stopped v.
Proof. unfold shape_fk, shape_vm. intros H. inversion H. auto. Qed.

(* whole programs: as long as the reference VM accepts q from a state of the same shape, the symbolic
   run above [bot] is the symbolic run without it, with [bot] untouched underneath *)
Lemma run_unlift bot : forall q s v v' t,
  shape_fk s = shape_vm v -> vrun_from q v = Ok v' -> run_from q (app_bot bot s) = Ok t ->
  exists s', run_from q s = Ok s' /\ t = app_bot bot s' /\ shape_fk s' = shape_vm v'.
Proof.
  induction q as [|o r IH]; intros s v v' t SH Hv Ht; cbn [run_from vrun_from] in *.
  - injection Hv as <-. injection Ht as <-. eauto.
  - destruct (shape_frames _ _ SH) as [FR ST].
    change (stopped (app_bot bot s)) with (stopped s) in Ht. rewrite ST in *.
    destruct (is_stopped v).
    + injection Hv as <-. injection Ht as <-. eauto.
    + destruct (vstep o v) as [v1|] eqn:V1; cbn [bind] in Hv; [|discriminate].
      destruct (step o (app_bot bot s)) as [t1|] eqn:T1; cbn [bind] in Ht; [|discriminate].
      destruct (step_unlift bot o s v v1 t1 FR V1 T1) as (s1 & S1 & ->).
      rewrite S1. cbn [bind]. apply (IH s1 v1 v' t (step_agree _ _ _ _ _ SH S1 V1) Hv Ht).
Qed.

(* the call set-up alone on the symbolic interpreter *)
Lemma fk_setup_block m n args rest st mm ns bd ct :
  plain2 m n = true ->
  exists es ns',
    run_from (call_setup m n (encode_objs args) ++ rest) (mkFk st mm ns bd ct false) =
    run_from rest (mkFk (IE (ETuple es) :: IE (EName n) :: st) mm ns' (import_stmt m n bd) ct false).
Proof.
  intros P. unfold call_setup. rewrite encode_objs_enc_list. cbn [app]. rewrite run_cons.
  unfold step. unfold plain2 in P. rewrite P, emit_import_eq. cbn [bind].
  unfold push, with_stack. cbn [stack memo nodes body ctr stopped].
  rewrite run_cons. cbn [step bind]. unfold with_stack. cbn [stack memo nodes body ctr stopped].
  rewrite <- app_assoc.
  destruct (fk_enc_list args (proj2 (Forall_forall fpushes args) (fun a _ => encode_obj_fpushes a))
              ([OTuple] ++ rest) (IMark :: IE (EName n) :: st) mm ns (import_stmt m n bd) ct)
    as (es & ns1 & E).
  rewrite E. cbn [app]. rewrite run_cons. unfold step, pop_slice. cbn [stack]. rewrite split_mark_items. cbn [bind].
  unfold with_stack, push, with_stack. cbn [stack memo nodes body ctr stopped bind].
  eexists _, _. reflexivity.
Qed.

(* insert_python run_first=False: the REDUCE placed after the whole base pickle still finds the
   callee NAME it pushed before it *)
Theorem run_last_call_decompiled m n args rep p r sq p' fv s :
  plain2 m n = true -> base_run p = Some (r, sq) ->
  inject (MInsert m n args false rep) p = Ok p' ->
  run_from p' (fk_init fv) = Ok s ->
  exists i es, In (SAssignV i (ECall (EName n) es None)) (body s).
Proof.
  intros P HB HI HR. apply base_run_inv in HB. destruct HB as (q0 & -> & R & NS & C & M).
  cbn [inject] in HI. apply insert_python_ok in HI. destruct HI as (_ & HI). cbv zeta in HI.
  rewrite insert_block_split in HI.
  set (k := skip_noops q0) in *. set (q := skipn k q0) in *.
  assert (vrun_from q vm_init = Ok sq) as Rq.
  { rewrite (skip_noops_split q0), vrun_noops in R. exact R. }
  assert (exists tail, p' = repeat ONoop k ++ call_setup m n (encode_objs args) ++ q ++ tail /\
                       exists pre rest, tail = pre ++ OPop :: OReduce :: rest /\ (pre = [] \/ pre = [OMemoize])) as (tail & -> & pre & rest & -> & PRE).
  { replace (repeat ONoop k ++ call_setup m n (encode_objs args) ++ q ++ [OStop])
      with ((repeat ONoop k ++ call_setup m n (encode_objs args) ++ q) ++ [OStop]) in HI
      by (repeat rewrite <- app_assoc; reflexivity).
    destruct rep.
    - subst p'. rewrite insert_last_seq_app. repeat rewrite <- app_assoc.
      exists ([OPop; OReduce] ++ [OStop]). split; [reflexivity|]. exists [], [OStop]. auto.
    - destruct HI as (f & _ & ->). rewrite insert_last_seq_app. repeat rewrite <- app_assoc.
      eexists. split; [reflexivity|]. exists [OMemoize]. eexists. split; [reflexivity|auto]. }
  rewrite run_noops in HR. unfold fk_init in HR.
  destruct (fk_setup_block m n args (q ++ pre ++ OPop :: OReduce :: rest) [] [] [] [] fv P) as (es & ns1 & E).
  rewrite E, run_app in HR.
  set (bot := [IE (ETuple es); IE (EName n)]) in *.
  set (small := mkFk [] [] ns1 (import_stmt m n []) fv false) in *.
  change (mkFk bot [] ns1 (import_stmt m n []) fv false) with (app_bot bot small) in HR.
  destruct (run_from q (app_bot bot small)) as [t|] eqn:RT; cbn [bind] in HR; [|discriminate].
  destruct (run_unlift bot q small vm_init sq t eq_refl Rq RT) as (s' & _ & -> & SH).
  destruct (shape_frames _ _ SH) as [FR ST]. rewrite C, M, NS in *. cbn [List.length map] in FR.
  destruct (frames_decomp _ _ _ FR) as (items & r0 & E0 & L & D).
  destruct D as [[_ ->]|(r' & _ & F')];
    [|destruct (frames_of_cons r') as (h0 & t0 & E'); rewrite E' in F'; discriminate F'].
  destruct items as [|x [|? ?]]; try discriminate L. cbn [map app] in E0.
  destruct s' as [st mm ns bd ct sp]. cbn [stack stopped] in E0, ST. subst st sp.
  unfold app_bot, bot in HR. cbn [stack memo nodes body ctr stopped app] in HR.
  assert (exists mm', run_from (pre ++ OPop :: OReduce :: rest)
            (mkFk [IE x; IE (ETuple es); IE (EName n)] mm ns bd ct false) =
          run_from rest (mkFk [IE (EVar ct)] mm' ns (SAssignV ct (ECall (EName n) es None) :: bd) (S ct) false)) as (mm' & E1).
  { destruct PRE as [->| ->]; cbn [app]; eexists; reflexivity. }
  rewrite E1 in HR. destruct (run_body _ _ _ HR) as (new & EB). cbn [body] in EB.
  exists ct, es. rewrite EB. apply in_or_app. right. left. reflexivity.
Qed.

(* the call every call-injecting mode adds (for the call-on-object helper: its eval of the name) *)
Definition injected_callee (md : mode) : option (string * string) :=
  match md with
  | MInsert m n _ _ _ => Some (m, n)
  | MAppend m n _ _ => Some (m, n)
  | MCallObj _ _ _ _ => Some ("builtins", "eval")%string
  | MMagic _ _ => None
  end.

Theorem injected_call_decompiled_all md m n p r sq p' fv s :
  injected_callee md = Some (m, n) -> plain2 m n = true ->
  single_final_stop p = true -> base_run p = Some (r, sq) ->
  inject md p = Ok p' -> run_from p' (fk_init fv) = Ok s ->
  exists i es, In (SAssignV i (ECall (EName n) es None)) (body s).
Proof.
  intros HC P HS HB HI HR.
  destruct md as [m0 n0 args [|] rep|m0 n0 cs pop|magic index|fdef fname bc cargs]; cbn [injected_callee] in HC;
    try discriminate HC.
  - exact (injected_call_decompiled (MInsert m0 n0 args true rep) m n p p' fv s HC P HS HI HR).
  - injection HC as <- <-. exact (run_last_call_decompiled m0 n0 args rep p r sq p' fv s P HB HI HR).
  - exact (injected_call_decompiled (MAppend m0 n0 cs pop) m n p p' fv s HC P HS HI HR).
  - exact (injected_call_decompiled (MCallObj fdef fname bc cargs) m n p p' fv s HC P HS HI HR).
Qed.
