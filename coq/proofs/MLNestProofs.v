(* Lemmas about the nesting model (C07). *)
From Coq Require Import List String Bool Arith Lia.
From Verif Require Import Base Allowlist LoaderPaths MLNest.
Import ListNotations.
Local Open Scope list_scope.

(* ---------- induction over trees (nested lists) ---------- *)
Section NodeInd.
  Variable P : node -> Prop.
  Variable Q : ev -> Prop.
  Hypothesis HN : forall k evs, Forall Q evs -> P (Node k evs).
  Hypothesis HG : forall g, Q (EGlob g).
  Hypothesis HC : forall c ct ok ch, Forall P ch -> Q (ECall c ct ok ch).

  Fixpoint node_ind2 (n : node) : P n :=
    match n with
    | Node k evs =>
        HN k evs ((fix go (l : list ev) : Forall Q l :=
                     match l with
                     | [] => Forall_nil Q
                     | e :: r => Forall_cons e (ev_ind2 e) (go r)
                     end) evs)
    end
  with ev_ind2 (e : ev) : Q e :=
    match e with
    | EGlob g => HG g
    | ECall c ct ok ch =>
        HC c ct ok ch ((fix go (l : list node) : Forall P l :=
                          match l with
                          | [] => Forall_nil P
                          | n :: r => Forall_cons n (node_ind2 n) (go r)
                          end) ch)
    end.
End NodeInd.

(* ---------- permitted prefix / first refused ---------- *)
Lemma first_refused_app a l1 l2 :
  first_refused a (l1 ++ l2) =
  match first_refused a l1 with Some g => Some g | None => first_refused a l2 end.
Proof.
  induction l1 as [|g r IH]; simpl; [reflexivity|].
  destruct (spec_permits a g); [exact IH|reflexivity].
Qed.

Lemma take_permitted_app a l1 l2 :
  take_permitted a (l1 ++ l2) =
  match first_refused a l1 with
  | Some _ => take_permitted a l1
  | None => l1 ++ take_permitted a l2
  end.
Proof.
  induction l1 as [|g r IH]; simpl; [reflexivity|].
  destruct (spec_permits a g); [|reflexivity].
  rewrite IH. destruct (first_refused a r); reflexivity.
Qed.

Lemma take_permitted_all a gs : Forall (fun g => spec_permits a g = true) (take_permitted a gs).
Proof.
  induction gs as [|g r IH]; simpl; [constructor|].
  destruct (spec_permits a g) eqn:E; constructor; assumption.
Qed.

Lemma first_refused_spec a gs :
  match first_refused a gs with
  | None => take_permitted a gs = gs /\ Forall (fun g => spec_permits a g = true) gs
  | Some g => spec_permits a g = false /\ exists rest, gs = take_permitted a gs ++ g :: rest
  end.
Proof.
  induction gs as [|g r IH]; simpl; [split; [reflexivity|constructor]|].
  destruct (spec_permits a g) eqn:E.
  - destruct (first_refused a r) as [b|].
    + destruct IH as [Hb [rest Hr]]. split; [exact Hb|]. exists rest. simpl. congruence.
    + destruct IH as [H1 H2]. split; [congruence|constructor; assumption].
  - split; [exact E|]. exists r. reflexivity.
Qed.

(* ---------- restrict commutes with sequential composition ---------- *)
Lemma restrict_seq_res a rs :
  restrict a (seq_res rs) = seq_res (map (restrict a) rs).
Proof.
  induction rs as [|[l o] r IH]; [reflexivity|].
  cbn [map]. unfold restrict at 2. cbn [fst].
  destruct (first_refused a l) as [g|] eqn:Ef.
  - (* a refused global already in this part *)
    cbn [seq_res]. destruct o.
    + destruct (seq_res r) as [l' o']. unfold restrict. cbn [fst].
      rewrite first_refused_app, take_permitted_app, Ef. reflexivity.
    + unfold restrict. cbn [fst]. rewrite Ef. reflexivity.
    + unfold restrict. cbn [fst]. rewrite Ef. reflexivity.
  - destruct o.
    + cbn [seq_res]. rewrite <- IH. destruct (seq_res r) as [l' o'].
      unfold restrict. cbn [fst]. rewrite first_refused_app, take_permitted_app, Ef.
      destruct (first_refused a l'); reflexivity.
    + cbn [seq_res]. unfold restrict. cbn [fst]. rewrite Ef. reflexivity.
    + cbn [seq_res]. unfold restrict. cbn [fst]. rewrite Ef. reflexivity.
Qed.

Lemma map_ext_Forall {A B} (f g : A -> B) l : Forall (fun x => f x = g x) l -> map f l = map g l.
Proof. induction 1; simpl; congruence. Qed.

(* ---------- a fully mediated tree ---------- *)
Lemma resolve_mediated a k g :
  mediated k = true -> resolve (pass_ml a) k g = restrict a (resolve pass_all k g).
Proof.
  intros Hk. unfold resolve, pass_ml, pass_all, restrict. rewrite Hk. simpl.
  destruct (spec_permits a g); reflexivity.
Qed.

Lemma restrict_nil a o : restrict a ([], o) = ([], o).
Proof. reflexivity. Qed.

Lemma run_node_eq pass k evs : run_node pass (Node k evs) = seq_res (map (run_ev pass k) evs).
Proof. reflexivity. Qed.

Lemma run_ev_glob pass k g : run_ev pass k (EGlob g) = resolve pass k g.
Proof. reflexivity. Qed.

Lemma run_ev_call pass k c ct ok ch :
  run_ev pass k (ECall c ct ok ch) =
  seq_res [resolve pass k c; seq_res (map (run_node pass) ch); ([], if ok then Done else OtherError)].
Proof. reflexivity. Qed.

Lemma mediated_tree_eq a : forall n,
  all_mediated n = true -> run_ml a n = restrict a (run_stock n).
Proof.
  unfold run_ml, run_stock.
  apply (node_ind2
    (fun n => all_mediated n = true -> run_node (pass_ml a) n = restrict a (run_node pass_all n))
    (fun e => forall k, mediated k = true -> ev_mediated e = true ->
                        run_ev (pass_ml a) k e = restrict a (run_ev pass_all k e))).
  - intros k evs IH Hm. cbn [all_mediated] in Hm. apply andb_true_iff in Hm. destruct Hm as [Hk He].
    rewrite !run_node_eq, restrict_seq_res, map_map. f_equal.
    apply map_ext_Forall. rewrite forallb_forall in He. rewrite Forall_forall in IH |- *.
    intros e Hin. apply IH; auto.
  - intros g k Hk _. rewrite !run_ev_glob. apply resolve_mediated. exact Hk.
  - intros c ct ok ch IH k Hk Hm. cbn [ev_mediated] in Hm. rewrite !run_ev_call.
    rewrite restrict_seq_res. cbn [map]. rewrite restrict_nil, restrict_seq_res, map_map.
    rewrite (resolve_mediated a k c Hk).
    assert (E : map (run_node (pass_ml a)) ch = map (fun n => restrict a (run_node pass_all n)) ch).
    { apply map_ext_Forall. rewrite forallb_forall in Hm. rewrite Forall_forall in IH |- *.
      intros n Hin. apply IH; auto. }
    rewrite E. reflexivity.
Qed.

(* the readable consequences *)
Lemma mediated_tree a n :
  all_mediated n = true ->
  run_ml a n = restrict a (run_stock n) /\
  Forall (fun g => spec_permits a g = true) (fst (run_ml a n)) /\
  (forall g, first_refused a (fst (run_stock n)) = Some g ->
     snd (run_ml a n) = Unsafe g /\ spec_permits a g = false /\
     (exists rest, fst (run_stock n) = fst (run_ml a n) ++ g :: rest) /\
     ~ In g (fst (run_ml a n))) /\
  (first_refused a (fst (run_stock n)) = None -> run_ml a n = run_stock n).
Proof.
  intros Hm. pose proof (mediated_tree_eq a n Hm) as E. split; [exact E|].
  pose proof (first_refused_spec a (fst (run_stock n))) as S.
  rewrite E. unfold restrict. destruct (first_refused a (fst (run_stock n))) as [b|] eqn:Ef.
  - destruct S as [Hb Hr]. cbn [fst snd]. split; [apply take_permitted_all|]. split.
    + intros g Hg. inversion Hg; subst g. split; [reflexivity|]. split; [exact Hb|]. split; [exact Hr|].
      intros Hin. pose proof (take_permitted_all a (fst (run_stock n))) as F.
      rewrite Forall_forall in F. specialize (F b Hin). congruence.
    + discriminate.
  - destruct S as [H1 H2]. split; [exact H2|]. split; [discriminate|reflexivity].
Qed.

(* ---------- from the generated table to "every node is mediated" ---------- *)
Lemma gname_eqb_eq a b : gname_eqb a b = true -> a = b.
Proof.
  destruct a, b. unfold gname_eqb. simpl. intros H. apply andb_true_iff in H. destruct H as [H1 H2].
  apply String.eqb_eq in H1. apply String.eqb_eq in H2. congruence.
Qed.

Lemma lookup_path_in c ct t v :
  lookup_path c ct t = Some v -> In ((c, ct), v) t.
Proof.
  induction t as [|[[c' ct'] v'] r IH]; simpl; [discriminate|].
  destruct (gname_eqb c c' && String.eqb ct ct') eqn:E.
  - intros H. inversion H; subst. apply andb_true_iff in E. destruct E as [E1 E2].
    apply gname_eqb_eq in E1. apply String.eqb_eq in E2. subst. left. reflexivity.
  - intros H. right. apply IH. exact H.
Qed.

Lemma list_str_eqb_eq a : forall b, list_str_eqb a b = true -> a = b.
Proof.
  induction a as [|x r IH]; intros [|y s]; simpl; try discriminate; [reflexivity|].
  intros H. apply andb_true_iff in H. destruct H as [H1 H2]. apply String.eqb_eq in H1.
  rewrite (IH s H2). congruence.
Qed.

Definition table_ok (bad : gname -> string -> bool) : Prop :=
  forall row, In row loader_paths ->
    bad (fst (fst row)) (snd (fst row)) = false -> pair_mediated row = true.

Lemma conforming_tree_mediated bad :
  table_ok bad ->
  forall n, mediated (kind_of n) = true -> conforms n = true -> uses bad n = false ->
            all_mediated n = true.
Proof.
  intros Ht.
  apply (node_ind2
    (fun n => mediated (kind_of n) = true -> conforms n = true -> uses bad n = false ->
              all_mediated n = true)
    (fun e => ev_conforms e = true -> ev_uses bad e = false -> ev_mediated e = true)).
  - intros k evs IH Hk Hc Hu. cbn [kind_of] in Hk. cbn [conforms] in Hc. cbn [uses] in Hu.
    cbn [all_mediated]. rewrite Hk. simpl. apply forallb_forall. intros e Hin.
    rewrite Forall_forall in IH. rewrite forallb_forall in Hc. apply IH; auto.
    destruct (ev_uses bad e) eqn:E; [|reflexivity].
    assert (existsb (ev_uses bad) evs = true) by (apply existsb_exists; exists e; auto). congruence.
  - reflexivity.
  - intros c ct ok ch IH Hc Hu. cbn [ev_conforms] in Hc. cbn [ev_uses] in Hu. cbn [ev_mediated].
    apply orb_false_iff in Hu. destruct Hu as [Hb Hu].
    unfold path in Hc. destruct (lookup_path c (container_name ct) loader_paths) as [[kinds ok']|] eqn:El;
      [|discriminate].
    apply andb_true_iff in Hc. destruct Hc as [Hc Hch]. apply andb_true_iff in Hc. destruct Hc as [Hk _].
    apply list_str_eqb_eq in Hk. apply lookup_path_in in El.
    pose proof (Ht _ El Hb) as Hp. unfold pair_mediated in Hp. cbn [fst snd] in Hp.
    rewrite Hk in Hp. rewrite forallb_forall in Hp.
    apply forallb_forall. intros n Hin. rewrite Forall_forall in IH. rewrite forallb_forall in Hch.
    apply IH; auto.
    + apply Hp. apply in_map. exact Hin.
    + destruct (uses bad n) eqn:E; [|reflexivity].
      assert (existsb (uses bad) ch = true) by (apply existsb_exists; exists n; auto). congruence.
Qed.

(* ---------- the finite part: re-checked against the generated table on every run ---------- *)
Definition table_check (bad : gname -> string -> bool) : bool :=
  forallb (fun row => bad (fst (fst row)) (snd (fst row)) || pair_mediated row) loader_paths.

Lemma table_check_ok bad : table_check bad = true -> table_ok bad.
Proof.
  unfold table_check, table_ok. intros H row Hin Hb. rewrite forallb_forall in H.
  specialize (H row Hin). cbv beta in H. apply orb_true_iff in H. destruct H as [H|H]; [|exact H].
  exfalso. assert (X : false = true).
  { transitivity (bad (fst (fst row)) (snd (fst row))); [symmetry; exact Hb|exact H]. }
  discriminate.
Qed.

Lemma table_check_d11 : table_check d11 = true.
Proof. vm_compute. reflexivity. Qed.

Lemma paths_mediated_except_d11 : table_ok d11.
Proof. exact (table_check_ok d11 table_check_d11). Qed.

(* the four entry points themselves are replaced *)
Definition entry_points : list string := ["pickle.load"; "pickle.loads"; "_pickle.load"; "_pickle.loads"]%string.

Lemma entry_points_mediated : forallb mediated entry_points = true.
Proof. vm_compute. reflexivity. Qed.

Lemma safe_without_d11 a n :
  In (kind_of n) entry_points -> conforms n = true -> uses d11 n = false ->
  run_ml a n = restrict a (run_stock n).
Proof.
  intros He Hc Hu. apply mediated_tree_eq.
  apply (conforming_tree_mediated d11 paths_mediated_except_d11); auto.
  pose proof entry_points_mediated as H. rewrite forallb_forall in H. apply H. exact He.
Qed.

(* ---------- after the repair of D11 (the environment also replaces pickle.Unpickler): EVERY row of
   the regenerated table is mediated, so every conforming tree is ---------- *)
Definition no_bad (_ : gname) (_ : string) : bool := false.

Lemma table_check_all : table_check no_bad = true.
Proof. vm_compute. reflexivity. Qed.

Lemma paths_mediated_all : forall row, In row loader_paths -> pair_mediated row = true.
Proof. intros row Hin. exact (table_check_ok no_bad table_check_all row Hin eq_refl). Qed.

Lemma uses_no_bad : forall n, uses no_bad n = false.
Proof.
  apply (node_ind2 (fun n => uses no_bad n = false) (fun e => ev_uses no_bad e = false)).
  - intros k evs IH. cbn [uses]. rewrite Forall_forall in IH.
    destruct (existsb (ev_uses no_bad) evs) eqn:E; [|reflexivity].
    apply existsb_exists in E. destruct E as (e & Hin & He). rewrite (IH e Hin) in He. discriminate.
  - reflexivity.
  - intros c ct ok ch IH. cbn [ev_uses]. unfold no_bad at 1. cbn [orb]. rewrite Forall_forall in IH.
    destruct (existsb (uses no_bad) ch) eqn:E; [|reflexivity].
    apply existsb_exists in E. destruct E as (n & Hin & Hn). rewrite (IH n Hin) in Hn. discriminate.
Qed.

Lemma safe_conforming a n :
  In (kind_of n) entry_points -> conforms n = true -> run_ml a n = restrict a (run_stock n).
Proof.
  intros He Hc. apply mediated_tree_eq.
  apply (conforming_tree_mediated no_bad (table_check_ok no_bad table_check_all)); auto.
  - pose proof entry_points_mediated as H. rewrite forallb_forall in H. apply H. exact He.
  - apply uses_no_bad.
Qed.
