(* C01 -- soundness of the call-graph closure computation, proved once for EVERY graph.
   [reachable] is the inductive path relation; the executable [closed] / [check_avoid] checks of
   model/Effects.v are shown to imply the statement about all paths. *)
From Coq Require Import List String Bool Arith Lia.
From Verif Require Import Base Effects.
Import ListNotations.
Local Open Scope nat_scope.

(* paths in the graph: zero or more edges *)
Inductive reachable (g : graph) (a : nat) : nat -> Prop :=
| reach_refl : reachable g a a
| reach_step : forall b c, reachable g a b -> In c (succs g b) -> reachable g a c.

Lemma reachable_trans : forall g a b c, reachable g a b -> reachable g b c -> reachable g a c.
Proof.
  intros g a b c Hab Hbc. induction Hbc.
  - exact Hab.
  - eapply reach_step; eauto.
Qed.

(* ---- bitmaps ---- *)
Lemma inb_lt : forall bm n, inb bm n = true -> n < List.length bm.
Proof.
  intros bm n H. destruct (Nat.lt_ge_cases n (List.length bm)) as [L|L]; auto.
  unfold inb in H. rewrite nth_overflow in H; [discriminate | exact L].
Qed.

Lemma members_In : forall bm n, In n (members bm) <-> inb bm n = true.
Proof.
  intros bm n. unfold members. rewrite filter_In, in_seq. split.
  - tauto.
  - intro H. pose proof (inb_lt bm n H). split; [lia | exact H].
Qed.

Lemma setb_inb : forall bm x y, inb (setb x bm) y = true -> y = x \/ inb bm y = true.
Proof.
  unfold inb. induction bm as [|b r IH]; intros x y H.
  - simpl in H. destruct y; discriminate.
  - destruct x as [|x]; destruct y as [|y]; simpl in *; auto.
    destruct (IH x y H) as [E|E]; auto.
Qed.

Lemma inb_repeat_false : forall k n, inb (repeat false k) n = false.
Proof.
  unfold inb. induction k as [|k IH]; intros n; simpl.
  - destruct n; reflexivity.
  - destruct n; auto.
Qed.

Lemma succs_in_range : forall g b c, In c (succs g b) -> b < List.length g.
Proof.
  intros g b c H. destruct (Nat.lt_ge_cases b (List.length g)) as [L|L]; auto.
  unfold succs in H. rewrite nth_overflow in H; [destruct H | exact L].
Qed.

Lemma eff_eqb_eq : forall a b, eff_eqb a b = true <-> a = b.
Proof. intros a b. destruct a, b; simpl; split; intro H; try reflexivity; try discriminate. Qed.

Lemma mem_eff_In : forall x l, mem_eff x l = true <-> In x l.
Proof.
  intros x l. induction l as [|y r IH]; simpl.
  - split; [discriminate | tauto].
  - destruct (eff_eqb x y) eqn:E.
    + apply eff_eqb_eq in E. subst. split; auto.
    + rewrite IH. split; [auto | intros [H|H]; [subst; rewrite (proj2 (eff_eqb_eq x x) eq_refl) in E; discriminate | exact H]].
Qed.

(* ---- a closed set containing the start contains everything reachable from it ---- *)
Lemma closed_step : forall g X, closed g X = true ->
  forall n m, inb X n = true -> In m (succs g n) -> inb X m = true.
Proof.
  intros g X H n m Hn Hm. unfold closed in H. rewrite forallb_forall in H.
  assert (In n (seq 0 (List.length g))) as Hin.
  { apply in_seq. pose proof (succs_in_range g n m Hm). lia. }
  specialize (H n Hin). rewrite Hn in H. simpl in H. rewrite forallb_forall in H. exact (H m Hm).
Qed.

Theorem closed_sound : forall g X, closed g X = true ->
  forall e, inb X e = true -> forall n, reachable g e n -> inb X n = true.
Proof.
  intros g X HC e He n Hr. induction Hr.
  - exact He.
  - eapply closed_step; eauto.
Qed.

(* ---- every member of the computed closure IS reachable (the closure is not an over-estimate) ---- *)
Lemma closure_go_members : forall g (R : nat -> Prop),
  (forall x y, R x -> In y (succs g x) -> R y) ->
  forall fuel todo seen,
  (forall x, In x todo -> R x) -> (forall x, inb seen x = true -> R x) ->
  forall n, inb (closure_go g fuel todo seen) n = true -> R n.
Proof.
  intros g R Hstep. induction fuel as [|k IH]; intros todo seen Ht Hs n Hn; simpl in Hn.
  - exact (Hs n Hn).
  - destruct todo as [|x r].
    + exact (Hs n Hn).
    + destruct (inb seen x) eqn:E.
      * apply (IH r seen); auto. intros y Hy. apply Ht. right. exact Hy.
      * apply (IH (succs g x ++ r)%list (setb x seen)); auto.
        -- intros y Hy. apply in_app_or in Hy. destruct Hy as [Hy|Hy].
           ++ apply (Hstep x y); auto. apply Ht. left. reflexivity.
           ++ apply Ht. right. exact Hy.
        -- intros y Hy. destruct (setb_inb seen x y Hy) as [Hy'|Hy'];
             [subst; apply Ht; left; reflexivity | exact (Hs y Hy')].
Qed.

Theorem closure_members_reachable : forall g es n,
  inb (reachable_closure g es) n = true -> exists e, In e es /\ reachable g e n.
Proof.
  intros g es n H. unfold reachable_closure in H.
  apply (closure_go_members g (fun x => exists e, In e es /\ reachable g e x)) in H; auto.
  - intros x y [e [He Hr]] Hy. exists e. split; auto. eapply reach_step; eauto.
  - intros x Hx. exists x. split; auto. apply reach_refl.
  - intros x Hx. rewrite inb_repeat_false in Hx. discriminate.
Qed.

(* ---- the executable check implies the statement about all paths ---- *)
Theorem check_avoid_sound : forall g effs es bad, check_avoid g effs es bad = true ->
  forall e, In e es -> forall n, reachable g e n -> ~ In (effect_of effs n) bad.
Proof.
  intros g effs es bad H e He n Hr Hbad. unfold check_avoid in H.
  apply andb_prop in H. destruct H as [H Hav]. apply andb_prop in H. destruct H as [Hcl Hent].
  rewrite forallb_forall in Hent. specialize (Hent e He).
  pose proof (closed_sound g _ Hcl e Hent n Hr) as Hin.
  rewrite forallb_forall in Hav. specialize (Hav n (proj2 (members_In _ n) Hin)).
  apply mem_eff_In in Hbad. rewrite Hbad in Hav. discriminate.
Qed.

(* when the check passes the computed set is EXACTLY the reachable set *)
Theorem check_avoid_exact : forall g effs es bad, check_avoid g effs es bad = true ->
  forall n, inb (reachable_closure g es) n = true <-> exists e, In e es /\ reachable g e n.
Proof.
  intros g effs es bad H n. split.
  - apply closure_members_reachable.
  - intros [e [He Hr]]. unfold check_avoid in H.
    apply andb_prop in H. destruct H as [H _]. apply andb_prop in H. destruct H as [Hcl Hent].
    rewrite forallb_forall in Hent. specialize (Hent e He).
    exact (closed_sound g _ Hcl e Hent n Hr).
Qed.

(* the per-entry effect prediction used by the runtime tie covers every path from that entry *)
Lemma all_effs_complete : forall c, In c all_effs.
Proof. intro c. destruct c; simpl; tauto. Qed.

Theorem reach_effects_sound : forall g effs e, reach_check g e = true ->
  forall n, reachable g e n -> In (effect_of effs n) (reach_effects g effs e).
Proof.
  intros g effs e H n Hr. unfold reach_check in H. apply andb_prop in H. destruct H as [Hcl He].
  pose proof (closed_sound g _ Hcl e He n Hr) as Hin.
  unfold reach_effects. apply filter_In. split; [apply all_effs_complete|].
  apply existsb_exists. exists n. split; [apply members_In; exact Hin|]. apply eff_eqb_eq. reflexivity.
Qed.

(* and predicts nothing that no path exhibits *)
Theorem reach_effects_exact : forall g effs e c, In c (reach_effects g effs e) ->
  exists n, reachable g e n /\ effect_of effs n = c.
Proof.
  intros g effs e c H. unfold reach_effects in H. apply filter_In in H. destruct H as [_ H].
  apply existsb_exists in H. destruct H as [n [Hn Hc]]. apply eff_eqb_eq in Hc.
  apply members_In in Hn.
  destruct (closure_members_reachable g [e] n Hn) as [e' [[He'|[]] Hr]]. subst e'.
  exists n. split; auto.
Qed.

Lemma trace_ok_spec : forall allowed obs, trace_ok allowed obs = true <->
  forall o, In o obs -> In o allowed.
Proof.
  intros allowed obs. unfold trace_ok. rewrite forallb_forall. split; intros H o Ho.
  - apply mem_eff_In. auto.
  - apply mem_eff_In. auto.
Qed.
