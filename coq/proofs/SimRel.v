(* The simulation relation between the reference pickle VM (RefVM) and fickling's symbolic
   interpreter (Interp): "the symbolic expression denotes the VM value", given the environment
   [al] binding fickling's own variables _var<i> to VM values and the lockstep correspondence of
   mutable nodes (node i <-> heap object i). *)
From Coq Require Import List String ZArith Bool Arith Lia.
From Verif Require Import Base Ops AnalysisTable Interp RefVM.
Import ListNotations.
Local Open Scope nat_scope.
Local Open Scope list_scope.

Definition env := list val.    (* value of _var<i> is nth i *)

Inductive rel (al : env) : expr -> val -> Prop :=
| RConst c : rel al (EConst c) (VConst c)
| RGlobal m n : rel al (EName n) (VGlobal m n)
| RTuple es vs : Forall2 (rel al) es vs -> rel al (ETuple es) (VTuple vs)
| RNode i : rel al (ENode i) (VRef i)
| RVar i x : nth_error al i = Some x -> rel al (EVar i) x
| RFrozen es vs :
    Forall2 (rel al) es vs ->
    rel al (ECall (EName "frozenset") [ESetLit es] None) (VFrozen vs).

Definition rel_pair (al : env) (p : expr * expr) (q : val * val) : Prop :=
  rel al (fst p) (fst q) /\ rel al (snd p) (snd q).

Inductive rel_node (al : env) : node -> hobj -> Prop :=
| RN_list es vs : Forall2 (rel al) es vs -> rel_node al (NList es) (HList vs)
| RN_set es vs : Forall2 (rel al) es vs -> rel_node al (NSet es) (HSet vs)
| RN_dict kvs kvs' : Forall2 (rel_pair al) kvs kvs' -> rel_node al (NDict kvs) (HDict kvs').

(* flat symbolic stack with marks  <->  current stack + metastack *)
Inductive rel_stack (al : env) : list item -> list val -> list (list val) -> Prop :=
| RS_nil : rel_stack al [] [] []
| RS_val e v st cur meta :
    rel al e v -> rel_stack al st cur meta -> rel_stack al (IE e :: st) (v :: cur) meta
| RS_mark st prev meta :
    rel_stack al st prev meta -> rel_stack al (IMark :: st) [] (prev :: meta).

Definition rel_memo (al : env) (a : Z * expr) (b : Z * val) : Prop :=
  fst a = fst b /\ rel al (snd a) (snd b).

Definition rel_opt (al : env) (a : option expr) (b : option val) : Prop :=
  match a, b with
  | None, None => True
  | Some e, Some v => rel al e v
  | _, _ => False
  end.

(* module body (newest first)  <->  VM event log (newest first) *)
Inductive rel_events (al : env) : list stmt -> list event -> Prop :=
| RE_nil : rel_events al [] []
| RE_import m n b l :
    is_builtins m = false -> rel_events al b l ->
    rel_events al (SImport m n :: b) (EvResolve m n :: l)
| RE_builtin m n b l :
    is_builtins m = true -> rel_events al b l -> rel_events al b (EvResolve m n :: l)
| RE_call i f args kw f' args' kw' k b l :
    rel al f f' -> Forall2 (rel al) args args' -> rel_opt al kw kw' ->
    nth_error al i = Some (VObj k) -> rel_events al b l ->
    rel_events al (SAssignV i (ECall f args kw) :: b) (EvCall f' args' kw' k :: l)
| RE_pers i pid pid' k b l :
    rel al pid pid' -> nth_error al i = Some (VObj k) -> rel_events al b l ->
    rel_events al (SAssignV i (ECall (EAttr (EName "UNPICKLER") "persistent_load") [pid] None) :: b)
               (EvPersLoad pid' k :: l)
| RE_setstate i st obj st' b l :
    nth_error al i = Some obj -> rel al st st' -> rel_events al b l ->
    rel_events al (SExpr (ECall (EAttr (EVar i) "__setstate__") [st] None) :: b)
               (EvSetState obj st' :: l)
| RE_alias i e x b l :
    rel al e x -> nth_error al i = Some x -> rel_events al b l ->
    rel_events al (SAssignV i e :: b) l
| RE_setitem i k v obj k' v' b l :
    nth_error al i = Some obj -> rel al k k' -> rel al v v' -> rel_events al b l ->
    rel_events al (SSetItemV i k v :: b) (EvSetItem obj k' v' :: l)
| RE_result e v b l :
    rel al e v -> rel_events al b l -> rel_events al (SResult e :: b) l.

Record R (al : env) (f : fk) (v : vm) : Prop := mkR {
  R_stack : rel_stack al (stack f) (cur v) (meta v);
  R_memo : Forall2 (rel_memo al) (memo f) (vmemo v);
  R_heap : Forall2 (rel_node al) (nodes f) (heap v);
  R_events : rel_events al (body f) (log v);
  R_ctr : ctr f = List.length al;
  R_env : Forall (fun x => callable x = true) al;   (* fickling only ever names stand-ins *)
  R_stop : match vstopped v with
           | None => stopped f = false
           | Some x => stopped f = true /\ exists e b, body f = SResult e :: b /\ rel al e x
           end
}.

(* ---------- monotonicity in the environment ---------- *)
Definition ext (al al' : env) : Prop := forall i x, nth_error al i = Some x -> nth_error al' i = Some x.

Lemma ext_refl al : ext al al.
Proof. intros i x H; exact H. Qed.

Lemma ext_app al x : ext al (al ++ [x]).
Proof.
  intros i y H. rewrite nth_error_app1; [exact H|]. apply nth_error_Some. congruence.
Qed.

Lemma rel_mono al al' : ext al al' -> forall e v, rel al e v -> rel al' e v.
Proof.
  intros X. fix IH 3. intros e v H. destruct H as [c|m n|es vs H|i|i x H|es vs H].
  - constructor.
  - constructor.
  - constructor. revert es vs H. fix IH2 3. intros es vs H. destruct H as [|a b l l' H1 H2].
    + constructor.
    + constructor; [apply IH; exact H1 | apply IH2; exact H2].
  - constructor.
  - constructor. apply X. exact H.
  - constructor. revert es vs H. fix IH2 3. intros es vs H. destruct H as [|a b l l' H1 H2].
    + constructor.
    + constructor; [apply IH; exact H1 | apply IH2; exact H2].
Qed.

Lemma rel_list_mono al al' : ext al al' -> forall es vs, Forall2 (rel al) es vs -> Forall2 (rel al') es vs.
Proof. intros X es vs H. induction H; constructor; eauto using rel_mono. Qed.

Lemma rel_pairs_mono al al' : ext al al' ->
  forall a b, Forall2 (rel_pair al) a b -> Forall2 (rel_pair al') a b.
Proof.
  intros X a b H. induction H as [|p q l l' [H1 H2] _ IH]; constructor; auto.
  split; eauto using rel_mono.
Qed.

Lemma rel_node_mono al al' : ext al al' -> forall n h, rel_node al n h -> rel_node al' n h.
Proof.
  intros X n h H. destruct H; constructor; eauto using rel_list_mono, rel_pairs_mono.
Qed.

Lemma rel_stack_mono al al' : ext al al' ->
  forall st c m, rel_stack al st c m -> rel_stack al' st c m.
Proof. intros X st c m H. induction H; constructor; eauto using rel_mono. Qed.

Lemma rel_memo_mono al al' : ext al al' ->
  forall a b, Forall2 (rel_memo al) a b -> Forall2 (rel_memo al') a b.
Proof.
  intros X a b H. induction H as [|p q l l' [H1 H2] _ IH]; constructor; auto.
  split; eauto using rel_mono.
Qed.

Lemma rel_heap_mono al al' : ext al al' ->
  forall a b, Forall2 (rel_node al) a b -> Forall2 (rel_node al') a b.
Proof. intros X a b H. induction H; constructor; eauto using rel_node_mono. Qed.

Lemma rel_opt_mono al al' : ext al al' -> forall a b, rel_opt al a b -> rel_opt al' a b.
Proof. intros X [a|] [b|]; cbn; eauto using rel_mono. Qed.

Lemma rel_events_mono al al' : ext al al' ->
  forall b l, rel_events al b l -> rel_events al' b l.
Proof.
  intros X b l H. induction H.
  - constructor.
  - constructor; auto.
  - apply RE_builtin; auto.
  - eapply RE_call; eauto using rel_mono, rel_list_mono, rel_opt_mono.
  - eapply RE_pers; eauto using rel_mono.
  - eapply RE_setstate; eauto using rel_mono.
  - eapply RE_alias; eauto using rel_mono.
  - eapply RE_setitem; eauto using rel_mono.
  - eapply RE_result; eauto using rel_mono.
Qed.
