(* C09: both the symbolic interpreter model and the reference VM model follow the abstract shape
   machine, hence agree on stack depth, mark positions and memo keys after every opcode of every
   program both accept. *)
From Coq Require Import List String ZArith Bool Arith Lia.
From Verif Require Import Base Ops AnalysisTable Interp RefVM Shape.
Import ListNotations.
Local Open Scope nat_scope.

(* ---------- generic ---------- *)
Lemma bind_ok {A B} (r : res A) (f : A -> res B) b :
  bind r f = Ok b -> exists a, r = Ok a /\ f a = Ok b.
Proof. destruct r as [a|e]; cbn; intros H; [eauto | discriminate]. Qed.

Lemma frames_of_cons st : exists h t, frames_of st = h :: t.
Proof.
  induction st as [|[|e] r IH]; cbn; eauto.
  destruct IH as (h & t & ->). eauto.
Qed.

Lemma frames_of_IE e st h t : frames_of st = h :: t -> frames_of (IE e :: st) = S h :: t.
Proof. intros H; cbn; rewrite H; reflexivity. Qed.

Lemma map_fst_remove {A} k (m : list (Z * A)) : map fst (memo_remove k m) = kremove k (map fst m).
Proof.
  induction m as [|[k' v] r IH]; cbn; [reflexivity|].
  destruct (Z.eqb k k'); cbn; rewrite IH; reflexivity.
Qed.

Lemma map_fst_put {A} k (v : A) m : map fst (memo_put k v m) = kput k (map fst m).
Proof. unfold memo_put, kput; cbn. rewrite map_fst_remove. reflexivity. Qed.

Lemma memo_get_kmem {A} k (m : list (Z * A)) v : memo_get k m = Some v -> kmem k (map fst m) = true.
Proof.
  induction m as [|[k' x] r IH]; cbn; [discriminate|].
  destruct (Z.eqb k k'); auto.
Qed.

(* ---------- fickling side ---------- *)
Definition fshape (s : fk) := (frames_of (stack s), map fst (memo s), stopped s).

Lemma shape_fk_eq s s' : fshape s = fshape s' -> shape_fk s = shape_fk s'.
Proof. unfold fshape, shape_fk. intros H; inversion H; congruence. Qed.

Lemma pop_val_ok s e s1 :
  pop_val s = Ok (e, s1) ->
  stack s = IE e :: stack s1 /\ memo s1 = memo s /\ stopped s1 = stopped s.
Proof.
  unfold pop_val. destruct (stack s) as [|[|x] r] eqn:E; try discriminate.
  intros H; inversion H; subst; cbn. auto.
Qed.

Lemma top_val_ok s e : top_val s = Ok e -> exists r, stack s = IE e :: r.
Proof.
  unfold top_val. destruct (stack s) as [|[|x] r]; try discriminate.
  intros H; inversion H; subst; eauto.
Qed.

Lemma split_mark_ok st : forall acc items r,
  split_mark st acc = Ok (items, r) ->
  frames_of st = (List.length items - List.length acc) :: frames_of r /\
  List.length acc <= List.length items.
Proof.
  induction st as [|[|e] st IH]; intros acc items r H; cbn in H; try discriminate.
  - inversion H; subst. cbn. split; [f_equal; lia | lia].
  - apply IH in H. cbn [List.length] in H. destruct H as [H L].
    cbn [frames_of]. rewrite H. split; [f_equal; lia | lia].
Qed.

Lemma pop_slice_ok s items s1 :
  pop_slice s = Ok (items, s1) ->
  frames_of (stack s) = List.length items :: frames_of (stack s1) /\
  memo s1 = memo s /\ stopped s1 = stopped s.
Proof.
  unfold pop_slice. intros H. apply bind_ok in H. destruct H as ([it r] & H1 & H2).
  inversion H2; subst; cbn. apply split_mark_ok in H1. cbn in H1.
  destruct H1 as [H1 _]. rewrite Nat.sub_0_r in H1. auto.
Qed.

Ltac fk_inv :=
  repeat match goal with
  | H : bind _ _ = Ok _ |- _ => apply bind_ok in H; destruct H as (? & ? & H)
  | H : (let '(_, _) := ?x in _) = Ok _ |- _ => destruct x eqn:?
  | H : Ok _ = Ok _ |- _ => inversion H; subst; clear H
  | H : Err _ = Ok _ |- _ => discriminate H
  | p : (_ * _)%type |- _ => destruct p
  end.

Lemma eat_ok k j h t : k <= h -> eat k j (h :: t) = Some ((h - k + j) :: t).
Proof. intros H; unfold eat. apply Nat.leb_le in H. rewrite H. reflexivity. Qed.

(* the state transformers that do not touch the shape *)
Lemma fshape_emit st s : fshape (emit st s) = fshape s.
Proof. reflexivity. Qed.
Lemma fshape_set_node i n s : fshape (set_node i n s) = fshape s.
Proof. reflexivity. Qed.
Lemma fshape_alloc n s : fshape (snd (alloc n s)) = fshape s.
Proof. reflexivity. Qed.
Lemma fshape_newvar e s : fshape (snd (new_variable e s)) = fshape s.
Proof. reflexivity. Qed.
Lemma fshape_emit_import m n s : fshape (emit_import m n s) = fshape s.
Proof. unfold emit_import. destruct (is_builtins m); reflexivity. Qed.

Lemma stack_emit_import m n s : stack (emit_import m n s) = stack s.
Proof. unfold emit_import. destruct (is_builtins m); reflexivity. Qed.
Lemma memo_emit_import m n s : memo (emit_import m n s) = memo s.
Proof. unfold emit_import. destruct (is_builtins m); reflexivity. Qed.
Lemma stopped_emit_import m n s : stopped (emit_import m n s) = stopped s.
Proof. unfold emit_import. destruct (is_builtins m); reflexivity. Qed.

(* SETITEMS on an object: a run of emitted item assignments *)
Lemma fold_emit_fields name (kvs : list (expr * expr)) : forall s,
  let s1 := fold_left (fun st kv => emit (SSetItemV name (fst kv) (snd kv)) st) kvs s in
  stack s1 = stack s /\ memo s1 = memo s /\ stopped s1 = stopped s.
Proof.
  induction kvs as [|kv r IH]; intros s; cbn; [auto|].
  specialize (IH (emit (SSetItemV name (fst kv) (snd kv)) s)). cbn in IH. exact IH.
Qed.
Lemma stack_fold_emit name kvs s :
  stack (fold_left (fun st kv => emit (SSetItemV name (fst kv) (snd kv)) st) kvs s) = stack s.
Proof. apply (fold_emit_fields name kvs s). Qed.
Lemma memo_fold_emit name kvs s :
  memo (fold_left (fun st kv => emit (SSetItemV name (fst kv) (snd kv)) st) kvs s) = memo s.
Proof. apply (fold_emit_fields name kvs s). Qed.
Lemma stopped_fold_emit name kvs s :
  stopped (fold_left (fun st kv => emit (SSetItemV name (fst kv) (snd kv)) st) kvs s) = stopped s.
Proof. apply (fold_emit_fields name kvs s). Qed.

Lemma shape_fk_unfold s : shape_fk s = mkShape (frames_of (stack s)) (map fst (memo s)) (stopped s).
Proof. reflexivity. Qed.

Ltac stack_facts :=
  repeat match goal with
  | H : pop_val _ = Ok (_, _) |- _ => apply pop_val_ok in H; destruct H as (? & ? & ?)
  | H : pop_slice _ = Ok (_, _) |- _ => apply pop_slice_ok in H; destruct H as (? & ? & ?)
  | H : top_val _ = Ok _ |- _ => apply top_val_ok in H; destruct H as (? & ?)
  end.

Ltac chase :=
  repeat match goal with
  | H : stack ?a = _ |- context[stack ?a] => rewrite H
  | H : frames_of (stack ?a) = _ |- context[frames_of (stack ?a)] => rewrite H
  | H : memo ?a = memo _ |- context[memo ?a] => rewrite H
  | H : stopped ?a = stopped _ |- context[stopped ?a] => rewrite H
  end.

Ltac base :=
  match goal with
  | |- context[frames_of (stack ?x)] =>
      let h := fresh "h" in let t := fresh "t" in let F := fresh "F" in
      destruct (frames_of_cons (stack x)) as (h & t & F); rewrite ?F
  | |- context[frames_of ?x] =>
      is_var x;
      let h := fresh "h" in let t := fresh "t" in let F := fresh "F" in
      destruct (frames_of_cons x) as (h & t & F); rewrite ?F
  end.

Ltac expose :=
  unfold shape_fk, bind_call, push, with_stack in *;
  cbn [stack memo stopped nodes body ctr fst snd] in *;
  rewrite ?stack_fold_emit, ?memo_fold_emit, ?stopped_fold_emit;
  unfold new_variable, emit, alloc, set_node in *;
  cbn [stack memo stopped nodes body ctr fst snd] in *;
  rewrite ?stack_emit_import, ?memo_emit_import, ?stopped_emit_import.

Ltac fin := cbn; rewrite ?map_fst_put, ?map_length; repeat f_equal; solve [lia | congruence | reflexivity].

Ltac go := expose; chase; cbn [frames_of]; try base; try fin.

Ltac inv_pairs :=
  repeat match goal with
  | H : alloc _ _ = (_, _) |- _ => unfold alloc in H; inversion H; subst; clear H
  | H : new_variable _ _ = (_, _) |- _ => unfold new_variable in H; inversion H; subst; clear H
  end.

Ltac crack :=
  repeat match goal with
  | H : match ?x with _ => _ end = Ok _ |- _ => destruct x eqn:?; try discriminate H
  | H : (if ?x then _ else _) = Ok _ |- _ => destruct x eqn:?; try discriminate H
  end.

Ltac prep := repeat (progress (fk_inv; stack_facts; inv_pairs; crack)).

Lemma fk_follows_shape o s s' :
  step o s = Ok s' -> sh_step o (shape_fk s) = Some (shape_fk s').
Proof.
  intros H. unfold sh_step. rewrite shape_fk_unfold. cbn [fr keys halted].
  destruct o; cbn [step] in H; prep.
  all: try (match goal with H : Ok _ = Ok _ |- _ => inversion H; subst; clear H end).
  all: try solve [go].
  - (* OPop *) destruct i; go.
  - (* ODict *) expose. chase. cbn [sh_frames].
    match goal with E : Nat.even _ = true |- _ => rewrite E end. base. cbn [frames_of]. rewrite F. fin.
  - (* OPut *) expose. rewrite map_fst_put. chase. cbn [frames_of]. base. cbn. repeat f_equal. lia.
  - (* OGet *) expose. cbn [sh_frames]. base. cbn.
    match goal with G : memo_get _ _ = Some _ |- _ => rewrite (memo_get_kmem _ _ _ G) end.
    rewrite F. repeat f_equal. lia.
  - (* OMemoize *) expose. rewrite map_fst_put, map_length. chase. cbn [frames_of]. base. cbn.
    repeat f_equal. lia.
Qed.

(* ---------- reference VM side ---------- *)
Lemma shape_vm_unfold s :
  shape_vm s = mkShape (List.length (cur s) :: map (@List.length val) (meta s)) (map fst (vmemo s)) (is_stopped s).
Proof. reflexivity. Qed.

Lemma vpop_ok s v s1 :
  vpop s = Ok (v, s1) ->
  cur s = v :: cur s1 /\ meta s1 = meta s /\ vmemo s1 = vmemo s /\ vstopped s1 = vstopped s.
Proof.
  unfold vpop. destruct (cur s) eqn:E; try discriminate.
  intros H; inversion H; subst; cbn. auto.
Qed.

Lemma vtop_ok s v : vtop s = Ok v -> exists r, cur s = v :: r.
Proof. unfold vtop. destruct (cur s); try discriminate. intros H; inversion H; subst; eauto. Qed.

Lemma vpop_mark_ok s items s1 :
  vpop_mark s = Ok (items, s1) ->
  meta s = cur s1 :: meta s1 /\ List.length items = List.length (cur s) /\
  vmemo s1 = vmemo s /\ vstopped s1 = vstopped s.
Proof.
  unfold vpop_mark. destruct (meta s) eqn:E; try discriminate.
  intros H; inversion H; subst; cbn. rewrite rev_length. auto.
Qed.

Lemma vpush_ok v s s1 :
  vpush v s = Ok s1 ->
  cur s1 = v :: cur s /\ meta s1 = meta s /\ vmemo s1 = vmemo s /\ vstopped s1 = vstopped s.
Proof. unfold vpush, vpush'. intros H; inversion H; subst; cbn. auto. Qed.

Lemma do_call_ok f args kw s s1 :
  do_call f args kw s = Ok s1 ->
  exists k, cur s1 = VObj k :: cur s /\ meta s1 = meta s /\ vmemo s1 = vmemo s /\ vstopped s1 = vstopped s.
Proof.
  unfold do_call. destruct (callable f); try discriminate.
  unfold fresh_obj, vpush, vpush', vlog. cbn. intros H; inversion H; subst; cbn. eauto.
Qed.

Lemma find_class_ok m n s s1 :
  find_class m n s = Ok s1 ->
  cur s1 = VGlobal m n :: cur s /\ meta s1 = meta s /\ vmemo s1 = vmemo s /\ vstopped s1 = vstopped s.
Proof.
  unfold find_class. destruct (plain m && plain n); try discriminate.
  unfold vpush, vpush', vlog. cbn. intros H; inversion H; subst; cbn. auto.
Qed.

Lemma fold_vlog_shape d kvs : forall s,
  let s1 := fold_left (fun st kv => vlog (EvSetItem d (fst kv) (snd kv)) st) kvs s in
  cur s1 = cur s /\ meta s1 = meta s /\ vmemo s1 = vmemo s /\ vstopped s1 = vstopped s.
Proof.
  induction kvs as [|kv r IH]; intros s; cbn; [auto|].
  specialize (IH (vlog (EvSetItem d (fst kv) (snd kv)) s)). cbn in IH. exact IH.
Qed.

Ltac vm_facts :=
  repeat match goal with
  | H : vpop _ = Ok (_, _) |- _ => apply vpop_ok in H; destruct H as (? & ? & ? & ?)
  | H : vtop _ = Ok _ |- _ => apply vtop_ok in H; destruct H as (? & ?)
  | H : vpop_mark _ = Ok (_, _) |- _ => apply vpop_mark_ok in H; destruct H as (? & ? & ? & ?)
  | H : vpush _ _ = Ok _ |- _ => apply vpush_ok in H; destruct H as (? & ? & ? & ?)
  | H : do_call _ _ _ _ = Ok _ |- _ => apply do_call_ok in H; destruct H as (? & ? & ? & ? & ?)
  | H : find_class _ _ _ = Ok _ |- _ => apply find_class_ok in H; destruct H as (? & ? & ? & ?)
  end.

Ltac vinv_pairs :=
  repeat match goal with
  | H : valloc _ _ = (_, _) |- _ => unfold valloc in H; inversion H; subst; clear H
  | H : fresh_obj _ = (_, _) |- _ => unfold fresh_obj in H; inversion H; subst; clear H
  end.

Ltac vprep := repeat (progress (fk_inv; vm_facts; vinv_pairs; crack)).

Ltac vchase :=
  repeat match goal with
  | H : cur ?a = _ |- context[cur ?a] => rewrite H
  | H : meta ?a = _ |- context[meta ?a] => rewrite H
  | H : vmemo ?a = _ |- context[vmemo ?a] => rewrite H
  | H : vstopped ?a = _ |- context[vstopped ?a] => rewrite H
  | H : List.length ?a = _ |- context[List.length ?a] => rewrite H
  end.

Ltac vexpose :=
  unfold shape_vm, is_stopped, vset_obj, vlog, with_frames, vpush' in *;
  cbn [cur meta vmemo vstopped heap log nobj fst snd] in *.

Ltac vfin := cbn; rewrite ?map_fst_put, ?map_length; repeat f_equal; solve [lia | congruence | reflexivity].

Ltac vgo := vexpose; vchase; try vfin.

Lemma vpairs_of_even : forall n l kvs, List.length l <= n -> vpairs_of l = Ok kvs -> Nat.even (List.length l) = true.
Proof.
  induction n as [|n IH]; intros l kvs L H.
  - destruct l; [reflexivity | cbn in L; lia].
  - destruct l as [|a [|b r]]; [reflexivity | discriminate |].
    cbn [vpairs_of] in H. apply bind_ok in H. destruct H as (t & H & _).
    cbn [List.length]. cbn [List.length] in L.
    change (Nat.even (S (S (List.length r)))) with (Nat.even (List.length r)).
    destruct n; [lia|]. apply (IH r t); [lia | exact H].
Qed.

Lemma vm_follows_shape o s s' :
  vstep o s = Ok s' -> sh_step o (shape_vm s) = Some (shape_vm s').
Proof.
  intros H. unfold sh_step. rewrite shape_vm_unfold. cbn [fr keys halted].
  destruct o; cbn [vstep] in H; vprep.
  all: try (match goal with H : Ok _ = Ok _ |- _ => inversion H; subst; clear H end).
  all: try solve [vgo].
  - (* ODict *)
    match goal with P : vpairs_of ?l = Ok _ |- _ =>
      pose proof (vpairs_of_even (List.length l) l _ (le_n _) P) as Ev end.
    vexpose. cbn [sh_frames]. rewrite <- H2, Ev. vchase. vfin.
  - (* OSetItems on a stand-in *)
    match goal with |- context[fold_left ?f ?kvs ?v] =>
      destruct (fold_vlog_shape (VGlobal m n) kvs v) as (A & B & C & D) end.
    vexpose. cbn in A, B, C, D. rewrite A, B, C, D. vchase. vfin.
  - match goal with |- context[fold_left ?f ?kvs ?v] =>
      destruct (fold_vlog_shape (VObj k) kvs v) as (A & B & C & D) end.
    vexpose. cbn in A, B, C, D. rewrite A, B, C, D. vchase. vfin.
  - (* OObj *) vexpose. vchase. cbn [sh_frames close]. match goal with L : List.length (_ :: _) = List.length (cur s) |- _ => rewrite <- L end. vfin.
  - (* OPut *) vexpose. rewrite map_fst_put. vchase. vfin.
  - (* OGet *) vexpose.
    match goal with G : memo_get _ _ = Some _ |- _ => rewrite (memo_get_kmem _ _ _ G) end.
    vchase. vfin.
  - (* OMemoize *) vexpose. rewrite map_fst_put, map_length. vchase. vfin.
Qed.

(* ---------- lockstep over whole programs, every prefix ---------- *)
Lemma step_agree o s v s' v' :
  shape_fk s = shape_vm v -> step o s = Ok s' -> vstep o v = Ok v' -> shape_fk s' = shape_vm v'.
Proof.
  intros E Hs Hv. apply fk_follows_shape in Hs. apply vm_follows_shape in Hv.
  rewrite E in Hs. rewrite Hs in Hv. congruence.
Qed.

Lemma shape_lockstep_from : forall p s v,
  shape_fk s = shape_vm v ->
  forall i s' v',
    nth_error (trace_from p s) i = Some (Ok s') ->
    nth_error (vtrace_from p v) i = Some (Ok v') ->
    shape_fk s' = shape_vm v'.
Proof.
  induction p as [|o r IH]; intros s v E i s' v' Hs Hv.
  - destruct i; discriminate.
  - cbn [trace_from vtrace_from] in Hs, Hv.
    assert (stopped s = is_stopped v) as St.
    { unfold shape_fk, shape_vm in E. inversion E. reflexivity. }
    rewrite <- St in Hv. destruct (stopped s).
    + destruct i; discriminate.
    + destruct (step o s) as [s1|e1] eqn:S1; destruct (vstep o v) as [v1|e2] eqn:V1.
      * pose proof (step_agree _ _ _ _ _ E S1 V1) as E1.
        destruct i as [|i]; cbn in Hs, Hv.
        -- inversion Hs; inversion Hv; subst. exact E1.
        -- eapply IH; eauto.
      * destruct i as [|[|i]]; cbn in Hv; discriminate.
      * destruct i as [|[|i]]; cbn in Hs; discriminate.
      * destruct i as [|[|i]]; cbn in Hs; discriminate.
Qed.

Lemma init_shapes n : shape_fk (fk_init n) = shape_vm vm_init.
Proof. reflexivity. Qed.

(* ---------- tracing is passive ---------- *)
Lemma traced_is_run : forall p s l s2,
  traced_from p s = Ok (l, s2) ->
  run_from p s = Ok s2 /\ exists rest, p = (l ++ rest)%list /\ (rest = [] \/ stopped s2 = true).
Proof.
  induction p as [|o r IH]; intros s l s2 H; cbn [traced_from run_from] in *.
  - inversion H; subst. split; [reflexivity|]. exists []. auto.
  - destruct (stopped s) eqn:St.
    + inversion H; subst. split; [reflexivity|]. exists (o :: r). auto.
    + apply bind_ok in H. destruct H as (s1 & S1 & H). rewrite S1. cbn [bind].
      apply bind_ok in H. destruct H as ([l' s3] & T & H). inversion H; subst.
      destruct (IH _ _ _ T) as (R & rest & -> & D). split; [exact R|].
      exists rest. auto.
Qed.

Lemma run_is_traced : forall p s s2,
  run_from p s = Ok s2 -> exists l, traced_from p s = Ok (l, s2).
Proof.
  induction p as [|o r IH]; intros s s2 H; cbn [traced_from run_from] in *.
  - inversion H; subst. eauto.
  - destruct (stopped s).
    + inversion H; subst. eauto.
    + apply bind_ok in H. destruct H as (s1 & S1 & H). rewrite S1. cbn [bind].
      destruct (IH _ _ H) as (l & ->). cbn. eauto.
Qed.
