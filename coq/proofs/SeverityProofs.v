From Coq Require Import List String ZArith Bool Arith Lia.
From Verif Require Import Base SevTable Severity.
Import ListNotations.
Local Open Scope nat_scope.

Definition wf (s : sev) : Prop := s < nsev.
Definition all_sevs : list sev := seq 0 nsev.

Lemma wf_all s : wf s <-> In s all_sevs.
Proof. unfold wf, all_sevs. rewrite in_seq. lia. Qed.

(* ---- the finite part: re-checked against the generated table on every run ---- *)
Definition ops_ok (a b : sev) : bool :=
  Bool.eqb (sev_lt a b) (doc_rank a <? doc_rank b) &&
  Bool.eqb (sev_le a b) (doc_rank a <=? doc_rank b) &&
  Bool.eqb (sev_eq a b) (doc_rank a =? doc_rank b) &&
  Bool.eqb (sev_ne a b) (negb (doc_rank a =? doc_rank b)) &&
  Bool.eqb (sev_gt a b) (doc_rank b <? doc_rank a) &&
  Bool.eqb (sev_ge a b) (doc_rank b <=? doc_rank a) &&
  (* distinct members have distinct documented ranks *)
  (negb (doc_rank a =? doc_rank b) || (a =? b)).

Definition table_ok : bool :=
  (nsev =? 6) &&
  forallb (fun a => (doc_rank a <? 6) && forallb (fun b => ops_ok a b) all_sevs) all_sevs &&
  (LIKELY_SAFE <? nsev) && (doc_rank LIKELY_SAFE =? 0).

Lemma table_ok_true : table_ok = true.
Proof. vm_compute. reflexivity. Qed.

Lemma nsev_6 : nsev = 6.
Proof.
  pose proof table_ok_true as H. unfold table_ok in H.
  repeat (apply andb_true_iff in H; destruct H as [H ?]).
  apply Nat.eqb_eq in H. exact H.
Qed.

Lemma ops_ok_all a b : wf a -> wf b -> ops_ok a b = true.
Proof.
  intros Ha Hb. pose proof table_ok_true as H. unfold table_ok in H.
  repeat (apply andb_true_iff in H; destruct H as [H ?]).
  match goal with
  | H0 : forallb _ all_sevs = true |- _ =>
      rewrite forallb_forall in H0; specialize (H0 a (proj1 (wf_all a) Ha));
      apply andb_true_iff in H0; destruct H0 as [_ H0];
      rewrite forallb_forall in H0; exact (H0 b (proj1 (wf_all b) Hb))
  end.
Qed.

Lemma doc_rank_lt6 a : wf a -> doc_rank a < 6.
Proof.
  intros Ha. pose proof table_ok_true as H. unfold table_ok in H.
  repeat (apply andb_true_iff in H; destruct H as [H ?]).
  match goal with
  | H0 : forallb _ all_sevs = true |- _ =>
      rewrite forallb_forall in H0; specialize (H0 a (proj1 (wf_all a) Ha));
      apply andb_true_iff in H0; destruct H0 as [H0 _]; apply Nat.ltb_lt in H0; exact H0
  end.
Qed.

Lemma LIKELY_SAFE_wf : wf LIKELY_SAFE.
Proof.
  pose proof table_ok_true as H. unfold table_ok in H.
  repeat (apply andb_true_iff in H; destruct H as [H ?]).
  match goal with H0 : (LIKELY_SAFE <? nsev) = true |- _ => apply Nat.ltb_lt in H0; exact H0 end.
Qed.

Lemma LIKELY_SAFE_rank : doc_rank LIKELY_SAFE = 0.
Proof.
  pose proof table_ok_true as H. unfold table_ok in H.
  repeat (apply andb_true_iff in H; destruct H as [H ?]).
  match goal with H0 : (doc_rank LIKELY_SAFE =? 0) = true |- _ => apply Nat.eqb_eq in H0; exact H0 end.
Qed.

Ltac split_ops H :=
  unfold ops_ok in H;
  repeat (apply andb_true_iff in H; let H' := fresh "Hop" in destruct H as [H H']);
  repeat match goal with Hx : Bool.eqb _ _ = true |- _ => apply Bool.eqb_prop in Hx end.

Lemma lt_spec a b : wf a -> wf b -> sev_lt a b = (doc_rank a <? doc_rank b).
Proof. intros Ha Hb. pose proof (ops_ok_all a b Ha Hb) as H. split_ops H. assumption. Qed.
Lemma le_spec a b : wf a -> wf b -> sev_le a b = (doc_rank a <=? doc_rank b).
Proof. intros Ha Hb. pose proof (ops_ok_all a b Ha Hb) as H. split_ops H. assumption. Qed.
Lemma eq_spec a b : wf a -> wf b -> sev_eq a b = (doc_rank a =? doc_rank b).
Proof. intros Ha Hb. pose proof (ops_ok_all a b Ha Hb) as H. split_ops H. assumption. Qed.
Lemma ne_spec a b : wf a -> wf b -> sev_ne a b = negb (doc_rank a =? doc_rank b).
Proof. intros Ha Hb. pose proof (ops_ok_all a b Ha Hb) as H. split_ops H. assumption. Qed.
Lemma gt_spec a b : wf a -> wf b -> sev_gt a b = (doc_rank b <? doc_rank a).
Proof. intros Ha Hb. pose proof (ops_ok_all a b Ha Hb) as H. split_ops H. assumption. Qed.
Lemma ge_spec a b : wf a -> wf b -> sev_ge a b = (doc_rank b <=? doc_rank a).
Proof. intros Ha Hb. pose proof (ops_ok_all a b Ha Hb) as H. split_ops H. assumption. Qed.

Lemma rank_inj a b : wf a -> wf b -> doc_rank a = doc_rank b -> a = b.
Proof.
  intros Ha Hb E. pose proof (ops_ok_all a b Ha Hb) as H. unfold ops_ok in H.
  apply andb_true_iff in H. destruct H as [_ H].
  apply orb_true_iff in H. destruct H as [H|H].
  - apply negb_true_iff in H. apply Nat.eqb_neq in H. contradiction.
  - apply Nat.eqb_eq in H. exact H.
Qed.

(* ---- severity = maximum, for finding lists of any length ---- *)
Lemma py_max_spec : forall l cur,
  wf cur -> Forall wf l ->
  let m := py_max cur l in
  wf m /\ In m (cur :: l) /\ (forall x, In x (cur :: l) -> doc_rank x <= doc_rank m).
Proof.
  induction l as [|x r IH]; intros cur Hc Hl; cbn [py_max].
  - split; [exact Hc|]. split; [left; reflexivity|].
    intros y [<-|[]]. lia.
  - inversion Hl as [|? ? Hx Hr]; subst.
    rewrite (gt_spec x cur Hx Hc).
    destruct (doc_rank cur <? doc_rank x) eqn:E.
    + apply Nat.ltb_lt in E.
      destruct (IH x Hx Hr) as (W & I & U). split; [exact W|]. split.
      * destruct I as [I|I]; [right; left; exact I | right; right; exact I].
      * intros y [<-|[<-|Hy]].
        -- specialize (U x (or_introl eq_refl)). lia.
        -- apply U. left; reflexivity.
        -- apply U. right; exact Hy.
    + apply Nat.ltb_ge in E.
      destruct (IH cur Hc Hr) as (W & I & U). split; [exact W|]. split.
      * destruct I as [I|I]; [left; exact I | right; right; exact I].
      * intros y [<-|[<-|Hy]].
        -- apply U. left; reflexivity.
        -- specialize (U cur (or_introl eq_refl)). lia.
        -- apply U. right; exact Hy.
Qed.

Lemma severity_wf rs : Forall wf rs -> wf (severity rs).
Proof.
  destruct rs as [|x r]; intros H; cbn [severity].
  - exact LIKELY_SAFE_wf.
  - inversion H; subst. apply py_max_spec; assumption.
Qed.

Lemma severity_upper rs : Forall wf rs -> forall x, In x rs -> doc_rank x <= doc_rank (severity rs).
Proof.
  destruct rs as [|y r]; intros H x Hx; [destruct Hx|].
  inversion H; subst. cbn [severity]. apply py_max_spec; assumption.
Qed.

Lemma severity_member rs : Forall wf rs -> rs <> [] -> In (severity rs) rs.
Proof.
  destruct rs as [|y r]; intros H Hn; [congruence|].
  inversion H; subst. cbn [severity]. apply py_max_spec; assumption.
Qed.

Lemma severity_safe_iff rs :
  Forall wf rs -> (severity rs = LIKELY_SAFE <-> forall x, In x rs -> x = LIKELY_SAFE).
Proof.
  intros H. split.
  - intros E x Hx. pose proof (severity_upper rs H x Hx) as U.
    rewrite E, LIKELY_SAFE_rank in U.
    apply rank_inj; [ | exact LIKELY_SAFE_wf | rewrite LIKELY_SAFE_rank; lia ].
    rewrite Forall_forall in H. apply H; exact Hx.
  - intros A. destruct rs as [|y r]; [reflexivity|].
    apply A. apply severity_member; [exact H|discriminate].
Qed.

(* no analysis yields LIKELY_SAFE as a finding: then LIKELY_SAFE exactly when no findings *)
Lemma severity_safe_iff_nil rs :
  Forall wf rs -> (forall x, In x rs -> x <> LIKELY_SAFE) ->
  (severity rs = LIKELY_SAFE <-> rs = []).
Proof.
  intros H Hn. rewrite (severity_safe_iff rs H). split.
  - intros A. destruct rs as [|y r]; [reflexivity|].
    exfalso. apply (Hn y (or_introl eq_refl)). apply A. left; reflexivity.
  - intros ->. intros x [].
Qed.

(* ---- faces ---- *)
Definition rank_of (p : pickle_findings) : nat := doc_rank (severity p).

Lemma face_ils_spec p : Forall wf p -> face_is_likely_safe p = (rank_of p =? 0).
Proof.
  intros H. unfold face_is_likely_safe, rank_of.
  rewrite (eq_spec _ _ (severity_wf p H) LIKELY_SAFE_wf), LIKELY_SAFE_rank. reflexivity.
Qed.

Lemma face_bool_spec p : Forall wf p -> face_bool p = (rank_of p =? 0).
Proof.
  intros H. apply Bool.eq_true_iff_eq. unfold face_bool, rank_of.
  rewrite forallb_forall, Nat.eqb_eq. pose proof H as HF. rewrite Forall_forall in HF. split.
  - intros A. assert (severity p = LIKELY_SAFE) as ->; [|apply LIKELY_SAFE_rank].
    apply severity_safe_iff; [exact H|]. intros x Hx. specialize (A x Hx).
    rewrite (eq_spec _ _ (HF x Hx) LIKELY_SAFE_wf), LIKELY_SAFE_rank in A. apply Nat.eqb_eq in A.
    apply rank_inj; [apply HF; exact Hx | exact LIKELY_SAFE_wf | rewrite LIKELY_SAFE_rank; exact A].
  - intros E x Hx.
    assert (severity p = LIKELY_SAFE) as ES
      by (apply rank_inj; [apply severity_wf; exact H | exact LIKELY_SAFE_wf | rewrite LIKELY_SAFE_rank; exact E]).
    rewrite (proj1 (severity_safe_iff p H) ES x Hx).
    rewrite (eq_spec _ _ LIKELY_SAFE_wf LIKELY_SAFE_wf). apply Nat.eqb_refl.
Qed.

Lemma face_loader_spec thr p :
  wf thr -> Forall wf p -> face_loader_raises thr p = (doc_rank thr <? rank_of p).
Proof.
  intros Ht H. unfold face_loader_raises, rank_of.
  rewrite (le_spec _ _ (severity_wf p H) Ht).
  destruct (doc_rank (severity p) <=? doc_rank thr) eqn:E; cbn [negb]; symmetry.
  - apply Nat.leb_le in E. apply Nat.ltb_ge. exact E.
  - apply Nat.leb_gt in E. apply Nat.ltb_lt. exact E.
Qed.

Lemma face_cli_spec ps :
  Forall (Forall wf) ps ->
  (face_cli_exit ps = 0 <-> forall p, In p ps -> rank_of p = 0) /\
  (face_cli_exit ps = 0 \/ face_cli_exit ps = 1).
Proof.
  intros H. unfold face_cli_exit.
  destruct (forallb _ ps) eqn:E.
  - split; [|left; reflexivity]. split; [|reflexivity]. intros _ p Hp.
    rewrite forallb_forall in E. specialize (E p Hp).
    rewrite Forall_forall in H. specialize (H p Hp).
    rewrite (gt_spec _ _ (severity_wf p H) LIKELY_SAFE_wf), LIKELY_SAFE_rank in E.
    apply negb_true_iff, Nat.ltb_ge in E. unfold rank_of. lia.
  - split; [|right; reflexivity]. split; [discriminate|]. intros A. exfalso.
    assert (forallb (fun p => negb (sev_gt (severity p) LIKELY_SAFE)) ps = true) as T.
    { apply forallb_forall. intros p Hp.
      rewrite Forall_forall in H. specialize (H p Hp).
      rewrite (gt_spec _ _ (severity_wf p H) LIKELY_SAFE_wf), LIKELY_SAFE_rank.
      apply negb_true_iff, Nat.ltb_ge. specialize (A p Hp). unfold rank_of in A. lia. }
    congruence.
Qed.

Lemma face_json_spec ps : face_json ps = map (fun p => sev_name (severity p)) ps.
Proof. reflexivity. Qed.
