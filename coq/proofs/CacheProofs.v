(* Lemmas about model/Cache.v (C13, C14).
   Part 1: the generic machine -- for EVERY interpreter, visitor, answer function and opcode
   encoding.  Part 2: the instance -- the analyses do not depend on the iteration order of the
   `defined - used` set except for the ORDER of the UnusedVariables findings. *)
From Coq Require Import List String Ascii ZArith Bool Arith Lia Permutation.
From Coq.Strings Require Import Byte.
From Verif Require Import Base Ops Interp Unparse Severity Analysis AnalysisTable ShowVM Cache
  SeverityProofs AnalysisProofs.
From Verif Require Codec CodecProofs CodecTruncProofs.
Import ListNotations.
Local Open Scope nat_scope.
Local Open Scope list_scope.

(* ========================================================================================== *)
(* Part 1: the generic machine                                                                *)
(* ========================================================================================== *)
Section Generic.
Variables X A P R B VA VP VF : Type.
Variable interpret : list X -> res A.
Variable props_of : A -> res P.
Variable ast_view : VA -> A -> R.
Variable props_view : VP -> P -> R.
Variable safety_view : list X -> P -> R.
Variable fresh_view : VF -> list X -> R.
Variable err_ans : err -> R.
Variable data : X -> res (list B).
Variable x_eqb : X -> X -> bool.

Notation pk := (pk X A P).
Notation query := (query VA VP VF).
Notation action := (action X VA VP VF).
Notation RQ := (run_query interpret props_of ast_view props_view safety_view fresh_view err_ans).
Notation RQS := (run_queries interpret props_of ast_view props_view safety_view fresh_view err_ans).
Notation SPEC := (spec_answer interpret props_of ast_view props_view safety_view fresh_view err_ans).
Notation RA := (run_action interpret props_of ast_view props_view safety_view fresh_view err_ans x_eqb).
Notation RAS := (run_actions interpret props_of ast_view props_view safety_view fresh_view err_ans x_eqb).
Notation GA := (get_ast interpret).
Notation GP := (get_props interpret props_of).
Notation SP := (spec_props interpret props_of).

(* the invariant: each cache is empty or holds the function of the CURRENT opcode list *)
Definition cache_ok (s : pk) : Prop :=
  (forall a, ast_cache s = Some a -> interpret (opcodes s) = Ok a) /\
  (forall p, props_cache s = Some p -> SP (opcodes s) = Ok p).

Lemma fresh_ok : forall l, cache_ok (fresh l).
Proof. intros l. split; cbn; intros ? H; discriminate. Qed.

Lemma get_ast_spec : forall s, cache_ok s ->
  fst (GA s) = interpret (opcodes s) /\ cache_ok (snd (GA s)) /\ opcodes (snd (GA s)) = opcodes s.
Proof.
  intros s OK. pose proof OK as [Ha Hp]. unfold get_ast.
  destruct (ast_cache s) as [a|] eqn:Ea.
  - cbn [fst snd]. split; [symmetry; apply Ha; reflexivity|]. split; [exact OK|reflexivity].
  - destruct (interpret (opcodes s)) as [a|e] eqn:Ei; cbn [fst snd].
    + split; [reflexivity|]. split; [|reflexivity]. split; cbn [ast_cache props_cache opcodes].
      * intros a' H. inversion H; subst. exact Ei.
      * exact Hp.
    + split; [reflexivity|]. split; [exact OK|reflexivity].
Qed.

Lemma get_props_spec : forall s, cache_ok s ->
  fst (GP s) = SP (opcodes s) /\ cache_ok (snd (GP s)) /\ opcodes (snd (GP s)) = opcodes s.
Proof.
  intros s OK. pose proof OK as [Ha Hp]. unfold get_props.
  destruct (props_cache s) as [p|] eqn:Ep.
  - cbn [fst snd]. split; [symmetry; apply Hp; reflexivity|]. split; [exact OK|reflexivity].
  - destruct (get_ast_spec s OK) as (F & OK1 & O1).
    destruct (GA s) as [ra s1] eqn:Eg. cbn [fst snd] in *.
    unfold spec_props. rewrite <- F.
    destruct ra as [a|e]; cbn [fst snd].
    + destruct (props_of a) as [p|e] eqn:Epo; cbn [fst snd].
      * split; [reflexivity|]. split; [|exact O1]. split; cbn [ast_cache props_cache opcodes].
        -- destruct OK1 as [H1 _]. exact H1.
        -- intros p' H. inversion H; subst. unfold spec_props. rewrite O1, <- F. exact Epo.
      * split; [reflexivity|]. split; [exact OK1|exact O1].
    + split; [reflexivity|]. split; [exact OK1|exact O1].
Qed.

(* every query answers the pure function [spec_answer] of the opcode list, keeps the invariant
   and leaves the opcode list alone *)
Lemma run_query_spec : forall q s, cache_ok s ->
  fst (RQ q s) = SPEC q (opcodes s) /\ cache_ok (snd (RQ q s)) /\ opcodes (snd (RQ q s)) = opcodes s.
Proof.
  intros q s OK. destruct q as [v|v| |v]; unfold run_query, spec_answer.
  - destruct (get_ast_spec s OK) as (F & OK1 & O1). destruct (GA s) as [ra s1]. cbn [fst snd] in *.
    rewrite <- F. auto.
  - destruct (get_props_spec s OK) as (F & OK1 & O1). destruct (GP s) as [rp s1]. cbn [fst snd] in *.
    rewrite <- F. auto.
  - destruct (get_props_spec s OK) as (F & OK1 & O1). destruct (GP s) as [rp s1]. cbn [fst snd] in *.
    rewrite <- F. auto.
  - cbn. auto.
Qed.

Lemma run_queries_inv : forall qs s, cache_ok s ->
  cache_ok (RQS qs s) /\ opcodes (RQS qs s) = opcodes s.
Proof.
  induction qs as [|q r IH]; intros s OK; cbn [run_queries]; [auto|].
  destruct (run_query_spec q s OK) as (_ & OK1 & O1).
  destruct (IH _ OK1) as (OK2 & O2). split; [exact OK2|congruence].
Qed.

(* C13: asking again, after any other questions in any order, gives the same answer; the opcode
   list and the serialised bytes are untouched *)
Lemma queries_idempotent : forall s0, cache_ok s0 -> forall qs q,
  fst (RQ q (RQS qs s0)) = fst (RQ q s0) /\
  fst (RQ q s0) = SPEC q (opcodes s0) /\
  opcodes (RQS qs s0) = opcodes s0 /\
  dumps data (RQS qs s0) = dumps data s0.
Proof.
  intros s0 OK qs q. destruct (run_queries_inv qs s0 OK) as (OK1 & O1).
  destruct (run_query_spec q _ OK1) as (F1 & _). destruct (run_query_spec q _ OK) as (F0 & _).
  repeat split; [congruence | exact F0 | exact O1 | unfold dumps; rewrite O1; reflexivity].
Qed.

(* any two orders / repetitions of the same or different questions agree on every answer *)
Lemma queries_order_irrelevant : forall s0, cache_ok s0 -> forall qs1 qs2 q,
  fst (RQ q (RQS qs1 s0)) = fst (RQ q (RQS qs2 s0)).
Proof.
  intros s0 OK qs1 qs2 q.
  destruct (run_queries_inv qs1 s0 OK) as (OK1 & O1). destruct (run_queries_inv qs2 s0 OK) as (OK2 & O2).
  destruct (run_query_spec q _ OK1) as (F1 & _). destruct (run_query_spec q _ OK2) as (F2 & _).
  congruence.
Qed.

(* two objects with the same opcode list (a re-parsed copy, a fresh Pickled(list(p))) answer alike
   whatever was asked of either before *)
Lemma same_opcodes_same_answers : forall s1 s2, cache_ok s1 -> cache_ok s2 ->
  opcodes s1 = opcodes s2 -> forall q, fst (RQ q s1) = fst (RQ q s2).
Proof.
  intros s1 s2 O1 O2 E q.
  destruct (run_query_spec q s1 O1) as (F1 & _). destruct (run_query_spec q s2 O2) as (F2 & _).
  congruence.
Qed.

(* ---- mutators ---- *)
Lemma do_prim_ok : forall p (s : pk), cache_ok s -> cache_ok (fst (do_prim R p s)).
Proof.
  intros p s OK. unfold do_prim. destruct (apply_prim p (opcodes s)); cbn; [apply fresh_ok|exact OK].
Qed.

Lemma do_prim_opcodes : forall p (s : pk),
  opcodes (fst (do_prim R p s)) =
  match apply_prim p (opcodes s) with Ok l => l | Err _ => opcodes s end.
Proof. intros p s. unfold do_prim. destruct (apply_prim p (opcodes s)); reflexivity. Qed.

Lemma m_append_ok : forall x (s : pk), cache_ok s -> cache_ok (fst (m_append R x s)).
Proof. intros. apply do_prim_ok; assumption. Qed.

Lemma m_extend_ok : forall xs (s : pk), cache_ok s -> cache_ok (fst (m_extend R xs s)).
Proof.
  induction xs as [|x r IH]; intros s OK; cbn [m_extend]; [exact OK|].
  pose proof (m_append_ok x s OK) as O1. destruct (m_append R x s) as [s1 e1]. cbn [fst] in O1.
  specialize (IH s1 O1). destruct (m_extend R r s1) as [s2 e2]. exact IH.
Qed.

Lemma m_pop_ok : forall i (s : pk), cache_ok s -> cache_ok (fst (m_pop R i s)).
Proof.
  intros i s OK. unfold m_pop. destruct (py_index _ i); [|exact OK].
  destruct (nth_error _ _); [|exact OK].
  pose proof (do_prim_ok (PDel i) s OK) as O1. destruct (do_prim R (PDel i) s). exact O1.
Qed.

Lemma m_remove_ok : forall x (s : pk), cache_ok s -> cache_ok (fst (m_remove R x_eqb x s)).
Proof.
  intros x s OK. unfold m_remove. destruct (index_where _ _); [|exact OK]. apply do_prim_ok; exact OK.
Qed.

Lemma m_reverse_loop_ok : forall idx n (s : pk), cache_ok s -> cache_ok (fst (m_reverse_loop R idx n s)).
Proof.
  induction idx as [|i r IH]; intros n s OK; cbn [m_reverse_loop]; [exact OK|].
  destruct (nth_error (opcodes s) (n - i - 1)) as [hi|]; [|exact OK].
  destruct (nth_error (opcodes s) i) as [lo|]; [|exact OK].
  pose proof (do_prim_ok (PSet (Z.of_nat i) hi) s OK) as O1.
  destruct (do_prim R (PSet (Z.of_nat i) hi) s) as [s1 e1]. cbn [fst] in O1.
  pose proof (do_prim_ok (PSet (Z.of_nat (n - i - 1)) lo) s1 O1) as O2.
  destruct (do_prim R (PSet (Z.of_nat (n - i - 1)) lo) s1) as [s2 e2]. cbn [fst] in O2.
  specialize (IH n s2 O2). destruct (m_reverse_loop R r n s2). exact IH.
Qed.

Lemma m_clear_loop_ok : forall fuel (s : pk), cache_ok s -> cache_ok (fst (m_clear_loop R fuel s)).
Proof.
  induction fuel as [|f IH]; intros s OK; cbn [m_clear_loop]; [exact OK|].
  destruct (py_index _ _); [|exact OK].
  pose proof (do_prim_ok (PDel (-1)) s OK) as O1. destruct (do_prim R (PDel (-1)) s) as [s1 e1].
  cbn [fst] in O1. specialize (IH s1 O1). destruct (m_clear_loop R f s1). exact IH.
Qed.

Lemma run_action_ok : forall a s, cache_ok s -> cache_ok (fst (RA a s)).
Proof.
  intros a s OK. destruct a; cbn [run_action].
  - destruct (run_query_spec q s OK) as (_ & O1 & _). destruct (RQ q s). exact O1.
  - apply do_prim_ok; exact OK.
  - apply m_append_ok; exact OK.
  - apply m_extend_ok; exact OK.
  - apply m_extend_ok; exact OK.
  - apply m_pop_ok; exact OK.
  - apply m_remove_ok; exact OK.
  - apply m_reverse_loop_ok; exact OK.
  - apply m_clear_loop_ok; exact OK.
Qed.

Lemma run_actions_ok : forall acts s, cache_ok s -> cache_ok (RAS acts s).
Proof.
  induction acts as [|a r IH]; intros s OK; cbn [run_actions]; [exact OK|].
  apply IH. apply run_action_ok; exact OK.
Qed.

(* a read inside a history changes nothing an edit or a later read can see *)
Lemma read_keeps_opcodes : forall q s, cache_ok s -> opcodes (fst (RA (ARead q) s)) = opcodes s.
Proof.
  intros q s OK. cbn [run_action]. destruct (run_query_spec q s OK) as (_ & _ & O).
  destruct (RQ q s). exact O.
Qed.

(* C14: after ANY interleaving of edits, mix-ins and reads, every view equals the view of a
   freshly constructed object with the same opcode list, and equals the pure function of it *)
Lemma views_fresh : forall s0, cache_ok s0 -> forall acts q,
  let s := RAS acts s0 in
  fst (RQ q s) = fst (RQ q (fresh (opcodes s))) /\ fst (RQ q s) = SPEC q (opcodes s).
Proof.
  intros s0 OK acts q s. pose proof (run_actions_ok acts s0 OK) as OKs. fold s in OKs.
  destruct (run_query_spec q s OKs) as (F & _).
  destruct (run_query_spec q (fresh (opcodes s)) (fresh_ok _)) as (F2 & _). cbn [opcodes fresh] in F2.
  split; congruence.
Qed.

(* ---- dumps ---- *)
Lemma dumps_loop_spec : forall l acc,
  dumps_loop data l acc =
  match all_data data l with Ok ds => Ok (acc ++ List.concat ds) | Err e => Err e end.
Proof.
  induction l as [|x r IH]; intros acc; cbn [dumps_loop all_data].
  - cbn. rewrite app_nil_r. reflexivity.
  - destruct (data x) as [d|e]; [|reflexivity]. rewrite IH.
    destruct (all_data data r); [|reflexivity]. cbn [List.concat]. rewrite app_assoc. reflexivity.
Qed.

Lemma dumps_concat : forall s : pk,
  dumps data s =
  match all_data data (opcodes s) with Ok ds => Ok (List.concat ds) | Err e => Err e end.
Proof. intros s. unfold dumps. rewrite dumps_loop_spec. reflexivity. Qed.

Lemma all_data_ok_map : forall l ds, all_data data l = Ok ds -> map data l = map (@Ok _) ds.
Proof.
  induction l as [|x r IH]; intros ds H; cbn [all_data] in H.
  - inversion H. reflexivity.
  - destruct (data x) as [d|e] eqn:E; [|discriminate].
    destruct (all_data data r) as [ds'|e]; [|discriminate]. inversion H; subst.
    cbn [map]. rewrite E, (IH ds' eq_refl). reflexivity.
Qed.

(* ---- the mix-ins have Python list semantics ---- *)
Lemma py_clamp_len : forall n, py_clamp n (Z.of_nat n) = n.
Proof.
  intros n. unfold py_clamp.
  destruct (Z.of_nat n <? 0)%Z eqn:E1; [apply Z.ltb_lt in E1; lia|]. rewrite E1.
  rewrite Z.ltb_irrefl. apply Nat2Z.id.
Qed.

Lemma m_append_list : forall x (s : pk), opcodes (fst (m_append R x s)) = opcodes s ++ [x].
Proof.
  intros x s. unfold m_append. rewrite do_prim_opcodes. cbn [apply_prim].
  rewrite py_clamp_len. unfold list_insert. rewrite firstn_all, skipn_all. reflexivity.
Qed.

Lemma m_extend_list : forall xs (s : pk), opcodes (fst (m_extend R xs s)) = opcodes s ++ xs.
Proof.
  induction xs as [|x r IH]; intros s; cbn [m_extend]; [cbn; rewrite app_nil_r; reflexivity|].
  pose proof (m_append_list x s) as E. destruct (m_append R x s) as [s1 e1]. cbn [fst] in E.
  specialize (IH s1). destruct (m_extend R r s1) as [s2 e2]. cbn [fst] in *.
  rewrite IH, E, <- app_assoc. reflexivity.
Qed.

Lemma py_index_last : forall n, py_index (S n) (-1) = Some n.
Proof.
  intros n. unfold py_index. cbn [Z.ltb Z.compare].
  destruct (-1 + Z.of_nat (S n) <? 0)%Z eqn:E1; [apply Z.ltb_lt in E1; lia|].
  destruct (-1 + Z.of_nat (S n) <? Z.of_nat (S n))%Z eqn:E2; [|apply Z.ltb_ge in E2; lia].
  f_equal. lia.
Qed.

Lemma py_index_empty : forall i, py_index 0 i = None.
Proof.
  intros i. unfold py_index. cbn [Z.of_nat]. rewrite Z.add_0_r.
  destruct (i <? 0)%Z eqn:E; [rewrite E; reflexivity|]. rewrite E. reflexivity.
Qed.

Lemma m_clear_loop_list : forall fuel (s : pk), List.length (opcodes s) < fuel ->
  opcodes (fst (m_clear_loop R fuel s)) = [].
Proof.
  induction fuel as [|f IH]; intros s L; [lia|]. cbn [m_clear_loop].
  destruct (opcodes s) as [|x r] eqn:E.
  - cbn [List.length]. rewrite py_index_empty. exact E.
  - cbn [List.length] in *. rewrite py_index_last.
    pose proof (do_prim_opcodes (PDel (-1)) s) as D. cbn [apply_prim] in D.
    rewrite E in D. cbn [List.length] in D. rewrite py_index_last in D.
    destruct (do_prim R (PDel (-1)) s) as [s1 e1]. cbn [fst] in D.
    assert (List.length (opcodes s1) < f) as L1.
    { rewrite D. unfold list_del. rewrite app_length, firstn_length, skipn_length.
      cbn [List.length]. lia. }
    specialize (IH s1 L1). destruct (m_clear_loop R f s1). exact IH.
Qed.

Lemma m_clear_list : forall s : pk, opcodes (fst (m_clear R s)) = [].
Proof. intros s. apply m_clear_loop_list. lia. Qed.

Lemma py_index_bound : forall n i k, py_index n i = Some k -> k < n.
Proof.
  intros n i k H. unfold py_index in H.
  set (j := if (i <? 0)%Z then (i + Z.of_nat n)%Z else i) in *.
  destruct (j <? 0)%Z eqn:E1; [discriminate|].
  destruct (j <? Z.of_nat n)%Z eqn:E2; [|discriminate].
  inversion H; subst. apply Z.ltb_ge in E1. apply Z.ltb_lt in E2. lia.
Qed.

Lemma m_pop_list : forall i (s : pk) k, py_index (List.length (opcodes s)) i = Some k ->
  opcodes (fst (m_pop R i s)) = list_del k (opcodes s).
Proof.
  intros i s k H. unfold m_pop. rewrite H.
  destruct (nth_error (opcodes s) k) as [v|] eqn:N.
  - pose proof (do_prim_opcodes (PDel i) s) as D. cbn [apply_prim] in D. rewrite H in D.
    destruct (do_prim R (PDel i) s). exact D.
  - exfalso. apply nth_error_None in N. apply py_index_bound in H. lia.
Qed.

End Generic.
Arguments cache_ok {X A P} _ _ _.

(* ---- reverse(), written as the n//2 swaps through __setitem__, is list.reverse ---- *)
Section Reverse.
Variables X A P R : Type.
Notation pk := (pk X A P).

Lemma py_index_nat : forall n i, i < n -> py_index n (Z.of_nat i) = Some i.
Proof.
  intros n i H. unfold py_index.
  destruct (Z.of_nat i <? 0)%Z eqn:E; [apply Z.ltb_lt in E; lia|]. rewrite E.
  destruct (Z.of_nat i <? Z.of_nat n)%Z eqn:E2; [|apply Z.ltb_ge in E2; lia].
  rewrite Nat2Z.id. reflexivity.
Qed.

Lemma list_set_length : forall (l : list X) i x, i < List.length l -> List.length (list_set i x l) = List.length l.
Proof.
  intros l i x H. unfold list_set. rewrite app_length, firstn_length. cbn [List.length].
  rewrite skipn_length. lia.
Qed.

Lemma nth_error_firstn_lt : forall (l : list X) i j, j < i -> nth_error (firstn i l) j = nth_error l j.
Proof.
  induction l as [|x r IH]; intros i j H; destruct i; try lia; [destruct j; reflexivity|].
  destruct j; cbn; [reflexivity|]. apply IH. lia.
Qed.

Lemma nth_error_skipn_add : forall (l : list X) i j, nth_error (skipn i l) j = nth_error l (i + j).
Proof.
  induction l as [|x r IH]; intros i j; destruct i; cbn; try reflexivity; [destruct j; reflexivity|apply IH].
Qed.

Lemma nth_error_rev : forall (l : list X) j, j < List.length l ->
  nth_error (rev l) j = nth_error l (List.length l - 1 - j).
Proof.
  intros l j H. destruct l as [|d t] eqn:E; [cbn in H; lia|]. rewrite <- E in *.
  rewrite (nth_error_nth' (rev l) d) by (rewrite rev_length; exact H).
  rewrite (nth_error_nth' l d) by lia. f_equal. rewrite rev_nth by exact H. f_equal. lia.
Qed.

Lemma nth_error_list_set : forall (l : list X) i x j, i < List.length l ->
  nth_error (list_set i x l) j = if Nat.eqb j i then Some x else nth_error l j.
Proof.
  intros l i x j H. unfold list_set.
  destruct (Nat.eqb j i) eqn:E.
  - apply Nat.eqb_eq in E. subst. rewrite nth_error_app2; rewrite firstn_length; [|lia].
    replace (i - Nat.min i (List.length l)) with 0 by lia. reflexivity.
  - apply Nat.eqb_neq in E. destruct (Nat.lt_ge_cases j i).
    + rewrite nth_error_app1 by (rewrite firstn_length; lia). apply nth_error_firstn_lt. exact H0.
    + rewrite nth_error_app2 by (rewrite firstn_length; lia). rewrite firstn_length.
      replace (j - Nat.min i (List.length l)) with (S (j - i - 1)) by lia. cbn [nth_error].
      rewrite nth_error_skipn_add. f_equal. lia.
Qed.

(* what one pass of the loop over [idx] does to positions: every i in idx is swapped with n-1-i *)
Definition swapped (k n j : nat) : nat := if (j <? k) || (n - k <=? j) then n - 1 - j else j.

Lemma loop_spec : forall k (s : pk) a,
  let n := List.length (opcodes s) in
  forall l0, List.length l0 = n -> a + k <= Nat.div n 2 ->
  (forall j, j < n -> nth_error (opcodes s) j = nth_error l0 (swapped a n j)) ->
  let s' := fst (m_reverse_loop R (seq a k) n s) in
  List.length (opcodes s') = n /\
  forall j, j < n -> nth_error (opcodes s') j = nth_error l0 (swapped (a + k) n j).
Proof.
  induction k as [|k IH]; intros s a n l0 L0 B INV; cbn [seq m_reverse_loop].
  - cbn [fst]. rewrite Nat.add_0_r. auto.
  - assert (n / 2 * 2 <= n) as D by (pose proof (Nat.div_mod n 2 ltac:(lia)); pose proof (Nat.mod_upper_bound n 2 ltac:(lia)); lia).
    assert (a < n /\ n - a - 1 < n /\ a < n - a - 1) as (A1 & A2 & A3) by lia.
    destruct (nth_error (opcodes s) (n - a - 1)) as [hi|] eqn:Hhi; [|apply nth_error_None in Hhi; fold n in Hhi; lia].
    destruct (nth_error (opcodes s) a) as [lo|] eqn:Hlo; [|apply nth_error_None in Hlo; fold n in Hlo; lia].
    pose proof (do_prim_opcodes X A P R (PSet (Z.of_nat a) hi) s) as D1. cbn [apply_prim] in D1.
    fold n in D1. rewrite (py_index_nat n a A1) in D1.
    destruct (do_prim R (PSet (Z.of_nat a) hi) s) as [s1 e1]. cbn [fst] in D1.
    pose proof (do_prim_opcodes X A P R (PSet (Z.of_nat (n - a - 1)) lo) s1) as D2. cbn [apply_prim] in D2.
    assert (List.length (opcodes s1) = n) as L1 by (rewrite D1; apply list_set_length; exact A1).
    rewrite L1, (py_index_nat n (n - a - 1) A2) in D2.
    destruct (do_prim R (PSet (Z.of_nat (n - a - 1)) lo) s1) as [s2 e2]. cbn [fst] in D2.
    assert (List.length (opcodes s2) = n) as L2 by (rewrite D2; rewrite list_set_length; lia).
    specialize (IH s2 (S a)). cbn zeta in IH. rewrite L2 in IH. specialize (IH l0 L0 ltac:(lia)).
    assert (forall j, j < n -> nth_error (opcodes s2) j = nth_error l0 (swapped (S a) n j)) as INV2.
    { intros j Hj. rewrite D2, nth_error_list_set by lia. rewrite D1, nth_error_list_set by (fold n; lia).
      unfold swapped.
      destruct (Nat.eqb j (n - a - 1)) eqn:E1.
      - apply Nat.eqb_eq in E1. subst j. rewrite <- Hlo, (INV a A1). unfold swapped.
        destruct (a <? a) eqn:Q1; [apply Nat.ltb_lt in Q1; lia|].
        destruct (n - a <=? a) eqn:Q2; [apply Nat.leb_le in Q2; lia|]. cbn [orb].
        destruct (n - a - 1 <? S a) eqn:Q3; [apply Nat.ltb_lt in Q3; lia|].
        destruct (n - S a <=? n - a - 1) eqn:Q4; [|apply Nat.leb_gt in Q4; lia]. cbn [orb].
        f_equal. lia.
      - apply Nat.eqb_neq in E1. destruct (Nat.eqb j a) eqn:E2.
        + apply Nat.eqb_eq in E2. subst j. rewrite <- Hhi, (INV (n - a - 1) A2). unfold swapped.
          destruct (n - a - 1 <? a) eqn:Q1; [apply Nat.ltb_lt in Q1; lia|].
          destruct (n - a <=? n - a - 1) eqn:Q2; [apply Nat.leb_le in Q2; lia|]. cbn [orb].
          destruct (a <? S a) eqn:Q3; [|apply Nat.ltb_ge in Q3; lia]. cbn [orb]. f_equal. lia.
        + apply Nat.eqb_neq in E2. rewrite (INV j Hj). unfold swapped.
          destruct (j <? a) eqn:Q1, (n - a <=? j) eqn:Q2, (j <? S a) eqn:Q3, (n - S a <=? j) eqn:Q4;
            cbn [orb]; try reflexivity;
            repeat match goal with
                   | H : (_ <? _) = true |- _ => apply Nat.ltb_lt in H
                   | H : (_ <? _) = false |- _ => apply Nat.ltb_ge in H
                   | H : (_ <=? _) = true |- _ => apply Nat.leb_le in H
                   | H : (_ <=? _) = false |- _ => apply Nat.leb_gt in H
                   end; lia. }
    specialize (IH INV2).
    destruct (m_reverse_loop R (seq (S a) k) n s2) as [s3 e3]. cbn [fst] in *.
    replace (a + S k) with (S a + k) by lia. exact IH.
Qed.

Lemma nth_error_ext_eq : forall (l1 l2 : list X), List.length l1 = List.length l2 ->
  (forall j, j < List.length l1 -> nth_error l1 j = nth_error l2 j) -> l1 = l2.
Proof.
  induction l1 as [|x r IH]; intros [|y t] L H; cbn in L; try discriminate; [reflexivity|].
  pose proof (H 0 ltac:(cbn; lia)) as H0. cbn in H0. inversion H0; subst. f_equal.
  apply IH; [lia|]. intros j Hj. apply (H (S j)). cbn. lia.
Qed.

Lemma m_reverse_list : forall s : pk, opcodes (fst (m_reverse R s)) = rev (opcodes s).
Proof.
  intros s. unfold m_reverse.
  destruct (loop_spec (Nat.div (List.length (opcodes s)) 2) s 0 (opcodes s) eq_refl ltac:(lia)) as (L & N).
  { intros j Hj. unfold swapped. cbn [Nat.ltb Nat.leb orb]. rewrite Nat.sub_0_r.
    destruct (List.length (opcodes s) <=? j) eqn:Q; [apply Nat.leb_le in Q; lia|]. reflexivity. }
  cbn [Nat.add] in N.
  apply nth_error_ext_eq; [rewrite rev_length; exact L|].
  intros j Hj. rewrite L in Hj. rewrite (N j Hj).
  set (n := List.length (opcodes s)) in *.
  assert (n / 2 * 2 <= n /\ n < n / 2 * 2 + 2) as (D1 & D2)
    by (pose proof (Nat.div_mod n 2 ltac:(lia)); pose proof (Nat.mod_upper_bound n 2 ltac:(lia)); lia).
  assert (swapped (n / 2) n j = n - 1 - j) as ->.
  { unfold swapped. destruct (j <? n / 2) eqn:Q1; [reflexivity|].
    destruct (n - n / 2 <=? j) eqn:Q2; [reflexivity|]. cbn [orb].
    apply Nat.ltb_ge in Q1. apply Nat.leb_gt in Q2. lia. }
  symmetry. apply nth_error_rev. exact Hj.
Qed.
End Reverse.

(* ========================================================================================== *)
(* Part 2: the instance -- independence of the hash seed                                      *)
(* ========================================================================================== *)
Open Scope string_scope.

(* the shared de-duplication set is only ever asked for membership *)
Definition deq (d d' : dedup) : Prop := forall t, mem_str t d = mem_str t d'.

Lemma deq_refl d : deq d d.
Proof. intros t; reflexivity. Qed.

Lemma mem_str_In : forall x l, mem_str x l = true <-> In x l.
Proof.
  induction l as [|y r IH]; cbn [mem_str In]; [split; [discriminate|tauto]|].
  destruct (String.eqb x y) eqn:E.
  - apply String.eqb_eq in E. subst. tauto.
  - apply String.eqb_neq in E. rewrite IH. split; [tauto|]. intros [H|H]; [congruence|exact H].
Qed.

Lemma mem_add : forall t u d, mem_str t (add u d) = String.eqb t u || mem_str t d.
Proof.
  intros t u d. unfold add. destruct (mem_str u d) eqn:M.
  - destruct (String.eqb t u) eqn:E; [|reflexivity]. apply String.eqb_eq in E. subst. rewrite M. reflexivity.
  - cbn [mem_str]. reflexivity.
Qed.

Lemma deq_add : forall t d d', deq d d' -> deq (add t d) (add t d').
Proof. intros t d d' H u. rewrite !mem_add, H. reflexivity. Qed.

Section Hashseed.
Variable crepr : const -> string.
Variable std : string -> bool.

Ltac step_pair F :=
  match goal with
  | |- context [F ?x ?d] => destruct (F x d) as [? ?] eqn:?
  end.

Lemma nsi_deq : forall imps d d', deq d d' ->
  fst (non_standard_imports std imps d) = fst (non_standard_imports std imps d') /\
  deq (snd (non_standard_imports std imps d)) (snd (non_standard_imports std imps d')).
Proof.
  induction imps as [|mn r IH]; intros d d' H; cbn [non_standard_imports]; [split; [reflexivity|exact H]|].
  destruct (std (fst mn)); [apply IH; exact H|].
  destruct (IH _ _ (deq_add (shorten (imp_text mn)) d d' H)) as [F S].
  destruct (non_standard_imports std r (add _ d)) as [fs1 d1].
  destruct (non_standard_imports std r (add _ d')) as [fs2 d2].
  cbn [fst snd] in *. rewrite (H (shorten (imp_text mn))), F. split; [reflexivity|exact S].
Qed.

Lemma uiml_deq : forall imps d d', deq d d' ->
  fst (unsafe_imports_ml imps d) = fst (unsafe_imports_ml imps d') /\
  deq (snd (unsafe_imports_ml imps d)) (snd (unsafe_imports_ml imps d')).
Proof.
  induction imps as [|mn r IH]; intros d d' H; cbn [unsafe_imports_ml]; [split; [reflexivity|exact H]|].
  destruct (IH _ _ (deq_add (shorten (imp_text mn)) d d' H)) as [F S].
  destruct (unsafe_imports_ml r (add _ d)) as [fs1 d1].
  destruct (unsafe_imports_ml r (add _ d')) as [fs2 d2].
  cbn [fst snd] in *. rewrite F. split; [reflexivity|exact S].
Qed.

Lemma bc_deq : forall ns calls d d', deq d d' ->
  fst (bad_calls_an crepr ns calls d) = fst (bad_calls_an crepr ns calls d') /\
  deq (snd (bad_calls_an crepr ns calls d)) (snd (bad_calls_an crepr ns calls d')).
Proof.
  induction calls as [|c r IH]; intros d d' H; cbn [bad_calls_an]; [split; [reflexivity|exact H]|].
  destruct (bad_prefix _); [|apply IH; exact H].
  destruct (IH _ _ (deq_add (shorten (call_text crepr ns c)) d d' H)) as [F S].
  destruct (bad_calls_an crepr ns r (add _ d)) as [fs1 d1].
  destruct (bad_calls_an crepr ns r (add _ d')) as [fs2 d2].
  cbn [fst snd] in *. rewrite F. split; [reflexivity|exact S].
Qed.

Lemma obe_deq : forall ns safe calls d d', deq d d' ->
  fst (overtly_bad_evals crepr ns safe calls d) = fst (overtly_bad_evals crepr ns safe calls d') /\
  deq (snd (overtly_bad_evals crepr ns safe calls d)) (snd (overtly_bad_evals crepr ns safe calls d')).
Proof.
  induction calls as [|c r IH]; intros d d' H; cbn [overtly_bad_evals]; [split; [reflexivity|exact H]|].
  destruct (match callee_id c with Some s => mem_str s safe | None => false end); [apply IH; exact H|].
  destruct (IH _ _ (deq_add (shorten (call_text crepr ns c)) d d' H)) as [F S].
  destruct (overtly_bad_evals crepr ns safe r (add _ d)) as [fs1 d1].
  destruct (overtly_bad_evals crepr ns safe r (add _ d')) as [fs2 d2].
  cbn [fst snd] in *. rewrite (H (shorten (call_text crepr ns c))), F. split; [reflexivity|exact S].
Qed.

Lemma ui_deq : forall imps d d', deq d d' ->
  fst (unsafe_imports_an imps d) = fst (unsafe_imports_an imps d') /\
  deq (snd (unsafe_imports_an imps d)) (snd (unsafe_imports_an imps d')).
Proof.
  induction imps as [|mn r IH]; intros d d' H; cbn [unsafe_imports_an]; [split; [reflexivity|exact H]|].
  destruct (mem_str (fst mn) unsafe_imports_modules || (snd mn =? "eval")); [|apply IH; exact H].
  destruct (IH _ _ (deq_add (shorten (imp_text mn)) d d' H)) as [F S].
  destruct (unsafe_imports_an r (add _ d)) as [fs1 d1].
  destruct (unsafe_imports_an r (add _ d')) as [fs2 d2].
  cbn [fst snd] in *. rewrite F. split; [reflexivity|exact S].
Qed.

Lemma mla_deq : forall imps d d', deq d d' ->
  fst (ml_allowlist_an imps d) = fst (ml_allowlist_an imps d') /\
  deq (snd (ml_allowlist_an imps d)) (snd (ml_allowlist_an imps d')).
Proof.
  induction imps as [|mn r IH]; intros d d' H; cbn [ml_allowlist_an]; [split; [reflexivity|exact H]|].
  destruct (IH _ _ (deq_add (shorten (imp_text mn)) d d' H)) as [F S].
  destruct (ml_allowlist_an r (add _ d)) as [fs1 d1].
  destruct (ml_allowlist_an r (add _ d')) as [fs2 d2].
  cbn [fst snd] in *. rewrite (H (shorten (imp_text mn))), F. split; [reflexivity|exact S].
Qed.

(* UnusedVariables: the findings are one per unused variable, in the order given; the set it
   leaves behind only depends on WHICH texts were shortened *)
Definition uv_finding (ns : list node) (ie : nat * expr) : finding :=
  mkF "UnusedVariables" 0 "UnusedVariables" "SUSPICIOUS"
      (var_name (fst ie) ++ " " ++ shorten (call_text crepr ns (snd ie)))
      [BStr (var_name (fst ie)); BStr (shorten (call_text crepr ns (snd ie)))].
Definition uv_text (ns : list node) (ie : nat * expr) : string := shorten (call_text crepr ns (snd ie)).

Lemma uv_fst : forall ns un d, fst (unused_variables_an crepr ns un d) = map (uv_finding ns) un.
Proof.
  induction un as [|[i e] r IH]; intros d; cbn [unused_variables_an map]; [reflexivity|].
  specialize (IH (add (shorten (call_text crepr ns e)) d)).
  destruct (unused_variables_an crepr ns r _) as [fs d1]. cbn [fst] in *. rewrite IH. reflexivity.
Qed.

Lemma uv_snd : forall ns un d t,
  mem_str t (snd (unused_variables_an crepr ns un d)) = mem_str t d || mem_str t (map (uv_text ns) un).
Proof.
  induction un as [|[i e] r IH]; intros d t; cbn [unused_variables_an map mem_str].
  - rewrite orb_false_r. reflexivity.
  - specialize (IH (add (shorten (call_text crepr ns e)) d) t).
    destruct (unused_variables_an crepr ns r _) as [fs d1]. cbn [snd] in *. rewrite IH, mem_add.
    unfold uv_text at 2. cbn [snd].
    destruct (String.eqb t (shorten (call_text crepr ns e))), (mem_str t d); reflexivity.
Qed.

Lemma mem_str_perm : forall t l l', Permutation l l' -> mem_str t l = mem_str t l'.
Proof.
  intros t l l' HP. destruct (mem_str t l) eqn:E1, (mem_str t l') eqn:E2; try reflexivity.
  - apply mem_str_In in E1. apply (Permutation_in _ HP) in E1. apply mem_str_In in E1. congruence.
  - apply mem_str_In in E2. apply (Permutation_in _ (Permutation_sym HP)) in E2.
    apply mem_str_In in E2. congruence.
Qed.

Lemma uv_perm : forall ns un un' d d', Permutation un un' -> deq d d' ->
  Permutation (fst (unused_variables_an crepr ns un d)) (fst (unused_variables_an crepr ns un' d')) /\
  deq (snd (unused_variables_an crepr ns un d)) (snd (unused_variables_an crepr ns un' d')).
Proof.
  intros ns un un' d d' HP H. rewrite !uv_fst. split; [apply Permutation_map; exact HP|].
  intros t. rewrite !uv_snd, H. f_equal. apply mem_str_perm. apply Permutation_map. exact HP.
Qed.

Lemma run_analysis_deq : forall name protos p d d', deq d d' ->
  match run_analysis crepr std name protos p d, run_analysis crepr std name protos p d' with
  | Some (fs, e), Some (fs', e') => fs = fs' /\ deq e e'
  | None, None => True
  | _, _ => False
  end.
Proof.
  intros name protos p d d' H. unfold run_analysis.
  repeat match goal with |- context [if ?b then _ else _] => destruct b end; try exact I.
  - split; [reflexivity|exact H].
  - split; [reflexivity|exact H].
  - pose proof (nsi_deq (imports_of (rev (body p))) d d' H) as [F S].
    destruct (non_standard_imports _ _ d), (non_standard_imports _ _ d'). cbn in *. auto.
  - pose proof (uiml_deq (imports_of (rev (body p))) d d' H) as [F S].
    destruct (unsafe_imports_ml _ d), (unsafe_imports_ml _ d'). cbn in *. auto.
  - pose proof (bc_deq (nodes p) (flat_map (stmt_calls (nodes p)) (rev (body p))) d d' H) as [F S].
    destruct (bad_calls_an _ _ _ d), (bad_calls_an _ _ _ d'). cbn in *. auto.
  - match goal with |- context [overtly_bad_evals _ ?ns ?sf ?cl d] =>
      pose proof (obe_deq ns sf cl d d' H) as [F S];
      destruct (overtly_bad_evals crepr ns sf cl d), (overtly_bad_evals crepr ns sf cl d') end.
    cbn in *. auto.
  - pose proof (ui_deq (imports_of (rev (body p))) d d' H) as [F S].
    destruct (unsafe_imports_an _ d), (unsafe_imports_an _ d'). cbn in *. auto.
  - pose proof (uv_perm (nodes p) _ _ d d' (Permutation_refl (unused_vars (nodes p) (rev (body p)))) H) as [F S].
    rewrite !uv_fst in F.
    destruct (unused_variables_an _ _ _ d) eqn:E1, (unused_variables_an _ _ _ d') eqn:E2.
    cbn [fst snd] in *. split; [|exact S].
    pose proof (uv_fst (nodes p) (unused_vars (nodes p) (rev (body p))) d) as G1.
    pose proof (uv_fst (nodes p) (unused_vars (nodes p) (rev (body p))) d') as G2.
    rewrite E1 in G1. rewrite E2 in G2. cbn [fst] in *. congruence.
  - pose proof (mla_deq (imports_of (rev (body p))) d d' H) as [F S].
    destruct (ml_allowlist_an _ d), (ml_allowlist_an _ d'). cbn in *. auto.
Qed.

Variable pi : list (nat * expr) -> list (nat * expr).
Hypothesis pi_perm : forall l, Permutation (pi l) l.

Lemma run_analysis2_rel : forall name protos p f d d', deq d d' ->
  match run_analysis2 crepr std pi name protos p f d, run_analysis2 crepr std pi_id name protos p f d' with
  | Some (fs, e), Some (fs', e') => Permutation fs fs' /\ deq e e'
  | None, None => True
  | _, _ => False
  end.
Proof.
  intros name protos p f d d' H. unfold run_analysis2.
  destruct (name =? "UnusedVariables").
  - pose proof (uv_perm (nodes f) _ _ d d' (pi_perm (unused_vars (nodes f) (rev (body f)))) H) as [F S].
    unfold pi_id.
    destruct (unused_variables_an _ _ (pi _) d), (unused_variables_an _ _ (unused_vars _ _) d').
    cbn [fst snd] in *. auto.
  - pose proof (run_analysis_deq name protos p d d' H) as R.
    destruct (run_analysis crepr std name protos p d) as [[fs e]|],
             (run_analysis crepr std name protos p d') as [[fs' e']|]; try exact R.
    destruct R as [-> S]. split; [apply Permutation_refl|exact S].
Qed.

Lemma run_all2_rel : forall names protos p f d d', deq d d' ->
  match run_all2 crepr std pi names protos p f d, run_all2 crepr std pi_id names protos p f d' with
  | Some fs, Some fs' => Permutation fs fs'
  | None, None => True
  | _, _ => False
  end.
Proof.
  induction names as [|n r IH]; intros protos p f d d' H; cbn [run_all2]; [apply Permutation_refl|].
  pose proof (run_analysis2_rel n protos p f d d' H) as R.
  destruct (run_analysis2 crepr std pi n protos p f d) as [[fs e]|],
           (run_analysis2 crepr std pi_id n protos p f d') as [[fs' e']|];
    try (exfalso; exact R); [|exact I].
  destruct R as [PF S]. specialize (IH protos p f e e' S).
  destruct (run_all2 crepr std pi r protos p f e), (run_all2 crepr std pi_id r protos p f e');
    try (exfalso; exact IH); [|exact I].
  apply Permutation_app; assumption.
Qed.

End Hashseed.

(* with the identity order and the cached and the fresh interpretation the same, the two-source
   analysis is exactly Analysis.analyze (the model C04 / C19 are proved about) *)
Lemma run_analysis2_id : forall crepr std name protos s d,
  run_analysis2 crepr std pi_id name protos s s d = run_analysis crepr std name protos s d.
Proof.
  intros. unfold run_analysis2. destruct (name =? "UnusedVariables") eqn:E; [|reflexivity].
  apply String.eqb_eq in E. subst. reflexivity.
Qed.

Lemma run_all2_id : forall crepr std names protos s d,
  run_all2 crepr std pi_id names protos s s d = run_all crepr std names protos s d.
Proof.
  induction names as [|n r IH]; intros; cbn [run_all2 run_all]; [reflexivity|].
  rewrite run_analysis2_id. destruct (run_analysis crepr std n protos s d) as [[fs e]|]; [|reflexivity].
  rewrite IH. reflexivity.
Qed.

(* the verdict is the maximum: it does not depend on the order of the findings *)
Lemma severity_perm : forall l l', Forall wf l -> Permutation l l' -> severity l = severity l'.
Proof.
  intros l l' W HP.
  assert (Forall wf l') as W'.
  { rewrite Forall_forall in *. intros x Hx. apply W. apply (Permutation_in _ (Permutation_sym HP)). exact Hx. }
  destruct l as [|a r].
  - apply Permutation_nil in HP. subst. reflexivity.
  - assert (l' <> []) as NE.
    { intros ->. apply Permutation_sym, Permutation_nil in HP. discriminate. }
    pose proof (severity_member _ W ltac:(discriminate)) as M1.
    pose proof (severity_member _ W' NE) as M2.
    apply rank_inj; [apply severity_wf; exact W | apply severity_wf; exact W' |].
    apply Nat.le_antisymm.
    + apply (severity_upper _ W'). apply (Permutation_in _ HP). exact M1.
    + apply (severity_upper _ W). apply (Permutation_in _ (Permutation_sym HP)). exact M2.
Qed.

Lemma verdict_perm : forall fs fs', Permutation fs fs' -> verdict fs = verdict fs'.
Proof.
  intros fs fs' HP. unfold verdict. apply severity_perm.
  - apply Forall_forall. intros x Hx. apply in_map_iff in Hx. destruct Hx as (f & <- & _).
    apply finding_sev_wf.
  - apply Permutation_map. exact HP.
Qed.

(* answers up to the order of the findings list *)
Definition ans_equiv (a b : ans) : Prop :=
  match a, b with
  | ASafety (Some f1), ASafety (Some f2) => Permutation f1 f2
  | _, _ => a = b
  end.

Lemma ans_equiv_refl : forall a, ans_equiv a a.
Proof.
  intros a. unfold ans_equiv. destruct a as [e|t|b|n|l|r|ex t|r]; try reflexivity.
  destruct r; [apply Permutation_refl|reflexivity].
Qed.

Lemma inst_safety_equiv : forall crepr std pi, (forall l, Permutation (pi l) l) ->
  forall l p, ans_equiv (inst_safety crepr std pi l p) (inst_safety crepr std pi_id l p).
Proof.
  intros crepr std pi HP l p. unfold inst_safety. destruct (inst_interpret l) as [f|e]; [|reflexivity].
  pose proof (run_all2_rel crepr std pi HP analysis_order (protos_of l) p f [] [] (deq_refl [])) as R.
  unfold ans_equiv.
  destruct (run_all2 crepr std pi analysis_order (protos_of l) p f []),
           (run_all2 crepr std pi_id analysis_order (protos_of l) p f []); try exact R; try contradiction.
  reflexivity.
Qed.

Lemma inst_spec_equiv : forall crepr std pi, (forall l, Permutation (pi l) l) ->
  forall q l, ans_equiv (inst_spec_answer crepr std pi q l) (inst_spec_answer crepr std pi_id q l).
Proof.
  intros crepr std pi HP q l. unfold inst_spec_answer, spec_answer.
  destruct q as [v|v| |v].
  - apply ans_equiv_refl.
  - apply ans_equiv_refl.
  - destruct (spec_props inst_interpret inst_props l) as [p|e]; [|reflexivity].
    apply inst_safety_equiv. exact HP.
  - apply ans_equiv_refl.
Qed.

(* ========================================================================================== *)
(* Part 3: a re-parsed copy has the same opcodes (classes and encodings)                      *)
(* ========================================================================================== *)
(* what the interpreter and the analyses can see of a parsed opcode: its class / pickletools row and
   its bytes (the decoded argument is a function of those bytes); NOT its position in the stream *)
Definition strip (o : Codec.opc) : Codec.oprow * option (list byte) := (Codec.o_row o, Codec.o_data o).

Lemma strip_shift : forall k ops, map strip (map (CodecProofs.shift_opc k) ops) = map strip ops.
Proof. intros k ops. rewrite map_map. apply map_ext. intros o. reflexivity. Qed.

(* [b] is exactly one pickle with parse [p]; it is loaded from inside any larger stream; then
   dumps() of that parse is [b], and loading those bytes again gives the same classes and data *)
Lemma reparse_same : forall b p, CodecProofs.complete b p -> forall pre rest,
  exists ops e,
    Codec.load_stream (pre ++ b ++ rest) (List.length pre) = Codec.LOk (ops, e) /\
    Codec.dumps ops = Ok b /\
    Codec.load_stream b 0 = Codec.LOk (p, List.length b) /\
    map strip p = map strip ops.
Proof.
  intros b p H pre rest. unfold CodecProofs.complete in H.
  exists (map (CodecProofs.shift_opc (List.length pre)) p), (List.length pre + List.length b).
  split; [apply CodecProofs.load_stream_prefix; exact H|]. split; [|split; [exact H|]].
  - rewrite CodecProofs.dumps_shift. destruct (CodecProofs.load_stream_exact _ _ _ _ H) as (D & _). rewrite D.
    unfold Codec.read_at. cbn [skipn]. rewrite Nat.sub_0_r, firstn_all. reflexivity.
  - symmetry. apply strip_shift.
Qed.

(* ... and without assuming anything about the bytes: for EVERY successful Pickled.load (bytes, seekable
   stream at any offset, non-seekable stream), Pickled.load(p.dumps()) succeeds, consumes exactly those
   bytes, re-serialises to them, and has the same opcode classes and encodings
   (CodecTruncProofs.load_stream_truncate: truncation invariance of the token loop) *)
Lemma reparse_strip : forall k bs off r,
  Codec.load_model k bs off = Codec.LOk r ->
  exists d r',
    Codec.dumps (Codec.l_ops r) = Ok d /\
    Codec.load_model Codec.KBytes d 0 = Codec.LOk r' /\
    Codec.l_end r' = List.length d /\
    map strip (Codec.l_ops r') = map strip (Codec.l_ops r) /\
    Codec.dumps (Codec.l_ops r') = Ok d.
Proof.
  intros k bs off r H.
  destruct (CodecTruncProofs.reparse_model k bs off r H) as (d & r' & sh & D & L & E & EO & D').
  exists d, r'. repeat (split; [assumption|]). split; [|exact D'].
  rewrite EO. symmetry. apply strip_shift.
Qed.

(* ========================================================================================== *)
(* Part 4: the statements of C13 / C14 on the instance                                        *)
(* ========================================================================================== *)
Lemma hashseed_independent : forall crepr std pi, (forall l, Permutation (pi l) l) ->
  forall l qs q,
  let a := fst (inst_run_query crepr std pi q (inst_run_queries crepr std pi qs (fresh l))) in
  let b := fst (inst_run_query crepr std pi_id q (fresh l)) in
  ans_equiv a b /\
  (forall v, q = QAst v -> a = b) /\
  (forall v, q = QProps v -> a = b) /\
  (forall v, q = QFresh v -> a = b) /\
  (forall f1 f2, a = ASafety (Some f1) -> b = ASafety (Some f2) ->
     verdict f1 = verdict f2 /\ forall f, In f f1 <-> In f f2).
Proof.
  intros crepr std pi HP l qs q a b.
  assert (a = inst_spec_answer crepr std pi q l) as Ea.
  { unfold a, inst_run_query, inst_run_queries, inst_spec_answer.
    destruct (queries_idempotent _ _ _ _ _ _ _ _ inst_interpret inst_props (inst_ast_view crepr)
                (inst_props_view std) (inst_safety crepr std pi) (inst_fresh_view crepr) AErr x_data
                (fresh l) (fresh_ok _ _ _ _ _ l) qs q) as (E1 & E2 & _).
    exact (eq_trans E1 E2). }
  assert (b = inst_spec_answer crepr std pi_id q l) as Eb.
  { unfold b, inst_run_query, inst_spec_answer.
    destruct (queries_idempotent _ _ _ _ _ _ _ _ inst_interpret inst_props (inst_ast_view crepr)
                (inst_props_view std) (inst_safety crepr std pi_id) (inst_fresh_view crepr) AErr x_data
                (fresh l) (fresh_ok _ _ _ _ _ l) [] q) as (_ & E2 & _).
    exact E2. }
  pose proof (inst_spec_equiv crepr std pi HP q l) as EQ. rewrite <- Ea, <- Eb in EQ.
  split; [exact EQ|]. split; [|split; [|split]].
  - intros v ->. rewrite Ea, Eb. reflexivity.
  - intros v ->. rewrite Ea, Eb. reflexivity.
  - intros v ->. rewrite Ea, Eb. reflexivity.
  - intros f1 f2 H1 H2. rewrite H1, H2 in EQ. cbn [ans_equiv] in EQ.
    split; [apply verdict_perm; exact EQ|].
    intros f. split; [apply Permutation_in; exact EQ|apply Permutation_in, Permutation_sym; exact EQ].
Qed.
