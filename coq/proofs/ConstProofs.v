From Coq Require Import List String ZArith.
From Verif Require Import Base Const.
Lemma stub : True. Proof. exact I. Qed.
