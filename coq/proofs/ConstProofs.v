(* Lemmas about the Const model (C15). *)
From Coq Require Import List String Ascii ZArith NArith Bool Arith Lia Decimal DecimalString DecimalZ DecimalPos.
From Coq.Strings Require Import Byte.
From Verif Require Import Base OpTable ConstTable Codec Const.
Import ListNotations.
Local Open Scope Z_scope.
Local Open Scope list_scope.

(* ---------- bytes ---------- *)
Lemma to_N_byte_of_N n : (n < 256)%N -> Byte.to_N (byte_of_N n) = n.
Proof.
  intros H. unfold byte_of_N. destruct (Byte.of_N n) eqn:E.
  - apply Byte.to_of_N; assumption.
  - apply Byte.of_N_None_iff in E. lia.
Qed.

Lemma byte_of_N_to_N b : byte_of_N (Byte.to_N b) = b.
Proof. unfold byte_of_N. rewrite Byte.of_to_N. reflexivity. Qed.

Lemma le_bytes_length w n : List.length (le_bytes w n) = w.
Proof. revert n; induction w; intros; simpl; auto. Qed.

Lemma le_N_le_bytes w n : le_N (le_bytes w n) = (n mod 256 ^ N.of_nat w)%N.
Proof.
  revert n; induction w; intros n.
  - simpl. rewrite N.mod_1_r. reflexivity.
  - cbn [le_bytes le_N]. rewrite IHw. rewrite to_N_byte_of_N by (apply N.mod_lt; lia).
    rewrite Nat2N.inj_succ, N.pow_succ_r by lia.
    rewrite N.mod_mul_r by (try apply N.pow_nonzero; lia). lia.
Qed.

Lemma le_N_le_bytes_small w n : (n < 256 ^ N.of_nat w)%N -> le_N (le_bytes w n) = n.
Proof. intros. rewrite le_N_le_bytes. apply N.mod_small; assumption. Qed.

Lemma firstn_app_exact {A} (a b : list A) n : List.length a = n -> firstn n (a ++ b) = a.
Proof. intros <-. rewrite firstn_app, Nat.sub_diag, firstn_all. simpl. apply app_nil_r. Qed.

Lemma skipn_app_exact {A} (a b : list A) n : List.length a = n -> skipn n (a ++ b) = b.
Proof. intros <-. rewrite skipn_app, Nat.sub_diag, skipn_all. reflexivity. Qed.

Lemma bytes_eqb_eq a b : bytes_eqb a b = true <-> a = b.
Proof.
  revert b; induction a; destruct b; simpl; split; intros H; try discriminate; auto.
  - apply andb_true_iff in H as [H1 H2]. apply Byte.byte_dec_bl in H1. apply IHa in H2. congruence.
  - inversion H; subst. apply andb_true_iff; split; [apply Byte.byte_dec_lb; reflexivity | apply IHa; reflexivity].
Qed.

Lemma bytes_eqb_refl a : bytes_eqb a a = true.
Proof. apply bytes_eqb_eq; reflexivity. Qed.

(* ---------- decimal text ---------- *)
Lemma z_of_to_string z : z_of_string (z_to_string z) = Some z.
Proof.
  unfold z_of_string, z_to_string. rewrite NilZero.isi.
  - rewrite DecimalZ.of_to. reflexivity.
  - destruct z; simpl; try discriminate. intros [= H]. exact (Unsigned.to_uint_nonnil _ H).
  - destruct z; simpl; try discriminate. intros [= H]. exact (Unsigned.to_uint_nonnil _ H).
Qed.

Lemma dec_roundtrip z : parse_dec (dec_bytes z) = Some z.
Proof.
  unfold parse_dec, dec_bytes, bytes_of_str.
  rewrite string_of_list_byte_of_string, z_of_to_string.
  destruct (list_byte_of_string (z_to_string z)) eqn:E; auto.
  assert (H : string_of_list_byte (list_byte_of_string (z_to_string z)) = ""%string) by (rewrite E; reflexivity).
  rewrite string_of_list_byte_of_string in H.
  pose proof (z_of_to_string z) as H2. rewrite H in H2. discriminate.
Qed.

Lemma dec_bytes_inj_str z s : dec_bytes z = bytes_of_str s -> z_to_string z = s.
Proof.
  unfold dec_bytes, bytes_of_str. intros H.
  rewrite <- (string_of_list_byte_of_string (z_to_string z)), H. apply string_of_list_byte_of_string.
Qed.

Lemma dec_not_00 z : bytes_eqb (dec_bytes z) [x30; x30] = false.
Proof.
  destruct (bytes_eqb (dec_bytes z) [x30; x30]) eqn:E; auto.
  apply bytes_eqb_eq in E. apply (dec_bytes_inj_str z "00") in E.
  pose proof (z_of_to_string z) as H. rewrite E in H. vm_compute in H. inversion H; subst. discriminate.
Qed.

Lemma dec_not_01 z : bytes_eqb (dec_bytes z) [x30; x31] = false.
Proof.
  destruct (bytes_eqb (dec_bytes z) [x30; x31]) eqn:E; auto.
  apply bytes_eqb_eq in E. apply (dec_bytes_inj_str z "01") in E.
  pose proof (z_of_to_string z) as H. rewrite E in H. vm_compute in H. inversion H; subst. discriminate.
Qed.

(* no character of a decimal numeral is a newline *)
Definition not_nl (b : byte) : Prop := b <> nl.

Lemma uint_chars d : Forall (fun a => a <> "010"%char) (list_ascii_of_string (NilEmpty.string_of_uint d)).
Proof. induction d; simpl; constructor; auto; discriminate. Qed.

Lemma int_chars d : Forall (fun a => a <> "010"%char) (list_ascii_of_string (NilZero.string_of_int d)).
Proof.
  assert (U : forall u, Forall (fun a => a <> "010"%char) (list_ascii_of_string (NilZero.string_of_uint u))).
  { intros u. destruct u; try apply uint_chars. simpl. constructor; [discriminate | constructor]. }
  destruct d; simpl; [apply U | constructor; [discriminate | apply U]].
Qed.

Lemma list_byte_of_string_map s : list_byte_of_string s = map byte_of_ascii (list_ascii_of_string s).
Proof. induction s; simpl; f_equal; auto. Qed.

Lemma dec_no_nl z : Forall not_nl (dec_bytes z).
Proof.
  unfold dec_bytes, bytes_of_str, z_to_string. rewrite list_byte_of_string_map.
  apply Forall_map. eapply Forall_impl; [| apply int_chars].
  intros a H E. apply H. unfold nl in E.
  rewrite <- (ascii_of_byte_of_ascii a), E. reflexivity.
Qed.

Lemma split_line_app l rest : Forall not_nl l -> split_line (l ++ nl :: rest) = Some (l, rest).
Proof.
  induction 1; simpl.
  - reflexivity.
  - destruct (Byte.eqb x nl) eqn:E.
    + apply Byte.byte_dec_bl in E. contradiction.
    + rewrite IHForall. reflexivity.
Qed.

(* ---------- struct.pack ---------- *)
Lemma pack_unsigned_read w z bs :
  (w = 1 \/ w = 2 \/ w = 4 \/ w = 8) ->
  pack_int w false z = COk bs ->
  List.length bs = Z.to_nat w /\ Z.of_N (le_N bs) = z.
Proof.
  intros Hw H. unfold pack_int in H.
  destruct ((0 <=? z) && (z <? 2 ^ (8 * w))) eqn:E; [| discriminate]. inversion H; subst; clear H.
  apply andb_true_iff in E as [E1 E2]. apply Z.leb_le in E1. apply Z.ltb_lt in E2.
  split; [apply le_bytes_length |].
  rewrite le_N_le_bytes_small; [lia |].
  destruct Hw as [->|[->|[->| ->]]]; cbn in *; lia.
Qed.

(* ---------- readers ---------- *)
Lemma read_fixed_app n bs rest : List.length bs = n -> read_fixed n (bs ++ rest) = COk (bs, rest).
Proof.
  intros H. unfold read_fixed. rewrite (firstn_app_exact bs rest n H), (skipn_app_exact bs rest n H).
  rewrite H, Nat.eqb_refl. reflexivity.
Qed.

Lemma read_line_app l rest : Forall not_nl l -> read_line (l ++ nl :: rest) = COk (l, rest).
Proof. intros H. unfold read_line. rewrite split_line_app by assumption. reflexivity. Qed.

Lemma read_counted_app w sg pre body rest :
  List.length pre = w ->
  le_N pre = N.of_nat (List.length body) ->
  (sg = true -> (N.of_nat (List.length body) < 2 ^ (8 * N.of_nat w - 1))%N) ->
  (N.of_nat (List.length body) <= maxsize)%N ->
  read_counted w sg (pre ++ body ++ rest) = COk (body, rest).
Proof.
  intros Hw Hn Hs Hm. unfold read_counted.
  rewrite (firstn_app_exact pre _ w Hw), (skipn_app_exact pre _ w Hw), Hw, Nat.eqb_refl. cbn [negb].
  rewrite Hn.
  replace (sg && (2 ^ (8 * N.of_nat w - 1) <=? N.of_nat (List.length body))%N) with false.
  2:{ destruct sg; auto. cbn [andb]. symmetry. apply N.leb_gt. auto. }
  replace (maxsize <? N.of_nat (List.length body))%N with false by (symmetry; apply N.ltb_ge; assumption).
  rewrite app_length.
  replace (N.of_nat (List.length body + List.length rest) <? N.of_nat (List.length body))%N with false
    by (symmetry; apply N.ltb_ge; lia).
  rewrite Nat2N.id.
  rewrite (firstn_app_exact body rest _ eq_refl), (skipn_app_exact body rest _ eq_refl). reflexivity.
Qed.

Lemma genops1_unfold c args row :
  lookup c = Some row ->
  genops1 (c :: args) = doc p <- read_arg (row_reader row) args; COk ((row_name row, fst p), snd p).
Proof. intros H. unfold genops1. rewrite H. reflexivity. Qed.

Ltac tok :=
  erewrite genops1_unfold by (vm_compute; reflexivity);
  cbn -[read_fixed read_line read_counted le_N decode_long be_N raw_unescape parse_dec dec_bytes].

Lemma tok_uint1 bs rest : List.length bs = 1%nat ->
  genops1 (x4b :: bs ++ rest) = COk (("BININT1"%string, GInt (Z.of_N (le_N bs))), rest).
Proof. intros H. tok. rewrite read_fixed_app by assumption. reflexivity. Qed.

Lemma tok_uint2 bs rest : List.length bs = 2%nat ->
  genops1 (x4d :: bs ++ rest) = COk (("BININT2"%string, GInt (Z.of_N (le_N bs))), rest).
Proof. intros H. tok. rewrite read_fixed_app by assumption. reflexivity. Qed.

Lemma tok_int z rest :
  genops1 (x49 :: (dec_bytes z ++ [nl]) ++ rest) = COk (("INT"%string, GInt z), rest).
Proof.
  tok. rewrite <- app_assoc. change ([nl] ++ rest) with (nl :: rest). rewrite read_line_app by apply dec_no_nl.
  cbn [cbind fst snd]. rewrite dec_not_00, dec_not_01. unfold read_int_text. rewrite dec_roundtrip.
  reflexivity.
Qed.

Lemma tok_float8 bs rest : List.length bs = 8%nat ->
  genops1 (x47 :: bs ++ rest) = COk (("BINFLOAT"%string, GFloat (be_N bs)), rest).
Proof. intros H. tok. rewrite read_fixed_app by assumption. reflexivity. Qed.

Lemma tok_counted code name rd w sg mk pre body rest row :
  lookup code = Some row -> row_name row = name -> row_reader row = rd ->
  (forall bs, read_arg rd bs = doc p <- read_counted w sg bs; COk (mk (fst p), snd p)) ->
  List.length pre = w ->
  le_N pre = N.of_nat (List.length body) ->
  (sg = true -> (N.of_nat (List.length body) < 2 ^ (8 * N.of_nat w - 1))%N) ->
  (N.of_nat (List.length body) <= maxsize)%N ->
  genops1 (code :: pre ++ body ++ rest) = COk ((name, mk body), rest).
Proof.
  intros Hl Hn Hr Hrd Hw Hle Hs Hm.
  rewrite (genops1_unfold _ _ _ Hl), Hr, Hrd, Hn.
  rewrite read_counted_app by assumption. reflexivity.
Qed.

(* ---------- ConstantOpcode.new, evaluated over the regenerated table ---------- *)
Definition const_rows : list (option cclass) := Eval vm_compute in map find_class const_order.

Fixpoint search_rows (rows : list (option cclass)) (v : pv) : cres (cclass * pv) :=
  match rows with
  | [] => CErr XValue
  | None :: _ => CErr XUnmodelled
  | Some c :: r => match validate c v with
                   | COk a => COk (c, a)
                   | CErr XValue => search_rows r v
                   | CErr e => CErr e
                   end
  end.

Lemma new_search_rows : forall order v, new_search order v = search_rows (map find_class order) v.
Proof. induction order; intros; simpl; auto. destruct (find_class a); auto. rewrite IHorder. reflexivity. Qed.

Lemma const_new_rows v : const_new v = search_rows const_rows v.
Proof. unfold const_new. rewrite new_search_rows. reflexivity. Qed.

(* what it means for one constant to arrive: the bytes of its opcode, run by the stock
   unpickler in front of any continuation, push exactly that value *)
Definition arrives (v : pv) (bs : list byte) : Prop :=
  forall rest st, vm_step (bs ++ rest) st = COk (rest, SVal v :: st).

Definition const_ok (v : pv) : Prop :=
  match const_new v with
  | CErr _ => True
  | COk (c, a) => match encode c a with
                  | CErr _ => True
                  | COk bs => arrives v bs
                  end
  end.

Ltac step_with L :=
  intros rest st; unfold vm_step; rewrite <- ?app_comm_cons; rewrite L; [cbn [cbind in_names mem_str String.eqb Ascii.eqb Bool.eqb] |..].

Ltac andb_split H := apply andb_true_iff in H; destruct H as [?H ?H].

Lemma const_ok_int z : const_ok (PInt z).
Proof.
  unfold const_ok. rewrite const_new_rows. unfold const_rows. cbn.
  unfold in_range; cbn [c_min c_max].
  destruct ((0 <=? z) && (z <=? 255)) eqn:E1.
  { cbn. destruct ((0 <=? z) && (z <? 256)) eqn:E2; cbn; [| exact I].
    step_with tok_uint1; [| apply le_bytes_length].
    andb_split E1. rewrite le_N_le_bytes_small by (cbn; lia). rewrite Z2N.id by lia. reflexivity. }
  destruct ((0 <=? z) && (z <=? 65535)) eqn:E2.
  { cbn. destruct ((0 <=? z) && (z <? 65536)) eqn:E3; cbn; [| exact I].
    step_with tok_uint2; [| apply le_bytes_length].
    andb_split E2. rewrite le_N_le_bytes_small by (cbn; lia). rewrite Z2N.id by lia. reflexivity. }
  destruct ((2147483648 <=? z) && (z <=? 2147483647)) eqn:E3; [andb_split E3; lia |].
  destruct ((128 <=? z) && (z <=? 127)) eqn:E4; [andb_split E4; lia |].
  cbn.
  intros rest st. unfold vm_step. rewrite <- app_comm_cons. rewrite tok_int. reflexivity.
Qed.

Lemma const_ok_bool b : const_ok (PBool b).
Proof. unfold const_ok. rewrite const_new_rows. unfold const_rows. cbn. exact I. Qed.

Lemma be_N_rev_le w n : (n < 256 ^ N.of_nat w)%N -> be_N (List.rev (le_bytes w n)) = n.
Proof. intros. unfold be_N. rewrite rev_involutive. apply le_N_le_bytes_small; assumption. Qed.

(* holds on both trees: without BinFloat.encode_body the float is refused at encode() *)
Lemma const_ok_float bits : (bits < 2 ^ 64)%N -> const_ok (PFloat bits).
Proof.
  intros H. unfold const_ok. rewrite const_new_rows. unfold const_rows. cbn -[le_bytes].
  first [ exact I
        | step_with tok_float8; [| rewrite rev_length; apply le_bytes_length];
          rewrite be_N_rev_le by (cbn; lia); reflexivity ].
Qed.

Lemma blen_N s : Z.to_N (blen s) = N.of_nat (List.length s).
Proof. unfold blen. rewrite <- nat_N_Z, N2Z.id. reflexivity. Qed.

Lemma blen_nonneg s : 0 <= blen s.
Proof. unfold blen. lia. Qed.

Ltac counted W SG MK :=
  intros; eapply tok_counted with (w := W) (sg := SG) (mk := MK);
  [ vm_compute; reflexivity | reflexivity | reflexivity | intros; reflexivity
  | assumption | assumption | try discriminate; auto | assumption ].

Lemma tok_u1 pre body rest : List.length pre = 1%nat -> le_N pre = N.of_nat (List.length body) ->
  (N.of_nat (List.length body) <= maxsize)%N ->
  genops1 (x8c :: pre ++ body ++ rest) = COk (("SHORT_BINUNICODE"%string, GText body), rest).
Proof. counted 1%nat false GText. Qed.
Lemma tok_u4 pre body rest : List.length pre = 4%nat -> le_N pre = N.of_nat (List.length body) ->
  (N.of_nat (List.length body) <= maxsize)%N ->
  genops1 (x58 :: pre ++ body ++ rest) = COk (("BINUNICODE"%string, GText body), rest).
Proof. counted 4%nat false GText. Qed.
Lemma tok_u8 pre body rest : List.length pre = 8%nat -> le_N pre = N.of_nat (List.length body) ->
  (N.of_nat (List.length body) <= maxsize)%N ->
  genops1 (x8d :: pre ++ body ++ rest) = COk (("BINUNICODE8"%string, GText body), rest).
Proof. counted 8%nat false GText. Qed.
Lemma tok_b1 pre body rest : List.length pre = 1%nat -> le_N pre = N.of_nat (List.length body) ->
  (N.of_nat (List.length body) <= maxsize)%N ->
  genops1 (x43 :: pre ++ body ++ rest) = COk (("SHORT_BINBYTES"%string, GBytes body), rest).
Proof. counted 1%nat false GBytes. Qed.
Lemma tok_b4 pre body rest : List.length pre = 4%nat -> le_N pre = N.of_nat (List.length body) ->
  (N.of_nat (List.length body) <= maxsize)%N ->
  genops1 (x42 :: pre ++ body ++ rest) = COk (("BINBYTES"%string, GBytes body), rest).
Proof. counted 4%nat false GBytes. Qed.
Lemma tok_b8 pre body rest : List.length pre = 8%nat -> le_N pre = N.of_nat (List.length body) ->
  (N.of_nat (List.length body) <= maxsize)%N ->
  genops1 (x8e :: pre ++ body ++ rest) = COk (("BINBYTES8"%string, GBytes body), rest).
Proof. counted 8%nat false GBytes. Qed.

Definition ssize_max : Z := 9223372036854775807.

Ltac dyn_case TOK :=
  cbn -[le_bytes]; unfold in_range; cbn [c_min c_max];
  match goal with E : ?b = true |- context[negb ?b] => rewrite E end; cbn [negb];
  match goal with |- context[if ?b then COk (le_bytes _ _) else _] => destruct b eqn:?E end;
  cbn -[le_bytes]; [| exact I];
  repeat match goal with H : _ && _ = true |- _ => apply andb_true_iff in H; destruct H end;
  intros rest st; unfold vm_step; rewrite <- app_comm_cons, <- app_assoc;
  rewrite TOK;
  [ reflexivity
  | apply le_bytes_length
  | rewrite le_N_le_bytes_small, blen_N; [reflexivity | rewrite blen_N; unfold blen in *; cbn; lia]
  | unfold maxsize, blen in *; lia ].

Lemma const_ok_str s : blen s <= ssize_max -> const_ok (PStr s).
Proof.
  intros Hs. pose proof (blen_nonneg s) as H0. unfold ssize_max in Hs.
  unfold const_ok. rewrite const_new_rows. unfold const_rows. cbn.
  unfold in_range; cbn [c_min c_max].
  destruct ((0 <=? blen s) && (blen s <=? 255)) eqn:E1.
  { dyn_case tok_u1. }
  destruct ((0 <=? blen s) && (blen s <=? 4294967295)) eqn:E2.
  { dyn_case tok_u4. }
  destruct ((0 <=? blen s) && (blen s <=? 18446744073709551615)) eqn:E3.
  { dyn_case tok_u8. }
  exfalso. apply andb_false_iff in E3 as [E3|E3]; [apply Z.leb_gt in E3 | apply Z.leb_gt in E3]; lia.
Qed.

Lemma const_ok_bytes s : blen s <= ssize_max -> const_ok (PBytes s).
Proof.
  intros Hs. pose proof (blen_nonneg s) as H0. unfold ssize_max in Hs.
  unfold const_ok. rewrite const_new_rows. unfold const_rows. cbn.
  unfold in_range; cbn [c_min c_max].
  destruct ((0 <=? blen s) && (blen s <=? 255)) eqn:E1.
  { dyn_case tok_b1. }
  destruct ((0 <=? blen s) && (blen s <=? 4294967295)) eqn:E2.
  { dyn_case tok_b4. }
  destruct ((0 <=? blen s) && (blen s <=? 18446744073709551615)) eqn:E3.
  { dyn_case tok_b8. }
  exfalso. apply andb_false_iff in E3 as [E3|E3]; [apply Z.leb_gt in E3 | apply Z.leb_gt in E3]; lia.
Qed.

(* ---------- values a Python process can hold ---------- *)
Fixpoint pv_wf (v : pv) : Prop :=
  match v with
  | PFloat bits => (bits < 2 ^ 64)%N
  | PStr s => blen s <= ssize_max
  | PBytes s => blen s <= ssize_max
  | PList l => (fix go (l : list pv) : Prop :=
                  match l with [] => True | x :: r => pv_wf x /\ go r end) l
  | PDict kvs => (fix go (l : list (pv * pv)) : Prop :=
                    match l with [] => True | (k, x) :: r => pv_wf k /\ pv_wf x /\ go r end) kvs
  | _ => True
  end.

Lemma pv_wf_list l : pv_wf (PList l) <-> Forall pv_wf l.
Proof.
  induction l; simpl; split; intros H; auto.
  - destruct H as [H1 H2]. constructor; auto. apply IHl. exact H2.
  - inversion H; subst. split; auto. apply IHl. assumption.
Qed.

Lemma pv_wf_dict kvs : pv_wf (PDict kvs) <-> Forall (fun kv => pv_wf (fst kv) /\ pv_wf (snd kv)) kvs.
Proof.
  induction kvs as [|[k x] r IH]; simpl; split; intros H; auto.
  - destruct H as [H1 [H2 H3]]. constructor; auto. apply IH. exact H3.
  - inversion H; subst. simpl in *. destruct H2. repeat split; auto. apply IH. assumption.
Qed.

Section pv_induction.
  Variable P : pv -> Prop.
  Hypothesis Hint : forall z, P (PInt z).
  Hypothesis Hbool : forall b, P (PBool b).
  Hypothesis Hfloat : forall x, P (PFloat x).
  Hypothesis Hstr : forall s, P (PStr s).
  Hypothesis Hbytes : forall s, P (PBytes s).
  Hypothesis Hother : P POther.
  Hypothesis Hlist : forall l, Forall P l -> P (PList l).
  Hypothesis Hdict : forall kvs, Forall (fun kv => P (fst kv) /\ P (snd kv)) kvs -> P (PDict kvs).

  Fixpoint pv_ind2 (v : pv) : P v :=
    match v with
    | PInt z => Hint z
    | PBool b => Hbool b
    | PFloat x => Hfloat x
    | PStr s => Hstr s
    | PBytes s => Hbytes s
    | POther => Hother
    | PList l =>
        Hlist l ((fix go (l : list pv) : Forall P l :=
                    match l with
                    | [] => Forall_nil P
                    | x :: r => Forall_cons x (pv_ind2 x) (go r)
                    end) l)
    | PDict kvs =>
        Hdict kvs ((fix go (l : list (pv * pv)) : Forall (fun kv => P (fst kv) /\ P (snd kv)) l :=
                      match l with
                      | [] => Forall_nil _
                      | kv :: r => Forall_cons kv (conj (pv_ind2 (fst kv)) (pv_ind2 (snd kv))) (go r)
                      end) kvs)
    end.
End pv_induction.

(* ---------- running several opcodes ---------- *)
Fixpoint steps (n : nat) (bs : list byte) (st : list sitem) : cres (list byte * list sitem) :=
  match n with
  | O => COk (bs, st)
  | S k => match vm_step bs st with
           | COk (r, s) => steps k r s
           | CErr e => CErr e
           end
  end.

Lemma steps_app n m bs st r s :
  steps n bs st = COk (r, s) -> steps (n + m) bs st = steps m r s.
Proof.
  revert bs st; induction n; intros bs st H; simpl in *.
  - inversion H; subst. reflexivity.
  - destruct (vm_step bs st) as [[r1 s1]|]; [| discriminate]. apply IHn. assumption.
Qed.

Lemma vm_step_not_stop r st : exists e, vm_step (stop_byte :: r) st = CErr e.
Proof. eexists. unfold vm_step. erewrite genops1_unfold by (vm_compute; reflexivity). cbn. reflexivity. Qed.

Lemma run_steps n f bs st r s :
  steps n bs st = COk (r, s) -> vm_run (n + f) bs st = vm_run f r s.
Proof.
  revert bs st; induction n; intros bs st H; simpl in *.
  - inversion H; subst. reflexivity.
  - destruct (vm_step bs st) as [[r1 s1]|] eqn:E; [| discriminate].
    destruct bs as [|b bs'].
    + unfold vm_step, genops1 in E. cbn in E. discriminate.
    + destruct (Byte.eqb b stop_byte) eqn:Eb.
      * apply Byte.byte_dec_bl in Eb. subst b. destruct (vm_step_not_stop bs' st) as [e He]. congruence.
      * apply IHn. assumption.
Qed.

Definition built_ok (v : pv) : Prop :=
  forall bs, build v = COk bs ->
  exists n, (n <= List.length bs)%nat /\
            forall rest st, steps n (bs ++ rest) st = COk (rest, SVal v :: st).

Lemma enc_obj_const v : is_const v = true -> enc_obj v = new_cop v.
Proof. destruct v; simpl; intros; try discriminate; reflexivity. Qed.

Lemma built_ok_const v : is_const v = true -> const_ok v -> built_ok v.
Proof.
  intros Hc Hk bs Hb. unfold build in Hb. rewrite enc_obj_const in Hb by assumption.
  unfold new_cop, const_ok in *. destruct (const_new v) as [[c a]|]; cbn in Hb; [| discriminate].
  destruct (encode c a) as [e|]; cbn in Hb; [| discriminate]. inversion Hb; subst; clear Hb.
  rewrite app_nil_r. exists 1%nat. split.
  - destruct e; simpl; [| lia]. specialize (Hk [] []). unfold vm_step, genops1 in Hk. cbn in Hk. discriminate.
  - intros rest st. simpl. rewrite Hk. reflexivity.
Qed.

(* ---------- containers ---------- *)
Definition item_ops (x : pv) : cres (list cop) := if is_const x then new_cop x else enc_obj x.

Lemma item_ops_eq x : item_ops x = enc_obj x.
Proof. unfold item_ops. destruct (is_const x) eqn:E; auto. symmetry. apply enc_obj_const. assumption. Qed.

Fixpoint enc_items (l : list pv) : cres (list cop) :=
  match l with
  | [] => COk []
  | x :: r => doc a <- item_ops x; doc b <- enc_items r; COk (a ++ b)
  end.

Fixpoint enc_pairs (l : list (pv * pv)) : cres (list cop) :=
  match l with
  | [] => COk []
  | (k, x) :: r => doc ko <- new_cop k; doc a <- item_ops x; doc b <- enc_pairs r; COk (ko ++ a ++ b)
  end.

Lemma enc_obj_list l :
  enc_obj (PList l) = doc items <- enc_items l; COk (OPlain "Mark" :: items ++ [OPlain "List"]).
Proof.
  reflexivity.
Qed.

Lemma enc_obj_dict kv r :
  enc_obj (PDict (kv :: r)) =
  doc items <- enc_pairs (kv :: r); COk (OPlain "Mark" :: items ++ [OPlain "Dict"]).
Proof.
  reflexivity.
Qed.

Lemma dumps_cops_app a b :
  dumps_cops (a ++ b) = doc x <- dumps_cops a; doc y <- dumps_cops b; COk (x ++ y).
Proof.
  induction a; simpl.
  - destruct (dumps_cops b); reflexivity.
  - destruct (encode_cop a); cbn; auto. rewrite IHa.
    destruct (dumps_cops a0); cbn; auto. destruct (dumps_cops b); cbn; auto.
    rewrite app_assoc. reflexivity.
Qed.

Lemma cbind_ok {A B} (r : cres A) (f : A -> cres B) b :
  cbind r f = COk b -> exists a, r = COk a /\ f a = COk b.
Proof. destruct r; simpl; intros; [eauto | discriminate]. Qed.

Definition seq_ok (vals : list pv) (bs : list byte) : Prop :=
  exists n, (n <= List.length bs)%nat /\
            forall rest st, steps n (bs ++ rest) st = COk (rest, List.rev (map SVal vals) ++ st).

Lemma seq_ok_nil : seq_ok [] [].
Proof. exists 0%nat. split; auto. Qed.

Lemma seq_ok_cons v vals b1 b2 :
  (exists n, (n <= List.length b1)%nat /\
             forall rest st, steps n (b1 ++ rest) st = COk (rest, SVal v :: st)) ->
  seq_ok vals b2 -> seq_ok (v :: vals) (b1 ++ b2).
Proof.
  intros [n1 [L1 H1]] [n2 [L2 H2]]. exists (n1 + n2)%nat. split.
  - rewrite app_length. lia.
  - intros rest st. rewrite <- app_assoc. rewrite (steps_app n1 n2 _ _ _ _ (H1 _ _)).
    rewrite H2. simpl. rewrite <- app_assoc. reflexivity.
Qed.

Lemma built_ok_unfold v bs ops :
  built_ok v -> enc_obj v = COk ops -> dumps_cops ops = COk bs ->
  exists n, (n <= List.length bs)%nat /\
            forall rest st, steps n (bs ++ rest) st = COk (rest, SVal v :: st).
Proof. intros H E D. apply H. unfold build. rewrite E. exact D. Qed.

Lemma items_ok l : Forall built_ok l ->
  forall ops bs, enc_items l = COk ops -> dumps_cops ops = COk bs -> seq_ok l bs.
Proof.
  induction 1 as [|x r Hx Hr IH]; intros ops bs E D.
  - simpl in E. inversion E; subst. simpl in D. inversion D; subst. apply seq_ok_nil.
  - simpl in E. apply cbind_ok in E as [a [Ea E]]. apply cbind_ok in E as [b [Eb E]].
    inversion E; subst; clear E. rewrite dumps_cops_app in D.
    apply cbind_ok in D as [ba [Da D]]. apply cbind_ok in D as [bb [Db D]]. inversion D; subst; clear D.
    rewrite item_ops_eq in Ea.
    apply seq_ok_cons; [eapply built_ok_unfold; eauto | eapply IH; eauto].
Qed.

Definition flat (kvs : list (pv * pv)) : list pv := flat_map (fun kv => [fst kv; snd kv]) kvs.

Lemma const_new_nonconst v : is_const v = false -> exists e, const_new v = CErr e.
Proof.
  intros H. rewrite const_new_rows. unfold const_rows.
  destruct v; try discriminate; cbn; eauto.
Qed.

Lemma pairs_ok l : Forall (fun kv => built_ok (fst kv) /\ built_ok (snd kv)) l ->
  forall ops bs, enc_pairs l = COk ops -> dumps_cops ops = COk bs -> seq_ok (flat l) bs.
Proof.
  induction 1 as [|[k x] r [Hk Hx] Hr IH]; intros ops bs E D.
  - simpl in E. inversion E; subst. simpl in D. inversion D; subst. apply seq_ok_nil.
  - simpl in E. apply cbind_ok in E as [ko [Ek E]]. apply cbind_ok in E as [a [Ea E]].
    apply cbind_ok in E as [b [Eb E]]. inversion E; subst; clear E.
    rewrite !dumps_cops_app in D.
    apply cbind_ok in D as [bk [Dk D]]. apply cbind_ok in D as [bab [Dab D]]. inversion D; subst; clear D.
    apply cbind_ok in Dab as [ba [Da D]]. apply cbind_ok in D as [bb [Db D]]. inversion D; subst; clear D.
    rewrite item_ops_eq in Ea. simpl in Hk, Hx.
    assert (Ek' : enc_obj k = COk ko).
    { destruct (is_const k) eqn:C.
      - rewrite enc_obj_const; assumption.
      - destruct (const_new_nonconst k C) as [e He]. unfold new_cop in Ek. rewrite He in Ek. discriminate. }
    change (flat ((k, x) :: r)) with (k :: x :: flat r).
    apply seq_ok_cons; [eapply built_ok_unfold; eauto |].
    apply seq_ok_cons; [eapply built_ok_unfold; eauto | eapply IH; eauto].
Qed.

Lemma pop_mark_vals l st acc :
  pop_mark (List.rev (map SVal l) ++ SMark :: st) acc = COk (l ++ acc, st).
Proof.
  revert acc. induction l using rev_ind; intros acc; simpl.
  - reflexivity.
  - rewrite map_app, rev_app_distr. simpl. rewrite IHl. rewrite <- app_assoc. reflexivity.
Qed.

Lemma pair_up_flat kvs : pair_up (flat kvs) = COk kvs.
Proof.
  induction kvs as [|[k x] r IH]; auto.
  change (flat ((k, x) :: r)) with (k :: x :: flat r). cbn [pair_up]. rewrite IH. reflexivity.
Qed.

Lemma plain_mark : encode_cop (OPlain "Mark") = COk [x28]. Proof. vm_compute. reflexivity. Qed.
Lemma plain_list : encode_cop (OPlain "List") = COk [x6c]. Proof. vm_compute. reflexivity. Qed.
Lemma plain_dict : encode_cop (OPlain "Dict") = COk [x64]. Proof. vm_compute. reflexivity. Qed.
Lemma plain_emptydict : encode_cop (OPlain "EmptyDict") = COk [x7d]. Proof. vm_compute. reflexivity. Qed.

Ltac plain_step := intros; unfold vm_step; erewrite genops1_unfold by (vm_compute; reflexivity); cbn; reflexivity.

Lemma step_mark rest st : vm_step (x28 :: rest) st = COk (rest, SMark :: st).
Proof. plain_step. Qed.
Lemma step_list rest st :
  vm_step (x6c :: rest) st = doc p <- pop_mark st []; COk (rest, SVal (PList (fst p)) :: snd p).
Proof. plain_step. Qed.
Lemma step_dict rest st :
  vm_step (x64 :: rest) st =
  doc p <- pop_mark st []; doc kv <- pair_up (fst p); COk (rest, SVal (PDict kv) :: snd p).
Proof. plain_step. Qed.
Lemma step_emptydict rest st : vm_step (x7d :: rest) st = COk (rest, SVal (PDict []) :: st).
Proof. plain_step. Qed.

(* MARK items... LIST / DICT *)
Lemma wrap_ok vals items bs closer cb v :
  seq_ok vals bs ->
  encode_cop (OPlain closer) = COk [cb] ->
  (forall rest st, vm_step (cb :: rest) (List.rev (map SVal vals) ++ SMark :: st)
                   = COk (rest, SVal v :: st)) ->
  forall out, dumps_cops (OPlain "Mark" :: items ++ [OPlain closer]) = COk out ->
  dumps_cops items = COk bs ->
  exists n, (n <= List.length out)%nat /\
            forall rest st, steps n (out ++ rest) st = COk (rest, SVal v :: st).
Proof.
  intros [n [Ln Hn]] Hc Hstep out D Di.
  change (OPlain "Mark" :: items ++ [OPlain closer]) with ([OPlain "Mark"] ++ items ++ [OPlain closer]) in D.
  rewrite !dumps_cops_app in D. cbn [dumps_cops] in D. rewrite plain_mark, Di, Hc in D. cbn in D.
  inversion D; subst; clear D.
  exists (S (n + 1))%nat. split.
  - simpl. rewrite !app_length. simpl. lia.
  - intros rest st. rewrite <- app_comm_cons, <- app_assoc. cbn [steps]. rewrite step_mark.
    rewrite (steps_app n 1 _ _ _ _ (Hn _ _)).
    change ([cb] ++ rest) with (cb :: rest). cbn [steps]. rewrite Hstep. reflexivity.
Qed.

Lemma built_ok_all : forall v, pv_wf v -> built_ok v.
Proof.
  induction v using pv_ind2; intros W.
  - apply built_ok_const; [reflexivity | apply const_ok_int].
  - apply built_ok_const; [reflexivity | apply const_ok_bool].
  - apply built_ok_const; [reflexivity | apply const_ok_float; exact W].
  - apply built_ok_const; [reflexivity | apply const_ok_str; exact W].
  - apply built_ok_const; [reflexivity | apply const_ok_bytes; exact W].
  - intros bs Hb. unfold build in Hb. simpl in Hb. discriminate.
  - (* list *)
    apply pv_wf_list in W.
    assert (HB : Forall built_ok l).
    { rewrite Forall_forall in *. intros x Hx. apply H; auto. }
    intros out Hb. unfold build in Hb. rewrite enc_obj_list in Hb.
    apply cbind_ok in Hb as [ops [Eo D]]. apply cbind_ok in Eo as [items [Ei Eo]].
    inversion Eo; subst; clear Eo.
    assert (Di : exists bs, dumps_cops items = COk bs).
    { change (OPlain "Mark" :: items ++ [OPlain "List"]) with ([OPlain "Mark"] ++ items ++ [OPlain "List"]) in D.
      rewrite !dumps_cops_app in D. destruct (dumps_cops items); eauto. }
    destruct Di as [bs Di].
    eapply wrap_ok with (vals := l); eauto using items_ok, plain_list.
    intros rest st. rewrite step_list, pop_mark_vals. cbn. rewrite app_nil_r. reflexivity.
  - (* dict *)
    apply pv_wf_dict in W.
    assert (HB : Forall (fun kv => built_ok (fst kv) /\ built_ok (snd kv)) kvs).
    { rewrite Forall_forall in *. intros x Hx. specialize (H x Hx). specialize (W x Hx). tauto. }
    intros out Hb. unfold build in Hb. destruct kvs as [|kv r].
    + cbn [enc_obj is_const cbind dumps_cops] in Hb. rewrite plain_emptydict in Hb. cbn in Hb. inversion Hb; subst.
      exists 1%nat. split; [simpl; lia |]. intros rest st. change ([x7d] ++ rest) with (x7d :: rest). cbn [steps]. rewrite step_emptydict. reflexivity.
    + rewrite enc_obj_dict in Hb.
      apply cbind_ok in Hb as [ops [Eo D]]. apply cbind_ok in Eo as [items [Ei Eo]].
      inversion Eo; subst; clear Eo.
      assert (Di : exists bs, dumps_cops items = COk bs).
      { change (OPlain "Mark" :: items ++ [OPlain "Dict"]) with ([OPlain "Mark"] ++ items ++ [OPlain "Dict"]) in D.
        rewrite !dumps_cops_app in D. destruct (dumps_cops items); eauto. }
      destruct Di as [bs Di].
      eapply wrap_ok with (vals := flat (kv :: r)); eauto using pairs_ok, plain_dict.
      intros rest st. rewrite step_dict, pop_mark_vals. cbn [cbind fst snd]. rewrite app_nil_r.
      rewrite pair_up_flat. reflexivity.
Qed.

Theorem arrives_or_refused v :
  pv_wf v ->
  match build v with
  | CErr _ => True
  | COk bs => loads (bs ++ [stop_byte]) = COk v
  end.
Proof.
  intros W. destruct (build v) as [bs|] eqn:E; [| exact I].
  destruct (built_ok_all v W bs E) as [n [Ln Hn]].
  unfold loads. rewrite app_length. simpl List.length.
  replace (S (List.length bs + 1)) with (n + S (List.length bs + 1 - n))%nat by lia.
  rewrite (run_steps _ _ _ _ _ _ (Hn [stop_byte] [])).
  reflexivity.
Qed.

(* ================= second sentence: constructed opcodes ================= *)
Definition reads_back (c : cclass) (arg : pv) (bs : list byte) : Prop :=
  exists g, genops1 bs = COk ((c_op c, g), []) /\ garg_matches arg g = true.

Ltac open_class H := vm_compute in H; inversion H; subst; clear H.

Lemma COk_inj {A} (a b : A) : COk a = COk b -> a = b.
Proof. intros [=]; auto. Qed.

Lemma genops1_nil_rest bs r : genops1 (bs ++ []) = r -> genops1 bs = r.
Proof. rewrite app_nil_r. auto. Qed.

(* --- classes without an argument: any constructor argument is ignored --- *)
Definition plain_noarg (c : cclass) : bool :=
  class_argless c && String.eqb (c_encode c) "Opcode.encode" && String.eqb (c_body c) "Opcode.encode_body".

Definition noarg_reads_back (c : cclass) : bool :=
  match genops1 [class_code c] with
  | COk ((n, GNone), []) => String.eqb n (c_op c)
  | _ => false
  end.

Lemma noarg_encode c arg : plain_noarg c = true -> encode c arg = COk [class_code c].
Proof.
  unfold plain_noarg. intros H. apply andb_true_iff in H as [H H3]. apply andb_true_iff in H as [H1 H2].
  apply String.eqb_eq in H2, H3. unfold encode, encode_body. rewrite H2, H3. cbn. rewrite H1. reflexivity.
Qed.

Lemma noarg_table : forallb (fun c => implb (plain_noarg c) (noarg_reads_back c)) opcode_classes = true.
Proof. vm_compute. reflexivity. Qed.

Lemma noarg_decodes_back c arg :
  In c opcode_classes -> plain_noarg c = true ->
  encode c arg = COk [class_code c] /\ genops1 [class_code c] = COk ((c_op c, GNone), []).
Proof.
  intros Hin Hp. split; [apply noarg_encode; assumption |].
  pose proof noarg_table as T. rewrite forallb_forall in T. specialize (T c Hin). rewrite Hp in T.
  cbn in T. unfold noarg_reads_back in T.
  destruct (genops1 [class_code c]) as [[[n g] r]|]; try discriminate.
  destruct g; try discriminate. destruct r; try discriminate. apply String.eqb_eq in T. subst. reflexivity.
Qed.

(* --- classes that refuse: an argument-carrying opcode without encode_body, and Inst --- *)
Definition no_encoder (c : cclass) : bool :=
  (negb (class_argless c) && String.eqb (c_encode c) "Opcode.encode" && String.eqb (c_body c) "Opcode.encode_body")
  || String.eqb (c_encode c) "Inst.encode".

Lemma no_encoder_refuses c arg : no_encoder c = true -> exists e, encode c arg = CErr e.
Proof.
  unfold no_encoder. intros H. apply orb_true_iff in H as [H|H].
  - apply andb_true_iff in H as [H H3]. apply andb_true_iff in H as [H1 H2].
    apply String.eqb_eq in H2, H3. apply negb_true_iff in H1.
    unfold encode, encode_body. rewrite H2, H3. cbn. rewrite H1. cbn. eauto.
  - apply String.eqb_eq in H. unfold encode. rewrite H. cbn. eauto.
Qed.

(* --- fixed-width integers --- *)
Lemma decode_long_signed w z :
  (0 < w)%nat -> - 2 ^ (8 * Z.of_nat w - 1) <= z < 2 ^ (8 * Z.of_nat w - 1) ->
  decode_long (le_bytes w (Z.to_N (z mod 2 ^ (8 * Z.of_nat w)))) = z.
Proof.
  intros Hw Hz. unfold decode_long. rewrite le_bytes_length.
  assert (P : 2 ^ (8 * Z.of_nat w) = 2 * 2 ^ (8 * Z.of_nat w - 1)).
  { rewrite <- Z.pow_succ_r by lia. f_equal. lia. }
  assert (Pp : 0 < 2 ^ (8 * Z.of_nat w - 1)) by (apply Z.pow_pos_nonneg; lia).
  assert (M : 0 <= z mod 2 ^ (8 * Z.of_nat w) < 2 ^ (8 * Z.of_nat w)) by (apply Z.mod_pos_bound; lia).
  rewrite le_N_le_bytes_small.
  2:{ apply N2Z.inj_lt. rewrite Z2N.id by lia. rewrite N2Z.inj_pow. 
      replace (Z.of_N 256) with (2 ^ 8) by reflexivity. rewrite <- Z.pow_mul_r by lia.
      rewrite nat_N_Z. lia. }
  rewrite Z2N.id by lia.
  destruct (le_bytes w (Z.to_N (z mod 2 ^ (8 * Z.of_nat w)))) eqn:E.
  { pose proof (le_bytes_length w (Z.to_N (z mod 2 ^ (8 * Z.of_nat w)))) as L. rewrite E in L. simpl in L. lia. }
  clear E.
  destruct (Z_lt_ge_dec z 0).
  - replace (z mod 2 ^ (8 * Z.of_nat w)) with (z + 2 ^ (8 * Z.of_nat w)).
    2:{ symmetry. rewrite <- (Z_mod_plus_full z 1). rewrite Z.mul_1_l. apply Z.mod_small. lia. }
    destruct (z + 2 ^ (8 * Z.of_nat w) <? 2 ^ (8 * Z.of_nat w - 1)) eqn:C; [apply Z.ltb_lt in C | ]; lia.
  - rewrite Z.mod_small by lia.
    destruct (z <? 2 ^ (8 * Z.of_nat w - 1)) eqn:C; [| apply Z.ltb_ge in C]; lia.
Qed.

Lemma tok_int4 bs rest : List.length bs = 4%nat ->
  genops1 (x4a :: bs ++ rest) = COk (("BININT"%string, GInt (decode_long bs)), rest).
Proof. intros H. tok. rewrite read_fixed_app by assumption. reflexivity. Qed.

Lemma binint1_back c z bs : find_class "BinInt1" = Some c ->
  encode c (PInt z) = COk bs -> reads_back c (PInt z) bs.
Proof.
  intros H E. open_class H. cbn -[le_bytes] in E.
  destruct ((0 <=? z) && (z <? 256)) eqn:R; cbn -[le_bytes] in E; [| discriminate]. apply COk_inj in E; subst bs.
  andb_split R. exists (GInt z). split; [| cbn; apply Z.eqb_refl].
  apply genops1_nil_rest.
  rewrite <- app_comm_cons, tok_uint1 by apply le_bytes_length.
  rewrite le_N_le_bytes_small by (cbn; lia). rewrite Z2N.id by lia. reflexivity.
Qed.

Lemma binint2_back c z bs : find_class "BinInt2" = Some c ->
  encode c (PInt z) = COk bs -> reads_back c (PInt z) bs.
Proof.
  intros H E. open_class H. cbn -[le_bytes] in E.
  destruct ((0 <=? z) && (z <? 65536)) eqn:R; cbn -[le_bytes] in E; [| discriminate]. apply COk_inj in E; subst bs.
  andb_split R. exists (GInt z). split; [| cbn; apply Z.eqb_refl].
  apply genops1_nil_rest. rewrite <- app_comm_cons, tok_uint2 by apply le_bytes_length.
  rewrite le_N_le_bytes_small by (cbn; lia). rewrite Z2N.id by lia. reflexivity.
Qed.

Lemma binint_back c z bs : find_class "BinInt" = Some c ->
  encode c (PInt z) = COk bs -> reads_back c (PInt z) bs.
Proof.
  intros H E. open_class H. cbn -[Z.pow Z.modulo le_bytes] in E.
  match type of E with context[if ?b then _ else _] => destruct b eqn:R end; cbn -[Z.pow Z.modulo le_bytes] in E; [| discriminate].
  apply COk_inj in E; subst bs. andb_split R.
  exists (GInt z). split; [| cbn; apply Z.eqb_refl].
  apply genops1_nil_rest. rewrite <- app_comm_cons, tok_int4 by apply le_bytes_length.
  f_equal. f_equal. f_equal. f_equal.
  apply (decode_long_signed 4 z); [lia | cbn in *; lia].
Qed.

(* --- decimal text: INT, LONG, PUT, GET --- *)
Lemma tok_line_int code name z rest row :
  lookup code = Some row -> row_name row = name ->
  (row_reader row = "read_decimalnl_short" \/ row_reader row = "read_decimalnl_long")%string ->
  genops1 (code :: (dec_bytes z ++ [nl]) ++ rest) = COk ((name, GInt z), rest).
Proof.
  intros Hl Hn Hr. rewrite (genops1_unfold _ _ _ Hl), Hn.
  rewrite <- app_assoc. change ([nl] ++ rest) with (nl :: rest).
  destruct Hr as [-> | ->]; cbn -[read_line parse_dec dec_bytes];
    rewrite read_line_app by apply dec_no_nl; cbn [cbind fst snd].
  - rewrite dec_not_00, dec_not_01. unfold read_int_text. rewrite dec_roundtrip. reflexivity.
  - assert (L : match List.rev (dec_bytes z) with
                | b :: r => if Byte.eqb b x4c then List.rev r else dec_bytes z
                | [] => dec_bytes z end = dec_bytes z).
    { destruct (List.rev (dec_bytes z)) as [|b r] eqn:E; auto.
      destruct (Byte.eqb b x4c) eqn:Eb; auto. exfalso.
      apply Byte.byte_dec_bl in Eb. subst b.
      assert (Hin : In x4c (dec_bytes z)) by (apply in_rev; rewrite E; left; reflexivity).
      revert Hin. unfold dec_bytes, bytes_of_str, z_to_string. rewrite list_byte_of_string_map, in_map_iff.
      intros [a [Ha Hin]].
      assert (D : Forall (fun a => a <> "L"%char) (list_ascii_of_string (NilZero.string_of_int (Z.to_int z)))).
      { assert (U : forall d, Forall (fun a => a <> "L"%char) (list_ascii_of_string (NilEmpty.string_of_uint d)))
          by (induction d; simpl; constructor; auto; discriminate).
        assert (U0 : forall u, Forall (fun a => a <> "L"%char) (list_ascii_of_string (NilZero.string_of_uint u))).
        { intros u. destruct u; try apply U. simpl. constructor; [discriminate | constructor]. }
        destruct (Z.to_int z); simpl; [apply U0 | constructor; [discriminate | apply U0]]. }
      rewrite Forall_forall in D. apply (D a Hin).
      rewrite <- (ascii_of_byte_of_ascii a), Ha. reflexivity. }
    rewrite L. unfold read_int_text. rewrite dec_roundtrip. reflexivity.
Qed.

Lemma decimal_back n c z bs :
  In n ["Int"; "Long"; "Put"; "Get"]%string -> find_class n = Some c ->
  encode c (PInt z) = COk bs -> reads_back c (PInt z) bs.
Proof.
  intros Hn H E. exists (GInt z). split; [| cbn; apply Z.eqb_refl].
  simpl in Hn. destruct Hn as [<-|[<-|[<-|[<-|[]]]]]; open_class H; cbn -[dec_bytes] in E;
    inversion E; subst; clear E; apply genops1_nil_rest; rewrite <- app_comm_cons;
    eapply tok_line_int; try (vm_compute; reflexivity); auto.
Qed.

(* Get.create(n) keeps b"<n>\n" as its argument *)
Lemma get_create_back c z bs : find_class "Get" = Some c ->
  encode c (PBytes (dec_bytes z ++ [nl])) = COk bs -> reads_back c (PBytes (dec_bytes z ++ [nl])) bs.
Proof.
  intros H E. open_class H.
  assert (S1 : strip_nl (dec_bytes z ++ [nl]) = dec_bytes z).
  { unfold strip_nl. rewrite rev_app_distr. cbn. rewrite rev_involutive. reflexivity. }
  cbn -[dec_bytes strip_nl parse_dec] in E. rewrite S1, dec_roundtrip in E. cbn -[dec_bytes] in E.
  apply COk_inj in E; subst bs.
  exists (GInt z). split.
  - apply genops1_nil_rest; rewrite <- app_comm_cons.
    eapply tok_line_int; try (vm_compute; reflexivity); auto.
  - cbn -[dec_bytes strip_nl parse_dec]. rewrite S1, dec_roundtrip, Z.eqb_refl, bytes_eqb_refl. reflexivity.
Qed.

(* --- length-prefixed text and bytes --- *)
Ltac dyn_back TOK G :=
  match goal with E : encode _ _ = COk _ |- _ =>
    cbn -[le_bytes] in E; unfold in_range in E; cbn [c_min c_max] in E;
    match type of E with context[negb ?b] => destruct b eqn:?R end; cbn -[le_bytes] in E; [| discriminate];
    match type of E with context[if ?b then COk (le_bytes _ _) else _] => destruct b eqn:?R2 end;
    cbn -[le_bytes] in E; [| discriminate];
    apply COk_inj in E; subst
  end;
  repeat match goal with H : _ && _ = true |- _ => apply andb_true_iff in H; destruct H end;
  eexists; split;
  [ apply genops1_nil_rest; rewrite <- app_comm_cons, <- app_assoc; rewrite TOK;
    [ reflexivity
    | apply le_bytes_length
    | rewrite le_N_le_bytes_small, blen_N; [reflexivity | rewrite blen_N; unfold blen in *; cbn; lia]
    | unfold maxsize, ssize_max, blen in *; lia ]
  | cbn; apply bytes_eqb_refl ].

Lemma text_back n c s a bs :
  In n ["ShortBinUnicode"; "BinUnicode"; "BinUnicode8"]%string -> find_class n = Some c ->
  (a = PStr s \/ a = PBytes s) -> blen s <= ssize_max ->
  encode c a = COk bs -> reads_back c a bs.
Proof.
  intros Hn H Ha Hs E. simpl in Hn.
  destruct Hn as [<-|[<-|[<-|[]]]]; open_class H; destruct Ha as [-> | ->].
  - dyn_back tok_u1 GText. - dyn_back tok_u1 GText.
  - dyn_back tok_u4 GText. - dyn_back tok_u4 GText.
  - dyn_back tok_u8 GText. - dyn_back tok_u8 GText.
Qed.

Lemma bytes_back n c s bs :
  In n ["ShortBinBytes"; "BinBytes"; "BinBytes8"]%string -> find_class n = Some c ->
  blen s <= ssize_max ->
  encode c (PBytes s) = COk bs -> reads_back c (PBytes s) bs.
Proof.
  intros Hn H Hs E. simpl in Hn.
  destruct Hn as [<-|[<-|[<-|[]]]]; open_class H.
  - dyn_back tok_b1 GBytes. - dyn_back tok_b4 GBytes. - dyn_back tok_b8 GBytes.
Qed.

(* --- BINFLOAT (when the live class has an encoder) --- *)
Lemma float_back c x bs : find_class "BinFloat" = Some c -> (x < 2 ^ 64)%N ->
  encode c (PFloat x) = COk bs -> reads_back c (PFloat x) bs.
Proof.
  intros H Hx E. open_class H. cbn -[le_bytes] in E.
  first [ discriminate
        | apply COk_inj in E; subst; exists (GFloat x); split; [| cbn; apply N.eqb_refl];
          apply genops1_nil_rest; rewrite <- app_comm_cons, tok_float8 by (rewrite rev_length; apply le_bytes_length);
          rewrite be_N_rev_le by (cbn; lia); reflexivity ].
Qed.

(* --- PROTO --- *)
Lemma tok_proto bs rest : List.length bs = 1%nat ->
  genops1 (x80 :: bs ++ rest) = COk (("PROTO"%string, GInt (Z.of_N (le_N bs))), rest).
Proof. intros H. tok. rewrite read_fixed_app by assumption. reflexivity. Qed.

Lemma proto_back c z bs : find_class "Proto" = Some c ->
  encode c (PInt z) = COk bs -> reads_back c (PInt z) bs.
Proof.
  intros H E. open_class H. cbn in E.
  destruct ((0 <=? z) && (z <? 256)) eqn:R; cbn in E; [| discriminate]. apply COk_inj in E; subst.
  andb_split R. exists (GInt z). split; [| cbn; apply Z.eqb_refl].
  change [x80; byte_of_Z z] with (x80 :: [byte_of_Z z] ++ []). rewrite tok_proto by reflexivity.
  cbn [le_N]. unfold byte_of_Z. rewrite to_N_byte_of_N by lia. rewrite N.mul_0_r, N.add_0_r, Z2N.id by lia. reflexivity.
Qed.

(* ================= repaired encoders (D13) ================= *)
Ltac Zify.zify_post_hook ::= Z.to_euclidean_division_equations.

Ltac nlt :=
  repeat match goal with
         | |- context[(?a <? ?b)%N] => destruct (N.ltb_spec a b); try lia
         | |- context[(?a =? ?b)%N] => destruct (N.eqb_spec a b); try lia
         | |- context[(?a <=? ?b)%N] => destruct (N.leb_spec a b); try lia
         end.

Lemma byte_eq_of_N b n : Byte.to_N b = n -> b = byte_of_N n.
Proof. intros <-. symmetry. apply byte_of_N_to_N. Qed.

Lemma cont_bits_spec c x : cont_bits c = Some x -> (128 <= Byte.to_N c < 192 /\ x = Byte.to_N c - 128)%N.
Proof.
  unfold cont_bits. destruct ((128 <=? to_N c) && (to_N c <? 192))%N eqn:E; [| discriminate].
  intros [= <-]. apply andb_true_iff in E as [E1 E2]. apply N.leb_le in E1. apply N.ltb_lt in E2. lia.
Qed.

(* --- UTF-8: decoding one code point is inverted by utf8_cp --- *)
Lemma utf8_next_inv s cp r :
  utf8_next s = Some (cp, r) ->
  s = utf8_cp cp ++ r /\ (cp <= 1114111)%N /\ (List.length r < List.length s)%nat.
Proof.
  destruct s as [|b s1]; [discriminate |]. cbn [utf8_next].
  pose proof (Byte.to_N_bounded b) as Bb. remember (Byte.to_N b) as n eqn:En.
  destruct (N.ltb_spec n 128).
  { intros [= <- <-]. repeat split; [| lia | simpl; lia]. unfold utf8_cp. nlt. cbn [List.app].
    f_equal. apply byte_eq_of_N. auto. }
  destruct (N.ltb_spec n 192); [discriminate |].
  destruct (N.ltb_spec n 224).
  { destruct s1 as [|c1 r1]; [discriminate |].
    destruct (cont_bits c1) as [x|] eqn:C1; [| discriminate]. apply cont_bits_spec in C1 as [C1 ->].
    destruct (N.ltb_spec ((n - 192) * 64 + (to_N c1 - 128)) 128); [discriminate |].
    intros [= <- <-]. repeat split; [| lia | simpl; lia]. unfold utf8_cp. nlt. cbn [List.app].
    f_equal; [| f_equal]; apply byte_eq_of_N; rewrite <- ?En; clear En; lia. }
  destruct (N.ltb_spec n 240).
  { destruct s1 as [|c1 [|c2 r2]]; try discriminate.
    destruct (cont_bits c1) as [x|] eqn:C1; [| discriminate]. apply cont_bits_spec in C1 as [C1 ->].
    destruct (cont_bits c2) as [y|] eqn:C2; [| discriminate]. apply cont_bits_spec in C2 as [C2 ->].
    destruct (N.ltb_spec ((n - 224) * 4096 + (to_N c1 - 128) * 64 + (to_N c2 - 128)) 2048); [discriminate |].
    intros [= <- <-]. repeat split; [| lia | simpl; lia]. unfold utf8_cp. nlt. cbn [List.app].
    f_equal; [| f_equal; [| f_equal]]; apply byte_eq_of_N; rewrite <- ?En; clear En; lia. }
  destruct (N.ltb_spec n 248); [| discriminate].
  destruct s1 as [|c1 [|c2 [|c3 r3]]]; try discriminate.
  destruct (cont_bits c1) as [x|] eqn:C1; [| discriminate]. apply cont_bits_spec in C1 as [C1 ->].
  destruct (cont_bits c2) as [y|] eqn:C2; [| discriminate]. apply cont_bits_spec in C2 as [C2 ->].
  destruct (cont_bits c3) as [z|] eqn:C3; [| discriminate]. apply cont_bits_spec in C3 as [C3 ->].
  set (cp0 := ((n - 240) * 262144 + (to_N c1 - 128) * 4096 + (to_N c2 - 128) * 64 + (to_N c3 - 128))%N).
  destruct (N.ltb_spec cp0 65536); [discriminate |].
  destruct (N.ltb_spec 1114111 cp0); [discriminate |]. cbn [orb].
  intros [= <- <-]. repeat split; [| lia | simpl; lia]. unfold utf8_cp. nlt. cbn [List.app].
  f_equal; [| f_equal; [| f_equal; [| f_equal]]]; apply byte_eq_of_N; rewrite <- ?En; clear En; unfold cp0; lia.
Qed.

Lemma utf8_decode_f_inv fuel : forall s cps, utf8_decode_f fuel s = Some cps ->
  flat_map utf8_cp cps = s /\ Forall (fun n => (n <= 1114111)%N) cps /\ (List.length cps <= List.length s)%nat.
Proof.
  induction fuel; intros s cps H; destruct s as [|b s1]; cbn [utf8_decode_f] in H;
    try (inversion H; subst; simpl; auto; fail); try discriminate.
  destruct (utf8_next (b :: s1)) as [[cp r]|] eqn:E; [| discriminate].
  destruct (utf8_decode_f fuel r) as [t|] eqn:D; [| discriminate]. inversion H; subst; clear H.
  apply utf8_next_inv in E as [E1 [E2 E3]]. apply IHfuel in D as [D1 [D2 D3]].
  split; [| split].
  - cbn [flat_map]. rewrite D1. symmetry. exact E1.
  - constructor; assumption.
  - simpl in *. lia.
Qed.

Lemma utf8_decode_inv s cps : utf8_decode s = Some cps ->
  flat_map utf8_cp cps = s /\ Forall (fun n => (n <= 1114111)%N) cps /\ (List.length cps <= List.length s)%nat.
Proof. apply utf8_decode_f_inv. Qed.

(* --- Latin-1 --- *)
Lemma latin1_roundtrip s l : latin1_of_utf8 s = Some l ->
  latin1_to_utf8 l = s /\ (List.length l <= List.length s)%nat.
Proof.
  unfold latin1_of_utf8. destruct (utf8_decode s) as [cps|] eqn:D; [| discriminate].
  destruct (forallb (fun n => (n <? 256)%N) cps) eqn:F; [| discriminate]. intros [= <-].
  apply utf8_decode_inv in D as [D1 [_ D3]]. split; [| rewrite map_length; assumption].
  rewrite <- D1. unfold latin1_to_utf8. clear D1 D3.
  induction cps; simpl in *; auto. apply andb_true_iff in F as [F1 F2]. apply N.ltb_lt in F1.
  rewrite to_N_byte_of_N by assumption. rewrite IHcps by assumption. reflexivity.
Qed.

(* --- hexadecimal digits --- *)
Lemma hexv_hexd d : (d < 16)%N -> hexv (hexd d) = Some d.
Proof.
  intros H.
  assert (T : forallb (fun d => match hexv (hexd d) with Some x => N.eqb x d | None => false end)
                      (map N.of_nat (seq 0 16)) = true) by (vm_compute; reflexivity).
  rewrite forallb_forall in T. specialize (T d).
  assert (I : In d (map N.of_nat (seq 0 16))).
  { apply in_map_iff. exists (N.to_nat d). split; [apply N2Nat.id | apply in_seq; lia]. }
  specialize (T I). destruct (hexv (hexd d)); [| discriminate]. apply N.eqb_eq in T. subst. reflexivity.
Qed.

Lemma hexd_not_special d : (d < 16)%N -> hexd d <> nl /\ hexd d <> x5c.
Proof.
  intros H.
  assert (T : forallb (fun d => negb (Byte.eqb (hexd d) nl) && negb (Byte.eqb (hexd d) x5c))
                      (map N.of_nat (seq 0 16)) = true) by (vm_compute; reflexivity).
  rewrite forallb_forall in T. specialize (T d).
  assert (I : In d (map N.of_nat (seq 0 16))).
  { apply in_map_iff. exists (N.to_nat d). split; [apply N2Nat.id | apply in_seq; lia]. }
  specialize (T I). apply andb_true_iff in T as [T1 T2]. apply negb_true_iff in T1, T2.
  split; intros E; rewrite E in *; vm_compute in T1, T2; discriminate.
Qed.

Lemma byte_eqb_refl b : Byte.eqb b b = true.
Proof. apply Byte.byte_dec_lb. reflexivity. Qed.

Lemma byte_eqb_neq a b : a <> b -> Byte.eqb a b = false.
Proof. intros H. destruct (Byte.eqb a b) eqn:E; auto. apply Byte.byte_dec_bl in E. contradiction. Qed.

Lemma byte_of_N_inj_neq n m : (n < 256)%N -> (m < 256)%N -> n <> m -> byte_of_N n <> byte_of_N m.
Proof. intros Hn Hm H E. apply H. rewrite <- (to_N_byte_of_N n), <- (to_N_byte_of_N m) by assumption. rewrite E. reflexivity. Qed.

(* --- raw-unicode-escape --- *)
Lemma raw_unescape_u f h1 h2 h3 h4 R a b c d :
  hexv h1 = Some a -> hexv h2 = Some b -> hexv h3 = Some c -> hexv h4 = Some d ->
  raw_unescape (S f) (x5c :: x75 :: h1 :: h2 :: h3 :: h4 :: R) false =
  doc t <- raw_unescape f R false; COk (utf8_cp (a * 4096 + b * 256 + c * 16 + d)%N ++ t).
Proof. intros H1 H2 H3 H4. cbn -[utf8_cp N.mul N.add hexv]. rewrite H1, H2, H3, H4. reflexivity. Qed.

Lemma raw_unescape_U f h1 h2 h3 h4 h5 h6 h7 h8 R a1 a2 a3 a4 a5 a6 a7 a8 :
  hexv h1 = Some a1 -> hexv h2 = Some a2 -> hexv h3 = Some a3 -> hexv h4 = Some a4 ->
  hexv h5 = Some a5 -> hexv h6 = Some a6 -> hexv h7 = Some a7 -> hexv h8 = Some a8 ->
  raw_unescape (S f) (x5c :: x55 :: h1 :: h2 :: h3 :: h4 :: h5 :: h6 :: h7 :: h8 :: R) false =
  let cp := ((a1 * 4096 + a2 * 256 + a3 * 16 + a4) * 65536 + (a5 * 4096 + a6 * 256 + a7 * 16 + a8))%N in
  if (1114111 <? cp)%N then CErr XUnpickling
  else doc t <- raw_unescape f R false; COk (utf8_cp cp ++ t).
Proof.
  intros H1 H2 H3 H4 H5 H6 H7 H8. cbn -[utf8_cp N.mul N.add N.ltb hexv].
  rewrite H1, H2, H3, H4, H5, H6, H7, H8. reflexivity.
Qed.

Lemma raw_unescape_plain f b R : b <> x5c ->
  raw_unescape (S f) (b :: R) false = doc t <- raw_unescape f R false; COk (utf8_cp (Byte.to_N b) ++ t).
Proof. intros H. cbn [raw_unescape]. rewrite (byte_eqb_neq _ _ H). reflexivity. Qed.

Lemma hex4_digits n : (n < 65536)%N ->
  hexv (hexd ((n / 4096) mod 16)) = Some ((n / 4096) mod 16)%N /\
  hexv (hexd ((n / 256) mod 16)) = Some ((n / 256) mod 16)%N /\
  hexv (hexd ((n / 16) mod 16)) = Some ((n / 16) mod 16)%N /\
  hexv (hexd (n mod 16)) = Some (n mod 16)%N /\
  ((n / 4096) mod 16 * 4096 + (n / 256) mod 16 * 256 + (n / 16) mod 16 * 16 + n mod 16 = n)%N.
Proof. intros H. repeat split; try (apply hexv_hexd; apply N.mod_lt; lia). lia. Qed.

Lemma esc_cp_length cp : (1 <= List.length (esc_cp cp))%nat.
Proof. unfold esc_cp. repeat match goal with |- context[if ?b then _ else _] => destruct b end; simpl; lia. Qed.

Lemma raw_unescape_cp f cp R : (cp <= 1114111)%N ->
  raw_unescape (S f) (esc_cp cp ++ R) false = doc t <- raw_unescape f R false; COk (utf8_cp cp ++ t).
Proof.
  intros H. unfold esc_cp.
  destruct ((cp =? 92) || (cp =? 0) || (cp =? 10) || (cp =? 13) || (cp =? 26))%N eqn:S1.
  { assert (L : (cp < 65536)%N).
    { repeat (apply orb_true_iff in S1 as [S1|S1]); apply N.eqb_eq in S1; lia. }
    destruct (hex4_digits cp L) as [D1 [D2 [D3 [D4 D5]]]].
    unfold hex4. cbn [List.app]. rewrite (raw_unescape_u _ _ _ _ _ _ _ _ _ _ D1 D2 D3 D4), D5. reflexivity. }
  repeat (apply orb_false_iff in S1 as [S1 ?]).
  destruct (N.ltb_spec cp 256).
  { cbn [List.app]. rewrite raw_unescape_plain.
    - rewrite to_N_byte_of_N by assumption. reflexivity.
    - change x5c with (byte_of_N 92). apply byte_of_N_inj_neq; try lia. apply N.eqb_neq. assumption. }
  destruct (N.ltb_spec cp 65536).
  { destruct (hex4_digits cp H5) as [D1 [D2 [D3 [D4 D5]]]].
    unfold hex4. cbn [List.app]. rewrite (raw_unescape_u _ _ _ _ _ _ _ _ _ _ D1 D2 D3 D4), D5. reflexivity. }
  assert (L1 : (cp / 65536 < 65536)%N) by lia.
  assert (L2 : (cp mod 65536 < 65536)%N) by (apply N.mod_lt; lia).
  destruct (hex4_digits _ L1) as [D1 [D2 [D3 [D4 D5]]]].
  destruct (hex4_digits _ L2) as [E1 [E2 [E3 [E4 E5]]]].
  unfold hex4. cbn [List.app].
  rewrite (raw_unescape_U _ _ _ _ _ _ _ _ _ _ _ _ _ _ _ _ _ _ D1 D2 D3 D4 E1 E2 E3 E4).
  cbv zeta. rewrite D5, E5.
  replace (cp / 65536 * 65536 + cp mod 65536)%N with cp by lia.
  destruct (N.ltb_spec 1114111 cp); [lia | reflexivity].
Qed.

Lemma raw_unescape_all cps : forall fuel, Forall (fun n => (n <= 1114111)%N) cps ->
  (List.length (flat_map esc_cp cps) < fuel)%nat ->
  raw_unescape fuel (flat_map esc_cp cps) false = COk (flat_map utf8_cp cps).
Proof.
  induction cps as [|cp r IH]; intros fuel F L.
  - destruct fuel; [simpl in L; lia | reflexivity].
  - inversion F; subst. cbn [flat_map] in *. rewrite app_length in L.
    pose proof (esc_cp_length cp). destruct fuel as [|f]; [lia |].
    rewrite raw_unescape_cp by assumption. rewrite IH by (auto; lia). reflexivity.
Qed.

Lemma esc_cp_no_nl cp : (cp <= 1114111)%N -> Forall not_nl (esc_cp cp).
Proof.
  intros H.
  assert (HX : forall d, (d < 16)%N -> not_nl (hexd d)) by (intros d Hd; apply hexd_not_special; assumption).
  assert (H4 : forall n, Forall not_nl (hex4 n)).
  { intros n. unfold hex4. repeat constructor; apply HX; apply N.mod_lt; lia. }
  unfold esc_cp.
  destruct ((cp =? 92) || (cp =? 0) || (cp =? 10) || (cp =? 13) || (cp =? 26))%N eqn:S1.
  { constructor; [discriminate |]. constructor; [discriminate | apply H4]. }
  repeat (apply orb_false_iff in S1 as [S1 ?]).
  destruct (N.ltb_spec cp 256).
  { constructor; [| constructor]. unfold not_nl. change nl with (byte_of_N 10).
    apply byte_of_N_inj_neq; try lia. apply N.eqb_neq. assumption. }
  destruct (N.ltb_spec cp 65536).
  { constructor; [discriminate |]. constructor; [discriminate | apply H4]. }
  constructor; [discriminate |]. constructor; [discriminate |]. apply Forall_app. split; apply H4.
Qed.

Lemma escape_no_nl cps : Forall (fun n => (n <= 1114111)%N) cps -> Forall not_nl (flat_map esc_cp cps).
Proof.
  induction 1; simpl; [constructor |]. apply Forall_app. split; [apply esc_cp_no_nl; assumption | assumption].
Qed.

Lemma tok_unicode cps rest : Forall (fun n => (n <= 1114111)%N) cps ->
  genops1 (x56 :: raw_unicode_escape cps ++ rest) = COk (("UNICODE"%string, GText (flat_map utf8_cp cps)), rest).
Proof.
  intros F. unfold raw_unicode_escape. rewrite <- app_assoc. change ([nl] ++ rest) with (nl :: rest).
  erewrite genops1_unfold by (vm_compute; reflexivity).
  cbn -[read_line raw_unescape].
  rewrite read_line_app by (apply escape_no_nl; assumption). cbn [cbind fst snd].
  rewrite raw_unescape_all by (auto; lia). reflexivity.
Qed.

Lemma unicode_back c a s bs : find_class "Unicode" = Some c -> (a = PBytes s \/ a = PStr s) ->
  encode c a = COk bs -> reads_back c a bs.
Proof.
  intros H Ha E. open_class H.
  assert (E' : match utf8_decode s with Some cps => COk (x56 :: raw_unicode_escape cps) | None => CErr XValue end = COk bs).
  { destruct Ha as [-> | ->]; cbn -[raw_unicode_escape utf8_decode] in E;
      destruct (utf8_decode s); cbn -[raw_unicode_escape] in E; exact E. }
  clear E. destruct (utf8_decode s) as [cps|] eqn:D; [| discriminate]. apply COk_inj in E'; subst bs.
  apply utf8_decode_inv in D as [D1 [D2 _]].
  exists (GText s). split.
  - apply genops1_nil_rest. rewrite <- app_comm_cons, tok_unicode by assumption. rewrite D1. reflexivity.
  - destruct Ha as [-> | ->]; cbn; apply bytes_eqb_refl.
Qed.

(* --- STRING: repr() of ASCII text is undone by escape_decode --- *)
Lemma unescape_plain b r : b <> x5c -> unescape (b :: r) = doc t <- unescape r; COk (b :: t).
Proof. intros H. cbn [unescape]. rewrite (byte_eqb_neq _ _ H). reflexivity. Qed.

Lemma unescape_repr_byte q b r : (q = x27 \/ q = x22) ->
  unescape (repr_byte q b ++ r) = doc t <- unescape r; COk (b :: t).
Proof.
  intros Hq. unfold repr_byte. pose proof (Byte.to_N_bounded b) as Bb.
  destruct (Byte.eqb b q || Byte.eqb b x5c) eqn:E1.
  { apply orb_true_iff in E1 as [E1|E1]; apply Byte.byte_dec_bl in E1; subst b;
      [destruct Hq as [-> | ->] |]; reflexivity. }
  apply orb_false_iff in E1 as [E1 E2].
  destruct (N.eqb_spec (Byte.to_N b) 9). { apply byte_eq_of_N in e. subst b. reflexivity. }
  destruct (N.eqb_spec (Byte.to_N b) 10). { apply byte_eq_of_N in e. subst b. reflexivity. }
  destruct (N.eqb_spec (Byte.to_N b) 13). { apply byte_eq_of_N in e. subst b. reflexivity. }
  destruct ((Byte.to_N b <? 32) || (Byte.to_N b =? 127))%N eqn:E3.
  { cbn [List.app unescape]. change (Byte.eqb x5c x5c) with true. cbv iota.
    change (Byte.eqb x78 x5c || Byte.eqb x78 x27 || Byte.eqb x78 x22) with false.
    change (Byte.eqb x78 x6e) with false. change (Byte.eqb x78 x72) with false.
    change (Byte.eqb x78 x74) with false. change (Byte.eqb x78 x78) with true. cbv iota.
    rewrite !hexv_hexd by (try apply N.mod_lt; lia).
    replace (Byte.to_N b / 16 * 16 + Byte.to_N b mod 16)%N with (Byte.to_N b) by lia.
    rewrite byte_of_N_to_N. reflexivity. }
  cbn [List.app]. apply unescape_plain. intros ->. vm_compute in E2. discriminate.
Qed.

Lemma unescape_repr q s : (q = x27 \/ q = x22) -> unescape (flat_map (repr_byte q) s) = COk s.
Proof.
  intros Hq. induction s; [reflexivity |]. cbn [flat_map].
  rewrite unescape_repr_byte by assumption. rewrite IHs. reflexivity.
Qed.

Lemma repr_byte_no_nl q b : (q = x27 \/ q = x22) -> Forall not_nl (repr_byte q b).
Proof.
  intros Hq. unfold repr_byte.
  destruct (Byte.eqb b q || Byte.eqb b x5c) eqn:E1.
  { constructor; [discriminate |]. constructor; [| constructor].
    apply orb_true_iff in E1 as [E1|E1]; apply Byte.byte_dec_bl in E1; subst b;
      [destruct Hq as [-> | ->] |]; discriminate. }
  destruct (N.eqb_spec (Byte.to_N b) 9). { repeat constructor; discriminate. }
  destruct (N.eqb_spec (Byte.to_N b) 10). { repeat constructor; discriminate. }
  destruct (N.eqb_spec (Byte.to_N b) 13). { repeat constructor; discriminate. }
  destruct ((Byte.to_N b <? 32) || (Byte.to_N b =? 127))%N eqn:E3.
  { pose proof (Byte.to_N_bounded b).
    repeat constructor; try discriminate; apply hexd_not_special; try apply N.mod_lt; lia. }
  constructor; [| constructor]. intros ->. apply n0. reflexivity.
Qed.

Lemma repr_quote_cases s : repr_quote s = x27 \/ repr_quote s = x22.
Proof. unfold repr_quote. destruct (_ && _); auto. Qed.

Lemma tok_string s rest : all_ascii s = true ->
  genops1 (x53 :: (py_repr s ++ [nl]) ++ rest) = COk (("STRING"%string, GText s), rest).
Proof.
  intros A. unfold py_repr. pose proof (repr_quote_cases s) as Hq. set (q := repr_quote s) in *. clearbody q.
  rewrite <- app_assoc. change ([nl] ++ rest) with (nl :: rest).
  erewrite genops1_unfold by (vm_compute; reflexivity).
  cbn -[read_line unescape]. rewrite app_comm_cons.
  rewrite read_line_app.
  2:{ constructor; [destruct Hq as [-> | ->]; discriminate |]. apply Forall_app. split.
      - clear A. induction s; simpl; [constructor |]. apply Forall_app. split; [apply repr_byte_no_nl; assumption | assumption].
      - constructor; [destruct Hq as [-> | ->]; discriminate | constructor]. }
  cbn [cbind fst snd].
  replace (Byte.eqb q x22 || Byte.eqb q x27) with true by (destruct Hq as [-> | ->]; reflexivity).
  rewrite rev_app_distr. cbn [List.rev List.app]. rewrite byte_eqb_refl, rev_involutive.
  unfold escape_ascii. rewrite unescape_repr by assumption. cbn [cbind]. rewrite A. reflexivity.
Qed.

Lemma string_back c s bs : find_class "String" = Some c ->
  encode c (PStr s) = COk bs -> reads_back c (PStr s) bs.
Proof.
  intros H E. open_class H. cbn -[py_repr all_ascii] in E.
  destruct (all_ascii s) eqn:A; cbn -[py_repr] in E; [| discriminate]. apply COk_inj in E; subst bs.
  exists (GText s). split; [| cbn; apply bytes_eqb_refl].
  apply genops1_nil_rest. rewrite <- app_comm_cons, tok_string by assumption. reflexivity.
Qed.

(* --- LONG1 / LONG4: encode_long is undone by decode_long --- *)
Lemma long_nbytes_fits z : z <> 0 ->
  0 < long_nbytes z /\ - 2 ^ (8 * long_nbytes z - 1) <= z < 2 ^ (8 * long_nbytes z - 1).
Proof.
  intros Hz. unfold long_nbytes, bit_length. rewrite (proj2 (Z.eqb_neq z 0) Hz).
  set (k := Z.log2 (Z.abs z) + 1).
  assert (A : 0 < Z.abs z) by lia.
  pose proof (Z.log2_spec _ A) as [L1 L2]. pose proof (Z.log2_nonneg (Z.abs z)) as L0.
  assert (Hk : Z.abs z < 2 ^ k) by (unfold k; rewrite <- Z.add_1_r in L2; exact L2).
  set (n0 := k / 8 + 1).
  assert (Hn0 : k <= 8 * n0 - 1) by (unfold n0; lia).
  assert (P : 2 ^ k <= 2 ^ (8 * n0 - 1)) by (apply Z.pow_le_mono_r; lia).
  unfold k in *. lia.
Qed.

Lemma decode_encode_long z : decode_long (encode_long z) = z.
Proof.
  unfold encode_long. destruct (Z.eqb_spec z 0); [subst; reflexivity |].
  destruct (long_nbytes_fits z n) as [Hp Hr].
  pose proof (decode_long_signed (Z.to_nat (long_nbytes z)) z) as D.
  rewrite Z2Nat.id in D by lia. apply D; [lia | assumption].
Qed.

Lemma tok_long1 pre body rest : List.length pre = 1%nat -> le_N pre = N.of_nat (List.length body) ->
  (N.of_nat (List.length body) <= maxsize)%N ->
  genops1 (x8a :: pre ++ body ++ rest) = COk (("LONG1"%string, GInt (decode_long body)), rest).
Proof. counted 1%nat false (fun d => GInt (decode_long d)). Qed.
Lemma tok_long4 pre body rest : List.length pre = 4%nat -> le_N pre = N.of_nat (List.length body) ->
  (N.of_nat (List.length body) < 2 ^ 31)%N ->
  genops1 (x8b :: pre ++ body ++ rest) = COk (("LONG4"%string, GInt (decode_long body)), rest).
Proof.
  intros; eapply tok_counted with (w := 4%nat) (sg := true) (mk := fun d => GInt (decode_long d));
  [ vm_compute; reflexivity | reflexivity | reflexivity | intros; reflexivity
  | assumption | assumption | intros _; assumption | unfold maxsize; lia ].
Qed.

Lemma long1_back c z bs : find_class "Long1" = Some c ->
  encode c (PInt z) = COk bs -> reads_back c (PInt z) bs.
Proof.
  intros H E. open_class H. cbn -[le_bytes encode_long] in E.
  match type of E with context[if ?b then COk (le_bytes _ _) else _] => destruct b eqn:R end;
    cbn -[le_bytes encode_long] in E; [| discriminate].
  apply COk_inj in E; subst bs. andb_split R.
  exists (GInt z). split; [| cbn; apply Z.eqb_refl].
  apply genops1_nil_rest. rewrite <- app_comm_cons, <- app_assoc. rewrite tok_long1.
  - rewrite decode_encode_long. reflexivity.
  - apply le_bytes_length.
  - rewrite le_N_le_bytes_small, blen_N; [reflexivity | rewrite blen_N; unfold blen in *; cbn; lia].
  - unfold maxsize, blen in *; lia.
Qed.

Lemma long4_back c z bs : find_class "Long4" = Some c ->
  encode c (PInt z) = COk bs -> reads_back c (PInt z) bs.
Proof.
  intros H E. open_class H. cbn -[le_bytes encode_long Z.pow Z.modulo] in E.
  match type of E with context[if ?b then COk (le_bytes _ _) else _] => destruct b eqn:R end;
    cbn -[le_bytes encode_long Z.pow Z.modulo] in E; [| discriminate].
  apply COk_inj in E; subst bs. andb_split R. pose proof (blen_nonneg (encode_long z)) as B0.
  exists (GInt z). split; [| cbn; apply Z.eqb_refl].
  apply genops1_nil_rest. rewrite <- app_comm_cons, <- app_assoc. rewrite tok_long4.
  - rewrite decode_encode_long. reflexivity.
  - apply le_bytes_length.
  - rewrite Z.mod_small by (cbn in *; lia).
    rewrite le_N_le_bytes_small, blen_N; [reflexivity | rewrite blen_N; unfold blen in *; cbn in *; lia].
  - unfold blen in *. cbn in *. lia.
Qed.

(* --- SHORT_BINSTRING / BINSTRING: the Latin-1 bytes --- *)
Lemma tok_s1 pre body rest : List.length pre = 1%nat -> le_N pre = N.of_nat (List.length body) ->
  (N.of_nat (List.length body) <= maxsize)%N ->
  genops1 (x55 :: pre ++ body ++ rest) = COk (("SHORT_BINSTRING"%string, GText (latin1_to_utf8 body)), rest).
Proof. counted 1%nat false (fun d => GText (latin1_to_utf8 d)). Qed.
Lemma tok_s4 pre body rest : List.length pre = 4%nat -> le_N pre = N.of_nat (List.length body) ->
  (N.of_nat (List.length body) < 2 ^ 31)%N ->
  genops1 (x54 :: pre ++ body ++ rest) = COk (("BINSTRING"%string, GText (latin1_to_utf8 body)), rest).
Proof.
  intros; eapply tok_counted with (w := 4%nat) (sg := true) (mk := fun d => GText (latin1_to_utf8 d));
  [ vm_compute; reflexivity | reflexivity | reflexivity | intros; reflexivity
  | assumption | assumption | intros _; assumption | unfold maxsize; lia ].
Qed.

Lemma shortbinstring_back c s bs : find_class "ShortBinString" = Some c ->
  encode c (PStr s) = COk bs -> reads_back c (PStr s) bs.
Proof.
  intros H E. open_class H. cbn -[le_bytes latin1_of_utf8] in E.
  destruct (latin1_of_utf8 s) as [l|] eqn:L; cbn -[le_bytes] in E; [| discriminate].
  unfold in_range in E; cbn [c_min c_max] in E.
  match type of E with context[negb ?b] => destruct b eqn:R end; cbn -[le_bytes] in E; [| discriminate].
  match type of E with context[if ?b then COk (le_bytes _ _) else _] => destruct b eqn:R2 end;
    cbn -[le_bytes] in E; [| discriminate].
  apply COk_inj in E; subst bs. andb_split R. apply latin1_roundtrip in L as [L1 L2].
  exists (GText s). split; [| cbn; apply bytes_eqb_refl].
  apply genops1_nil_rest. rewrite <- app_comm_cons, <- app_assoc. rewrite tok_s1.
  - rewrite L1. reflexivity.
  - apply le_bytes_length.
  - rewrite le_N_le_bytes_small, blen_N; [reflexivity | rewrite blen_N; unfold blen in *; cbn; lia].
  - unfold maxsize, blen in *; lia.
Qed.

(* BINSTRING's count is read as a SIGNED four-byte integer; fickling writes it unsigned *)
Lemma binstring_back c s bs : find_class "BinString" = Some c -> blen s < 2 ^ 31 ->
  encode c (PStr s) = COk bs -> reads_back c (PStr s) bs.
Proof.
  intros H Hs E. open_class H. cbn -[le_bytes latin1_of_utf8] in E.
  destruct (latin1_of_utf8 s) as [l|] eqn:L; cbn -[le_bytes] in E; [| discriminate].
  unfold in_range in E; cbn [c_min c_max] in E.
  match type of E with context[negb ?b] => destruct b eqn:R end; cbn -[le_bytes] in E; [| discriminate].
  match type of E with context[if ?b then COk (le_bytes _ _) else _] => destruct b eqn:R2 end;
    cbn -[le_bytes] in E; [| discriminate].
  apply COk_inj in E; subst bs. andb_split R. apply latin1_roundtrip in L as [L1 L2].
  exists (GText s). split; [| cbn; apply bytes_eqb_refl].
  apply genops1_nil_rest. rewrite <- app_comm_cons, <- app_assoc. rewrite tok_s4.
  - rewrite L1. reflexivity.
  - apply le_bytes_length.
  - rewrite le_N_le_bytes_small, blen_N; [reflexivity | rewrite blen_N; unfold blen in *; cbn; lia].
  - unfold blen in *. cbn in *. lia.
Qed.

(* --- executable read-back test (used for witnesses and non-vacuity) --- *)
Definition reads_backb (n : string) (a : pv) : bool :=
  match find_class n with
  | None => false
  | Some c => match encode c a with
              | CErr _ => true          (* refusing is allowed *)
              | COk bs => match genops1 bs with
                          | COk ((nm, g), []) => String.eqb nm (c_op c) && garg_matches a g
                          | _ => false
                          end
              end
  end.

(* every Opcode subclass of the live module falls in exactly one of these groups *)
Definition sound_names : list string :=
  ["Proto"; "Put"; "Get"; "ShortBinUnicode"; "BinUnicode"; "BinUnicode8"; "Unicode"; "String"; "BinInt1"; "BinInt2";
   "BinInt"; "BinFloat"; "ShortBinBytes"; "ShortBinString"; "BinString"; "BinBytes"; "BinBytes8"; "Long1"; "Long4";
   "Int"; "Long"]%string.
Definition differential_only_names : list string := ["Global"]%string.

Definition classify (c : cclass) : string :=
  if plain_noarg c then "noarg"
  else if no_encoder c then "refuses"
  else if mem_str (c_cls c) sound_names then "sound"
  else if mem_str (c_cls c) differential_only_names then "differential"
  else "unclassified"%string.

Lemma all_classified : forallb (fun c => negb (String.eqb (classify c) "unclassified")) opcode_classes = true.
Proof. vm_compute. reflexivity. Qed.

(* the argument has the type the opcode carries *)
Definition type_appropriate (n : string) (a : pv) : Prop :=
  (In n ["BinInt1"; "BinInt2"; "BinInt"; "Int"; "Long"; "Put"; "Get"; "Proto"; "Long1"; "Long4"]%string
   /\ exists z, a = PInt z)
  \/ (n = "Get"%string /\ exists z, a = PBytes (dec_bytes z ++ [nl]))
  \/ (In n ["ShortBinUnicode"; "BinUnicode"; "BinUnicode8"]%string
      /\ exists s, (a = PStr s \/ a = PBytes s) /\ blen s <= ssize_max)
  \/ (In n ["ShortBinBytes"; "BinBytes"; "BinBytes8"]%string /\ exists s, a = PBytes s /\ blen s <= ssize_max)
  \/ (n = "BinFloat"%string /\ exists x, a = PFloat x /\ (x < 2 ^ 64)%N)
  \/ (n = "Unicode"%string /\ exists s, a = PBytes s \/ a = PStr s)
  \/ (In n ["String"; "ShortBinString"]%string /\ exists s, a = PStr s)
  \/ (n = "BinString"%string /\ exists s, a = PStr s /\ blen s < 2 ^ 31).

Theorem opcode_decodes_back n c a bs :
  find_class n = Some c -> type_appropriate n a -> encode c a = COk bs -> reads_back c a bs.
Proof.
  intros H T E.
  destruct T as [[Hn [z ->]]|[[-> [z ->]]|[[Hn [s [Ha Hs]]]|[[Hn [s [-> Hs]]]|[[-> [x [-> Hx]]]|[[-> [s Ha]]|[[Hn [s ->]]|[-> [s [-> Hs]]]]]]]]]].
  - simpl in Hn. destruct Hn as [<-|[<-|[<-|[<-|[<-|[<-|[<-|[<-|[<-|[<-|[]]]]]]]]]]].
    + eapply binint1_back; eauto.
    + eapply binint2_back; eauto.
    + eapply binint_back; eauto.
    + eapply (decimal_back "Int"); simpl; eauto.
    + eapply (decimal_back "Long"); simpl; eauto.
    + eapply (decimal_back "Put"); simpl; eauto 6.
    + eapply (decimal_back "Get"); simpl; eauto 6.
    + eapply proto_back; eauto.
    + eapply long1_back; eauto.
    + eapply long4_back; eauto.
  - eapply get_create_back; eauto.
  - eapply text_back; eauto.
  - eapply bytes_back; eauto.
  - eapply float_back; eauto.
  - eapply unicode_back; eauto.
  - simpl in Hn. destruct Hn as [<-|[<-|[]]].
    + eapply string_back; eauto.
    + eapply shortbinstring_back; eauto.
  - eapply binstring_back; eauto.
Qed.

Lemma long_never_chosen z c a :
  const_new (PInt z) = COk (c, a) ->
  c_cls c <> "Long1"%string /\ c_cls c <> "Long4"%string /\ c_cls c <> "BinInt"%string.
Proof.
  rewrite const_new_rows. unfold const_rows. cbn. unfold in_range; cbn [c_min c_max].
  destruct ((0 <=? z) && (z <=? 255)); [intros [= <- _]; cbn; repeat split; discriminate |].
  destruct ((0 <=? z) && (z <=? 65535)); [intros [= <- _]; cbn; repeat split; discriminate |].
  destruct ((2147483648 <=? z) && (z <=? 2147483647)) eqn:E3; [andb_split E3; lia |].
  destruct ((128 <=? z) && (z <=? 127)) eqn:E4; [andb_split E4; lia |].
  intros [= <- _]; cbn; repeat split; discriminate.
Qed.
