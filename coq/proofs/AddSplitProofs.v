(* The split of an addition string is exact: it yields (m, n) iff the string is m ++ "." ++ n with no dot
   in n.  Hence an addition permits exactly one pair, and never the pair obtained by cutting the same text
   at another dot. *)
From Coq Require Import List String Ascii Bool.
From Verif Require Import Base Allowlist AddSplit.
Import ListNotations.
Local Open Scope string_scope.

Lemma rsplit_none_nodot : forall s, rsplit_dot s = None <-> nodot s = true.
Proof.
  induction s as [|c r IH]; cbn [rsplit_dot nodot]; [tauto|].
  destruct (rsplit_dot r) as [[m n]|] eqn:E.
  - split; [discriminate|]. intros H. apply andb_true_iff in H. destruct H as [_ H].
    apply IH in H. discriminate.
  - destruct (is_dot c) eqn:D; cbn [negb andb].
    + split; discriminate.
    + split; intros _; [apply IH; reflexivity | reflexivity].
Qed.

Lemma rsplit_sound : forall s m n,
  rsplit_dot s = Some (m, n) -> s = m ++ "." ++ n /\ nodot n = true.
Proof.
  induction s as [|c r IH]; cbn [rsplit_dot]; intros m n H; [discriminate|].
  destruct (rsplit_dot r) as [[m' n']|] eqn:E.
  - injection H as <- <-. destruct (IH m' n' eq_refl) as [-> Hn]. split; [reflexivity | exact Hn].
  - destruct (is_dot c) eqn:D; [|discriminate]. injection H as <- <-.
    unfold is_dot in D. apply Ascii.eqb_eq in D. subst c. split; [reflexivity|].
    apply rsplit_none_nodot. exact E.
Qed.

Lemma rsplit_complete : forall m n, nodot n = true -> rsplit_dot (m ++ "." ++ n) = Some (m, n).
Proof.
  induction m as [|c r IH]; intros n Hn.
  - cbn [append rsplit_dot]. apply rsplit_none_nodot in Hn. rewrite Hn. reflexivity.
  - change (rsplit_dot (String c (r ++ "." ++ n)) = Some (String c r, n)).
    cbn [rsplit_dot]. rewrite (IH n Hn). reflexivity.
Qed.

Theorem rsplit_exact : forall s m n,
  rsplit_dot s = Some (m, n) <-> (s = m ++ "." ++ n /\ nodot n = true).
Proof.
  intros s m n. split; [apply rsplit_sound|]. intros [-> H]. apply rsplit_complete. exact H.
Qed.

(* two cuts of the same text: at most one of them is the pair the addition stands for *)
Lemma split_unique : forall s m n m' n',
  rsplit_dot s = Some (m, n) -> s = m' ++ "." ++ n' -> nodot n' = true -> (m', n') = (m, n).
Proof.
  intros s m n m' n' H -> Hn. rewrite (rsplit_complete m' n' Hn) in H. injection H as <- <-. reflexivity.
Qed.

Lemma gname_eqb_eq : forall a b, gname_eqb a b = true <-> a = b.
Proof.
  intros [a1 a2] [b1 b2]. unfold gname_eqb. cbn [fst snd]. rewrite andb_true_iff, !String.eqb_eq.
  split; [intros [-> ->]; reflexivity | intros H; injection H as -> ->; auto].
Qed.

Lemma mem_g_In : forall g l, mem_g g l = true <-> In g l.
Proof.
  intros g l. induction l as [|x r IH]; cbn [mem_g In]; [split; [discriminate | tauto]|].
  destruct (gname_eqb g x) eqn:E.
  - apply gname_eqb_eq in E. subst x. split; auto.
  - rewrite IH. split; [auto|]. intros [H|H]; [|exact H].
    subst x. assert (gname_eqb g g = true) as E' by (apply gname_eqb_eq; reflexivity). congruence.
Qed.

Lemma parse_adds_In : forall l a, parse_adds l = Some a ->
  forall g, In g a <-> exists s, In s l /\ rsplit_dot s = Some g.
Proof.
  induction l as [|s r IH]; cbn [parse_adds]; intros a H g.
  - injection H as <-. split; [intros [] | intros (s & [] & _)].
  - destruct (rsplit_dot s) as [g0|] eqn:E; [|discriminate].
    destruct (parse_adds r) as [t|] eqn:Er; [|discriminate]. injection H as <-.
    cbn [In]. rewrite (IH t eq_refl g). split.
    + intros [<-|(s' & Hin & Hs)]; [exists s; auto | exists s'; auto].
    + intros (s' & [<-|Hin] & Hs); [left; congruence | right; exists s'; auto].
Qed.

(* The additions part of the permitted set, in terms of the STRINGS the caller passed: the pair (m, n) is
   permitted through an addition iff the text m.n was passed and n has no dot. *)
Theorem additions_exact : forall adds a m n,
  parse_adds adds = Some a ->
  (mem_g (m, n) a = true <-> (In (m ++ "." ++ n) adds /\ nodot n = true)).
Proof.
  intros adds a m n H. rewrite mem_g_In, (parse_adds_In adds a H). split.
  - intros (s & Hin & Hs). apply rsplit_sound in Hs. destruct Hs as [-> Hn]. auto.
  - intros [Hin Hn]. exists (m ++ "." ++ n). split; [exact Hin | apply rsplit_complete; exact Hn].
Qed.

Theorem permits_strings_exact : forall adds m n,
  (forall s, In s adds -> nodot s = false) ->
  exists b, permits_strings adds (m, n) = Some b /\
            (b = true <-> (in_base (m, n) = true \/ (In (m ++ "." ++ n) adds /\ nodot n = true))).
Proof.
  intros adds m n Hall.
  assert (exists a, parse_adds adds = Some a) as [a Ha].
  { induction adds as [|s r IH]; cbn [parse_adds]; [eauto|].
    destruct (rsplit_dot s) as [g|] eqn:E.
    - destruct IH as [t ->]; [intros x Hx; apply Hall; right; exact Hx | eauto].
    - apply rsplit_none_nodot in E. rewrite (Hall s (or_introl eq_refl)) in E. discriminate. }
  unfold permits_strings. rewrite Ha. eexists. split; [reflexivity|].
  unfold spec_permits. rewrite orb_true_iff, (additions_exact adds a m n Ha). tauto.
Qed.

(* an addition without any dot makes the constructor raise (ValueError in the implementation) *)
Theorem no_dot_raises : forall adds s g,
  In s adds -> nodot s = true -> permits_strings adds g = None.
Proof.
  intros adds s g Hin Hn. unfold permits_strings.
  assert (parse_adds adds = None) as ->; [|reflexivity].
  induction adds as [|x r IH]; [destruct Hin|]. cbn [parse_adds]. destruct Hin as [->|Hin].
  - apply rsplit_none_nodot in Hn. rewrite Hn. reflexivity.
  - rewrite (IH Hin). destruct (rsplit_dot x); reflexivity.
Qed.
