(* Lemmas for C16 (PyTorch payload insertion over an abstract archive / file system). *)
From Coq Require Import List String Bool Arith Lia.
From Verif Require Import Base Poly Torch.
Import ListNotations.
Open Scope string_scope.

(* ================= the rewrite loop ================= *)
Lemma rewrite_names : forall a x, map fst (rewrite a x) = map fst a.
Proof.
  intros a x. unfold rewrite. rewrite map_map. apply map_ext.
  intros [n b]. simpl. destruct (is_model n); reflexivity.
Qed.

Lemma rewrite_length : forall a x, List.length (rewrite a x) = List.length a.
Proof. intros. unfold rewrite. apply map_length. Qed.

Lemma rewrite_nth : forall a x i n b, nth_error a i = Some (n, b) ->
  nth_error (rewrite a x) i = Some (if is_model n then (n, x) else (n, b)).
Proof.
  intros a x i n b H. unfold rewrite.
  rewrite (map_nth_error _ _ _ H). simpl. destruct (is_model n); reflexivity.
Qed.

Lemma rewrite_others : forall a x i n b, nth_error a i = Some (n, b) -> is_model n = false ->
  nth_error (rewrite a x) i = Some (n, b).
Proof. intros a x i n b H M. rewrite (rewrite_nth _ _ _ _ _ H), M. reflexivity. Qed.

Lemma rewrite_models : forall a x i n b, nth_error a i = Some (n, b) -> is_model n = true ->
  nth_error (rewrite a x) i = Some (n, x).
Proof. intros a x i n b H M. rewrite (rewrite_nth _ _ _ _ _ H), M. reflexivity. Qed.

(* ================= which member is "the model pickle" ================= *)
Lemma count_model_cons : forall e a,
  count_model (e :: a) = (if is_model (fst e) then 1 else 0) + count_model a.
Proof. intros e a. unfold count_model. simpl. destruct (is_model (fst e)); reflexivity. Qed.

Lemma count_zero_none : forall a i n b, count_model a = 0 -> nth_error a i = Some (n, b) ->
  is_model n = false.
Proof.
  induction a as [|e a IH]; intros i n b C H.
  - destruct i; discriminate.
  - rewrite count_model_cons in C. destruct (is_model (fst e)) eqn:M; [simpl in C; lia|].
    destruct i; simpl in H.
    + inversion H; subst. exact M.
    + apply (IH i n b); [simpl in C; lia|exact H].
Qed.

Lemma first_model_none : forall a, first_model a = None <-> count_model a = 0.
Proof.
  induction a as [|e a IH].
  - split; reflexivity.
  - rewrite count_model_cons. unfold first_model in *. simpl.
    destruct (is_model (fst e)); simpl; [split; [discriminate|lia]|exact IH].
Qed.

(* with exactly one model member, it is the one [pickled] reads, and it is the only one rewritten *)
Lemma unique_model : forall a, count_model a = 1 ->
  exists i n b, nth_error a i = Some (n, b) /\ is_model n = true /\ first_model a = Some b /\
                forall j m c, j <> i -> nth_error a j = Some (m, c) -> is_model m = false.
Proof.
  induction a as [|e a IH]; intros C.
  - discriminate.
  - rewrite count_model_cons in C. destruct (is_model (fst e)) eqn:M.
    + assert (C0 : count_model a = 0) by (simpl in C; lia).
      exists 0, (fst e), (snd e). split; [destruct e; reflexivity|]. split; [exact M|].
      split; [unfold first_model; simpl; rewrite M; reflexivity|].
      intros j m c J H. destruct j; [congruence|]. simpl in H. exact (count_zero_none a j m c C0 H).
    + destruct (IH C) as [i [n [b [H [Mn [F U]]]]]].
      exists (S i), n, b. split; [exact H|]. split; [exact Mn|].
      split; [unfold first_model in *; simpl; rewrite M; exact F|].
      intros j m c J Hj. destruct j; simpl in Hj.
      * inversion Hj; subst. exact M.
      * apply (U j m c); [lia|exact Hj].
Qed.

Section WithInj.
  Variable inj : string -> string.

  Lemma names_and_others_preserved : forall a a', inject_insertion inj a = Some a' ->
    map fst a' = map fst a /\ List.length a' = List.length a /\
    forall i n b, nth_error a i = Some (n, b) -> is_model n = false -> nth_error a' i = Some (n, b).
  Proof.
    intros a a' H. unfold inject_insertion in H. destruct (first_model a) as [b0|]; [|discriminate].
    inversion H; subst. split; [apply rewrite_names|]. split; [apply rewrite_length|].
    intros. apply rewrite_others; assumption.
  Qed.

  Lemma model_pickle : forall a, unique_data_pkl a = true ->
    exists a' i n b, inject_insertion inj a = Some a' /\
      nth_error a i = Some (n, b) /\ is_model n = true /\
      nth_error a' i = Some (n, inj b) /\
      forall j m c, j <> i -> nth_error a j = Some (m, c) -> nth_error a' j = Some (m, c).
  Proof.
    intros a U. unfold unique_data_pkl in U. apply Nat.eqb_eq in U.
    destruct (unique_model a U) as [i [n [b [H [M [F O]]]]]].
    exists (rewrite a (inj b)), i, n, b. unfold inject_insertion. rewrite F.
    split; [reflexivity|]. split; [exact H|]. split; [exact M|].
    split; [apply rewrite_models with b; assumption|].
    intros j m c J Hj. apply rewrite_others; [exact Hj|]. exact (O j m c J Hj).
  Qed.

  (* a file that has a model member is never refused for lack of one *)
  Lemma inject_defined : forall a, inject_insertion inj a = None <-> count_model a = 0.
  Proof.
    intros a. unfold inject_insertion. destruct (first_model a) eqn:F.
    - split; [discriminate|]. intros C. apply first_model_none in C. congruence.
    - split; [intros _; apply first_model_none; exact F|reflexivity].
  Qed.

  (* ================= file level ================= *)
  Lemma flookup_fremove : forall fs p q,
    flookup (fremove fs p) q = if String.eqb p q then None else flookup fs q.
  Proof.
    induction fs as [|[k a] r IH]; intros p q; simpl.
    - destruct (p =? q); reflexivity.
    - destruct (String.eqb_spec k p).
      + subst. rewrite IH. destruct (String.eqb_spec p q); reflexivity.
      + simpl. rewrite IH.
        destruct (String.eqb_spec k q); destruct (String.eqb_spec p q); try reflexivity. congruence.
  Qed.

  Lemma flookup_fwrite : forall fs p a q,
    flookup (fwrite fs p a) q = if String.eqb p q then Some a else flookup fs q.
  Proof. intros. unfold fwrite. simpl. rewrite flookup_fremove. destruct (p =? q); reflexivity. Qed.

  Lemma inject_payload_spec : forall fs path out formats force overwrite, out <> path ->
    match inject_payload inj fs path out formats force overwrite with
    | (TRaised _, fs') => fs' = fs
    | (TDone, fs') =>
        exists a a', flookup fs path = Some a /\ validate formats force = Ok tt /\
                     inject_insertion inj a = Some a' /\
          if overwrite then
            flookup fs' path = Some a' /\ flookup fs' out = None /\
            forall p, p <> path -> p <> out -> flookup fs' p = flookup fs p
          else
            flookup fs' path = Some a /\ flookup fs' out = Some a' /\
            forall p, p <> out -> flookup fs' p = flookup fs p
    end.
  Proof.
    intros fs path out formats force overwrite Hne. unfold inject_payload.
    destruct (flookup fs path) as [a|] eqn:L; [|reflexivity].
    destruct (validate formats force) as [[]|e] eqn:V; [|reflexivity].
    destruct (inject_insertion inj a) as [a'|] eqn:I; [|reflexivity].
    destruct overwrite.
    - exists a, a'. repeat split; try reflexivity; try assumption.
      + rewrite flookup_fremove. destruct (String.eqb_spec out path); [congruence|].
        rewrite flookup_fwrite, String.eqb_refl. reflexivity.
      + rewrite flookup_fremove, String.eqb_refl. reflexivity.
      + intros p P1 P2. rewrite flookup_fremove. destruct (String.eqb_spec out p); [congruence|].
        rewrite flookup_fwrite. destruct (String.eqb_spec path p); [congruence|].
        rewrite flookup_fremove. destruct (String.eqb_spec out p); [congruence|].
        rewrite flookup_fwrite. destruct (String.eqb_spec out p); [congruence|]. reflexivity.
    - exists a, a'. repeat split; try reflexivity; try assumption.
      + rewrite flookup_fwrite. destruct (String.eqb_spec out path); [congruence|]. exact L.
      + rewrite flookup_fwrite, String.eqb_refl. reflexivity.
      + intros p P. rewrite flookup_fwrite. destruct (String.eqb_spec out p); [congruence|]. reflexivity.
  Qed.
End WithInj.

(* ================= validate_file_format ================= *)
Lemma validate_spec : forall formats force,
  validate formats force = Ok tt <->
  formats <> [] /\ (force = true \/ mem_str F_PT13 formats = true \/ mem_str F_TS14 formats = true).
Proof.
  intros formats force. destruct formats as [|f r].
  - destruct force; vm_compute; (split; [discriminate|intros [H _]; congruence]).
  - unfold validate, bind. cbv beta iota.
    destruct (mem_str F_PT13 (f :: r)) eqn:A; destruct (mem_str F_TS14 (f :: r)) eqn:B;
    destruct (mem_str F_PKL (f :: r)) eqn:C; destruct force; cbv beta iota delta [negb andb];
    (split; [first [discriminate | intros _; split; [discriminate|auto]]
            |first [reflexivity | intros [_ [H|[H|H]]]; discriminate]]).
Qed.
