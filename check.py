#!/venv/bin/python
"""Entry point of every registered check:  check.py Cnn [--tier quick|thorough] [--replay FILE]"""
import argparse
import importlib
import os
import sys

VERIF = os.path.dirname(os.path.abspath(__file__))
REPO = os.environ.get("FICKLING_REPO", "/repo")


def main():
    ap = argparse.ArgumentParser()
    ap.add_argument("property")
    ap.add_argument("--tier", default=os.environ.get("VERIF_TIER", "quick"), choices=["quick", "thorough"])
    ap.add_argument("--replay", default=None)
    args = ap.parse_args()
    seed = int(os.environ.get("VERIF_SEED", "0") or 0)
    if os.environ.get("PYTHONHASHSEED") != "0" or os.environ.get("VERIF_REEXEC") != "1":
        env = dict(os.environ)
        env["PYTHONHASHSEED"] = "0"
        env["VERIF_REEXEC"] = "1"
        env["PYTHONPATH"] = REPO + os.pathsep + os.path.join(VERIF, "harness")
        env["PYTHONDONTWRITEBYTECODE"] = "1"
        os.execve(sys.executable, [sys.executable] + sys.argv, env)
    sys.path.insert(0, os.path.join(VERIF, "harness"))
    sys.path.insert(0, REPO)
    sys.path.insert(0, VERIF)
    os.chdir(VERIF)
    mod = importlib.import_module("harness." + args.property.lower())
    if args.replay:
        return mod.replay(args.replay)
    return mod.main(args.tier, seed)


if __name__ == "__main__":
    sys.exit(main())
