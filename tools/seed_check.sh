#!/bin/bash
# usage: seed_check.sh <name> <prop> [more props...]  -- runs /verif checks against the patched worktree /tmp/st-<name>
N=$1; shift
W=/tmp/st-$N
V=${VERIF_DIR:-/verif}; cd $V
for P in "$@"; do
  s=$(date +%s)
  FICKLING_REPO=$W /venv/bin/python check.py $P --tier quick > _build/logs/seed-$N-$P.log 2>&1
  rc=$?
  v=$(grep -m1 '^VIOLATION' _build/logs/seed-$N-$P.log)
  echo "$N $P exit=$rc wall=$(( $(date +%s)-s ))s :: ${v:-no-violation}"
  git checkout -q -- evidence/$P.json 2>/dev/null
done
