#!/bin/bash
# usage: run_matrix.sh <tier> <seeds...>  -- every registered check x seeds in the CURRENT directory's /verif copy
T=$1; shift
make setup >/dev/null 2>&1 || { echo "setup failed"; exit 2; }
mkdir -p _build/logs
for s in "$@"; do
  for C in $(python3 -c "import json;print(' '.join(c['property_id'] for c in json.load(open('MANIFEST.json'))['checks']))"); do
    t0=$(date +%s)
    VERIF_SEED=$s /venv/bin/python check.py $C --tier $T > _build/logs/m-$T-$s-$C.log 2>&1; rc=$?
    echo "$T seed=$s $C exit=$rc wall=$(( $(date +%s)-t0 ))s :: $(grep -m1 '^VIOLATION' _build/logs/m-$T-$s-$C.log)"
    if [ $rc -ne 0 ]; then cp replays/$C-$s-1.json _build/logs/m-$T-$s-$C.replay.json 2>/dev/null; fi
  done
done
