#!/bin/bash
# usage: mutate.sh Cnn file 'old' 'new' [tests...]   -- applies a textual mutation to $FICKLING_REPO/file,
# runs the quick check and (optionally) repo tests, then reverts that file.
set -u
P=$1; F=$2; OLD=$3; NEW=$4; shift 4
R=${FICKLING_REPO:?}
V=$(cd "$(dirname "$0")/.." && pwd)
cp "$R/$F" "$R/$F.orig-mut"
/venv/bin/python - "$R/$F" "$OLD" "$NEW" <<'PY'
import sys
p, old, new = sys.argv[1:4]
s = open(p).read()
assert s.count(old) >= 1, "pattern not found"
open(p, "w").write(s.replace(old, new, 1))
PY
rc=$?
if [ $rc -eq 0 ]; then
  ( cd "$V" && /venv/bin/python check.py "$P" --tier quick 2>&1 | grep -v "conda.cli" | grep -E "VIOLATION|KNOWN|Error|Traceback" | cut -c1-220 ; echo "check exit: ${PIPESTATUS[0]}" )
  for t in "$@"; do ( cd "$R" && /venv/bin/python -m pytest -q -p no:cacheprovider --timeout=900 -x "$t" 2>&1 | tail -1 ); done
fi
mv "$R/$F.orig-mut" "$R/$F"
