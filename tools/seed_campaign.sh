#!/bin/bash
# Re-verify every seeded change on the CURRENT /repo HEAD and re-run its property's check against it.
# Output: one line per change.  (Phase 1 in parallel, phase 2 serial because checks share /verif/_build.)
V=${VERIF_DIR:-/verif}; cd $V
ls -d seeded/C??-? seeded/C??-r2 seeded/C??-r3 seeded/C??-r4? seeded/C??-r5? | sed 's#seeded/##' | while read id; do p=${id%-*}; echo "$p $V/seeded/$id $id"; done \
  | xargs -P 5 -L 1 tools/seed_verify.sh 2>&1 | grep -v WARNING | sort > _build/seed_campaign.verify.txt
cat _build/seed_campaign.verify.txt
for id in $(ls -d seeded/C??-? seeded/C??-r2 seeded/C??-r3 seeded/C??-r4? seeded/C??-r5? | sed 's#seeded/##'); do
  tools/seed_check.sh $id ${id%-*} 2>&1 | grep -v WARNING | cut -c1-200
  git -C /repo worktree remove --force /tmp/st-$id 2>/dev/null
done | tee _build/seed_campaign.check.txt
