#!/bin/bash
# Re-verify seeded changes on the CURRENT /repo HEAD and re-run each one's property check against it.
# usage: [VERIF_DIR=<spare worktree>] seed_campaign.sh [id ...]      (default: every seeded/C??-* directory)
# Output: one line per change.  (Phase 1 in parallel, phase 2 serial because checks share <verif dir>/_build.)
V=${VERIF_DIR:-/verif}; cd $V
if [ $# -gt 0 ]; then IDS="$@"; else IDS=$(ls -d seeded/C??-? seeded/C??-r2 seeded/C??-r3 seeded/C??-r4? seeded/C??-r5? seeded/C??-r6? seeded/C??-r7? | sed 's#seeded/##'); fi
T=$(echo $IDS | md5sum | cut -c1-6)
for id in $IDS; do p=${id%-*}; echo "$p /verif/seeded/$id $id"; done \
  | xargs -P 4 -L 1 /verif/tools/seed_verify.sh 2>&1 | grep -v WARNING | sort > _build/seed_campaign.verify.$T.txt
cat _build/seed_campaign.verify.$T.txt
for id in $IDS; do
  /verif/tools/seed_check.sh $id ${id%-*} 2>&1 | grep -v WARNING | cut -c1-200
  git -C /repo worktree remove --force /tmp/st-$id 2>/dev/null
done | tee _build/seed_campaign.check.$T.txt
