#!/venv/bin/python
"""Mutations / harmless refactors used to validate the C01 check (see notes/C01.md).
   usage: c01_mutations.py list | apply NAME        (edits $FICKLING_REPO; undo with git checkout -- .)"""
import os
import sys

REPO = os.environ.get("FICKLING_REPO", "/repo")


def sub(path, old, new, count=1):
    p = os.path.join(REPO, path)
    s = open(p).read()
    if s.count(old) < 1:
        raise SystemExit(f"pattern not found in {path}: {old[:60]!r}")
    s = s.replace(old, new, count)
    open(p, "w").write(s)


GLOBAL_RUN = '''    def run(self, interpreter: Interpreter):
        module, attr = self.module, self.attr
        if module in ("__builtin__", "__builtins__", "builtins"):'''

M = {}


def mut(f):
    M[f.__name__] = f
    return f


# ------------------------------------------------------------------ semantic breaks
@mut
def m1_importlib_validate():
    """Global.run imports the named module through importlib 'to see whether it exists'"""
    sub("fickling/fickle.py", "import ast\nimport marshal\n", "import ast\nimport importlib\nimport marshal\n")
    sub("fickling/fickle.py", GLOBAL_RUN, '''    def run(self, interpreter: Interpreter):
        module, attr = self.module, self.attr
        try:
            importlib.import_module(module)
        except Exception:
            pass
        if module in ("__builtin__", "__builtins__", "builtins"):''')


@mut
def m2_eval_constant_fold():
    """BadCalls constant-folds all-constant call arguments with eval()"""
    sub("fickling/analysis.py", '''        for node in context.pickled.properties.calls:
            shortened, already_reported = context.shorten_code(node)
            if any(shortened.startswith(f"{c}(") for c in self.BAD_CALLS):''',
        '''        for node in context.pickled.properties.calls:
            for arg in node.args:
                if type(arg).__name__ == "Constant" and isinstance(arg.value, str):
                    try:
                        arg.value = eval(arg.value, {})  # fold constant expressions
                    except Exception:
                        pass
            shortened, already_reported = context.shorten_code(node)
            if any(shortened.startswith(f"{c}(") for c in self.BAD_CALLS):''')


@mut
def m3_pickle_loads_fallback():
    """Pickled.load falls back to the real unpickler when genops chokes"""
    sub("fickling/fickle.py", '''        except ValueError as e:
            if opcodes:
                raise PickleDecodeError(e)''', '''        except ValueError as e:
            if opcodes:
                try:
                    import pickle as _p
                    pickled.seek(first_pos)
                    _p.loads(pickled.read())  # does the stock unpickler accept it?
                except Exception:
                    pass
                raise PickleDecodeError(e)''')


@mut
def m4_stackglobal_import():
    """StackGlobal.run calls __import__ on the module popped from the stack"""
    sub("fickling/fickle.py", '''        if isinstance(attr, ast.Constant):
            attr = attr.value
        if module in''', '''        if isinstance(attr, ast.Constant):
            attr = attr.value
        try:
            known = hasattr(__import__(module), attr)
        except Exception:
            known = False
        if module in''')


@mut
def m5_cache_file():
    """Pickled.load writes a cache file whose name is derived from the input content"""
    sub("fickling/fickle.py", '''        pickled = Pickled.make_stream(pickled)
        first_pos = pickled.tell()
        opcodes: List[Opcode] = []
''', '''        pickled = Pickled.make_stream(pickled)
        first_pos = pickled.tell()
        opcodes: List[Opcode] = []
        _blob = pickled.read()
        pickled.seek(first_pos)
        with open(".fickling-%08x.cache" % (hash(_blob) & 0xFFFFFFFF), "wb") as _c:
            _c.write(_blob[:16])
''')


@mut
def m6_sysmodules_getattr():
    """Inst.run resolves the named attribute on an already imported module (no import, no call)"""
    sub("fickling/fickle.py", '''        module, classname = self.module, self.cls
        if module in''', '''        module, classname = self.module, self.cls
        resolved = getattr(sys.modules.get(module), classname, None)
        if module in''')


@mut
def m7_cache_via_helper():
    """the cache write hidden behind a helper whose path parameter is computed by the caller"""
    sub("fickling/analysis.py", '''def check_safety(
    pickled: Pickled,''', '''def _save(path, text):
    with open(path, "w") as fh:
        fh.write(text)


def check_safety(
    pickled: Pickled,''')
    sub("fickling/analysis.py", '''    severity_data = results.to_dict(verbosity)
''', '''    severity_data = results.to_dict(verbosity)
    if severity_data["severity"] != "LIKELY_SAFE":
        _save("last-unsafe-%d.txt" % len(pickled), severity_data["analysis"])
''')


@mut
def m8_newobj_instantiates():
    """NewObj.run really instantiates builtin classes 'to print a nicer constant'"""
    sub("fickling/fickle.py", '''        args = interpreter.stack.pop()
        class_type = interpreter.stack.pop()
        if isinstance(args, ast.Tuple):
            interpreter.stack.append(ast.Call(class_type, list(args.elts), []))''',
        '''        args = interpreter.stack.pop()
        class_type = interpreter.stack.pop()
        if isinstance(class_type, ast.Name) and isinstance(args, ast.Tuple):
            try:
                import builtins as _b
                value = getattr(_b, class_type.id)(*[ast.literal_eval(a) for a in args.elts])
                interpreter.stack.append(make_constant(value))
                return
            except Exception:
                pass
        if isinstance(args, ast.Tuple):
            interpreter.stack.append(ast.Call(class_type, list(args.elts), []))''')


@mut
def m9_trace_find_spec():
    """Trace.on_statement looks the imported module up with importlib.util.find_spec"""
    sub("fickling/tracing.py", "import ast\n", "import ast\nimport importlib.util\n")
    sub("fickling/tracing.py", '''    def on_statement(self, statement: ast.stmt):
        print(f"\\t{unparse(statement).strip()}")''', '''    def on_statement(self, statement: ast.stmt):
        note = ""
        if isinstance(statement, ast.ImportFrom):
            try:
                note = "" if importlib.util.find_spec(statement.module) else "  # not installed"
            except Exception:
                note = "  # not installed"
        print(f"\\t{unparse(statement).strip()}{note}")''')


@mut
def m10_monkeypatch_out_of_scope():
    """a module OUTSIDE the extractor's scope (fickling/__init__.py) monkey-patches Global.run so that it
    imports the named module: invisible to the call graph, caught by the runtime monitor alone"""
    p = os.path.join(REPO, "fickling/__init__.py")
    with open(p, "a") as f:
        f.write('''
from . import fickle as _fickle
_orig_global_run = _fickle.Global.run


def _validating_run(self, interpreter):
    try:
        __import__(self.module)
    except Exception:
        pass
    return _orig_global_run(self, interpreter)


_fickle.Global.run = _validating_run
''')


@mut
def m11_step_fallback_real_vm():
    """Interpreter.step asks the real unpickler for the value when an opcode has no run() (PERSID)"""
    sub("fickling/fickle.py", '''        self.stack.opcode = opcode
        opcode.run(self)
        return opcode''', '''        self.stack.opcode = opcode
        try:
            opcode.run(self)
        except NotImplementedError:
            import pickle as _pickle
            try:
                self.stack.append(make_constant(_pickle.loads(self.pickled.dumps())))
            except Exception:
                raise NotImplementedError(f"TODO: Add support for Pickle opcode {opcode.info.name}")
        return opcode''')


@mut
def m12_load_fallback_unknown_opcode():
    """Pickled.load falls back to the stock unpickler for an opcode fickling has no class for (FLOAT, EXT1..)"""
    sub("fickling/fickle.py", '''                    opcodes.append(Opcode(info=info, argument=arg, data=data, position=pos))''',
        '''                    try:
                        opcodes.append(Opcode(info=info, argument=arg, data=data, position=pos))
                    except NotImplementedError:
                        import pickle as _pickle
                        here = pickled.tell()
                        pickled.seek(first_pos)
                        try:
                            _pickle.load(pickled)  # can the stock unpickler cope with it?
                        except Exception:
                            pass
                        pickled.seek(here)
                        raise''')


# ------------------------------------------------------------------ harmless refactors
@mut
def h1_rename_helper():
    """rename ASTProperties._process_import and Interpreter.new_variable"""
    sub("fickling/fickle.py", "_process_import", "_record_import", count=10)
    for f in ("fickling/fickle.py",):
        sub(f, "new_variable", "fresh_variable", count=50)


@mut
def h2_split_method():
    """split Reduce.run into two methods"""
    sub("fickling/fickle.py", '''    def run(self, interpreter: Interpreter):
        args = interpreter.stack.pop()
        func = interpreter.stack.pop()
        if isinstance(args, ast.Tuple):
            call = ast.Call(func, list(args.elts), [])
        else:
            call = ast.Call(func, [ast.Starred(args)], [])''', '''    @staticmethod
    def _make_call(func, args):
        if isinstance(args, ast.Tuple):
            return ast.Call(func, list(args.elts), [])
        return ast.Call(func, [ast.Starred(args)], [])

    def run(self, interpreter: Interpreter):
        args = interpreter.stack.pop()
        func = interpreter.stack.pop()
        call = self._make_call(func, args)''')


@mut
def h3_pure_helper_calls():
    """add pure helper calls (len, isinstance, ast.*, sorted, str methods)"""
    sub("fickling/fickle.py", '''        interpreter.stack.append(ast.Name(attr, ast.Load()))

    def encode(self) -> bytes:
        return f"c{self.module}''', '''        name = ast.copy_location(ast.Name(attr, ast.Load()), ast.Name(attr, ast.Load()))
        if isinstance(name, ast.Name) and len(attr) >= 0 and attr.strip() == attr.strip():
            ast.fix_missing_locations(name)
        interpreter.stack.append(name)

    def encode(self) -> bytes:
        return f"c{self.module}''')
    sub("fickling/analysis.py", '''        code = unparse(ast_node).strip()''', '''        code = unparse(ast_node).strip()
        _ = sorted(set(code.split()), key=len)''')


@mut
def h4_reorder_and_inline():
    """equivalent rewrite of Interpreter.run / Pickled.ast"""
    sub("fickling/fickle.py", '''    def run(self):
        while True:
            try:
                self.step()
            except StopIteration:
                break''', '''    def run(self):
        running = True
        while running:
            try:
                self.step()
            except StopIteration:
                running = False''')
    sub("fickling/fickle.py", '''        if self._ast is None:
            self._ast = Interpreter.interpret(self)
        return self._ast''', '''        if self._ast is not None:
            return self._ast
        self._ast = Interpreter(self).to_ast()
        return self._ast''')


if __name__ == "__main__":
    if len(sys.argv) < 2 or sys.argv[1] == "list":
        for k, f in M.items():
            print(f"{k}: {f.__doc__}")
    elif sys.argv[1] == "apply":
        M[sys.argv[2]]()
        print(f"applied {sys.argv[2]} to {REPO}")
