#!/usr/bin/env python3
"""Write MANIFEST.json from the table below (kept here so the manifest is always schema-valid)."""
import json, os
V = "/verif"
PYBIN = "/venv/bin/python"
BASE_NOTE = ("Trusted: Coq 8.16.1 kernel (vm_compute, no native_compute); table generators gen/*.py; "
             "extraction (ExtrOcamlBasic+ExtrOcamlNativeString) and the OCaml line driver for the correspondence only; "
             "harness generators/canonicalisers; CPython pickle/pickletools/ast as observed. "
             "Theorems are closed under the global context (Print Assumptions in props/*.v). ")
CLAIMED = {
    "C10": dict(
        text="Proof: Severity's six operators as implemented equal the documented ranking on all 36 pairs of the "
             "regenerated enum table (finite, vm_compute lifted by forallb_forall); severity = max of findings for "
             "finding lists of any length; every face (is_likely_safe, bool(results), loader threshold, CLI exit, JSON) is the stated "
             "function of that severity. Tie: exhaustive 216-case comparison with the live enum + differential run of "
             "all faces on generated stacked files.",
        note=BASE_NOTE + "Modelled, not verified: argparse / json / file handling of the CLI (differential only).",
        technique="Coq proof over regenerated Severity table + exhaustive/differential correspondence",
        ref="5/C10"),
}
CLAIMED["C09"] = dict(
    text="Proof: the symbolic interpreter model and the reference VM model (CPython pickle._Unpickler with inert "
         "stand-ins) both follow one abstract shape machine, per opcode, for all 36 abstract opcodes; hence for every "
         "program of any length and every prefix both accept, stack depth, mark positions, memo keys and the halted "
         "flag agree (C09_shape_lockstep); tracing reports exactly the executed prefix and ends in the untraced state. "
         "Tie: after EVERY opcode the real Interpreter.step() and an instrumented pure-Python unpickler are compared "
         "with the models on bounded-exhaustive typed programs, random typed programs, natural pickles at protocols "
         "0-5 and malformed programs; Trace.run is compared with untraced decompilation.",
    note=BASE_NOTE + "Opcode merging (families) is validated by the differential run over every concrete opcode. "
         "Where fickling consumes a MarkObject as a value the model declines (the VM rejects there; checked).",
    technique="Coq proof: both machines refine an abstract shape machine + stepwise differential correspondence",
    ref="5/C09")
CLAIMED["C03"] = dict(
    text="Proof: a simulation relation R between the reference VM and the symbolic interpreter (expressions denote VM "
         "values in the environment of fickling's variables; node i = heap object i; module body aligned one-to-one, "
         "in order, with the VM's event log) is preserved by every one of the 36 abstract opcodes, hence for every "
         "program both accept every find_class / call (REDUCE, INST, OBJ, NEWOBJ, NEWOBJ_EX) / persistent load / BUILD "
         "of the VM has its statement with the same callee and arguments (C03_events_aligned and corollaries), "
         "whatever later pops, duplicates, memoises or strands the value; opcodes without class/run are refused "
         "(table obligation over the regenerated pickletools/fickling opcode table). Tie: decompiled body and "
         "value+events, real vs model, on the program corpus; plus the property itself evaluated on the real "
         "implementation (exec of the decompiled source under inert stand-ins vs instrumented pickle._Unpickler).",
    note=BASE_NOTE + "Partial: names are related up to the attribute name (two globals with the same attribute name from "
         "different modules = known finding D14); a node mutated after an emitted statement captured it prints "
         "with final contents (known finding D15); ast.unparse / Python evaluation of the emitted text is "
         "differential only.",
    technique="Coq proof: lockstep simulation relation over all opcodes + differential correspondence + exec oracle",
    ref="5/C03")
CLAIMED["C05"] = dict(
    text="Proof, layer A: the simulation relation R gives, for every program both machines accept (any nesting, "
         "sharing, memo traffic): the decompiled program ends in `result = e` where e denotes the VM's value, every "
         "mutable node holds expressions denoting the contents of the VM's object with the same index, calls and "
         "state applications are aligned with the VM's log. Proof, layer B (PyEval.v: a mini-Python evaluator for "
         "the statement/expression subset fickling emits, over the reference VM's values/heap/events, node = "
         "display of its final contents, fresh object per display): C05_plain_data_eval -- for every call-free "
         "data program (constants, MARK/POP/POP_MARK/DUP, tuples, lists, dicts, sets, frozensets, APPEND(S), "
         "SETITEM(S), ADDITEMS, memo PUT/GET/MEMOIZE, PROTO/FRAME, STOP; any length, nesting, sharing) whose VM "
         "value is acyclic, evaluating the decompiled program succeeds, logs nothing and its result unfolds to "
         "the same tree as the VM's value; C05_eval_agrees -- with GLOBAL/STACK_GLOBAL/INST/OBJ/NEWOBJ/"
         "NEWOBJ_EX (keyword arguments included)/REDUCE/BINPERSID and BUILD/SETITEM/SETITEMS on objects or on a "
         "global itself the evaluated program's event log equals the VM's (same "
         "imports, callee, arguments, persistent ids, applied state, item assignments, order, object numbering) "
         "and the result unfolds to the same tree, under the boolean side conditions defined_before_use (D15) and "
         "distinct_attr_names (D14); C05_vm_wellformed (hashability invariant of the VM). Tie: the extracted "
         "evaluator applied to the model's decompilation vs exec(ast.unparse(Pickled.load(data).ast)) under inert "
         "stand-ins (value + event log, literal comparison) on the whole C05 corpus, plus the differential "
         "property oracle and exec(result) == original object for plain data at protocols 0-5.",
    note=BASE_NOTE + "C05_eval_agrees holds under the two boolean side conditions that stand for findings D15 and "
         "D14 (their necessity is shown by the two ..._refuted_without_... witnesses); the `keywords must be strings` "
         "check of a ** call is idealised away in RefVM and PyEval alike; "
         "observational equality compares sets/dicts by insertion history and loses sharing between displays "
         "(tree equality of final values); Python's expression semantics is modelled (PyEval.v), tied by the "
         "differential check, not verified against CPython. Known findings D14 (same attribute name), D15 "
         "(mutation after capture), D17 (BUILD on a plain value), D23 (non-identifier global names decompile to "
         "invalid Python); D22 (SETITEMS on an object) repaired.",
    technique="Coq proof: lockstep simulation (layer A) + evaluator soundness by induction on fuel / events "
              "(layer B) + differential exec of decompiled source vs extracted evaluator",
    ref="5/C05")
# entries proposed in notes/Cnn.md (written by the builders of those checks) are picked up verbatim
import glob, re as _re
for _f in sorted(glob.glob(os.path.join(V, "notes", "C*.md"))):
    _t = open(_f).read()
    for _m in _re.finditer(r'^CLAIMED\["(C\d+)"\] = dict\(', _t, _re.M):
        _i = _m.end(); _d = 1
        while _d and _i < len(_t):
            _c = _t[_i]
            if _c == '"':
                _j = _i + 1
                while _t[_j] != '"' or _t[_j - 1] == "\\":
                    _j += 1
                _i = _j
            elif _c == "(":
                _d += 1
            elif _c == ")":
                _d -= 1
            _i += 1
        if _m.group(1) not in CLAIMED:
            exec(_t[_m.start():_i], {"CLAIMED": CLAIMED, "BASE_NOTE": BASE_NOTE})
REASON_PENDING = "not claimed yet: model/theorem under construction in this round (see DESIGN.md section 5)"
ALL = [f"C{i:02d}" for i in range(1, 20)]

def main():
    checks = []
    for pid in ALL:
        if pid not in CLAIMED:
            continue
        c = CLAIMED[pid]
        checks.append({
            "property_id": pid,
            "quick_cmd": f"{PYBIN} {V}/check.py {pid} --tier quick",
            "thorough_cmd": f"{PYBIN} {V}/check.py {pid} --tier thorough",
            "evidence_file": f"{V}/evidence/{pid}.json",
            "replay_cmd_template": f"{PYBIN} {V}/check.py {pid} --replay {{path}}",
            "engine": "coq-model+correspondence",
            "level_claimed": {"category": "proof", "text": c["text"], "design_ref": c["ref"]},
            "level_note": c["note"],
            "technique": c["technique"],
        })
    man = {
        "version": 1,
        "setup_cmd": f"make -C {V} setup",
        "hooks": {
            "guard": "FICKLING_VERIF",
            "enable": "none needed: the harness observes from outside (audit hooks, Interpreter.step, subclassing pickle._Unpickler)",
            "baseline_off_cmd": "cd /repo && /venv/bin/python -m pytest -ra -q -p no:cacheprovider --timeout=900 --continue-on-collection-errors",
            "source_commits": [],
            "add_only": True,
        },
        "engines": [{
            "name": "coq-model+correspondence",
            "path": f"{V}/check.py",
            "serves_properties": sorted(CLAIMED),
            "kind_free_text": "Coq 8.16 theorems over a Gallina model (tables regenerated from /repo each run) + "
                              "extracted-model differential correspondence + model-free oracle search on failure",
        }],
        "checks": checks,
        "not_applicable": [{"property_id": p, "reason": REASON_PENDING} for p in ALL if p not in CLAIMED],
        "notes": "See DESIGN.md. KNOWN_FINDINGS.jsonl lists recorded defects and fix: commits.",
    }
    with open(os.path.join(V, "MANIFEST.json"), "w") as f:
        json.dump(man, f, indent=1)
    import jsonschema  # noqa
    jsonschema.validate(man, json.load(open("/root/.vp/MANIFEST.schema.json")))
    print("MANIFEST.json written and valid;", len(checks), "checks")

if __name__ == "__main__":
    main()
