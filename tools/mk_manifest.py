#!/usr/bin/env python3
"""Write MANIFEST.json from the table below (kept here so the manifest is always schema-valid)."""
import json, os
V = "/verif"
PYBIN = "/venv/bin/python"
BASE_NOTE = ("Trusted: Coq 8.16.1 kernel (vm_compute, no native_compute); table generators gen/*.py; "
             "extraction (ExtrOcamlBasic+ExtrOcamlNativeString) and the OCaml line driver for the correspondence only; "
             "harness generators/canonicalisers; CPython pickle/pickletools/ast as observed. "
             "Theorems are closed under the global context (Print Assumptions in props/*.v). ")
CLAIMED = {
    "C10": dict(
        text="Proof: Severity's six operators as implemented equal the documented ranking on all 36 pairs of the "
             "regenerated enum table (finite, vm_compute lifted by forallb_forall); severity = max of findings for "
             "finding lists of any length; every face (is_likely_safe, loader threshold, CLI exit, JSON) is the stated "
             "function of that severity. Tie: exhaustive 216-case comparison with the live enum + differential run of "
             "all faces on generated stacked files.",
        note=BASE_NOTE + "Modelled, not verified: argparse / json / file handling of the CLI (differential only).",
        technique="Coq proof over regenerated Severity table + exhaustive/differential correspondence",
        ref="5/C10"),
}
REASON_PENDING = "not claimed yet: model/theorem under construction in this round (see DESIGN.md section 5)"
ALL = [f"C{i:02d}" for i in range(1, 20)]

def main():
    checks = []
    for pid in ALL:
        if pid not in CLAIMED:
            continue
        c = CLAIMED[pid]
        checks.append({
            "property_id": pid,
            "quick_cmd": f"{PYBIN} {V}/check.py {pid} --tier quick",
            "thorough_cmd": f"{PYBIN} {V}/check.py {pid} --tier thorough",
            "evidence_file": f"{V}/evidence/{pid}.json",
            "replay_cmd_template": f"{PYBIN} {V}/check.py {pid} --replay {{path}}",
            "engine": "coq-model+correspondence",
            "level_claimed": {"category": "proof", "text": c["text"], "design_ref": c["ref"]},
            "level_note": c["note"],
            "technique": c["technique"],
        })
    man = {
        "version": 1,
        "setup_cmd": f"make -C {V} setup",
        "hooks": {
            "guard": "FICKLING_VERIF",
            "enable": "none needed: the harness observes from outside (audit hooks, Interpreter.step, subclassing pickle._Unpickler)",
            "baseline_off_cmd": "cd /repo && /venv/bin/python -m pytest -ra -q -p no:cacheprovider --timeout=900 --continue-on-collection-errors",
            "source_commits": [],
            "add_only": True,
        },
        "engines": [{
            "name": "coq-model+correspondence",
            "path": f"{V}/check.py",
            "serves_properties": sorted(CLAIMED),
            "kind_free_text": "Coq 8.16 theorems over a Gallina model (tables regenerated from /repo each run) + "
                              "extracted-model differential correspondence + model-free oracle search on failure",
        }],
        "checks": checks,
        "not_applicable": [{"property_id": p, "reason": REASON_PENDING} for p in ALL if p not in CLAIMED],
        "notes": "See DESIGN.md. KNOWN_FINDINGS.jsonl lists recorded defects and fix: commits.",
    }
    with open(os.path.join(V, "MANIFEST.json"), "w") as f:
        json.dump(man, f, indent=1)
    import jsonschema  # noqa
    jsonschema.validate(man, json.load(open("/root/.vp/MANIFEST.schema.json")))
    print("MANIFEST.json written and valid;", len(checks), "checks")

if __name__ == "__main__":
    main()
