#!/bin/bash
# usage: seed_verify.sh <prop e.g. C06> <change dir with patch.diff demo.py> <name>
# Phase 1 (parallel-safe): confirm a seeded change: demo passes on pristine, patch applies, the 41
# baseline tests still pass, demo fails with the patch.  Leaves the patched worktree at /tmp/st-<name>.
P=$1; D=$2; N=$3
W=/tmp/st-$N
git -C /repo worktree remove --force $W 2>/dev/null
git -C /repo worktree add -q --detach $W HEAD || exit 9
cd $W
PYTHONPATH=$W timeout 900 /venv/bin/python $D/demo.py >/tmp/st-$N.demo0.log 2>&1; d0=$?
git apply $D/patch.diff || { echo "$N patch-does-not-apply"; exit 8; }
t=$(timeout 1800 /venv/bin/python -m pytest -q -p no:cacheprovider --timeout=900 test/ 2>&1 | tail -1)
PYTHONPATH=$W timeout 900 /venv/bin/python $D/demo.py >/tmp/st-$N.demo1.log 2>&1; d1=$?
echo "$N prop=$P demo_pristine=$d0 demo_patched=$d1 tests: $t"
