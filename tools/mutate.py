#!/usr/bin/env python3
"""Mechanical mutation campaign (complements the agent-written seeded changes).

usage: mutate.py gen <repo> <outdir> <n> <seed>     write n single-point mutants of <repo>/fickling/*.py as
                                                    <outdir>/mNNN.diff (+ mNNN.json: file, line, operator)
Operators (each changes one token / one statement, found with `ast`, applied textually so the diff is minimal):
  cmp    == <-> !=, < <-> <=, > <-> >=, in <-> not in, is <-> is not
  bool   and <-> or
  not    `if c:` / `while c:` / `elif c:`  ->  `if not (c):`
  const  small int literal n -> n+1 (0 -> 1), True <-> False
  del    an expression statement or a plain assignment inside a function body -> `pass`
  ret    `return <expr>` -> `return None`
  idx    a subscript index / slice bound literal n -> n+1
Docstrings, type annotations, `__all__`, logging / print calls and the big data tables (ML_ALLOWLIST,
UNSAFE_IMPORTS, ...) are skipped: mutating them gives mostly equivalent or out-of-scope mutants.
The campaign driver (tools/mutation_run.sh) keeps only mutants with which the repository's pinned suite still
passes, and runs the checks that cover the mutated file until one reports a violation."""
import ast
import json
import os
import random
import subprocess
import sys

FILES = {  # file -> sampling weight
    "fickle.py": 10, "analysis.py": 5, "loader.py": 2, "hook.py": 2, "context.py": 1, "ml.py": 2,
    "cli.py": 2, "polyglot.py": 2, "pytorch.py": 2, "tracing.py": 1,
}
SKIP_CALLS = {"print", "warn", "warning", "debug", "info", "error", "write"}


def segment(src_lines, node):
    if node.lineno != node.end_lineno:
        return None
    return src_lines[node.lineno - 1][node.col_offset:node.end_col_offset]


def points(path):
    src = open(path).read()
    lines = src.split("\n")
    tree = ast.parse(src)
    out = []

    def add(op, lineno, c0, c1, new, line_end=None):
        out.append({"op": op, "line": lineno, "c0": c0, "c1": c1, "new": new})

    big_tables = set()
    for n in ast.walk(tree):
        if isinstance(n, (ast.Assign, ast.AnnAssign)) and isinstance(getattr(n, "value", None), (ast.Dict, ast.List, ast.Tuple, ast.Set)):
            if n.end_lineno - n.lineno > 6:
                big_tables.add((n.lineno, n.end_lineno))

    def in_table(node):
        return any(a <= node.lineno <= b for a, b in big_tables)

    parents = {}
    for p in ast.walk(tree):
        for c in ast.iter_child_nodes(p):
            parents[c] = p

    def in_annotation(node):
        while node in parents:
            p = parents[node]
            if isinstance(p, ast.arg) and p.annotation is node:
                return True
            if isinstance(p, ast.AnnAssign) and p.annotation is node:
                return True
            if isinstance(p, (ast.FunctionDef, ast.AsyncFunctionDef)) and p.returns is node:
                return True
            node = p
        return False

    for n in ast.walk(tree):
        if not hasattr(n, "lineno") or in_table(n):
            continue
        if isinstance(n, ast.Compare) and len(n.ops) == 1 and n.lineno == n.end_lineno:
            l, r = n.left, n.comparators[0]
            if l.end_lineno != r.lineno or l.end_lineno != n.lineno:
                continue
            mid = lines[n.lineno - 1][l.end_col_offset:r.col_offset]
            swaps = {"==": "!=", "!=": "==", "<": "<=", "<=": "<", ">": ">=", ">=": ">", "not in": "in", "in": "not in",
                     "is not": "is", "is": "is not"}
            tok = mid.strip()
            if tok in swaps and mid.count(tok) == 1:
                c0 = l.end_col_offset + mid.index(tok)
                add("cmp", n.lineno, c0, c0 + len(tok), swaps[tok])
        elif isinstance(n, ast.BoolOp) and n.lineno == n.end_lineno and len(n.values) == 2:
            l, r = n.values
            mid = lines[n.lineno - 1][l.end_col_offset:r.col_offset]
            tok = "and" if isinstance(n.op, ast.And) else "or"
            if mid.strip() == tok:
                c0 = l.end_col_offset + mid.index(tok)
                add("bool", n.lineno, c0, c0 + len(tok), "or" if tok == "and" else "and")
        elif isinstance(n, (ast.If, ast.While)) and n.test.lineno == n.test.end_lineno:
            t = n.test
            add("not", t.lineno, t.col_offset, t.end_col_offset, "not (" + segment(lines, t) + ")")
        elif isinstance(n, ast.Constant) and not in_annotation(n) and n.lineno == n.end_lineno:
            if isinstance(n.value, bool):
                add("const", n.lineno, n.col_offset, n.end_col_offset, "False" if n.value else "True")
            elif isinstance(n.value, int) and 0 <= n.value <= 4096:
                seg = segment(lines, n)
                if seg and seg.isdigit():
                    p = parents.get(n)
                    op = "idx" if isinstance(p, (ast.Subscript, ast.Slice)) else "const"
                    add(op, n.lineno, n.col_offset, n.end_col_offset, str(n.value + 1))
        elif isinstance(n, ast.Return) and n.value is not None and n.lineno == n.end_lineno \
                and not (isinstance(n.value, ast.Constant) and n.value.value is None):
            add("ret", n.lineno, n.value.col_offset, n.value.end_col_offset, "None")
        elif isinstance(n, (ast.Expr, ast.Assign, ast.AugAssign)) and n.lineno == n.end_lineno:
            p = parents.get(n)
            inside_fn = False
            q = n
            while q in parents:
                q = parents[q]
                if isinstance(q, (ast.FunctionDef, ast.AsyncFunctionDef)):
                    inside_fn = True
                    break
            if not inside_fn:
                continue
            if isinstance(n, ast.Expr):
                v = n.value
                if isinstance(v, ast.Constant):
                    continue            # docstring
                if isinstance(v, ast.Call):
                    f = v.func
                    name = f.id if isinstance(f, ast.Name) else (f.attr if isinstance(f, ast.Attribute) else "")
                    if name in SKIP_CALLS:
                        continue
                if isinstance(v, (ast.Yield, ast.YieldFrom, ast.Await)):
                    pass
            add("del", n.lineno, n.col_offset, n.end_col_offset, "pass")
    return lines, out


def make(repo, outdir, n, seed):
    rng = random.Random(seed)
    os.makedirs(outdir, exist_ok=True)
    pool = []
    for f, w in FILES.items():
        path = os.path.join(repo, "fickling", f)
        lines, pts = points(path)
        for p in pts:
            pool.append((f, w / max(1, len(pts)), p))
    # sample without replacement, weight per file spread over its points
    chosen, seen = [], set()
    weights = [w for _, w, _ in pool]
    while len(chosen) < n and len(seen) < len(pool):
        i = rng.choices(range(len(pool)), weights)[0]
        if i in seen:
            continue
        seen.add(i)
        chosen.append(pool[i])
    k = 0
    for f, _, p in chosen:
        path = os.path.join(repo, "fickling", f)
        src = open(path).read()
        lines = src.split("\n")
        ln = lines[p["line"] - 1]
        new_ln = ln[:p["c0"]] + p["new"] + ln[p["c1"]:]
        if new_ln == ln:
            continue
        lines2 = list(lines)
        lines2[p["line"] - 1] = new_ln
        new_src = "\n".join(lines2)
        try:
            compile(new_src, path, "exec")
        except SyntaxError:
            continue
        open(path, "w").write(new_src)
        diff = subprocess.run(["git", "-C", repo, "diff"], capture_output=True, text=True).stdout
        open(path, "w").write(src)
        if not diff.strip():
            continue
        k += 1
        name = f"m{k:03d}"
        open(os.path.join(outdir, name + ".diff"), "w").write(diff)
        json.dump({"file": f, "line": p["line"], "op": p["op"], "old": ln.strip(), "new": new_ln.strip()},
                  open(os.path.join(outdir, name + ".json"), "w"), indent=1)
    print(f"{k} mutants written to {outdir} (pool {len(pool)} mutation points)")


if __name__ == "__main__":
    if sys.argv[1] == "gen":
        make(sys.argv[2], sys.argv[3], int(sys.argv[4]), int(sys.argv[5]))
