#!/bin/bash
# usage: mutation_run.sh <verif dir> <mutant dir> <name>...   -- for each mutant (tools/mutate.py): apply to a scratch
# worktree of /repo; keep it only if the pinned suite still gives "4 failed, 41 passed"; run the checks covering
# the mutated file (most likely first) until one reports a violation.  One result line per mutant.
V=$1; M=$2; shift; shift
declare -A CHECKS=(
 [fickle.py]="C05 C03 C09 C06 C08 C14 C15 C13 C18 C04 C19 C01 C02 C10"
 [analysis.py]="C04 C19 C10 C13 C02 C08 C14 C01"
 [loader.py]="C02 C10 C19 C12 C06"
 [hook.py]="C12 C07 C11 C02"
 [context.py]="C12 C02"
 [ml.py]="C07 C11 C04 C19"
 [cli.py]="C18 C10 C01"
 [polyglot.py]="C17 C16 C01"
 [pytorch.py]="C16 C17"
 [tracing.py]="C09 C13 C18 C01"
)
mkdir -p $V/_build/logs
for N in "$@"; do
  W=/tmp/mu-$N
  F=$(python3 -c "import json;print(json.load(open('$M/$N.json'))['file'])")
  git -C /repo worktree remove --force $W 2>/dev/null
  git -C /repo worktree add -q --detach $W HEAD || exit 9
  ( cd $W && git apply $M/$N.diff ) || { echo "$N $F patch-does-not-apply"; git -C /repo worktree remove --force $W; continue; }
  t=$(cd $W && timeout 600 /venv/bin/python -m pytest -q -p no:cacheprovider --timeout=300 test/ 2>&1 | tail -1)
  case "$t" in
    *"4 failed, 41 passed"*) ;;
    *) echo "$N $F killed-by-tests :: $(echo $t | cut -c1-60)"; git -C /repo worktree remove --force $W; continue;;
  esac
  res="SURVIVED"
  for C in ${CHECKS[$F]}; do
    ( cd $V && VERIF_WALL_LIMIT=900 FICKLING_REPO=$W /venv/bin/python check.py $C --tier quick > _build/logs/mu-$N-$C.log 2>&1 ); rc=$?
    v=$(grep -m1 '^VIOLATION' $V/_build/logs/mu-$N-$C.log)
    ( cd $V && git checkout -q -- evidence 2>/dev/null )
    if [ $rc -ne 0 ]; then
      case "$v" in *no-failing-input-found) res="caught-by=$C (no-failing-input-found)";; *) res="caught-by=$C";; esac
      break
    fi
  done
  echo "$N $F $res :: $(python3 -c "import json;d=json.load(open('$M/$N.json'));print(d['op'],d['line'],'|',d['old'][:70],'=>',d['new'][:70])")"
  git -C /repo worktree remove --force $W
done
