#!/bin/bash
# usage: refactor_run.sh <verif dir> <patch file>...   -- run every registered check against /repo + patch (a harmless refactor):
# every check must exit 0 with no VIOLATION line.
V=$1; shift
for P in "$@"; do
  N=$(basename $P .diff)
  W=/tmp/rf-$N
  git -C /repo worktree remove --force $W 2>/dev/null
  git -C /repo worktree add -q --detach $W HEAD || exit 9
  ( cd $W && git apply $P ) || { echo "$N patch-does-not-apply"; continue; }
  mkdir -p $V/_build/logs
  for C in $(python3 -c "import json;print(' '.join(c['property_id'] for c in json.load(open('/verif/MANIFEST.json'))['checks']))"); do
    s=$(date +%s)
    ( cd $V && FICKLING_REPO=$W /venv/bin/python check.py $C --tier quick > _build/logs/rf-$N-$C.log 2>&1 ); rc=$?
    v=$(grep -m1 '^VIOLATION' $V/_build/logs/rf-$N-$C.log)
    echo "$N $C exit=$rc wall=$(( $(date +%s)-s ))s :: ${v:-ok}"
  done
  git -C /repo worktree remove --force $W
done
