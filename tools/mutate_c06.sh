#!/bin/bash
# Apply ONE textual mutation to $R/fickling/fickle.py ("old=====new"), run the C06 quick check, replay, revert.
# R=<repo worktree> V=<framework worktree> tools/mutate_c06.sh <name> "<old>=====<new>"
R=${R:-/repo}; V=${V:-/verif}
export R V
name=$1
cd $R && git checkout -q -- . 
/venv/bin/python - "$2" <<'PY'
import sys
import os; p=os.environ.get('R','/repo')+'/fickling/fickle.py'
s=open(p).read()
old,new=sys.argv[1].split('=====')
assert s.count(old)==1, s.count(old)
s=s.replace(old,new)
open(p,'w').write(s)
PY
[ $? -ne 0 ] && { echo "MUTATION FAILED TO APPLY"; exit 1; }
cd $V && export FICKLING_REPO=$R
start=$(date +%s)
out=$(/venv/bin/python check.py C06 --tier quick 2>&1 | grep -v WARNING | cut -c1-300)
rc=$?
end=$(date +%s)
echo "== $name : $((end-start))s"
echo "$out" | grep -E "VIOLATION|KNOWN" | cut -c1-160
rep=$(echo "$out" | grep -oE "replay=[^ ]+" | head -1 | cut -d= -f2)
if [ -n "$rep" ]; then /venv/bin/python - "$rep" <<'PY'
import json,sys
d=json.load(open(sys.argv[1]))
print("  what:", d['what_broke'][:200])
c=d.get('case')
if c: print("  case:", c.get('mode'), c.get('fam'), c.get('delivery'), c.get('off'), (c.get('hex') or '')[:80], "| oracle:", c.get('oracle'))
PY
/venv/bin/python check.py C06 --replay $rep 2>&1 | grep -v WARNING | cut -c1-200 | head -3
fi
cd $R && git checkout -q -- .
