#!/bin/bash
# The C06 mutation list (notes/C06.md (c)), on the REPAIRED tree (fickle._RecordingReader present).
#   R=<scratch worktree of /repo at the repaired commit> V=<framework worktree> tools/mutate_c06_list.sh [name ...]
# Each entry: name, "old=====new" for tools/mutate_c06.sh (applies it to $R/fickling/fickle.py, runs the quick
# check with FICKLING_REPO=$R, replays, reverts with git checkout).  NEVER point R at /repo itself.
R=${R:?scratch worktree}; V=${V:-$(cd "$(dirname "$0")/.." && pwd)}
export R V
declare -A M
M[M1]='opcodes[-1].data = pickled.read(pos - opcodes[-1].pos)=====n_ = pos - opcodes[-1].pos; opcodes[-1].data = pickled.read(n_ - 1 if n_ > 0x10004 else n_)'
M[M1b]='opcodes[-1].data = pickled.read(pos - opcodes[-1].pos)=====n_ = pos - opcodes[-1].pos; opcodes[-1].data = pickled.read(n_ - 1 if n_ == 260 else n_)'
M[M2]='                    # Need to reset the position within the file so as not to confuse genops
                    pickled.seek(pos_before)=====                    pass'
M[M3]='                    last_pos = opcodes[-1].pos + len(opcodes[-1].info.code)=====                    last_pos = opcodes[-1].pos'
M[M4]='if isinstance(data, (bytes, bytearray, ByteString)):=====if isinstance(data, bytes):'
M[M5]='            except EmptyPickleError:
                break
        if not pickles:=====            except PickleDecodeError:
                break
        if not pickles:'
M[M7]='        for opcode in self:
            b.extend(opcode.data)=====        for opcode in self:
            if opcode.has_data():
                b.extend(opcode.data)'
M[M8]='                        data = pickled.read(len(info.code) + info.arg.n)
                        if len(data) != len(info.code) + info.arg.n:=====                        data = pickled.read(len(info.code) + info.arg.n - (info.name == "LONG_BINPUT"))
                        if len(data) != len(info.code) + info.arg.n - (info.name == "LONG_BINPUT"):'
M[M9]='            data = _RecordingReader(data)
        return data=====            data = _RecordingReader(data)
        else:
            data.seek(0)
        return data'
M[M10]='opcodes[-1].data = pickled.read(pos - opcodes[-1].pos)=====opcodes[-1].data = pickled.read(min(pos - opcodes[-1].pos, 0x10004))'
M[M11]='            data = _RecordingReader(data)=====            data = BytesIO(data.read(1 << 16))'
M[M12]='        for opcode in self:
            file.write(opcode.data)=====        for opcode in self._opcodes[:-1]:
            file.write(opcode.data)'
M[M13]='            if opcodes:
                raise PickleDecodeError(e)=====            if len(opcodes) > 1:
                raise PickleDecodeError(e)'
M[M6]='                        and opcodes[-1].pos < pos=====                        and opcodes[-1].pos <= pos'
M[H1]='                        opcodes[-1].data = pickled.read(pos - opcodes[-1].pos)=====                        chunk_ = pickled.read(pos - opcodes[-1].pos)
                        opcodes[-1].data = bytes(chunk_)'
M[H2]='                        if pos is not None:
                            data = None
                        else:=====                        if pos is not None:
                            data = pickled.read(1)
                        else:'
# ---- the recording reader (repair of D12) ----
# N0: the repair reverted (= the unrepaired tree)
M[N0]='            data = _RecordingReader(data)=====            data = BytesIO(data.read())'
# N1: look-ahead: read(n) takes one byte more than asked from the caller's stream
M[N1]='chunk = self._stream.read(min(self._pos + n - len(self._seen), 1 << 20))=====chunk = self._stream.read(min(self._pos + n - len(self._seen), 1 << 20) + 1)'
# N1b: look-ahead in readline only: after the line, one more byte is taken
M[N1b]='                self._seen += self._stream.readline()=====                self._seen += self._stream.readline() + self._stream.read(1)'
# N2: tell() off by one
M[N2]='    def tell(self) -> int:
        return self._pos=====    def tell(self) -> int:
        return self._pos + 1'
# N2b: tell() off by one only once something has been read
M[N2b]='    def tell(self) -> int:
        return self._pos=====    def tell(self) -> int:
        return self._pos + (1 if self._pos > 40 else 0)'
# N3: a re-read after seek() is served from the underlying stream instead of the recorded bytes
M[N3]='        while len(self._seen) < self._pos + n:=====        if self._pos < len(self._seen):
            return self._stream.read(n)
        while len(self._seen) < self._pos + n:'
# N4: make_stream falls back to read() for streams without a seekable attribute
M[N4]='            data = _RecordingReader(data)=====            data = _RecordingReader(data) if hasattr(data, "seekable") else BytesIO(data.read())'
# N5: short reads of the underlying stream are not completed
M[N5]='            if not chunk:
                break
            self._seen += chunk
        return self._take(self._pos + n)=====            self._seen += chunk
            break
        return self._take(self._pos + n)'
# N6: the reader says it is not seekable, so StackedPickle.load's inner Pickled.load wraps it again
M[N6]='    def seekable(self) -> bool:
        return True=====    def seekable(self) -> bool:
        return False'
# N7: bytes handed out are not all recorded (the buffer is cut at 64 KiB)
M[N7]='            self._seen += chunk
        return self._take(self._pos + n)=====            self._seen += chunk[: max(0, (1 << 16) - len(self._seen))] if len(chunk) > 8 else chunk
        return self._take(self._pos + n)'
# N8: readline without the underlying readline stops one byte early (fallback path drops the newline test)
M[N8]='byte = self._stream.read(1) if byte != b"\n" else b""=====byte = self._stream.read(1) if byte not in (b"\n", b"a") else b""'
# harmless: rename + local in the reader
M[H3]='        data = bytes(self._seen[self._pos : end])
        self._pos += len(data)
        return data=====        start_ = self._pos
        out_ = bytes(self._seen[start_:end])
        self._pos = start_ + len(out_)
        return out_'
ORDER="M1 M1b M2 M3 M4 M5 M7 M8 M9 M10 M11 M12 M13 M6 H1 H2 N0 N1 N1b N2 N2b N3 N4 N5 N6 N7 N8 H3"
[ $# -gt 0 ] && ORDER="$*"
for n in $ORDER; do
  bash "$V/tools/mutate_c06.sh" "$n" "${M[$n]}"
done
