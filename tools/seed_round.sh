#!/bin/bash
# usage: seed_round.sh <round tag e.g. r4> <verif dir> <cNN>...  -- import the changes a seeding agent left in
# /tmp/seed-out/<cNN>/<round>/change{1,2}, confirm each (tools/seed_verify.sh) and run its property's check.
R=$1; V=$2; shift; shift
for c in "$@"; do
  P=$(echo $c | tr a-z A-Z)
  for n in 1 2; do
    S=/tmp/seed-out/$c/$R/change$n
    [ -f $S/patch.diff ] || continue
    id=$P-$R$( [ $n = 1 ] && echo a || echo b )
    mkdir -p /verif/seeded/$id
    cp $S/patch.diff $S/demo.py $S/README.md /verif/seeded/$id/ 2>/dev/null
    /verif/tools/seed_verify.sh $P /verif/seeded/$id $id 2>&1 | grep -v WARNING | tail -1
    VERIF_DIR=$V /verif/tools/seed_check.sh $id $P 2>&1 | grep -v WARNING | cut -c1-220
    git -C /repo worktree remove --force /tmp/st-$id 2>/dev/null
  done
done
