(* Line-protocol driver: each stdin line is one S-expression; the answer of the extracted
   Gallina function Model.handle is printed on one stdout line.  Trusted for the
   correspondence check only, never for a theorem. *)
open Model

let parse (s : string) : sexp =
  let n = String.length s in
  let pos = ref 0 in
  let rec skip () = if !pos < n && (s.[!pos] = ' ' || s.[!pos] = '\t') then (incr pos; skip ()) in
  let rec item () : sexp =
    skip ();
    if !pos >= n then failwith "eof"
    else if s.[!pos] = '(' then begin
      incr pos;
      let acc = ref [] in
      let fin = ref false in
      while not !fin do
        skip ();
        if !pos >= n then failwith "unclosed"
        else if s.[!pos] = ')' then (incr pos; fin := true)
        else acc := item () :: !acc
      done;
      SList (List.rev !acc)
    end else begin
      let st = !pos in
      while !pos < n && s.[!pos] <> ' ' && s.[!pos] <> '(' && s.[!pos] <> ')' do incr pos done;
      Atom (String.sub s st (!pos - st))
    end
  in
  item ()

let () =
  try
    while true do
      let line = input_line stdin in
      let out =
        try handle (parse line)
        with Failure m -> "!driver " ^ m
           | Stack_overflow -> "!driver stack-overflow"
      in
      print_string out; print_char '\n'; flush stdout
    done
  with End_of_file -> ()
