"""C15 -- injected constants and constructed opcodes mean what was asked, or are refused.

Correspondence (model = coq/model/Const.v, extracted; real = the live fickling):
  new     ConstantOpcode.new(v): chosen class, stored argument, encode() bytes or exception class
  build   Pickled._encode_python_obj(v): opcode classes, joined bytes or exception class, and what the
          stock unpickler returns for those bytes
  enc     every Opcode subclass constructed with representative arguments: encode() bytes or exception
          class, the first pickletools.genops token of those bytes, and whether it is that opcode with
          that argument
  create  main(["", "-", "--create", src]): the bytes written
Model-free oracle (the property itself):
  value   a pickle calling verif_sink.record(v) is built with insert_python / append_python and loaded
          with the stock pickle.loads: the sink received an equal value of the same types, or building
          raised
  opcode  pickletools.genops over opcode.encode() yields that opcode with that argument and nothing is
          left over, or encode() raised
The model describes the tree with D7 (Int/ConstantInt.validate) and the D13 encoder repairs applied; all
C15 entries of KNOWN_FINDINGS.jsonl are "fixed", so any of those defects showing up again is a VIOLATION.
(On a tree without the D7 repair every disagreement that disappears when exactly those two validators are
wrapped with the repaired type test is attributed to signature int-validate-coerces.)"""
import contextlib
import io
import json
import os
import pickle
import pickletools
import struct
import sys

from harness.common import Check, Driver, report_broken_obligations, sx

# ----------------------------------------------------------------------------- values

def fbits(x):
    return struct.unpack(">Q", struct.pack(">d", x))[0]


def fbits_to_float(b):
    return struct.unpack(">d", struct.pack(">Q", b))[0]


def encodable(s):
    try:
        s.encode("utf-8")
        return True
    except UnicodeEncodeError:
        return False


def in_model(v):
    """every value has a model counterpart (text travels as its surrogatepass UTF-8 bytes)"""
    if isinstance(v, str):
        return True
    if isinstance(v, list):
        return all(in_model(x) for x in v)
    if isinstance(v, dict):
        return all(in_model(k) and in_model(x) for k, x in v.items())
    return True


def to_sx(v):
    if isinstance(v, bool):
        return ["b", "T" if v else "F"]
    if isinstance(v, int):
        return ["i", str(v)]
    if isinstance(v, float):
        return ["f", str(fbits(v))]
    if isinstance(v, str):
        return ["s", "h" + v.encode("utf-8", "surrogatepass").hex()]
    if isinstance(v, bytes):
        return ["y", "h" + v.hex()]
    if isinstance(v, list):
        return ["l"] + [to_sx(x) for x in v]
    if isinstance(v, dict):
        return ["d"] + [[to_sx(k), to_sx(x)] for k, x in v.items()]
    return ["o"]


def show(v):
    """Mirror of DispatchConst.show_pv."""
    if isinstance(v, bool):
        return "bT" if v else "bF"
    if isinstance(v, int):
        return "i" + str(v)
    if isinstance(v, float):
        return "f" + str(fbits(v))
    if isinstance(v, str):
        return "sh" + v.encode("utf-8", "surrogatepass").hex()
    if isinstance(v, bytes):
        return "yh" + v.hex()
    if isinstance(v, list):
        return "l[" + ",".join(show(x) for x in v) + "]"
    if isinstance(v, dict):
        return "d[" + ",".join(show(k) + ":" + show(x) for k, x in v.items()) + "]"
    return "o"


def same(a, b):
    """equal value of the same kind, recursively; floats bitwise"""
    if type(a) is not type(b):
        return False
    if isinstance(a, float):
        return fbits(a) == fbits(b)
    if isinstance(a, list):
        return len(a) == len(b) and all(same(x, y) for x, y in zip(a, b))
    if isinstance(a, dict):
        return len(a) == len(b) and all(same(k1, k2) and same(v1, v2)
                                        for (k1, v1), (k2, v2) in zip(a.items(), b.items()))
    return a == b


def to_json(v):
    if isinstance(v, bool):
        return {"bool": v}
    if isinstance(v, int):
        return {"int": str(v)}
    if isinstance(v, float):
        return {"float_bits": fbits(v)}
    if isinstance(v, str):
        return {"str_utf8_hex": v.encode("utf-8", "surrogatepass").hex()}
    if isinstance(v, bytes):
        return {"bytes_hex": v.hex()}
    if isinstance(v, list):
        return {"list": [to_json(x) for x in v]}
    if isinstance(v, dict):
        return {"dict": [[to_json(k), to_json(x)] for k, x in v.items()]}
    if isinstance(v, tuple):
        return {"tuple": [to_json(x) for x in v]}
    if v is None:
        return {"none": True}
    return {"other": repr(v)}


def from_json(j):
    if "bool" in j:
        return j["bool"]
    if "int" in j:
        return int(j["int"])
    if "float_bits" in j:
        return fbits_to_float(j["float_bits"])
    if "str_utf8_hex" in j:
        return bytes.fromhex(j["str_utf8_hex"]).decode("utf-8", "surrogatepass")
    if "bytes_hex" in j:
        return bytes.fromhex(j["bytes_hex"])
    if "list" in j:
        return [from_json(x) for x in j["list"]]
    if "dict" in j:
        return {from_json(k): from_json(x) for k, x in j["dict"]}
    if "tuple" in j:
        return tuple(from_json(x) for x in j["tuple"])
    if "none" in j:
        return None
    return object()


INT_EDGES = sorted({s * (2 ** k + d) for k in (0, 7, 8, 15, 16, 31, 32, 63, 64, 200)
                    for d in (-1, 0, 1) for s in (1, -1)} | {10 ** 30, -10 ** 30, 65534, 65537, 254, 257})
FLOATS = [0.0, -0.0, 1.0, -1.0, 1.5, -2.5, 255.0, 256.0, 65535.0, 1e3, 1e300, -1e300, 5e-324, 2.0 ** 53 + 2,
          2.0 ** 70, float("inf"), float("-inf"), float("nan"), fbits_to_float(0x7ff8000000000001),
          fbits_to_float(0xfff0000000000001), 0.1, 3.141592653589793]
TEXTS = ["", "a", "abc", "123", "0", "00", "01", " 12 ", "-5", "+5", "1_0", "0x10", "1e3", "１２", "٣", "12\n",
         "é", "ß", "€", "日本語", "\U0001f600", "a\U0001f600b", "\x00", "\x01\x1f", "\x7f", "\x80", "\xff",
         "a\nb", "\n", "a\rb", "\r\n", "a\\b", "\\", "\\u0041", "\\U00000041", "\\n", "a'b", 'a"b', "'\"", "it's \"x\"",
         "a b", " ", "\t", "\x1a", "True", "None", "__import__('os')", "x" * 254, "x" * 255, "x" * 256, "x" * 257,
         "é" * 127, "é" * 128, "€" * 85, "€" * 86, "1" * 255, "1" * 300]
BYTESS = [b"", b"a", b"abc", b"12", b"0", b" 7\n", b"-3", b"1_0", b"\x00", b"\xff", b"\x80", b"a\nb", b"\\", b"'",
          b"\xc3\xa9", b"\xc3", b"x" * 254, b"x" * 255, b"x" * 256, b"x" * 257, b"1" * 256, bytes(range(256))]
SURROGATES = ["\ud800", "a\udc80b", "\udfff" * 3]


def gen_const(rng, allow_surrogate=False):
    r = rng.random()
    if r < 0.30:
        if rng.random() < 0.7:
            return rng.choice(INT_EDGES)
        return rng.choice([1, -1]) * rng.getrandbits(rng.choice([4, 9, 17, 33, 65, 130]))
    if r < 0.38:
        return rng.random() < 0.5
    if r < 0.52:
        if rng.random() < 0.7:
            return rng.choice(FLOATS)
        return fbits_to_float(rng.getrandbits(64))
    if r < 0.80:
        if allow_surrogate and rng.random() < 0.04:
            return rng.choice(SURROGATES)
        if rng.random() < 0.7:
            return rng.choice(TEXTS)
        alphabet = "ab 019_-+.\\'\"\n\r\x00\x7fé€\U0001f600u"
        n = rng.choice([0, 1, 2, 3, 5, 8, 60, 250, 255, 256, 300])
        return "".join(rng.choice(alphabet) for _ in range(n))
    if rng.random() < 0.7:
        return rng.choice(BYTESS)
    return bytes(rng.getrandbits(8) for _ in range(rng.choice([0, 1, 2, 7, 255, 256, 300])))


def gen_value(rng, depth=0, allow_surrogate=False):
    r = rng.random()
    if depth >= 3 or r < 0.45:
        return gen_const(rng, allow_surrogate)
    if r < 0.70:
        return [gen_value(rng, depth + 1, allow_surrogate) for _ in range(rng.choice([0, 0, 1, 2, 3, 5]))]
    if r < 0.95:
        d = {}
        for _ in range(rng.choice([0, 0, 1, 2, 3])):
            k = gen_const(rng, allow_surrogate)
            d[k] = gen_value(rng, depth + 1, allow_surrogate)
        return d
    return rng.choice([None, (1, 2), frozenset(), {1}, bytearray(b"1"), 1 + 2j])


def big_values():
    """length-prefix boundaries (a few only: they are long)"""
    return ["x" * 65535, "x" * 65536, "é" * 32768, b"x" * 65535, b"x" * 65536, b"\x00" * 70000]


def kind_of(v):
    if isinstance(v, bool):
        return "bool"
    for t, n in ((int, "int"), (float, "float"), (str, "str"), (bytes, "bytes"), (list, "list"), (dict, "dict")):
        if isinstance(v, t):
            return n
    return "other"


def ext_kind(v):
    k = kind_of(v)
    if k == "int":
        a = abs(v)
        return "int:" + ("u8" if 0 <= v < 256 else "u16" if 0 <= v < 65536 else "neg" if v < 0 and a <= 2 ** 63
                         else "mid" if a <= 2 ** 63 else "huge")
    if k == "str":
        if not encodable(v):
            return "str:surrogate"
        n = len(v.encode())
        return "str:" + ("numeric-looking" if v.strip().lstrip("+-").replace("_", "").isdigit() and v else
                         "nonascii" if not v.isascii() else "escapes" if any(c in v for c in "\n\r\\'\"") else "ascii") \
            + (":long" if n > 255 else "")
    if k == "bytes":
        return "bytes:" + ("numeric-looking" if v.strip().isdigit() else "plain") + (":long" if len(v) > 255 else "")
    if k == "float":
        return "float:" + ("nan" if v != v else "inf" if v in (float("inf"), float("-inf")) else
                           "integral" if v == int(v) else "fraction")
    return k


# ----------------------------------------------------------------------------- real side

def exc_name(e):
    if isinstance(e, UnicodeError):      # UnicodeEncodeError / UnicodeDecodeError are ValueErrors
        return "E:ValueError"
    return "E:" + type(e).__name__


def real_new(v):
    from fickling.fickle import ConstantOpcode
    try:
        o = ConstantOpcode.new(v)
    except Exception as e:
        return exc_name(e)
    try:
        bs = "h" + o.encode().hex()
    except Exception as e:
        bs = exc_name(e)
    return f"{type(o).__name__} {show(o.arg)} {bs}"


def stock_loads(data):
    try:
        return show(pickle.loads(data))
    except Exception as e:
        return exc_name(e)


def real_build(v):
    from fickling.fickle import Pickled
    try:
        ops = Pickled([])._encode_python_obj(v)
    except Exception as e:
        return exc_name(e)
    names = ",".join(type(o).__name__ for o in ops)
    try:
        data = b"".join(o.encode() for o in ops)
    except Exception as e:
        return f"ops={names} {exc_name(e)} back=-"
    return f"ops={names} h{data.hex()} back={stock_loads(data + b'.')}"


def show_garg(a):
    if a is None:
        return "none"
    return show(a)


def arg_matches(arg, got):
    """the genops argument is the argument the opcode object holds (bytes/str normalisation for text,
    memo ids held as decimal bytes)"""
    if arg is None:
        return got is None
    if isinstance(arg, bool) or isinstance(got, bool):
        return False
    if isinstance(arg, int):
        return isinstance(got, int) and arg == got
    if isinstance(arg, float):
        return isinstance(got, float) and fbits(arg) == fbits(got)
    if isinstance(arg, str):
        return isinstance(got, str) and arg == got
    if isinstance(arg, bytes):
        if isinstance(got, bytes):
            return arg == got
        if isinstance(got, str):
            return arg == got.encode("utf-8", "surrogatepass")
        if isinstance(got, int):
            t = arg[:-1] if arg.endswith(b"\n") else arg
            return t.isdigit() and int(t) == got and str(got).encode() == t
    return False


def construct(cls_name, how, arg):
    from fickling import fickle
    cls = getattr(fickle, cls_name)
    if how == "create":
        return cls.create(*arg)
    if arg is None:
        return cls()
    return cls(arg)


def real_enc(cls_name, how, arg):
    """(canonical line, oracle verdict: None | description)"""
    try:
        op = construct(cls_name, how, arg)
    except Exception as e:
        return exc_name(e), None
    try:
        data = op.encode()
    except Exception as e:
        return exc_name(e), None
    f = io.BytesIO(data)
    try:
        info, got, pos = next(pickletools.genops(f))
        rest = len(data) - f.tell()
    except Exception as e:
        return f"h{data.hex()} tok=E:UnpicklingError match=F", \
            f"pickletools cannot read {data[:40]!r}: {type(e).__name__}: {e}"
    ok = info.name == op.name and arg_matches(op.arg, got) and rest == 0
    line = f"h{data.hex()} tok={info.name}:{show_garg(got)}:{rest} match={'T' if ok else 'F'}"
    why = None if ok else (f"{type(op).__name__}({op.arg!r:.60}).encode() = {data[:40]!r} reads back as "
                           f"{info.name} {got!r:.60} with {rest} bytes left over")
    return line, why


class _Keep(io.BytesIO):
    def close(self):
        pass


def real_create(src):
    from fickling import cli
    buf = _Keep()
    out = io.TextIOWrapper(buf, encoding="utf-8", write_through=True)
    old = sys.stdout
    sys.stdout = out
    try:
        try:
            rc = cli.main(["fickling", "-", "--create", src])
        except SystemExit as e:
            return f"E:SystemExit{e.code}", None
        except Exception as e:
            return exc_name(e), None
    finally:
        sys.stdout = old
    return "h" + buf.getvalue().hex(), buf.getvalue()


def oracle_create(src, data):
    """the UNICODE token of the created pickle carries src"""
    try:
        toks = [(i.name, a) for i, a, _ in pickletools.genops(data)]
    except Exception as e:
        return f"--create {src!r:.60}: output is not a readable pickle: {type(e).__name__}"
    texts = [a for n, a in toks if n == "UNICODE"]
    if texts != [src]:
        return f"--create {src!r:.60}: the pickle carries {texts!r:.80}"
    return None


@contextlib.contextmanager
def repaired_int_validate():
    """wrap exactly Int.validate and ConstantInt.validate with the type test of the patch"""
    from fickling import fickle
    oi = fickle.Int.__dict__["validate"]
    oc = fickle.ConstantInt.__dict__["validate"]

    def iv(cls, obj):
        if not isinstance(obj, int) or isinstance(obj, bool):
            raise ValueError("repaired Int.validate")
        return oi.__func__(cls, obj)

    def cv(cls, obj):
        if isinstance(obj, bool):
            raise ValueError("repaired ConstantInt.validate")
        return oc.__func__(cls, obj)

    fickle.Int.validate = classmethod(iv)
    fickle.ConstantInt.validate = classmethod(cv)
    try:
        yield
    finally:
        fickle.Int.validate = oi
        fickle.ConstantInt.validate = oc


# ----------------------------------------------------------------------------- value oracle

BASE = pickle.dumps(("base", 7), protocol=2)


def oracle_value(args, how):
    """None when the property holds for this call (arrived equal, or refused while building)."""
    import verif_sink
    from fickling.fickle import Pickled
    try:
        p = Pickled.load(BASE)
        if how == "insert":
            p.insert_python(*args, module="verif_sink", attr="record", run_first=True)
        elif how == "insert_last":
            p.insert_python(*args, module="verif_sink", attr="record", run_first=False)
        else:
            p.append_python(*args, module="verif_sink", attr="record")
        data = p.dumps()
    except Exception:
        return None
    verif_sink.reset()
    try:
        pickle.loads(data)
    except Exception as e:
        return f"{how}: the pickle was built without error but does not load: {type(e).__name__}: {e}"
    log = list(verif_sink.LOG)
    verif_sink.reset()
    if len(log) != 1 or log[0][0] != "record" or log[0][2]:
        return f"{how}: the sink was not called exactly once"
    got = log[0][1]
    if len(got) != len(args):
        return f"{how}: the sink received {len(got)} arguments for {len(args)}"
    for a, g in zip(args, got):
        if not same(a, g):
            return f"{how}: {a!r:.80} ({type(a).__name__}) arrived as {g!r:.80} ({type(g).__name__})"
    return None


def has_surrogate(v):
    if isinstance(v, str):
        return not encodable(v)
    if isinstance(v, (list, tuple)):
        return any(has_surrogate(x) for x in v)
    if isinstance(v, dict):
        return any(has_surrogate(k) or has_surrogate(x) for k, x in v.items())
    return False


def value_signature(args, how):
    """known-finding signature of a failing value case, or None"""
    with repaired_int_validate():
        if oracle_value(args, how) is None:
            return "int-validate-coerces"
    if has_surrogate(list(args)):
        return "surrogate-text"
    return None


def enc_signature(cls_name, arg):
    if cls_name in ("String", "ShortBinString", "BinString", "Long1", "Long4"):
        return "encode-wrong:" + cls_name
    if cls_name == "Unicode":
        b = arg if isinstance(arg, bytes) else b""
        if any(c >= 0x80 for c in b):
            return "encode-wrong:Unicode:non-ascii"
        if b"\n" in b or b"\r" in b or b"\\u" in b or b"\\U" in b:
            return "encode-wrong:Unicode:escape"
    return None


# ----------------------------------------------------------------------------- opcode cases

def enc_cases(rng, n_extra):
    """(class name, how, argument) for every Opcode subclass of the live module"""
    from fickling import fickle
    ints = [0, 1, 2, 5, 127, 128, 255, 256, 65535, 65536, 2 ** 31 - 1, 2 ** 31, 2 ** 32, -1, -5, -128, -129,
            -2 ** 31, -2 ** 31 - 1, 321987, 10 ** 20,
            # LONG1 count boundary: payloads of 127, 128, 255 and 256 bytes
            2 ** 1007, 2 ** 1015, -2 ** 1015, -2 ** 1015 - 1, 2 ** 2031, 2 ** 2039, -2 ** 2039, -2 ** 2039 - 1]
    texts = ["", "abc", "a b", "123", "é", "€", "\U0001f600", "a\nb", "a\rb", "a\\b", "\\u0041", "\x00\x1f", "\x7f",
             "\x80", "it's", 'say "x"', "x" * 255, "x" * 256, "é" * 128, "\ud800", "a\udc80b", "\ud83d\ude00",
             "\t", "'\"", "\xff\x00", "\x1a", "\\U0001f600", "ends\\", "\u0100\uffff\U00010000\U0010ffff"]
    bad_utf8 = [b"\xff", b"\xc0\x80", b"\xc3", b"\xe0\x80\x80", b"\xf4\x90\x80\x80", b"a\x80", b"\xed\xa0\x80",
                b"\xf8\x88\x80\x80\x80", b"\xe2\x82"]
    bytess = [b"", b"abc", b"12", b"\x00\xff", b"a\nb", b"x" * 255, b"x" * 256]
    cases = []
    for name, cls in fickle.OPCODES_BY_NAME.items():
        cn = cls.__name__
        info = cls.info
        if info.arg is None:
            cases.append((cn, "init", None))
            continue
        rd = info.arg.reader.__name__
        cases.append((cn, "init", None))
        if cn == "Global":
            for m, a in [("os", "getcwd"), ("builtins", "eval"), ("a.b.c", "d"), ("verif_sink", "record"),
                         ("a b", "c"), ("a", ""), ("a\nb", "c"), ("é", "x"), ("a\\b", "c")]:
                cases.append((cn, "create", (m, a)))
            cases.append((cn, "init", "os getcwd"))
            cases.append((cn, "init", "nospace"))
            continue
        if cn == "Inst":
            cases.append((cn, "create", ("os", "getcwd")))
            cases.append((cn, "init", "os getcwd"))
            continue
        if cn == "Get":
            for i in (0, 1, 5, 321987, 10 ** 12):
                cases.append((cn, "create", (i,)))
        if rd in ("read_uint1", "read_uint2", "read_int4", "read_uint4", "read_uint8", "read_decimalnl_short",
                  "read_decimalnl_long", "read_long1", "read_long4"):
            pool = ints + [rng.choice(INT_EDGES) for _ in range(n_extra)]
            for i in pool:
                cases.append((cn, "init", i))
        elif rd == "read_float8":
            for x in FLOATS:
                cases.append((cn, "init", x))
        elif rd in ("read_unicodestring1", "read_unicodestring4", "read_unicodestring8", "read_unicodestringnl"):
            pool = texts + [rng.choice(TEXTS) for _ in range(n_extra)]
            for t in pool:
                cases.append((cn, "init", t.encode("utf-8", "surrogatepass")))
                cases.append((cn, "init", t))
            if rd == "read_unicodestringnl":
                for b in bad_utf8:
                    cases.append((cn, "init", b))
        elif rd in ("read_stringnl", "read_string1", "read_string4", "read_stringnl_noescape"):
            pool = texts + [rng.choice(TEXTS) for _ in range(n_extra)]
            for t in pool:
                cases.append((cn, "init", t))
        elif rd in ("read_bytes1", "read_bytes4", "read_bytes8", "read_bytearray8"):
            pool = bytess + [rng.choice(BYTESS) for _ in range(n_extra)]
            for b in pool:
                cases.append((cn, "init", b))
        else:
            cases.append((cn, "init", 1))
    return cases


def enc_query(case):
    cn, how, arg = case
    if how == "create":
        if cn == "Get":
            a = f"{arg[0]}\n".encode()
        else:
            a = f"{arg[0]} {arg[1]}"
    else:
        a = arg
    if a is None:
        return sx(["c15_enc", cn, ["o"]])
    return sx(["c15_enc", cn, to_sx(a)])


# ----------------------------------------------------------------------------- main

def case_json(kind, **kw):
    d = {"kind": kind}
    d.update(kw)
    return d


def run_value_case(c):
    """oracle on a recorded value case -> description or None"""
    args = tuple(from_json(j) for j in c["args"])
    return oracle_value(args, c["how"])


def run_enc_case(c):
    arg = from_json(c["arg"]) if c["arg"] is not None else None
    if c["how"] == "create":
        arg = tuple(arg)
    return real_enc(c["cls"], c["how"], arg)[1]


def run_create_case(c):
    src = bytes.fromhex(c["src_hex"]).decode("utf-8")
    line, data = real_create(src)
    if data is None:
        return None
    return oracle_create(src, data)


def main(tier, seed):
    chk = Check("C15", tier, seed)
    rng = chk.rng
    chk.rule = ("values: boundary-biased constants (ints 0, +-1, 2^k+-1 for k in 7..200, huge; floats incl. "
                "-0.0/inf/nan payloads/random bit patterns; text ASCII/numeric-looking/Latin-1/BMP/astral/"
                "control/quotes/backslashes/newlines with UTF-8 lengths 254..257 and 65535/65536; bytes "
                "likewise) and nested lists/dicts of them (depth<=3, empty containers, unsupported types); "
                "opcodes: every Opcode subclass of the live module with arguments chosen by the pickletools "
                "reader of its opcode. A case is non-trivial when something is encoded (not refused at "
                "once); distinct by (path, extended kind / class, outcome class)")
    built = chk.regen_and_build(["proofs/ConstProofs.vo"])
    if built:
        chk.prove()
    quick = tier == "quick"
    n_new = 1500 if quick else 15000
    n_build = 1200 if quick else 12000
    n_oracle = 500 if quick else 5000
    n_extra = 6 if quick else 60

    # ---------------- corpus
    consts = list(INT_EDGES) + [True, False] + FLOATS + TEXTS + BYTESS + big_values()
    consts += SURROGATES + [gen_const(rng, True) for _ in range(n_new)]
    values = [[], {}, [[]], [{}], {"a": []}, {"a": {}}, {1: {}, 2: []}, [[], {}, [[]]], {"k": [1, {"z": []}]},
              [1, "1", b"1", 1.0, True], {1: "a", "1": "b", b"1": "c", 1.5: "d"}, None, (1,), [None], {"a": None},
              {(1, 2): 3}, [1, [2, [3, [4, [5]]]]]]
    values += [["\ud800", {"\udfff": "a\udc80b"}]] + [gen_value(rng, 0, True) for _ in range(n_build)]
    ecases = enc_cases(rng, n_extra)
    srcs = ["1+1", "'abc'", "print('é')", "'a\\nb'", "'€'", "a\nb", "'\\u0041'", "x = \"q\"", "", " ", "'\U0001f600'",
            "0", "a\\b", "\x01", "a\rb", "\x7f", "\x80"] + [t for t in TEXTS if encodable(t) and len(t) < 40]

    bad = []            # unexplained disagreements / oracle failures: case dicts
    d7 = []             # disagreements explained by the repaired validators
    known_hits = {}     # signature -> example

    # ---------------- correspondence
    if built:
        drv = Driver()
        # new
        cs = [v for v in consts if in_model(v)]
        out = drv.query([sx(["c15_new", to_sx(v)]) for v in cs])
        mism = 0
        for v, m in zip(cs, out):
            r = real_new(v)
            chk.count()
            chk.stats["new:" + ext_kind(v)] = chk.stats.get("new:" + ext_kind(v), 0) + 1
            if not r.startswith("E:"):
                chk.nontriv(("new", ext_kind(v), r.split(" ")[0], r.split(" ")[2][:2]))
            if r != m:
                with repaired_int_validate():
                    r2 = real_new(v)
                c = case_json("value", args=[to_json(v)], how="append", path="new", real=r[:200], model=m[:200])
                if r2 == m:
                    d7.append(c)
                else:
                    mism += 1
                    bad.append(c)
        chk.oblige(f"correspondence: ConstantOpcode.new(v) class/argument/bytes/exception on {len(cs)} constants "
                   f"(modulo known finding D7: {len(d7)} cases)", mism == 0,
                   json.dumps([b for b in bad if b.get("path") == "new"][:3]))
        chk.sample({"path": "new", "value": repr(cs[40])[:60], "real": real_new(cs[40])[:80]})
        # build
        vs = [v for v in values if in_model(v)]
        out = drv.query([sx(["c15_build", to_sx(v)]) for v in vs])
        mism = 0
        nd7 = len(d7)
        for v, m in zip(vs, out):
            r = real_build(v)
            chk.count()
            chk.stats["build:" + kind_of(v)] = chk.stats.get("build:" + kind_of(v), 0) + 1
            if r.startswith("ops="):
                chk.nontriv(("build", kind_of(v), r.split(" ")[0][:60]))
            if r != m:
                with repaired_int_validate():
                    r2 = real_build(v)
                c = case_json("value", args=[to_json(v)], how="insert", path="build", real=r[:300], model=m[:300])
                if r2 == m:
                    d7.append(c)
                else:
                    mism += 1
                    bad.append(c)
        chk.oblige(f"correspondence: Pickled._encode_python_obj opcodes/bytes/exception and the stock unpickler's "
                   f"result on {len(vs)} values (modulo known finding D7: {len(d7) - nd7} cases)", mism == 0,
                   json.dumps([b for b in bad if b.get("path") == "build"][:3]))
        chk.sample({"path": "build", "value": repr(vs[12])[:60], "real": real_build(vs[12])[:120]})
        # enc
        qs, keep = [], []
        for c in ecases:
            q = enc_query(c)
            if q is not None:
                qs.append(q)
                keep.append(c)
        out = drv.query(qs)
        mism = 0
        unmodelled = 0
        for c, m in zip(keep, out):
            cn, how, arg = c
            r, why = real_enc(cn, how, arg)
            chk.count()
            chk.stats["enc:" + cn] = chk.stats.get("enc:" + cn, 0) + 1
            if m == "E:Unmodelled":
                unmodelled += 1
                continue
            if "tok=E:Unmodelled" in m:
                unmodelled += 1
                if r.split(" ")[0] == m.split(" ")[0]:
                    continue
            if r.startswith("h"):
                chk.nontriv(("enc", cn, r.split(" ")[-1]))
            if r != m:
                mism += 1
                bad.append(case_json("enc", cls=cn, how=how, arg=None if arg is None else to_json(
                    list(arg) if isinstance(arg, tuple) else arg), real=r[:300], model=m[:300]))
        chk.stats["enc:outside-model"] = unmodelled
        chk.oblige(f"correspondence: encode() bytes/exception, first genops token and read-back verdict for every "
                   f"Opcode subclass on {len(keep)} (class, argument) cases ({unmodelled} outside the model)",
                   mism == 0, json.dumps([b for b in bad if b["kind"] == "enc"][:3]))
        chk.sample({"path": "enc", "case": repr(keep[-1])[:80], "real": real_enc(*keep[-1])[0][:100]})
        # create
        out = drv.query([sx(["c15_create", "h" + s.encode("utf-8").hex()]) for s in srcs])
        mism = 0
        for s, m in zip(srcs, out):
            r, _ = real_create(s)
            chk.count()
            chk.nontriv(("create", ext_kind(s)))
            if r != m:
                mism += 1
                bad.append(case_json("create", src_hex=s.encode("utf-8").hex(), real=r[:300], model=m[:300]))
        chk.oblige(f"correspondence: bytes written by --create on {len(srcs)} sources", mism == 0,
                   json.dumps([b for b in bad if b["kind"] == "create"][:3]))

    # ---------------- the property itself on the real implementation (model-free)
    unknown = []
    ovals = [(v,) for v in consts[:len(INT_EDGES) + 2 + len(FLOATS) + len(TEXTS) + len(BYTESS)]]
    ovals += [(s,) for s in SURROGATES] + [(v,) for v in values[:17]]
    ovals += [(gen_value(rng, allow_surrogate=True),) for _ in range(n_oracle)]
    ovals += [(gen_const(rng), gen_value(rng)) for _ in range(n_oracle // 10)]
    ovals += [(v,) for v in big_values()[:2]]
    # long containers: at, just below and just above the batch sizes picklers use (1000), top-level, nested and
    # as a dict value; a dict of 1000 entries
    for n_items in (999, 1000, 1001, 2000):
        ovals.append((list(range(n_items)),))
    ovals += [([["a"] * 1000, 1],), ({"k": [0] * 1000},), ({i: str(i) for i in range(1000)},),
              ({str(i): [i] for i in range(1001)},)]
    refused = 0
    for i, args in enumerate(ovals):
        how = ("insert", "append", "insert_last")[i % 3]
        why = oracle_value(args, how)
        chk.count()
        chk.stats["oracle:" + how] = chk.stats.get("oracle:" + how, 0) + 1
        if why is None:
            continue
        sig = value_signature(args, how)
        c = case_json("value", args=[to_json(a) for a in args], how=how, oracle=why, signature=sig)
        if sig and chk.match_known(sig):
            known_hits.setdefault(sig, c)
        else:
            unknown.append(c)
    for c in ecases:
        cn, how, arg = c
        _, why = real_enc(cn, how, arg)
        if why is None:
            continue
        if cn == "Global" and how == "create" and not plain_name(arg):
            chk.stats["oracle:global-not-a-name"] = chk.stats.get("oracle:global-not-a-name", 0) + 1
            continue
        if cn == "Global" and how == "init":
            continue
        a = arg
        sig = enc_signature(cn, a)
        cj = case_json("enc", cls=cn, how=how, arg=None if arg is None else to_json(
            list(arg) if isinstance(arg, tuple) else arg), oracle=why, signature=sig)
        if not representative(cn, how, arg):
            continue
        if sig and chk.match_known(sig):
            known_hits.setdefault(sig, cj)
        else:
            unknown.append(cj)
    for s in srcs:
        r, data = real_create(s)
        if data is None:
            continue
        why = oracle_create(s, data)
        if why is None:
            continue
        sig = enc_signature("Unicode", s.encode("utf-8"))
        cj = case_json("create", src_hex=s.encode("utf-8").hex(), oracle=why, signature=sig)
        if sig and chk.match_known(sig):
            known_hits.setdefault(sig, cj)
        else:
            unknown.append(cj)
    # D7-explained disagreements need the known entry as well
    k7 = chk.match_known("int-validate-coerces")
    if d7:
        if k7:
            known_hits.setdefault("int-validate-coerces", d7[0])
        else:
            unknown += d7[:3]
    chk.oblige(f"model-free oracle: every value handed to insert_python/append_python ({len(ovals)} calls) arrives "
               f"equal or is refused, every constructed opcode ({len(ecases)} cases) reads back or refuses, "
               f"--create carries its source -- except known findings", not unknown, json.dumps(unknown[:3]))
    for sig, c in known_hits.items():
        chk.known_finding(chk.match_known(sig), f"[witness: {json.dumps(c)[:300]}]")
    chk.stats["d7-explained-disagreements"] = len(d7)
    chk.extra["known_finding_witnesses"] = {s: c for s, c in known_hits.items()}

    def search():
        for c in unknown:
            return c
        for c in bad:
            why = None
            if c["kind"] == "value":
                for how in ("insert", "append", "insert_last"):
                    c2 = dict(c, how=how)
                    why = run_value_case(c2)
                    if why:
                        sig = value_signature(tuple(from_json(j) for j in c["args"]), how)
                        if not (sig and chk.match_known(sig)):
                            return dict(c2, oracle=why)
            elif c["kind"] == "enc":
                why = run_enc_case(c)
                if why and not (enc_signature(c["cls"], from_json(c["arg"]) if c["arg"] else None)
                                and chk.match_known(enc_signature(c["cls"], from_json(c["arg"]) if c["arg"] else None))):
                    return dict(c, oracle=why)
            elif c["kind"] == "create":
                why = run_create_case(c)
                if why:
                    sig = enc_signature("Unicode", bytes.fromhex(c["src_hex"]))
                    if not (sig and chk.match_known(sig)):
                        return dict(c, oracle=why)
        return None

    report_broken_obligations(chk, search)
    return chk.finish()


def plain_name(arg):
    """module / attribute names without space, newline, backslash or non-ASCII characters"""
    return all(a.isascii() and not any(ch in a for ch in " \n\\") for a in arg)


def representative(cn, how, arg):
    """is the argument of the type the opcode carries (pickletools reader of its opcode)?"""
    from fickling import fickle
    cls = getattr(fickle, cn)
    if cls.info.arg is None:
        return arg is None
    if arg is None:
        return False
    rd = cls.info.arg.reader.__name__
    if how == "create":
        return True
    if rd.startswith("read_unicodestring"):
        return isinstance(arg, (str, bytes))
    if rd.startswith("read_string"):
        return isinstance(arg, str)
    if rd.startswith("read_bytes"):
        return isinstance(arg, bytes)
    if rd == "read_float8":
        return isinstance(arg, float)
    return isinstance(arg, int) and not isinstance(arg, bool)


def replay(path):
    doc = json.load(open(path))
    c = doc.get("case")
    if not c:
        print("replay: no concrete input recorded; re-running the quick check")
        return main("quick", doc.get("seed", 0))
    if c["kind"] == "value":
        why = run_value_case(c)
    elif c["kind"] == "enc":
        why = run_enc_case(c)
    else:
        why = run_create_case(c)
    if why:
        print(f"VIOLATION property=C15 replay={path}")
        print(why)
        return 1
    print("replay: the recorded case no longer fails")
    return 0
