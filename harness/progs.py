"""Program generators for the pickle-machine properties: natural pickles of generated values,
a typed opcode assembler (random and bounded-exhaustive) and a malformed stream."""
import pickle

from harness import asm

# labelled vocabulary of globals: (module, name, label)
VOCAB = [
    ("builtins", "eval", "bad_call"), ("builtins", "exec", "bad_call"),
    ("__builtin__", "compile", "bad_call"), ("builtins", "open", "bad_call"),
    ("builtins", "getattr", "builtin"), ("builtins", "__import__", "builtin"),
    ("__builtin__", "globals", "builtin"), ("builtins", "len", "builtin"),
    ("os", "system", "dangerous"), ("posix", "popen", "dangerous"), ("subprocess", "Popen", "dangerous"),
    ("sys", "exit", "dangerous"), ("socket", "create_connection", "dangerous"),
    ("shutil", "rmtree", "dangerous"), ("os.path", "join", "dangerous"),
    ("urllib.request", "urlopen", "dangerous"), ("code", "interact", "dangerous"),
    ("collections", "OrderedDict", "benign"), ("datetime", "date", "benign"),
    ("fractions", "Fraction", "benign"), ("decimal", "Decimal", "benign"),
    ("verif_sink", "record", "nonstd"), ("numpy.core.multiarray", "_reconstruct", "nonstd"),
    ("torch._utils", "_rebuild_tensor_v2", "nonstd"), ("mypkg.sub", "Thing", "nonstd"),
]


class T:
    """abstract type of a stack entry"""
    __slots__ = ("k", "h", "sv")

    def __init__(self, k, h=True, sv=None):
        self.k = k      # int str bytes none bool float tuple list dict set frozen global obj
        self.h = h      # hashable
        self.sv = sv    # python str value for str consts (STACK_GLOBAL)

    def callable(self):
        return self.k in ("global", "obj")


class TState:
    def __init__(self):
        self.cur = []
        self.meta = []
        self.memo = {}
        self.nkeys = 0

    def copy(self):
        n = TState()
        n.cur = list(self.cur)
        n.meta = [list(m) for m in self.meta]
        n.memo = dict(self.memo)
        return n


INT_CONSTS = [("BININT1", 1), ("BININT1", 7), ("BININT2", 300), ("BININT", -5), ("LONG1", 2 ** 70),
              ("INT", 12), ("LONG", 99)]
STR_CONSTS = [("SHORT_BINUNICODE", "a"), ("BINUNICODE", "key"), ("UNICODE", "u"), ("SHORT_BINUNICODE", "b")]
OTHER_CONSTS = [("NONE", None), ("NEWTRUE", None), ("NEWFALSE", None), ("BINFLOAT", 1.5),
                ("SHORT_BINBYTES", b"x"), ("BINBYTES", b"yz"), ("SHORT_BINSTRING", "s"), ("STRING", "t")]


def applicable(st: TState, alphabet):
    """yield (op_item, effect(state)->None) for every opcode of the alphabet that is well typed"""
    cur, meta = st.cur, st.meta
    for item in alphabet:
        name = item if isinstance(item, str) else item[0]
        if name in ("BININT1", "BININT2", "BININT", "LONG1", "LONG4", "INT", "LONG"):
            yield item, lambda s: s.cur.append(T("int"))
        elif name in ("SHORT_BINUNICODE", "BINUNICODE", "UNICODE", "BINUNICODE8"):
            v = item[1]
            yield item, (lambda s, v=v: s.cur.append(T("str", True, v)))
        elif name in ("NONE",):
            yield item, lambda s: s.cur.append(T("none"))
        elif name in ("NEWTRUE", "NEWFALSE"):
            yield item, lambda s: s.cur.append(T("bool"))
        elif name == "BINFLOAT":
            yield item, lambda s: s.cur.append(T("float"))
        elif name in ("SHORT_BINBYTES", "BINBYTES", "BINBYTES8"):
            yield item, lambda s: s.cur.append(T("bytes"))
        elif name in ("SHORT_BINSTRING", "BINSTRING", "STRING"):
            yield item, lambda s: s.cur.append(T("str", True, None))
        elif name == "MARK":
            def eff(s):
                s.meta.append(s.cur)
                s.cur = []
            yield item, eff
        elif name == "POP":
            if cur:
                yield item, lambda s: s.cur.pop()
            elif meta:
                def eff(s):
                    s.cur = s.meta.pop()
                yield item, eff
        elif name == "POP_MARK":
            if meta:
                def eff(s):
                    s.cur = s.meta.pop()
                yield item, eff
        elif name == "DUP":
            if cur:
                yield item, lambda s: s.cur.append(s.cur[-1])
        elif name == "EMPTY_LIST":
            yield item, lambda s: s.cur.append(T("list", False))
        elif name == "EMPTY_DICT":
            yield item, lambda s: s.cur.append(T("dict", False))
        elif name == "EMPTY_SET":
            yield item, lambda s: s.cur.append(T("set", False))
        elif name == "EMPTY_TUPLE":
            yield item, lambda s: s.cur.append(T("tuple", True))
        elif name == "APPEND":
            if len(cur) >= 2 and cur[-2].k == "list":
                yield item, lambda s: s.cur.pop()
        elif name == "APPENDS":
            if meta and meta[-1] and meta[-1][-1].k == "list":
                def eff(s):
                    s.cur = s.meta.pop()
                yield item, eff
        elif name in ("LIST", "TUPLE", "FROZENSET"):
            if meta:
                if name == "FROZENSET" and not all(t.h for t in cur):
                    continue
                def eff(s, name=name):
                    items = s.cur
                    s.cur = s.meta.pop()
                    if name == "LIST":
                        s.cur.append(T("list", False))
                    elif name == "TUPLE":
                        s.cur.append(T("tuple", all(t.h for t in items)))
                    else:
                        s.cur.append(T("frozen", True))
                yield item, eff
        elif name == "DICT":
            if meta and len(cur) % 2 == 0 and all(t.h for t in cur[::2]):
                def eff(s):
                    s.cur = s.meta.pop()
                    s.cur.append(T("dict", False))
                yield item, eff
        elif name == "SETITEM":
            if len(cur) >= 3 and cur[-3].k in ("dict", "obj") and cur[-2].h and \
                    (cur[-3].sv != "strkeys" or cur[-2].k == "str"):
                def eff(s):
                    s.cur.pop()
                    s.cur.pop()
                yield item, eff
        elif name == "SETITEMS":
            if meta and meta[-1] and meta[-1][-1].k in ("dict", "obj") and len(cur) % 2 == 0 \
                    and all(t.h for t in cur[::2]) and \
                    (meta[-1][-1].sv != "strkeys" or all(t.k == "str" for t in cur[::2])):
                def eff(s):
                    s.cur = s.meta.pop()
                yield item, eff
        elif name == "ADDITEMS":
            if meta and meta[-1] and meta[-1][-1].k == "set" and all(t.h for t in cur):
                def eff(s):
                    s.cur = s.meta.pop()
                yield item, eff
        elif name == "TUPLE1":
            if len(cur) >= 1:
                def eff(s):
                    a = s.cur.pop()
                    s.cur.append(T("tuple", a.h))
                yield item, eff
        elif name == "TUPLE2":
            if len(cur) >= 2:
                def eff(s):
                    b, a = s.cur.pop(), s.cur.pop()
                    s.cur.append(T("tuple", a.h and b.h))
                yield item, eff
        elif name == "TUPLE3":
            if len(cur) >= 3:
                def eff(s):
                    c, b, a = s.cur.pop(), s.cur.pop(), s.cur.pop()
                    s.cur.append(T("tuple", a.h and b.h and c.h))
                yield item, eff
        elif name == "GLOBAL":
            yield item, lambda s: s.cur.append(T("global"))
        elif name == "STACK_GLOBAL":
            if len(cur) >= 2 and cur[-1].k == "str" and cur[-2].k == "str" and cur[-1].sv and cur[-2].sv \
                    and cur[-1].sv.isidentifier() and all(p.isidentifier() for p in cur[-2].sv.split(".")):
                def eff(s):
                    s.cur.pop()
                    s.cur.pop()
                    s.cur.append(T("global"))
                yield item, eff
        elif name == "INST":
            if meta:
                def eff(s):
                    s.cur = s.meta.pop()
                    s.cur.append(T("obj"))
                yield item, eff
        elif name == "OBJ":
            if meta and cur and cur[0].callable():
                def eff(s):
                    s.cur = s.meta.pop()
                    s.cur.append(T("obj"))
                yield item, eff
        elif name in ("NEWOBJ", "REDUCE"):
            if len(cur) >= 2 and cur[-2].callable() and cur[-1].k == "tuple":
                def eff(s):
                    s.cur.pop()
                    s.cur.pop()
                    s.cur.append(T("obj"))
                yield item, eff
        elif name == "NEWOBJ_EX":
            if len(cur) >= 3 and cur[-3].callable() and cur[-2].k == "tuple" and cur[-1].k == "dict" \
                    and getattr(cur[-1], "sv", None) == "strkeys":
                def eff(s):
                    s.cur.pop()
                    s.cur.pop()
                    s.cur.pop()
                    s.cur.append(T("obj"))
                yield item, eff
        elif name == "BUILD":
            if len(cur) >= 2 and cur[-2].callable():
                yield item, lambda s: s.cur.pop()
        elif name == "BINPERSID":
            if cur:
                def eff(s):
                    s.cur.pop()
                    s.cur.append(T("obj"))
                yield item, eff
        elif name in ("BINPUT", "PUT", "LONG_BINPUT"):
            if cur:
                k = item[1]
                yield item, (lambda s, k=k: s.memo.__setitem__(k, s.cur[-1]))
        elif name == "MEMOIZE":
            if cur:
                yield item, lambda s: s.memo.__setitem__(len(s.memo), s.cur[-1])
        elif name in ("BINGET", "GET", "LONG_BINGET"):
            k = item[1]
            if k in st.memo:
                yield item, (lambda s, k=k: s.cur.append(s.memo[k]))
        elif name == "PROTO":
            yield item, lambda s: None
        else:
            raise ValueError(name)


EX_ALPHABET = [
    ("BININT1", 1), ("SHORT_BINUNICODE", "a"), "NONE", "MARK", "POP", "POP_MARK", "DUP",
    "EMPTY_LIST", "EMPTY_DICT", "EMPTY_SET", "EMPTY_TUPLE", "APPEND", "APPENDS", "LIST", "TUPLE",
    "TUPLE1", "TUPLE2", "DICT", "SETITEM", "SETITEMS", "ADDITEMS", "FROZENSET",
    ("GLOBAL", ("os", "system")), ("INST", ("builtins", "exec")), "OBJ", "NEWOBJ", "REDUCE", "BUILD",
    "BINPERSID", ("BINPUT", 0), ("BINPUT", 5), ("BINGET", 0), ("BINGET", 5), "MEMOIZE",
]


def enumerate_typed(maxlen, alphabet=EX_ALPHABET):
    """all well-typed programs of at most maxlen opcodes before the final STOP"""
    def rec(prefix, st, depth):
        if st.cur:
            yield prefix + ["STOP"]
        if depth == 0:
            return
        for item, eff in applicable(st, alphabet):
            n = st.copy()
            eff(n)
            yield from rec(prefix + [item], n, depth - 1)
    yield from rec([], TState(), maxlen)


def full_alphabet(rng):
    al = list(INT_CONSTS) + list(STR_CONSTS) + list(OTHER_CONSTS)
    al += ["MARK", "POP", "POP_MARK", "DUP", "EMPTY_LIST", "EMPTY_DICT", "EMPTY_SET", "EMPTY_TUPLE",
           "APPEND", "APPENDS", "LIST", "TUPLE", "TUPLE1", "TUPLE2", "TUPLE3", "DICT", "SETITEM",
           "SETITEMS", "ADDITEMS", "FROZENSET", "STACK_GLOBAL", "OBJ", "NEWOBJ", "NEWOBJ_EX", "REDUCE",
           "BUILD", "BINPERSID", "MEMOIZE", ("PROTO", 2)]
    for m, n, _ in VOCAB:
        al.append(("GLOBAL", (m, n)))
    for m, n, _ in rng.sample(VOCAB, 4):
        al.append(("INST", (m, n)))
    for k in (0, 1, 2, 7, 255):
        al.append(("BINPUT", k))
        al.append(("BINGET", k))
    al += [("PUT", 3), ("GET", 3), ("LONG_BINPUT", 70000), ("LONG_BINGET", 70000)]
    return al


WEIGHT = {"MARK": 3, "REDUCE": 6, "OBJ": 4, "NEWOBJ": 4, "NEWOBJ_EX": 6, "BUILD": 5, "SETITEM": 4, "SETITEMS": 4,
          "APPEND": 4, "APPENDS": 4, "ADDITEMS": 5, "DICT": 3, "LIST": 3, "TUPLE": 4, "FROZENSET": 3,
          "STACK_GLOBAL": 8, "INST": 2, "GLOBAL": 0.35, "BINGET": 2, "POP": 1.5, "POP_MARK": 1.5,
          "DUP": 1.5, "BINPERSID": 1}


def random_typed(rng, maxlen=40, alphabet=None):
    """one random well-typed program ending in STOP"""
    alphabet = alphabet or full_alphabet(rng)
    st = TState()
    prog = []
    n = rng.randrange(1, maxlen)
    # occasionally set up a str-keyed dict for NEWOBJ_EX
    for _ in range(n):
        if rng.random() < 0.06:
            m, a, _lab = rng.choice(VOCAB)
            for item in (("SHORT_BINUNICODE", m), ("BINUNICODE", a), "STACK_GLOBAL"):
                prog.append(item)
            st.cur.append(T("global"))
            continue
        cands = list(applicable(st, alphabet))
        ws = [WEIGHT.get(c[0] if isinstance(c[0], str) else c[0][0], 1) for c in cands]
        item, eff = rng.choices(cands, weights=ws)[0]
        eff(st)
        prog.append(item)
        name = item if isinstance(item, str) else item[0]
        if name == "EMPTY_DICT" and rng.random() < 0.3:
            st.cur[-1] = T("dict", False, "strkeys")
    # close open marks sensibly then STOP
    while not st.cur:
        if st.meta:
            prog.append("POP_MARK")
            st.cur = st.meta.pop()
        else:
            prog.append("NONE")
            st.cur.append(T("none"))
    prog.append("STOP")
    return prog


def malformed(rng):
    """structurally ill-formed programs: underflow, missing mark, missing memo key, odd DICT"""
    base = random_typed(rng, maxlen=12)
    base = base[:-1]
    bad = rng.choice(["APPEND", "TUPLE", "POP_MARK", ("BINGET", 99), "REDUCE", "SETITEM", "DICT",
                      "ADDITEMS", "TUPLE3", "BUILD", "OBJ", "STACK_GLOBAL", "POP", "DUP", "MEMOIZE",
                      "NEWOBJ_EX", "SETITEMS", "APPENDS", "LIST", "FROZENSET", "BINPERSID", "STOP"])
    pos = rng.randrange(0, len(base) + 1)
    return base[:pos] + [bad] + base[pos:] + ["STOP"]


# ------------------------------------------------------------------ aliasing through memo / DUP
def alias_programs():
    """Deterministic family: a mutable container is aliased (memo PUT/GET in every width, MEMOIZE, DUP) and
    then MUTATED THROUGH ONE ALIAS while another alias ends up in the result -- the sharing the real VM
    preserves (seeded change C05-2: GET handing out a copy of the memoised node)."""
    one, two, key = ("BININT1", 1), ("BININT1", 2), ("SHORT_BINUNICODE", "k")
    containers = {
        "list": (["EMPTY_LIST"], [[one, "APPEND"], ["MARK", one, two, "APPENDS"]]),
        "list2": (["MARK", two, "LIST"], [[one, "APPEND"]]),
        "dict": (["EMPTY_DICT"], [[key, one, "SETITEM"], ["MARK", key, two, "SETITEMS"]]),
        "dict2": (["MARK", key, one, "DICT"], [[("SHORT_BINUNICODE", "j"), two, "SETITEM"]]),
        "set": (["EMPTY_SET"], [["MARK", one, "ADDITEMS"]]),
    }
    aliases = [
        ([("BINPUT", 0)], [("BINGET", 0)]), ([("BINPUT", 7)], [("BINGET", 7)]),
        (["MEMOIZE"], [("BINGET", 0)]), ([("PUT", 3)], [("GET", 3)]),
        ([("LONG_BINPUT", 70000)], [("LONG_BINGET", 70000)]),
    ]
    for cname, (make, muts) in containers.items():
        for mut in muts:
            for put, get in aliases:
                # (c, c) with the mutation applied through the fetched alias
                yield make + put + get + mut + ["TUPLE2", "STOP"]
                # result is the ORIGINAL object; the mutated alias is popped
                yield make + put + get + mut + ["POP", "STOP"]
                # the original sits inside an outer list; mutated later through the memo
                yield ["EMPTY_LIST"] + make + put + ["APPEND"] + get + mut + ["POP", "STOP"]
                # popped, fetched twice, mutated through the second fetch, first fetch is the result
                yield make + put + ["POP"] + get + get + mut + ["POP", "STOP"]
            yield make + ["DUP"] + mut + ["TUPLE2", "STOP"]
            yield make + ["DUP"] + mut + ["POP", "STOP"]


# ------------------------------------------------------------------ container opcodes on OBJECTS
def object_container_programs():
    """APPEND / APPENDS / ADDITEMS whose target is an object made by a call (a deque, a list or set
    subclass): the real VM calls .append / .extend / .add on it and keeps it on the stack.  fickling may
    refuse these; if it accepts them its stack must keep the VM's shape (seeded change C09 r2)."""
    one, two = ("BININT1", 1), ("BININT1", 2)
    makers = [
        [("GLOBAL", ("collections", "deque")), "EMPTY_TUPLE", "REDUCE"],
        [("GLOBAL", ("mypkg.sub", "Thing")), "EMPTY_TUPLE", "NEWOBJ"],
        ["MARK", ("INST", ("collections", "deque"))],
    ]
    muts = [[one, "APPEND"], ["MARK", one, two, "APPENDS"], ["MARK", "APPENDS"], ["MARK", one, "ADDITEMS"]]
    tails = [["STOP"], ["TUPLE1", "STOP"], [("BINPUT", 0), "MARK", one, "POP_MARK", "STOP"]]
    for mk in makers:
        for mu in muts:
            for tl in tails:
                yield mk + mu + tl
                yield ["EMPTY_LIST"] + mk + mu + ["APPEND"] + tl


# ------------------------------------------------------------------ opcodes fickling has no model for
def unmodelled_op_programs():
    """Programs the reference VM accepts that use an opcode fickling has no class / no run() for (PERSID,
    EXT1/2/4 with a registered code, FLOAT, BYTEARRAY8).  C03: such a pickle must be REFUSED, or -- should
    fickling learn the opcode -- decompiled with every import / call / persistent load the VM performs."""
    from harness import asm as _asm
    from harness.vmlib import EXT_CODE
    call = [("GLOBAL", ("verif_sink", "record")), ("BININT1", 7), "TUPLE1", "REDUCE"]
    pers = ("PERSID", _asm.RawArg(b"os.getcwd\n"))
    yield [pers, "STOP"]
    yield call + [pers, "TUPLE2", "STOP"]
    yield [pers, ("BINPUT", 0), "POP"] + call + ["STOP"]
    # the refused operation's value is never needed by what follows (left under the result, dropped with its
    # mark, only memoised): a decompiler that resumes after the refusal produces a complete-looking program
    yield [pers, ("BININT1", 7), "STOP"]
    yield ["MARK", pers, "POP_MARK", ("BININT1", 7), "STOP"]
    yield ["MARK", ("BININT1", 1), pers, "POP_MARK"] + call + ["STOP"]
    yield call + [pers, "POP", "STOP"]
    for ext in ("EXT1", "EXT2", "EXT4"):
        yield [(ext, EXT_CODE), "STOP"]
        yield [(ext, EXT_CODE), ("BININT1", 1), "TUPLE1", "REDUCE", "STOP"]
        yield call + ["POP", (ext, EXT_CODE), "EMPTY_TUPLE", "REDUCE", "STOP"]
    yield [("FLOAT", 1.5), "STOP"]
    yield call + [("FLOAT", 2.5), "TUPLE2", "STOP"]
    yield [("PROTO", 5), ("BYTEARRAY8", b"ba"), "STOP"]


# ------------------------------------------------------------------ natural values
class Inst:
    def __init__(self, a=1):
        self.a = a
        self.b = [a, "x"]


class Slots:
    __slots__ = ("x", "y")

    def __init__(self):
        self.x = 1
        self.y = (2, 3)


class Red:
    def __init__(self, v):
        self.v = v

    def __reduce__(self):
        return (Red, (self.v,), {"extra": 5})


class NewArgs:
    def __new__(cls, a, b=2):
        o = object.__new__(cls)
        o.a, o.b = a, b
        return o

    def __getnewargs_ex__(self):
        return (self.a,), {"b": self.b}


def gen_value(rng, depth=0, plain=False):
    """recursive acyclic python value; plain=True restricts to data (no instances)"""
    r = rng.random()
    if depth > 3 or r < 0.35:
        c = rng.randrange(0, 12)
        if c == 0:
            return rng.choice([0, 1, -1, 255, 256, 65535, 65536, 2 ** 31 - 1, 2 ** 31, -2 ** 31, 2 ** 63,
                               -2 ** 63 - 1, 2 ** 100, -(2 ** 70)])
        if c == 1:
            return rng.choice([0.0, -0.0, 1.5, float("inf"), -2.25e-300, 1e308])
        if c == 2:
            return rng.choice(["", "a", "text", "café", "中文", "\U0001f600", "line\nbreak",
                               "q'uo\"te", "back\\slash", "123", "x" * 300, "\x00\x1a\r"])
        if c == 3:
            return rng.choice([b"", b"a", b"\x00\xff", b"123", b"z" * 300])
        if c == 4:
            return None
        if c == 5:
            return rng.choice([True, False])
        if c == 6:
            return ()
        if c == 7:
            return rng.randrange(-1000, 1000)
        if c == 8:
            return "k%d" % rng.randrange(5)
        return rng.randrange(0, 300)
    kind = rng.randrange(0, 9 if not plain else 6)
    n = rng.randrange(0, 4)
    if kind == 0:
        return [gen_value(rng, depth + 1, plain) for _ in range(n)]
    if kind == 1:
        return tuple(gen_value(rng, depth + 1, plain) for _ in range(n))
    if kind == 2:
        return {gen_hashable(rng, depth + 1): gen_value(rng, depth + 1, plain) for _ in range(n)}
    if kind == 3:
        return {gen_hashable(rng, depth + 1) for _ in range(n)}
    if kind == 4:
        return frozenset(gen_hashable(rng, depth + 1) for _ in range(n))
    if kind == 5:
        # shared sub-object
        sub = gen_value(rng, depth + 1, plain)
        return [sub, sub, {"s": sub}]
    if kind == 6:
        return Inst(gen_value(rng, depth + 1, plain))
    if kind == 7:
        return rng.choice([Slots(), Red(gen_value(rng, depth + 1, True)), NewArgs(1, 3)])
    import collections
    import fractions
    return rng.choice([collections.OrderedDict(a=1), fractions.Fraction(1, 3), collections.deque([1, 2]),
                       complex(1, 2), bytearray(b"ab"), range(3)])


def gen_hashable(rng, depth):
    c = rng.randrange(0, 6)
    if c == 0:
        return rng.randrange(-5, 300)
    if c == 1:
        return rng.choice(["a", "b", "key", "café"])
    if c == 2:
        return rng.choice([b"k", None, True, 2.5])
    if c == 3 and depth < 3:
        return tuple(gen_hashable(rng, depth + 1) for _ in range(rng.randrange(0, 3)))
    if c == 4 and depth < 3:
        return frozenset(gen_hashable(rng, depth + 1) for _ in range(rng.randrange(0, 3)))
    return rng.randrange(0, 10)


def boundary_pickles():
    """(label, bytes): plain values at the size boundaries of the pickle format and of the pickler -- the 1000-item
    batches of lists / dicts / sets (999, 1000, 1001, 2500 items: one batch, an exact multiple with its empty
    trailing batch, two and three batches), strings and bytes at the 255 / 256 and 65535 / 65536 length-prefix
    steps nested inside containers, more than 255 memo entries, a value nested several levels deep"""
    out = []
    vals = [("set1000", set(range(1000)), (4,)), ("set1001", set(range(1001)), (2, 4)), ("set2500", set(range(2500)), (4,)),
            ("list1001", list(range(1001)), (2,)), ("dict1001", {i: i for i in range(1001)}, (4,)),
            ("frozenset1001", frozenset(range(1001)), (4,)),
            ("nested-sets", [set(range(1001)), {"a": set(range(1000, 2200))}, (set(range(5)),)], (4,)),
            ("str256-in-list", ["x" * 256, 1], (2,)), ("str257-in-list", ["x" * 257, 1], (2, 4)),
            ("str300-in-dict-in-list", [{"k": "w" * 300}, ("z" * 300,)], (4,)), ("bytes256-in-dict", {"k": b"y" * 256}, (4,)),
            ("memo300", [[i] for i in range(300)] + ["end"], (4,)),
            ("deep", [[[[[[{"k": ({1, 2}, [b"b", "s"])}]]]]]], (2, 4))]
    for label, v, protos in vals:
        for proto in protos:
            out.append(("%s/p%d" % (label, proto), pickle.dumps(v, protocol=proto)))
    return out


def natural_pickle(rng, plain=False):
    v = gen_value(rng, plain=plain)
    proto = rng.randrange(0, 6)
    try:
        return pickle.dumps(v, protocol=proto), v, proto
    except Exception:
        return pickle.dumps([1, 2], protocol=proto), [1, 2], proto
