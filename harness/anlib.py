"""Real-side observation of decompiled text and safety analysis, in the wire format of
coq/model/DispatchAnalysis.v."""
import ast
import struct

from harness import vmlib
from harness.common import sx, wire


def const_value(c):
    """inverse of vmlib.const_sexp"""
    if c == "none":
        return None
    k, a = c
    if k == "int":
        return int(a)
    if k == "bool":
        return a == "T"
    if k == "float":
        return struct.unpack(">d", bytes.fromhex(a[1:]))[0]
    if k == "str":
        return bytes.fromhex(a[1:]).decode("utf-8", "surrogatepass")
    if k == "bytes":
        return bytes.fromhex(a[1:])
    raise ValueError(c)


def model_inputs(data):
    """(ops, protos, stds, reprs) S-expressions for the model, or None when outside the model"""
    from fickling.fickle import Pickled, Proto, is_std_module
    ops = vmlib.abstract_ops(data)
    if ops is None:
        return None
    pickled = Pickled.load(data)
    protos = [[str(i), str(op.version)] for i, op in enumerate(pickled) if isinstance(op, Proto)]
    mods, consts, strs = set(), {}, []
    for o in ops:
        if isinstance(o, list) and o[0] in ("GLOBAL", "INST"):
            mods.add(bytes.fromhex(o[1][1:]).decode("utf-8", "replace"))
        elif isinstance(o, list) and o[0] == "CONST":
            key = sx(o[1])
            if key not in consts:
                v = const_value(o[1])
                consts[key] = (o[1], ast.unparse(ast.Constant(v)))
            if isinstance(o[1], list) and o[1][0] == "str":
                strs.append(const_value(o[1]))
    mods.update(strs)        # STACK_GLOBAL takes its module from any earlier text constant
    stds = []
    for m in sorted(mods):
        try:
            if is_std_module(m):
                stds.append(wire(m))
        except Exception:
            pass
    reprs = [[c, wire(t)] for c, t in consts.values()]
    return ops, protos, stds, reprs


def trig(t):
    if isinstance(t, tuple):
        return " ".join(str(x) for x in t)
    return str(t)


def real_unparse(data, result_name="result"):
    from fickling.fickle import Interpreter, Pickled
    try:
        p = Pickled.load(data)
    except Exception:
        return "PARSE-ERR"
    try:
        mod = Interpreter(p, result_variable=result_name).to_ast()
    except Exception:
        return "ERR"
    try:
        return "OK " + wire(ast.unparse(mod))
    except RecursionError:
        return "UNPARSE-RECURSION"
    except Exception as e:
        return "UNPARSE-ERR " + type(e).__name__


def real_analyze(data, analyzer=None):
    """'OK <verdict> <sorted findings>' | 'ERR' (no decompile) | 'RAISED <type>' (analysis failed);
    analyzer = an Analyzer with an explicit list of analyses (default: fickling's default instance)"""
    from fickling.analysis import check_safety
    from fickling.fickle import Pickled
    try:
        p = Pickled.load(data)
    except Exception:
        return "PARSE-ERR"
    try:
        p.ast
    except Exception:
        return "ERR"
    try:
        res = check_safety(p, analyzer=analyzer) if analyzer is not None else check_safety(p)
        sev = res.severity.name
        fs = sorted("(%s %s %s)" % (r.analysis_name, r.severity.name, wire(trig(r.trigger))) for r in res.results)
    except RecursionError:
        return "RECURSION"
    except Exception as e:
        return f"RAISED {type(e).__name__}: {e}"
    return "OK " + sev + " " + " ".join(fs)


def has_cycle(data):
    """cyclic AST (the VM can build self-containing lists); unparse / the visitors recurse for ever"""
    return real_unparse(data) == "UNPARSE-RECURSION"
