"""Child process of the C13 / C14 violation search: evaluates questions in ISOLATION -- every job runs
in its own forked process in which nothing else has been analysed, so state shared between objects
(class-level caches, module globals) cannot make two evaluations agree by accident.

stdin : JSON {"jobs": [job ...]}
   job = {"mode": "c13", "histories": [{"hex", "queries"} ...]}      answers of each history, run in order
       | {"mode": "c14", "hex", "actions", "only_read": k}           edits of actions[:k] (no reads), then
                                                                     the view of actions[k] on Pickled(list(p))
       | {"mode": "c14ctx", "context": [{hex, actions, observe_all}...], "hex", "actions"}
                                                                     the context histories, then this one: its reads
stdout: JSON {"answers": [...]}"""
import json
import os
import sys

sys.setrecursionlimit(3000)


def run_job(job):
    from fickling.fickle import Pickled
    from harness import c14, cachelib
    if job["mode"] == "c13":
        out = []
        for h in job["histories"]:
            try:
                p = Pickled.load(bytes.fromhex(h["hex"]))
            except Exception:
                out.append(None)
                continue
            out.append([cachelib.view(p, q) for q in h["queries"]])
        return out
    if job["mode"] == "c14ctx":
        for c in job["context"]:
            try:
                c14.run_history(c["hex"], actions=c["actions"], observe_all=c.get("observe_all", False),
                                final_obs=False)
            except Exception:
                pass
        r = c14.run_history(job["hex"], actions=job["actions"], final_obs=False)
        if not r:
            return None
        return [[s["real"][4:s["real"].rfind(" ids=")], bool(s.get("known"))] for s in r["steps"] if "read" in s]
    r = c14.run_history(job["hex"], actions=job["actions"], only_read=job["only_read"])
    if not r or not r["steps"]:
        return None
    last = r["steps"][-1]["real"]
    return last[4:last.rfind(" ids=")]


def main():
    import fickling.analysis  # noqa: F401  (import cost paid once, before the forks)
    from harness import c14, cachelib  # noqa: F401
    jobs = json.load(sys.stdin)["jobs"]
    answers = []
    for job in jobs:
        r, w = os.pipe()
        pid = os.fork()
        if pid == 0:
            os.close(r)
            try:
                res = run_job(job)
            except Exception as e:
                res = {"crash": f"{type(e).__name__}: {e}"}
            with os.fdopen(w, "w") as f:
                json.dump(res, f)
            os._exit(0)
        os.close(w)
        with os.fdopen(r) as f:
            data = f.read()
        os.waitpid(pid, 0)
        answers.append(json.loads(data) if data else None)
    json.dump({"answers": answers}, sys.stdout)


if __name__ == "__main__":
    sys.path.insert(0, os.path.dirname(os.path.dirname(os.path.abspath(__file__))))
    main()
