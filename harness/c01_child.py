"""C01 sandboxed child: runs analysis entry points of the real fickling on given inputs under a CPython
audit hook and reports, per (input, entry point), every monitored audit event, the sys.modules delta,
the file-system delta of the scratch cwd, canary markers and tripwire-module attribute accesses.

usage: c01_child.py SCRATCH BATCH.jsonl OUT.jsonl [--torch]
BATCH lines: {"id": .., "hex": .., "entries": [names]}      OUT lines: one JSON object per run.
Everything the child does before an entry point is called (imports, set-up, writing the input file)
happens with recording off, i.e. is subtracted by construction.
"""
import contextlib
import io
import json
import os
import sys
import types

SCRATCH = os.path.abspath(sys.argv[1])
BATCH, OUTP = os.path.abspath(sys.argv[2]), os.path.abspath(sys.argv[3])
WITH_TORCH = "--torch" in sys.argv[4:]
CWD = os.path.join(SCRATCH, "cwd")
CANARY_DIR = os.path.join(SCRATCH, "canary")
MARKER = os.path.join(SCRATCH, "canary-marker.txt")
INPUT = os.path.join(CWD, "in.pkl")

# events that are recorded (prefix match).  `import`, `open`, `exec`, `compile` are classified by the parent.
RECORD_PREFIX = ("import", "open", "exec", "compile", "os.system", "os.exec", "os.posix_spawn", "os.spawn",
                 "os.fork", "os.forkpty", "os.startfile", "os.kill", "os.remove", "os.rename", "os.rmdir",
                 "os.mkdir", "os.chmod", "os.chown", "os.link", "os.symlink", "os.truncate", "os.putenv",
                 "os.unsetenv", "subprocess.Popen", "socket.", "pickle.find_class", "ctypes.", "marshal.load",
                 "shutil.", "tempfile.", "urllib.Request", "http.client.", "ftplib.", "smtplib.", "poplib.",
                 "imaplib.", "nntplib.", "telnetlib.", "webbrowser.open", "builtins.input", "builtins.breakpoint",
                 "sys.settrace", "sys.setprofile", "sys.addaudithook", "code.__new__", "function.__new__",
                 "glob.glob", "pty.spawn", "fcntl.", "mmap.__new__", "sqlite3.connect", "winreg.", "msvcrt.",
                 "syslog.", "signal.pthread_kill", "resource.")
# events that are additionally BLOCKED (the hook raises, so nothing dangerous happens even if fickling
# were to execute the input): process creation, network, destructive file-system calls
BLOCK_PREFIX = ("os.system", "os.exec", "os.posix_spawn", "os.spawn", "os.fork", "os.forkpty", "os.startfile",
                "os.kill", "os.remove", "os.rename", "os.rmdir", "os.chmod", "os.chown", "os.truncate",
                "subprocess.Popen", "socket.connect", "socket.bind", "socket.sendto", "socket.sendmsg",
                "socket.getaddrinfo", "socket.gethostbyname", "socket.gethostbyaddr", "shutil.", "ctypes.dlopen",
                "ctypes.dlsym", "ctypes.call_function", "webbrowser.open", "urllib.Request", "http.client.",
                "ftplib.", "smtplib.", "pty.spawn", "signal.pthread_kill", "sys.addaudithook")


class Rec:
    on = False
    events = []
    trip = []


def summarize(a):
    if isinstance(a, (str, int, float, bool, type(None))):
        return a if not isinstance(a, str) or len(a) < 300 else a[:300]
    if isinstance(a, bytes):
        return "b:" + a[:60].hex()
    if isinstance(a, types.CodeType):
        return {"code": a.co_name, "file": a.co_filename}
    if isinstance(a, (list, tuple)):
        return [summarize(x) for x in list(a)[:6]]
    return f"<{type(a).__name__}>"


def hook(event, args):
    if not Rec.on:
        return
    if not event.startswith(RECORD_PREFIX):
        return
    Rec.on = False  # never record what the hook itself does
    try:
        if event == "import":
            rec = [event, args[0]]
        elif event == "open":
            p = args[0]
            if isinstance(p, bytes):
                p = os.fsdecode(p)
            rec = [event, p if isinstance(p, (str, int)) else repr(p), args[1], args[2]]
        elif event == "compile":
            src = args[0]
            if isinstance(src, bytes):
                src = src.decode("latin-1")
            rec = [event, None if src is None else str(src)[:120], str(args[1])]
        else:
            rec = [event] + [summarize(a) for a in args]
        # an event raised from inside the import machinery belongs to the `import` event that
        # started it (which is classified on its own): tag it
        if True:
            fr, depth, inside = sys._getframe(1), 0, False
            while fr is not None and depth < 60:
                if fr.f_code.co_filename == "<frozen importlib._bootstrap>" and \
                        fr.f_code.co_name in ("_find_and_load", "_load_unlocked", "_load", "_exec"):
                    inside = True
                    break
                fr, depth = fr.f_back, depth + 1
            if inside and event != "import":
                rec = ["@import"] + rec
        Rec.events.append(rec)
    finally:
        Rec.on = True
    if event.startswith(BLOCK_PREFIX):
        raise RuntimeError(f"verif-monitor: blocked audit event {event}")


class Tripwire(types.ModuleType):
    """a pre-imported module named by some inputs: any attribute lookup on it while an entry point
    runs means the analysis resolved a name the input chose"""

    def __getattribute__(self, name):
        if Rec.on and not (name.startswith("__") and name.endswith("__")):
            Rec.trip.append(name)
        return types.ModuleType.__getattribute__(self, name)

    def __getattr__(self, name):
        if name.startswith("__") and name.endswith("__"):
            raise AttributeError(name)
        return lambda *a, **k: None


def setup():
    os.makedirs(CWD, exist_ok=True)
    os.makedirs(CANARY_DIR, exist_ok=True)
    body = ("import os\nwith open(%r, 'a') as _f:\n    _f.write(__name__ + '\\n')\n"
            "def go(*a, **k):\n    return None\n") % MARKER
    with open(os.path.join(CANARY_DIR, "verif_canary_fs.py"), "w") as f:
        f.write(body)
    os.makedirs(os.path.join(CANARY_DIR, "verif_canary_pkg"), exist_ok=True)
    with open(os.path.join(CANARY_DIR, "verif_canary_pkg", "__init__.py"), "w") as f:
        f.write(body)
    with open(os.path.join(CANARY_DIR, "verif_canary_pkg", "sub.py"), "w") as f:
        f.write(body)
    sys.path.insert(1, CANARY_DIR)
    sys.modules["verif_canary_pre"] = Tripwire("verif_canary_pre")
    os.chdir(CWD)


def fs_snapshot():
    snap = {}
    for root, dirs, files in os.walk(CWD):
        for fn in files:
            p = os.path.join(root, fn)
            try:
                st = os.stat(p)
                snap[os.path.relpath(p, CWD)] = (st.st_size, st.st_mtime_ns)
            except OSError:
                pass
    snap["<canary-marker>"] = (os.path.getsize(MARKER), 0) if os.path.exists(MARKER) else None
    return snap


class NonSeekable:
    def __init__(self, data):
        self._b = io.BytesIO(data)

    def read(self, n=-1):
        return self._b.read(n)

    def readline(self):
        return self._b.readline()


class FakeStdin:
    def __init__(self, data):
        self.buffer = io.BytesIO(data)


def build_entries():
    import ast

    import fickling
    from fickling import analysis, cli, fickle, tracing
    from fickling.fickle import Interpreter, Pickled, StackedPickle
    unparse = ast.unparse
    E = {}

    def entry(f):
        E[f.__name__] = f
        return f

    @entry
    def load_bytes(d):
        p = Pickled.load(d)
        return len(p), p.nb_opcodes, [o.name for o in p], p.dumps() == d[:len(p.dumps())]

    @entry
    def load_stream(d):
        with open(INPUT, "rb") as f:
            Pickled.load(f)
        Pickled.load(NonSeekable(d))
        Pickled.load(io.BytesIO(d))

    @entry
    def stacked(d):
        sp = StackedPickle.load(d)
        return [len(p) for p in sp]

    @entry
    def decompile(d):
        p = Pickled.load(d)
        m = p.ast
        return unparse(m), ast.dump(m)

    @entry
    def interpreter(d):
        p = Pickled.load(d)
        it = Interpreter(p)
        n = 0
        try:
            while True:
                it.step()
                n += 1
        except StopIteration:
            pass
        out = [n, unparse(it.to_ast()), it.next_variable_id]
        out.append(sorted(Interpreter(p).unused_assignments()))
        out.append(sorted(Interpreter(p).unused_variables()))
        out.append(unparse(Interpreter.interpret(p)))
        out.append(str(Interpreter(p, first_variable_id=3, result_variable="r")))
        it2 = Interpreter(p)
        it2.run()
        return out

    @entry
    def properties(d):
        p = Pickled.load(d)
        pr = p.properties
        return (len(pr.imports), len(pr.calls), len(pr.non_setstate_calls), sorted(pr.likely_safe_imports),
                p.has_import, p.has_call, p.has_non_setstate_call,
                [unparse(n) for n in p.unsafe_imports()], [unparse(n) for n in p.non_standard_imports()])

    @entry
    def trace(d):
        p = Pickled.load(d)
        return unparse(tracing.Trace(Interpreter(p)).run())

    @entry
    def check_safety(d):
        p = Pickled.load(d)
        r = analysis.check_safety(p)
        return r.severity.name, r.to_string(), r.to_dict(), r.detailed_results(), bool(r), str(r)

    @entry
    def check_safety_json(d):
        p = Pickled.load(d)
        r = analysis.check_safety(p, json_output_path="report.json")
        return r.severity.name

    @entry
    def is_likely_safe(d):
        return fickling.is_likely_safe(INPUT)

    @entry
    def analyzer(d):
        p = Pickled.load(d)
        r = analysis.Analyzer.default_instance.analyze(p)
        ctx = analysis.AnalysisContext(p)
        for a in analysis.Analysis.ALL:
            ctx.analyze(a)
        return r.severity.name, ctx.results.severity.name

    @entry
    def cli_decompile(d):
        return cli.main(["fickling", INPUT])

    @entry
    def cli_trace(d):
        return cli.main(["fickling", "--trace", INPUT])

    @entry
    def cli_check(d):
        return cli.main(["fickling", "--check-safety", INPUT])

    @entry
    def cli_check_json(d):
        return cli.main(["fickling", "--check-safety", "--print-results", "--json-output", "out.json", INPUT])

    @entry
    def cli_stdin(d):
        old = sys.stdin
        sys.stdin = FakeStdin(d)
        try:
            return cli.main(["fickling"])
        finally:
            sys.stdin = old

    if WITH_TORCH:
        try:
            from fickling import polyglot

            @entry
            def check_pickle(d):
                with open(INPUT, "rb") as f:
                    return polyglot.check_pickle(f)
        except Exception:  # torch not installed: the entry point does not exist
            pass
    return E


RUN_SECONDS = 30


def limits():
    """memory bombs (e.g. a huge memo index handed to a real unpickler) must fail fast, not swap"""
    import resource
    try:
        with open("/proc/self/statm") as f:
            vm_now = int(f.read().split()[0]) * os.sysconf("SC_PAGE_SIZE")
        lim = vm_now + (3 << 30)
        resource.setrlimit(resource.RLIMIT_AS, (lim, lim))
    except Exception:
        pass
    try:
        resource.setrlimit(resource.RLIMIT_CORE, (0, 0))
    except Exception:
        pass


class RunTimeout(BaseException):
    pass


def on_alarm(signum, frame):
    raise RunTimeout()


def main():
    import signal
    setup()
    entries = build_entries()
    limits()
    signal.signal(signal.SIGALRM, on_alarm)
    sys.addaudithook(hook)
    out = open(OUTP, "w")
    out.write(json.dumps({"hello": sorted(entries), "stdlib_list": os.path.dirname(
        sys.modules["stdlib_list"].__file__) if "stdlib_list" in sys.modules else None,
        "input": INPUT, "cwd": CWD}) + "\n")
    for line in open(BATCH):
        case = json.loads(line)
        data = bytes.fromhex(case["hex"])
        with open(INPUT, "wb") as f:
            f.write(data)
        for name in case["entries"]:
            fn = entries.get(name)
            if fn is None:
                continue
            for junk in ("report.json", "out.json", "safety_results.json"):
                if os.path.exists(junk):
                    os.remove(junk)
            mods_before = set(sys.modules)
            fs_before = fs_snapshot()
            Rec.events, Rec.trip = [], []
            so, se = io.StringIO(), io.StringIO()
            outcome = "returned"
            out.write(json.dumps({"begin": [case["id"], name]}) + "\n")
            out.flush()
            with contextlib.redirect_stdout(so), contextlib.redirect_stderr(se):
                signal.alarm(RUN_SECONDS)
                Rec.on = True
                try:
                    fn(data)
                except BaseException as e:  # noqa: the property covers returning and raising alike
                    outcome = type(e).__name__
                    if isinstance(e, RuntimeError) and "verif-monitor" in str(e):
                        outcome = "blocked-by-monitor"
                finally:
                    Rec.on = False
                    signal.alarm(0)
            fs_after = fs_snapshot()
            new_mods = {}
            for m in sorted(set(sys.modules) - mods_before):
                mod = sys.modules.get(m)
                new_mods[m] = [getattr(mod, "__file__", None), getattr(mod, "__cached__", None)]
            created = sorted(k for k in fs_after if k not in fs_before and fs_after[k] is not None)
            changed = sorted(k for k in fs_after if k in fs_before and fs_after[k] != fs_before[k])
            deleted = sorted(k for k in fs_before if k not in fs_after)
            out.write(json.dumps({"id": case["id"], "entry": name, "outcome": outcome, "events": Rec.events,
                                  "trip": Rec.trip, "new_modules": new_mods, "created": created,
                                  "changed": changed, "deleted": deleted,
                                  "stdout": len(so.getvalue()), "stderr": len(se.getvalue())}) + "\n")
            # a canary marker is reported once, then reset
            if os.path.exists(MARKER):
                os.remove(MARKER)
    out.write(json.dumps({"bye": True}) + "\n")
    out.close()


if __name__ == "__main__":
    main()
