"""Child process of the C07 check: loads nested payloads through the REAL hooked pickle module.

stdin : JSON {"adds": [[dotted...]|null ...], "cases": [{"tree": node, "entry": "pl|pls|cl|cls",
              "adds": i, "hooked": bool}], "want_hex": bool}
        node  = {"k": attribute, "ret": "none|magic|proto|dict|list", "evs": [event...]}
        event = {"g": [module, name], "id": n} | {"c": [module, name], "ct": "bare|legacy|zip",
                 "ok": bool, "ch": [node...]}
stdout: JSON {"results": [{"out": "D|U|E", "err": .., "ev": [[m, n]..], "sink": [ids]}...]}

Payloads are built here (torch's MAGIC_NUMBER / PROTOCOL_VERSION come from the installed torch).
Everything a payload can do is harmless: globals are only resolved and popped; the one global that
is also CALLED is verif_sink.record(<id of the event>)."""
import io
import json
import pickle
import sys
import zipfile
import _pickle

EVENTS = []
ON = [False]


def _audit(ev, args):
    if ON[0] and ev == "pickle.find_class":
        EVENTS.append([str(args[0]), str(args[1])])


sys.addaudithook(_audit)

import asm  # noqa: E402
import fickling.hook as fhook  # noqa: E402
from fickling.exception import UnsafeFileError  # noqa: E402
import verif_sink  # noqa: E402
import torch  # noqa: E402,F401
import torch.storage  # noqa: E402,F401
import torch.serialization as ts  # noqa: E402

SINK = ["verif_sink", "record"]


def node_bytes(node):
    prog = [("PROTO", 2)]
    for e in node["evs"]:
        if "g" in e:
            if "." in e["g"][1] or e.get("id", 1) % 3 == 0:
                # protocol 4 spelling: dotted qualified names (Outer.attr) are resolved attribute by
                # attribute by the stock find_class; the allowlist knows only whole names
                prog[0] = ("PROTO", 4)
                prog += [("SHORT_BINUNICODE", e["g"][0]), ("SHORT_BINUNICODE", e["g"][1]), "STACK_GLOBAL"]
            else:
                prog.append(("GLOBAL", tuple(e["g"])))
            if e["g"] == SINK:
                prog += [("BININT2", e.get("id", 0) % 65536), "TUPLE1", "REDUCE"]
            prog.append("POP")
        else:
            prog.append(("GLOBAL", tuple(e["c"])))
            prog.append(("BINBYTES", container_bytes(e["ct"], e["ch"])))
            prog += ["TUPLE1", "REDUCE", "POP"]
    ret = node.get("ret", "none")
    if ret == "magic":
        prog.append(("LONG1", ts.MAGIC_NUMBER))
    elif ret == "proto":
        prog.append(("BININT2", ts.PROTOCOL_VERSION))
    elif ret == "dict":
        prog.append("EMPTY_DICT")
    elif ret == "list":
        prog.append("EMPTY_LIST")
    else:
        prog.append("NONE")
    prog.append("STOP")
    return asm.assemble(prog)


LEGACY_RETS = ["magic", "proto", "dict", "none", "list"]


def empty(ret):
    return {"k": "-", "ret": ret, "evs": []}


def container_bytes(ct, children):
    if ct == "bare":
        return node_bytes(children[0])
    if ct == "legacy":
        segs = list(children) + [empty(r) for r in LEGACY_RETS[len(children):]]
        return b"".join(node_bytes(dict(s, ret=r)) for s, r in zip(segs, LEGACY_RETS))
    if ct == "zip":
        buf = io.BytesIO()
        with zipfile.ZipFile(buf, "w", zipfile.ZIP_STORED) as z:
            z.writestr("archive/data.pkl", node_bytes(children[0]))
            z.writestr("archive/version", b"3\n")
        return buf.getvalue()
    raise ValueError(ct)


def entry_fn(entry):
    mod = pickle if entry in ("pl", "pls") else _pickle
    return getattr(mod, "load" if entry in ("pl", "cl") else "loads")


def main():
    job = json.loads(sys.stdin.read())
    adds = job["adds"]
    out = []
    for case in job["cases"]:
        fhook.deactivate_safe_ml_environment()
        data = node_bytes(case["tree"])
        if case.get("hooked", True):
            a = adds[case["adds"]]
            fhook.activate_safe_ml_environment(also_allow=None if a is None else list(a))
        fn = entry_fn(case["entry"])
        verif_sink.reset()
        del EVENTS[:]
        err = None
        ON[0] = True
        try:
            if case["entry"] in ("pl", "cl"):
                fn(io.BytesIO(data))
            else:
                fn(data)
            o = "D"
        except UnsafeFileError:
            o = "U"
        except BaseException as e:  # noqa: BLE001
            o, err = "E", type(e).__name__
        finally:
            ON[0] = False
            fhook.deactivate_safe_ml_environment()
        r = {"out": o, "err": err, "ev": list(EVENTS),
             "sink": [x[1][0] for x in verif_sink.LOG if x[0] == "record"]}
        if job.get("want_hex"):
            r["hex"] = data.hex()
        out.append(r)
    sys.stdout.write(json.dumps({"results": out, "torch": torch.__version__}) + "\n")


if __name__ == "__main__":
    main()
