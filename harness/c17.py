"""C17 -- format identification follows the documented table and is read-only; create_polyglot
never modifies its inputs and leaves nothing behind."""
import hashlib
import json
import os
import shutil
import subprocess
import zipfile

from harness import c17_child as ch
from harness.common import BUILD, PY, VERIF, Check, Driver, env_child, report_broken_obligations, sx, wire


# ---------------------------------------------------------------- helpers
def parse_sexp(text):
    """minimal S-expression reader for the model's output"""
    pos = 0

    def rd():
        nonlocal pos
        while pos < len(text) and text[pos] == " ":
            pos += 1
        if text[pos] == "(":
            pos += 1
            out = []
            while True:
                while text[pos] == " ":
                    pos += 1
                if text[pos] == ")":
                    pos += 1
                    return out
                out.append(rd())
        start = pos
        while pos < len(text) and text[pos] not in " ()":
            pos += 1
        return text[start:pos]

    return rd()


def unwire(a):
    assert a.startswith("h"), a
    return bytes.fromhex(a[1:]).decode("utf-8", "surrogateescape")


def run_child(job, scratch, timeout):
    os.makedirs(scratch, exist_ok=True)
    job = dict(job, scratch=scratch)
    jp = os.path.join(scratch, "job.json")
    json.dump(job, open(jp, "w"))
    p = subprocess.run([PY, os.path.join(VERIF, "harness", "c17_child.py"), jp], env=env_child(), cwd=scratch,
                       stdout=subprocess.PIPE, stderr=subprocess.STDOUT, text=True, timeout=timeout)
    rp = os.path.join(scratch, "result.json")
    if p.returncode != 0 or not os.path.exists(rp):
        raise RuntimeError("C17 child failed: " + p.stdout[-1500:])
    return json.load(open(rp))


def fmt_line(formats):
    return "ok [" + ",".join(wire(f) for f in formats) + "]"


def b(x):
    return "T" if x else "F"


# ---------------------------------------------------------------- correspondence: identification
def tie_records(drv, records):
    lines = [sx(["poly_props", [bool(x) for x in r["bits"]]]) for r in records]
    out = drv.query(lines)
    mism = []
    for r, m in zip(records, out):
        real = fmt_line(r["formats"]) if r["status"] == "ok" else "raised " + str(r["formats"])
        if real != m.rsplit(" ", 1)[0]:
            mism.append({"kind": "record", "bits": r["bits"], "real": real, "model": m})
    return mism


def tie_files(drv, obs, stats):
    lines, used = [], []
    for o in obs:
        if o["first"][0] != "ok" or o["props"] is None:
            continue
        p = o["props"]
        flags = [bool(p.get("is_torch_zip")), bool(p.get("is_tar")), bool(p.get("is_valid_pickle")),
                 bool(p.get("is_standard_zip")), bool(o["legacy"])]
        names = o["names"] or []
        lines.append(sx(["poly_names", flags, [wire(n) for n in names]]))
        used.append(o)
    out = drv.query(lines)
    mism = []
    for o, m in zip(used, out):
        p = o["props"]
        parts = m.split(" ")
        model_markers, model_corrupt = parts[0][:5], parts[0][6]
        model_formats, model_accept = " ".join(parts[1:3]), parts[3]
        real_markers = "".join(b(p.get(k)) for k in ch.MARKER_KEYS)
        real_corrupt = b("corrupted" in o["stdout"])
        real_formats = fmt_line(o["first"][1])
        real_accept = b(o["torch_magic"] and o["torch_record"])
        diffs = []
        # the discovered record and the corruption notice are intermediate / cosmetic: statistics only
        stats["identify-markers-agree"] = stats.get("identify-markers-agree", 0) + int(model_markers == real_markers)
        stats["identify-corruption-notice-agrees"] = stats.get("identify-corruption-notice-agrees", 0) \
            + int(model_corrupt == real_corrupt)
        if model_formats != real_formats:
            diffs.append(f"formats real={o['first'][1]} model={m}")
        # the model states torch's structural requirements; with data appended after the zip torch's own
        # reader (miniz) may additionally fail to find the central directory, so only "real => model" there
        exact = o["spec"].get("trail", "none") == "none"
        if (model_accept != real_accept) if exact else (real_accept == "T" and model_accept == "F"):
            diffs.append(f"torch acceptance real={real_accept} model={model_accept}")
        if bool(p.get("is_torch_zip")) != bool(o["torch_magic"]):
            diffs.append("is_torch_zip differs from torch's own _is_zipfile")
        if diffs:
            mism.append({"kind": "identify", "spec": o["spec"], "names": o["names"], "diffs": diffs})
    return mism, len(used)


# ---------------------------------------------------------------- correspondence: create_polyglot
def model_path(p):
    """path inside the pair directory -> the path create_polyglot sees from its cwd"""
    if p == "cwd":
        return None
    if p.startswith("cwd/"):
        return p[4:]
    return "../" + p


def pair_query(o, corpus):
    ents = []
    ids = {}
    for p, v in sorted(o["before"].items()):
        mp = model_path(p)
        if mp is None:
            continue
        if v == "d":
            ents.append([wire(mp), "d"])
        else:
            fid = None
            for cid in (o["a"], o["b"]):
                ci = corpus.get(cid)
                if ci and p == ci["dir"] + "/" + ci["name"] and ci["sha"] == v:
                    fid = cid
            if fid is None:
                fid = "bystander:" + p
            ids[fid] = v
            ents.append([wire(mp), "f", wire(fid)])
    idt, znt = [], []
    for cid in dict.fromkeys((o["a"], o["b"])):
        ci = corpus.get(cid)
        if not ci:
            continue
        if ci["status"] == "ok":
            idt.append([wire(cid), "ok", [wire(f) for f in ci["formats"]]])
        else:
            idt.append([wire(cid), "err"])
        if ci["names"] is not None:
            znt.append([wire(cid), [wire(n) for n in ci["names"]]])
    out = "none" if o["out"] is None else wire(o["out"])
    return sx(["poly_create", ents, wire(o["rels"][0]), wire(o["rels"][1]), out, idt, znt]), ids


def content_bytes(c, master):
    """bytes of a symbolic content, or None for a zip extension (compared structurally)"""
    if c[0] == "raw":
        fid = unwire(c[1])
        if fid.startswith("bystander:"):
            return None
        return open(os.path.join(master, fid), "rb").read()
    if c[0] == "cat":
        x, y = content_bytes(c[1], master), content_bytes(c[2], master)
        return None if x is None or y is None else x + y
    if c[0] == "member":
        z = content_bytes(c[1], master)
        import io
        return zipfile.ZipFile(io.BytesIO(z)).read(unwire(c[2]))
    return None


def check_content(c, real_path, real_sha, ids, master):
    """does the real file hold what the model's symbolic content says?"""
    if c[0] == "raw":
        fid = unwire(c[1])
        return None if ids.get(fid) == real_sha else f"content differs from input {fid}"
    if c[0] == "zipadd":
        import io
        base = content_bytes(c[1], master)
        zb = zipfile.ZipFile(io.BytesIO(base))
        try:
            zo = zipfile.ZipFile(real_path)
        except Exception as e:  # noqa
            return f"output is not a zip: {e}"
        adds = [(unwire(a[0]), content_bytes(a[1], master)) for a in c[2:]]
        want_names = zb.namelist() + [n for n, _ in adds]
        if zo.namelist() != want_names:
            return f"output members {zo.namelist()} expected {want_names}"
        infos = zo.infolist()
        for i, n in enumerate(zb.namelist()):
            if zo.read(infos[i]) != zb.read(n):
                return f"member {n} differs from the base archive"
        for j, (n, data) in enumerate(adds):
            if zo.read(infos[len(zb.namelist()) + j]) != data:
                return f"added member {n} differs"
        if open(real_path, "rb").read(4) != base[:4]:
            return "zip magic moved"
        return None
    data = content_bytes(c, master)
    if data is None:
        return "content not evaluable"
    return None if hashlib.sha256(data).hexdigest() == real_sha else "content differs from " + sx_show(c)


def sx_show(c):
    if isinstance(c, list):
        return "(" + " ".join(sx_show(x) for x in c) + ")"
    return unwire(c) if c.startswith("h") and len(c) > 1 and all(ch_ in "0123456789abcdef" for ch_ in c[1:]) else c


def tie_pairs(drv, pairs, corpus, master, stats):
    """Compared as obligations (what C17 is about): success or not, the set of paths afterwards, the
    content of every path that existed before.  How a failure is signalled (which exception / False)
    and the exact bytes of the output are recorded as statistics only."""
    lines, idmaps = [], []
    for o in pairs:
        q, ids = pair_query(o, corpus)
        lines.append(q)
        idmaps.append(ids)
    out = drv.query(lines)
    mism = []
    stats["pair-outcome-detail-agrees"] = 0
    stats["pair-output-content-as-modelled"] = 0
    stats["pair-outputs"] = 0
    for o, ids, m in zip(pairs, idmaps, out):
        diffs = []
        if m.startswith("!"):
            mism.append({"kind": "pair", "a": o["a"], "b": o["b"], "out": o["out"], "diffs": [m]})
            continue
        head, _, rest = m.partition(" (")
        fs = parse_sexp("(" + rest)
        # outcome
        real_success = o["status"] == "ok" and o["value"] is True
        if real_success != (head == "returned T"):
            diffs.append(f"outcome real={o['status']}:{o['value']} model={head}")
        if o["status"] == "ok":
            detail = ("returned " + b(o["value"])) == head
        else:
            exc = o["value"]
            if head in ("raised copy-first", "raised copy-second"):
                want = "FileNotFoundError"
            elif head.startswith("raised no-format"):
                want = "IndexError"
            elif head.startswith("raised ident-first"):
                want = corpus.get(o["a"], {}).get("formats")
            elif head.startswith("raised ident-second"):
                want = corpus.get(o["b"], {}).get("formats")
            else:
                want = None
            detail = want == exc
        stats["pair-outcome-detail-agrees"] += int(detail)
        # file system afterwards
        model_fs = {unwire(e[0]): e[1] for e in fs}
        real_fs = {}
        for p, v in o["after"].items():
            mp = model_path(p)
            if mp is not None:
                real_fs[mp] = (p, v)
        if set(model_fs) != set(real_fs):
            diffs.append(f"paths afterwards: only real {sorted(set(real_fs) - set(model_fs))}, "
                         f"only model {sorted(set(model_fs) - set(real_fs))}")
        for mp, node in model_fs.items():
            if mp not in real_fs:
                continue
            p, v = real_fs[mp]
            if node == "dir":
                if v != "d":
                    diffs.append(f"{mp}: model says directory")
                continue
            if v == "d":
                diffs.append(f"{mp}: model says file")
                continue
            why = check_content(node, os.path.join(o["dir"], p), v, ids, master)
            if p in o["before"]:
                if why:
                    diffs.append(f"{mp}: {why}")
            else:
                stats["pair-outputs"] += 1
                stats["pair-output-content-as-modelled"] += int(why is None)
        if diffs:
            mism.append({"kind": "pair", "a": o["a"], "b": o["b"], "out": o["out"], "diffs": diffs[:4]})
    return mism


# ---------------------------------------------------------------- main
def main(tier, seed):
    chk = Check("C17", tier, seed)
    chk.rule = ("identification: all 32 marker subsets x placement (root / one directory deep) x leading junk x "
                "trailing none/pickle/tar (384 zips, exhaustive) + seeded random name lists with decoys "
                "(name.bak, xname, name/inner) + real torch.save / torch.jit.save / legacy / tar / MAR / numpy / "
                "pickle files, each identified twice and once more as a renamed copy, with the directory tree "
                "hashed before/after and torch's own _is_zipfile + PyTorchFileReader.has_record consulted; "
                "decision function on all reachable property records with discovery stubbed; create_polyglot on ALL "
                "ordered pairs of a 16-file corpus (every primary format, five files with no format, TorchScript "
                "zips whose constants.pkl / version member cannot be located, a missing path, equal basenames) in "
                "a scratch cwd with bystander files; non-trivial = has a marker or a format (identify) / "
                "distinct (primary a, primary b, outcome) (pairs)")
    built = chk.regen_and_build(["proofs/PolyProofs.vo"])
    if built:
        chk.prove()
    # the executable model is independent of the proofs: the tie still runs when a lemma breaks
    model_ok = any(o["name"].startswith("executable model") and o["ok"] for o in chk.obligations)
    scratch = os.path.join(BUILD, "scratch", f"c17-{os.getpid()}")
    shutil.rmtree(scratch, ignore_errors=True)
    bad = []
    res = None
    try:
        job = {"mode": "run", "tier": tier, "seed": seed,
               "n_random": 600 if tier == "quick" else 12000}
        try:
            res = run_child(job, scratch, 900 if tier == "quick" else 3000)
        except Exception as e:  # noqa
            chk.oblige("implementation side ran (one torch child process)", False, str(e))
        if res is not None:
            obs, pairs, corpus = res["identify"], res["pairs"], res["corpus"]
            master = os.path.join(scratch, "master")
            for cid, ci in corpus.items():
                ci["primary"] = ci["formats"][0] if ci["status"] == "ok" and ci["formats"] else None
            for o in pairs:
                pa, pb = corpus.get(o["a"], {}).get("primary"), corpus.get(o["b"], {}).get("primary")
                o["combined"] = [pa, pb] if pa and pb else None
            pairs_pre = res.get("pairs_pre") or []
            for o in pairs_pre:
                o["combined"] = pairs[o["pre_of"]]["combined"]
            chk.stats["pairs into an output path holding an earlier output"] = len(pairs_pre)
            # statistics
            for o in obs:
                chk.count()
                st, f = o["first"]
                key = "raised:" + str(f) if st != "ok" else ("no-format" if not f else f[0])
                chk.stats["identify:" + key] = chk.stats.get("identify:" + key, 0) + 1
                if st == "ok" and (f or any((o["props"] or {}).get(k) for k in ch.MARKER_KEYS)):
                    chk.nontriv(("id", tuple(sorted(o["names"] or [])), o["spec"].get("junk"), o["spec"].get("trail"),
                                 o["spec"].get("label") if o["spec"]["k"] != "synth" else ""))
                if o["torch_magic"] and o["torch_record"]:
                    chk.stats["torch-accepts"] = chk.stats.get("torch-accepts", 0) + 1
            for o in pairs:
                chk.count()
                key = f"{o['status']}:{o['value']}"
                chk.stats["pair:" + key] = chk.stats.get("pair:" + key, 0) + 1
                chk.nontriv(("pair", corpus.get(o["a"], {}).get("primary"), corpus.get(o["b"], {}).get("primary"),
                             key, o["out"] is None))
            chk.stats["records"] = len(res["records"] or [])
            chk.count(len(res["records"] or []))
            chk.exhaustive = True
            chk.extra["exhaustive_parts"] = ["all property records discovery can produce (a marker implies a readable zip at offset 0)", "32 subsets x 2 x 2 x 3 synthetic zips",
                                             "all ordered pairs of the polyglot corpus"]
            if obs:
                o = obs[100]
                chk.sample({"identify": o["spec"].get("label"), "names": o["names"], "formats": o["first"][1],
                            "torch_accepts": o["torch_magic"] and o["torch_record"]})
            for o in pairs:
                if o["status"] == "raised" and o["value"] == "IndexError":
                    chk.sample({"create_polyglot": [corpus[o["a"]]["name"], corpus[o["b"]]["name"]],
                                "raised": o["value"], "new_paths_afterwards": o["new"]})
                    break
            for o in pairs:
                if o["status"] == "ok" and o["value"]:
                    chk.sample({"create_polyglot": [corpus[o["a"]]["name"], corpus[o["b"]]["name"]],
                                "returned": True, "new_paths_afterwards": o["new"],
                                "output_identified_as": o["out_formats"][1]})
                    break
            if model_ok:
                drv = Driver()
                if res["records"] is not None:
                    m = tie_records(drv, res["records"])
                    chk.oblige(f"correspondence: identify decision function on all {len(res['records'])} reachable property "
                               "records (exhaustive)",
                               not m, json.dumps(m[:3]))
                    bad += m
                else:
                    chk.stats["records"] = "skipped: discovery helpers renamed"
                m, n = tie_files(drv, obs, chk.stats)
                chk.oblige(f"correspondence: reported formats and torch acceptance on {n} files",
                           not m, json.dumps(m[:3]))
                bad += m
                m = tie_pairs(drv, pairs, corpus, master, chk.stats)
                chk.oblige(f"correspondence: create_polyglot success, directory tree and pre-existing contents on "
                           f"{len(pairs)} ordered pairs", not m, json.dumps(m[:3]))
                bad += m
            # the model-free property on everything that was observed is an obligation of its own
            fails = []
            for o in obs:
                why = ch.oracle_identify(o)
                if why:
                    fails.append({"kind": "identify", "spec": o["spec"], "oracle": why})
            for o in pairs + pairs_pre:
                why = ch.oracle_pair(o)
                if why:
                    fails.append(pair_case(o, res, why))
            chk.oblige(f"property oracle on the implementation: {len(obs)} identifications, {len(pairs)} pairs",
                       not fails, json.dumps(fails[:3]))
            # real torch files must be accepted by torch and reported as v1.3 (sanity of the generator)
            real_ok = [o for o in obs if o["spec"]["k"] in ("torch_save", "jit") and not o["spec"].get("legacy")]
            chk.oblige("torch.save / torch.jit.save files are accepted by torch's reader (generator sanity)",
                       all(o["torch_magic"] and o["torch_record"] for o in real_ok) and len(real_ok) >= 5, "")

            def search():
                # first the disagreeing inputs (files and pairs before bare records), then everything observed
                for c in bad:
                    if c["kind"] == "identify":
                        for o in obs:
                            if o["spec"] == c["spec"]:
                                why = ch.oracle_identify(o)
                                if why:
                                    return {"kind": "identify", "spec": o["spec"], "oracle": why}
                    if c["kind"] == "pair":
                        for o in pairs:
                            if (o["a"], o["b"], o["out"]) == (c["a"], c["b"], c["out"]):
                                why = ch.oracle_pair(o)
                                if why:
                                    return pair_case(o, res, why)
                if fails:
                    return fails[0]
                for r in res["records"] or []:
                    why = ch.oracle_record(r)
                    if why:
                        return {"kind": "record", "bits": r["bits"], "oracle": why}
                return None

            report_broken_obligations(chk, search)
        else:
            report_broken_obligations(chk, lambda: None)
    finally:
        shutil.rmtree(scratch, ignore_errors=True)
    return chk.finish()


def pair_case(o, res, why):
    specs = {f"f{i}": sp for i, sp in enumerate(ch.pair_corpus_specs())}
    pre = None
    if o.get("pre_out"):
        pre = [specs[i] for i in o["pre_pair"]] if o.get("pre_pair") else []
    return {"kind": "pair", "a": specs[o["a"]], "b": specs[o["b"]], "out": o["out"], "pre": pre,
            "combined": o.get("combined"), "oracle": why,
            "observed": {"status": o["status"], "value": o["value"], "new_paths": o["new"]}}


def replay(path):
    doc = json.load(open(path))
    case = doc.get("case")
    if not case or case.get("kind") not in ("identify", "pair", "record"):
        print("replay: no concrete file input recorded; re-running the quick check")
        return main("quick", doc.get("seed", 0))
    scratch = os.path.join(BUILD, "scratch", f"c17-replay-{os.getpid()}")
    shutil.rmtree(scratch, ignore_errors=True)
    try:
        r = run_child({"mode": "case", "case": case, "seed": 0, "tier": "quick"}, scratch, 600)
    finally:
        shutil.rmtree(scratch, ignore_errors=True)
    if r["why"]:
        print(f"VIOLATION property=C17 replay={path}")
        print(r["why"])
        return 1
    print("replay: the recorded case no longer fails")
    return 0
