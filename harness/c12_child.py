"""Child process of the C12 check: runs hook-lifecycle histories against the REAL fickling modules.

stdin : one JSON job {"pickles": [hex], "adds": [[dotted...]|null], "histories": [[op...]...],
                      "observe": "all"|"last"}
        op = "arm" | "arm2" | ["act", i] | "rm" | "rm2" | "enter" | "leave" | "leavex" |
             ["probe", slot, k] |
             "mk" (construct a manager, do not enter it) | "enterp" (enter the oldest manager
             constructed by "mk" and not entered yet; a new one if there is none) |
             "reenter" (enter the innermost OPEN manager object a second time; a new one if none)
stdout: one JSON line {"base": {...}, "runs": [[step...]...]}; a step holds the identity tokens
        and classes of the five bindings (pickle.load, pickle.loads, _pickle.load, _pickle.loads,
        pickle.Unpickler), the probe matrix (5 entry points x pickles) when observed, and the
        outcome of an explicit probe.

The originals are captured BEFORE fickling is imported; between histories the process state is
reset by re-binding those originals (the parent also runs histories in fresh children)."""
import io
import json
import pickle
import sys
import _pickle

SLOTS = ["pl", "pls", "cl", "cls", "unp"]
ORIG = {"pl": pickle.load, "pls": pickle.loads, "cl": _pickle.load, "cls": _pickle.loads,
        "unp": pickle.Unpickler}
EVENTS = []
ON = [False]


def _audit(ev, args):
    if ON[0] and ev == "pickle.find_class":
        EVENTS.append([str(args[0]), str(args[1])])


sys.addaudithook(_audit)

import fickling  # noqa: E402
import fickling.hook as fhook  # noqa: E402
import fickling.ml as fml  # noqa: E402
from fickling.exception import UnsafeFileError  # noqa: E402
import verif_sink  # noqa: E402

# the safe ML environment replaces pickle.Unpickler too (D11 repair)
SEEN = [ORIG["pl"], ORIG["pls"], ORIG["unp"]]   # keeps every object alive => tokens are stable


def current(slot):
    if slot == "unp":
        return pickle.Unpickler
    mod = pickle if slot in ("pl", "pls") else _pickle
    return getattr(mod, "load" if slot in ("pl", "cl") else "loads")


def token(fn):
    for i, f in enumerate(SEEN):
        if f is fn:
            return i
    SEEN.append(fn)
    return len(SEEN) - 1


def classify(slot, fn):
    if fn is ORIG[slot]:
        return "O"
    if isinstance(fn, type):
        # class SafeMLUnpickler of activate_safe_ml_environment: its __init__ closes over also_allow
        init = fn.__dict__.get("__init__")
        code = getattr(init, "__code__", None)
        clo = getattr(init, "__closure__", None)
        if (code is not None and clo and "also_allow" in code.co_freevars
                and issubclass(fn, fml.FicklingMLUnpickler)):
            adds = clo[code.co_freevars.index("also_allow")].cell_contents
            items = []
            for a in (adds or []):
                m, n = a.rsplit(".", 1)
                items.append(f"{m}:{n}")
            return "M(" + ",".join(items) + ")" + ("" if slot == "unp" else "!wrongkind")
        return "X:" + getattr(fn, "__qualname__", repr(fn))
    if slot == "unp":
        return "X:" + getattr(fn, "__qualname__", repr(type(fn)))
    code = getattr(fn, "__code__", None)
    clo = getattr(fn, "__closure__", None)
    if code is not None and clo and "also_allow" in code.co_freevars:
        adds = clo[code.co_freevars.index("also_allow")].cell_contents
        kind = "" if (fn.__name__.endswith("loads")) == (slot in ("pls", "cls")) else "!wrongkind"
        items = []
        for a in (adds or []):
            m, n = a.rsplit(".", 1)
            items.append(f"{m}:{n}")
        return "M(" + ",".join(items) + ")" + kind
    if str(getattr(fn, "__module__", "")).startswith("fickling"):
        return "C"
    return "X:" + getattr(fn, "__qualname__", repr(type(fn)))


def do_probe(slot, data):
    fn = current(slot)
    verif_sink.reset()
    del EVENTS[:]
    ON[0] = True
    try:
        if slot == "unp":
            fn(io.BytesIO(data)).load()
        elif slot in ("pl", "cl"):
            fn(io.BytesIO(data))
        else:
            fn(data)
        r = "R"
    except UnsafeFileError:
        r = "U"
    except RecursionError:
        r = "X"
    except BaseException as e:  # noqa: BLE001
        r = "E" + type(e).__name__
    finally:
        ON[0] = False
    return {"r": r, "n": len(EVENTS), "sink": len(verif_sink.LOG), "ev": list(EVENTS)}


PENDING = []      # managers constructed by "mk" and not entered yet


def reset(stack):
    pickle.load = ORIG["pl"]
    pickle.loads = ORIG["pls"]
    _pickle.load = ORIG["cl"]
    _pickle.loads = ORIG["cls"]
    pickle.Unpickler = ORIG["unp"]
    del stack[:]
    del PENDING[:]


def apply(op, stack, adds, pickles):
    extra = None
    if op == "arm":
        fickling.always_check_safety()
    elif op == "arm2":
        fhook.run_hook()
    elif op == "rm":
        fhook.remove_hook()
    elif op == "rm2":
        fhook.deactivate_safe_ml_environment()
    elif op == "enter":
        cm = fickling.check_safety()
        cm.__enter__()
        stack.append(cm)
    elif op == "mk":
        PENDING.append(fickling.check_safety())
    elif op == "enterp":
        cm = PENDING.pop(0) if PENDING else fickling.check_safety()
        cm.__enter__()
        stack.append(cm)
    elif op == "reenter":
        cm = stack[-1] if stack else fickling.check_safety()
        cm.__enter__()
        stack.append(cm)
    elif op == "leave":
        stack.pop().__exit__(None, None, None)
    elif op == "leavex":
        cm = stack.pop()
        try:
            raise KeyError("raised inside the context body")
        except KeyError as e:
            cm.__exit__(type(e), e, e.__traceback__)
    elif op[0] == "act":
        a = adds[op[1]]
        fickling.activate_safe_ml_environment(also_allow=None if a is None else list(a))
    elif op[0] == "probe":
        extra = do_probe(op[1], pickles[op[2]])
    else:
        raise ValueError(op)
    return extra


def main():
    job = json.loads(sys.stdin.read())
    pickles = [bytes.fromhex(h) for h in job["pickles"]]
    adds = job["adds"]
    observe = job.get("observe", "all")
    base = {m: sorted(d) for m, d in fml.ML_ALLOWLIST.items()}
    runs = []
    stack = []
    for hist in job["histories"]:
        reset(stack)
        steps = []
        for i, op in enumerate(hist):
            try:
                extra = apply(op, stack, adds, pickles)
                err = None
            except BaseException as e:  # noqa: BLE001
                extra, err = None, f"{type(e).__name__}: {e}"
            fns = [current(s) for s in SLOTS]
            st = {"ids": [token(f) for f in fns],
                  "cls": [classify(s, f) for s, f in zip(SLOTS, fns)],
                  "depth": len(stack)}
            if err:
                st["op_error"] = err
            if extra is not None:
                st["x"] = extra
            if observe == "all" or i == len(hist) - 1:
                st["probes"] = [[do_probe(s, p) for p in pickles] for s in SLOTS]
            steps.append(st)
        runs.append(steps)
    reset(stack)
    sys.stdout.write(json.dumps({"base": base, "runs": runs}) + "\n")


if __name__ == "__main__":
    main()
