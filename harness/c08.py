"""C08 -- injection adds exactly one call and preserves the original pickle's behaviour.

Real side (worker processes): every fickling injection helper is applied to a base pickle; the
rewritten bytes are (1) turned into abstract opcodes and compared with the extracted Coq model
`Inject.inject` on the base's abstract opcodes (correspondence), and (2) really loaded -- accelerated
unpickler, pure-Python unpickler, instrumented pure-Python unpickler for the stack at STOP -- and the
property itself is evaluated model-free (oracle)."""
import io
import json
import os
import pickle
import pickletools
import re
import struct
from concurrent.futures import ProcessPoolExecutor

from harness import asm, progs, vmlib
from harness.common import Check, Driver, report_broken_obligations, sx, wire

SINK = ("c08_sink", "inj")
TOKEN = "inj-tok"
EVAL_CODE = "__import__('c08_sink').inj('inj-tok', 7)"
EXEC_CODE = "import c08_sink\nc08_sink.inj('inj-tok', 7)"
FDEF_INJ = "def  c08_fn (obj, *a):\n    import c08_sink\n    return c08_sink.inj(obj, *a)"
FNAME = "c08_fn"

# known findings (KNOWN_FINDINGS.jsonl): signature -> failure names that are attributed to it
KNOWN_ALLOWED = {
    "arg-coercion": {"injected-args-differ", "pure-python:injected-args-differ", "correspondence", "helper-refused"},
    "magic-negative-index": None,          # the pickle is broken in arbitrary ways: everything
    "append-nopop-stack": {"stack-not-empty-at-stop", "pure-python:stack-not-empty-at-stop"},
    "callobj-pure-python": {"pure-python:rewritten-not-loadable"},
}


# ------------------------------------------------------------------ argument values
def coercible(v):
    """would the unrepaired ConstantOpcode.new turn this str / bytes / float into an int?  (floats
    always: finite ones are truncated, inf / nan make the helper raise OverflowError / ValueError)"""
    if isinstance(v, float):
        return True
    if isinstance(v, (str, bytes)):
        try:
            int(v)
            return True
        except ValueError:
            return False
    return False


def deep_coercible(v):
    if isinstance(v, (list, tuple)):
        return any(deep_coercible(x) for x in v)
    if isinstance(v, dict):
        return any(deep_coercible(k) or deep_coercible(x) for k, x in v.items())
    return coercible(v)


INTS = [0, 1, -1, 255, 256, 65535, 65536, 2 ** 31 - 1, 2 ** 31, -2 ** 31, 2 ** 63, -2 ** 63 - 1, 2 ** 100, -(2 ** 70)]
STRS = ["", "a", "text", "caf\xe9", "中文", "\U0001f600", "line\nbreak", "q'uo\"te", "back\\slash",
        "x" * 300, "\x00\x1a\r", "12a", " ", "1+1", "0x10", "1e3"]
BYTS = [b"", b"a", b"\x00\xff", b"z" * 300, b"12a", b"\n", b"0x1"]


def gen_const(rng):
    while True:
        c = rng.randrange(4)
        if c == 0:
            v = rng.choice(INTS)
        elif c == 1:
            v = rng.randrange(-1000, 1000)
        elif c == 2:
            v = rng.choice(STRS)
        else:
            v = rng.choice(BYTS)
        if not coercible(v):
            return v


def gen_arg(rng, depth=0):
    r = rng.random()
    if depth >= 2 or r < 0.6:
        return gen_const(rng)
    if r < 0.8:
        return [gen_arg(rng, depth + 1) for _ in range(rng.randrange(0, 4))]
    return {gen_const(rng): gen_arg(rng, depth + 1) for _ in range(rng.randrange(0, 4))}


def enc(v):
    if v is None:
        return {"t": "none", "v": None}
    if isinstance(v, bool):
        return {"t": "bool", "v": v}
    if isinstance(v, tuple):
        return {"t": "tuple", "v": [enc(x) for x in v]}
    if isinstance(v, int):
        return {"t": "int", "v": str(v)}
    if isinstance(v, float):
        return {"t": "float", "v": struct.pack(">d", v).hex()}
    if isinstance(v, str):
        return {"t": "str", "v": v}
    if isinstance(v, bytes):
        return {"t": "bytes", "v": v.hex()}
    if isinstance(v, list):
        return {"t": "list", "v": [enc(x) for x in v]}
    if isinstance(v, dict):
        return {"t": "dict", "v": [[enc(k), enc(x)] for k, x in v.items()]}
    raise TypeError(type(v))


def dec(e):
    t, v = e["t"], e["v"]
    if t == "none":
        return None
    if t == "bool":
        return bool(v)
    if t == "tuple":
        return tuple(dec(x) for x in v)
    if t == "int":
        return int(v)
    if t == "float":
        return struct.unpack(">d", bytes.fromhex(v))[0]
    if t == "str":
        return v
    if t == "bytes":
        return bytes.fromhex(v)
    if t == "list":
        return [dec(x) for x in v]
    if t == "dict":
        return {dec(k): dec(x) for k, x in v}
    raise ValueError(t)


def arg_sexp(v):
    if isinstance(v, tuple):
        return ["c", "none"]     # the model has one representative (None) for leaf types the helpers refuse
    if isinstance(v, list):
        return ["l"] + [arg_sexp(x) for x in v]
    if isinstance(v, dict):
        return ["d"] + [[const_or_refused_sexp(k), arg_sexp(x)] for k, x in v.items()]
    return ["c", vmlib.const_sexp(v)]


# ------------------------------------------------------------------ base pickles
def strip_frames(data):
    """the same opcode program without its FRAME opcodes"""
    out = bytearray()
    ops = list(pickletools.genops(data))
    for j, (info, _arg, pos) in enumerate(ops):
        end = ops[j + 1][2] if j + 1 < len(ops) else pos + 1
        if info.name != "FRAME":
            out += data[pos:end]
    return bytes(out)


def has_frame(data):
    try:
        return any(info.name == "FRAME" for info, _a, _p in pickletools.genops(data))
    except Exception:
        return False


class AsmGen:
    """really loadable, harmless opcode programs with sparse memo keys, marks, junk and effects
    (verif_sink.record calls, verif_sink.Thing construction / __setstate__)"""
    CONSTS = [("BININT1", 1), ("BININT1", 7), ("BININT2", 300), ("BININT", -5), ("LONG1", 2 ** 70), ("INT", 12),
              ("LONG", 99), ("SHORT_BINUNICODE", "a"), ("BINUNICODE", "key"), ("UNICODE", "u"), ("NONE",),
              ("NEWTRUE",), ("NEWFALSE",), ("BINFLOAT", 1.5), ("SHORT_BINBYTES", b"x"), ("BINBYTES", b"yz")]

    def __init__(self, rng):
        self.rng = rng
        self.prog = []
        self.memo = set()

    def emit(self, *items):
        self.prog.extend(items)

    def memo_op(self):
        rng = self.rng
        if rng.random() < 0.3:
            self.emit("MEMOIZE")
            self.memo.add(len(self.memo))
            return
        n = len(self.memo)
        k = rng.choice([0, 1, 2, 3, 5, 255, 256, 70000, 321987, n, n + 1, n + 2, 1, 2, 321987])
        if k < 256 and rng.random() < 0.6:
            self.emit(("BINPUT", k))
        elif rng.random() < 0.5:
            self.emit(("LONG_BINPUT", k))
        else:
            self.emit(("PUT", k))
        self.memo.add(k)

    def const(self):
        c = self.rng.choice(self.CONSTS)
        self.emit(c if len(c) > 1 else c[0])

    def glob(self, m, n):
        if self.rng.random() < 0.3:
            self.emit(("SHORT_BINUNICODE", m), ("BINUNICODE", n), "STACK_GLOBAL")
        else:
            self.emit(("GLOBAL", (m, n)))

    def values(self, depth, lo=0, hi=3):
        for _ in range(self.rng.randrange(lo, hi + 1)):
            self.value(depth + 1)

    def value(self, depth=0):
        rng = self.rng
        # junk that leaves the stack as it was
        j = rng.random()
        if j < 0.08:
            self.value(depth + 1)
            self.emit("POP")
        elif j < 0.14:
            self.emit("MARK")
            self.values(depth, 0, 2)
            self.emit("POP_MARK")
        elif j < 0.18:
            self.emit("MARK")
            self.emit("POP")
        kinds = ["const"] * 4 + (["list", "list2", "list3", "tuple", "tuplen", "dict", "dict2", "dict3", "set",
                                  "frozen", "call", "call", "thing", "thing", "get", "get"] if depth < 3 else [])
        k = rng.choice(kinds)
        if k == "get" and not self.memo:
            k = "const"
        if k == "const":
            self.const()
        elif k == "list":
            self.emit("EMPTY_LIST")
            if rng.random() < 0.5:
                self.memo_op()
            self.emit("MARK")
            self.values(depth)
            self.emit("APPENDS")
        elif k == "list2":
            self.emit("MARK")
            self.values(depth)
            self.emit("LIST")
        elif k == "list3":
            self.emit("EMPTY_LIST")
            self.value(depth + 1)
            self.emit("APPEND")
        elif k == "tuple":
            self.emit("MARK")
            self.values(depth)
            self.emit("TUPLE")
        elif k == "tuplen":
            n = rng.randrange(0, 4)
            for _ in range(n):
                self.value(depth + 1)
            self.emit(["EMPTY_TUPLE", "TUPLE1", "TUPLE2", "TUPLE3"][n])
        elif k in ("dict", "dict2"):
            if k == "dict":
                self.emit("EMPTY_DICT", "MARK")
            else:
                self.emit("MARK")
            for _ in range(rng.randrange(0, 3)):
                self.const()
                self.value(depth + 1)
            self.emit("SETITEMS" if k == "dict" else "DICT")
        elif k == "dict3":
            self.emit("EMPTY_DICT")
            self.const()
            self.value(depth + 1)
            self.emit("SETITEM")
        elif k == "set":
            self.emit("EMPTY_SET", "MARK")
            for _ in range(rng.randrange(0, 3)):
                self.const()
            self.emit("ADDITEMS")
        elif k == "frozen":
            self.emit("MARK")
            for _ in range(rng.randrange(0, 3)):
                self.const()
            self.emit("FROZENSET")
        elif k == "call":
            self.glob("verif_sink", "record")
            self.emit("MARK")
            self.values(depth, 0, 2)
            self.emit("TUPLE", "REDUCE")
        elif k == "thing":
            how = rng.choice(["reduce", "newobj", "inst", "obj"])
            if how == "reduce":
                self.glob("verif_sink", "Thing")
                self.emit("MARK")
                self.values(depth, 0, 2)
                self.emit("TUPLE", "REDUCE")
            elif how == "newobj":
                self.glob("verif_sink", "Thing")
                self.emit("EMPTY_TUPLE", "NEWOBJ")
            elif how == "inst":
                self.emit("MARK")
                self.values(depth, 0, 2)
                self.emit(("INST", ("verif_sink", "Thing")))
            else:
                self.emit("MARK")
                self.glob("verif_sink", "Thing")
                self.values(depth, 0, 2)
                self.emit("OBJ")
            if rng.random() < 0.5:
                self.value(depth + 1)
                self.emit("BUILD")
        elif k == "get":
            key = rng.choice(sorted(self.memo))
            self.emit(("BINGET", key) if key < 256 and rng.random() < 0.6 else
                      (("LONG_BINGET", key) if rng.random() < 0.5 else ("GET", key)))
        if rng.random() < 0.35:
            self.memo_op()
        if rng.random() < 0.05:
            self.emit("DUP", "POP")


def asm_base(rng):
    g = AsmGen(rng)
    g.value(0)
    body = asm.assemble(g.prog + ["STOP"])
    r = rng.random()
    if r < 0.3:
        return body                                            # no header at all
    proto = rng.choice([2, 3, 4, 5])
    if proto >= 4 and rng.random() < 0.6:
        return asm.assemble([("PROTO", proto)]) + b"\x95" + struct.pack("<Q", len(body)) + body
    return asm.assemble([("PROTO", proto)]) + body


def special_values(rng):
    import verif_sink
    big = [("s%d" % i, i + 1000) for i in range(300)]          # > 255 memo entries
    shared = [1, "two"]
    t = verif_sink.Thing(1, "a")
    t.state = {"k": [1, 2]}
    return [big, [shared, shared, {"s": shared}], [t, t], progs.Inst(5), progs.Red([1]), progs.NewArgs(1, 3),
            progs.Slots(), [], {}, (), 7, "s", None, [b"bytes", 2 ** 80, -1]]


def gen_bases(rng, nnat, nasm):
    bases = []
    for v in special_values(rng):
        for proto in range(0, 6):
            try:
                bases.append(("special-p%d" % proto, pickle.dumps(v, protocol=proto)))
            except Exception:
                pass
    for _ in range(nnat):
        data, _v, proto = progs.natural_pickle(rng)
        bases.append(("natural-p%d" % proto, data))
    # loadable bases fickling's interpreter refuses (APPENDS / SETITEMS onto a constructed object): only the
    # rating clause is evaluated on them
    import collections
    for proto in range(0, 6):
        bases.append(("uninterpretable-p%d" % proto, pickle.dumps(collections.deque([1, "a", (2,)]), protocol=proto)))
        bases.append(("uninterpretable-p%d" % proto,
                      pickle.dumps(collections.OrderedDict([("k", 1), ("l", [2])]), protocol=proto)))
    # hand-made collisions with the injector's fixed memo keys and with len(memo)
    A = asm.assemble
    bases += [
        ("asm-fixedkeys", A([("PROTO", 2), "EMPTY_LIST", ("LONG_BINPUT", 321987), ("BININT1", 1), ("BINPUT", 1), "APPEND",
                             ("BININT1", 2), ("BINPUT", 2), "APPEND", "POP", ("LONG_BINGET", 321987), ("BINGET", 1),
                             "TUPLE2", "STOP"])),
        ("asm-fixedkeys", A([("BININT1", 9), ("PUT", 1), "POP", "EMPTY_LIST", ("PUT", 5), ("GET", 1), "APPEND", "STOP"])),
        ("asm-fixedkeys", A([("PROTO", 4), "EMPTY_LIST", ("BININT1", 5), ("BINPUT", 1), "MEMOIZE", ("BINPUT", 2), "MEMOIZE",
                             ("BINGET", 1), "TUPLE2", "APPEND", "STOP"])),
        ("asm-fixedkeys", A([("SHORT_BINUNICODE", "r"), ("BINPUT", 3), "STOP"])),
        ("asm-fixedkeys", A([("SHORT_BINUNICODE", "r"), ("BINPUT", 0), ("BINPUT", 2), "STOP"])),
    ]
    # more than one PROTO, and a PROTO that is not in the leading header: the injection point is right after the
    # LEADING run of PROTO / FRAME opcodes, not after "as many opcodes as there are PROTOs and FRAMEs" (seeded
    # C08 r7; multi-FRAME bases -- protocol-4 output above 64 KiB -- would exercise the same slip but make the
    # quick tier take many minutes, so they are left to the repeated-PROTO programs)
    bases.append(("asm-twoproto", A([("PROTO", 2), ("PROTO", 2), "EMPTY_LIST", ("BININT1", 1), "APPEND", "STOP"])))
    bases.append(("asm-twoproto", A([("PROTO", 2), "EMPTY_LIST", ("PROTO", 2), ("BININT1", 1), "APPEND", ("PROTO", 2),
                                     "STOP"])))
    for _ in range(nasm):
        bases.append(("asm", asm_base(rng)))
    # unframed twins of framed pickles
    extra = []
    for kind, data in bases:
        if has_frame(data):
            extra.append((kind + "-unframed", strip_frames(data)))
    bases += extra[: max(20, len(extra) // 2)]
    return bases


# ------------------------------------------------------------------ modes
def mode_variants(rng, base_len):
    """every helper x every flag combination, with fresh argument values"""
    out = []
    for rf in (True, False):
        for rep in (True, False):
            args = [TOKEN] + [gen_arg(rng) for _ in range(rng.randrange(0, 3))]
            out.append({"helper": "insert_python", "callee": list(SINK), "args": [enc(a) for a in args],
                        "run_first": rf, "replace": rep})
            out.append({"helper": "insert_python_eval", "callee": ["builtins", "eval"], "args": [enc(EVAL_CODE)],
                        "run_first": rf, "replace": rep})
            out.append({"helper": "insert_python_exec", "callee": ["builtins", "exec"], "args": [enc(EXEC_CODE)],
                        "run_first": rf, "replace": rep})
    for pop in (True, False):
        args = [TOKEN] + [gen_const(rng) for _ in range(rng.randrange(0, 3))]
        out.append({"helper": "append_python", "callee": list(SINK), "args": [enc(a) for a in args], "pop_result": pop})
        out.append({"helper": "append_python", "callee": ["builtins", "eval"], "args": [enc(EVAL_CODE)],
                    "pop_result": pop})
    out.append({"helper": "insert_magic_int", "magic": rng.choice([0, 1, 0xC0FFEE, 2 ** 40, -3]), "index": None})
    out.append({"helper": "insert_magic_int", "magic": rng.randrange(0, 2 ** 32), "index": rng.randrange(0, base_len)})
    out.append({"helper": "insert_magic_int", "magic": rng.randrange(0, 2 ** 32), "index": -rng.randrange(1, base_len + 3)})
    for comp in (False, True):
        for withargs in (False, True):
            cargs = [gen_const(rng) for _ in range(rng.randrange(1, 3))] if withargs else None
            out.append({"helper": "callobj", "fdef": FDEF_INJ, "fname": FNAME, "compile": comp,
                        "cargs": None if cargs is None else [enc(a) for a in cargs]})
    return out


def const_or_refused_sexp(v):
    return "none" if isinstance(v, (tuple, list, dict)) else vmlib.const_sexp(v)


def refusal_modes(rng, base_len):
    """arguments _encode_python_obj / ConstantOpcode.new refuse (ValueError), at every depth"""
    out = []
    bads = [None, True, (1, 2), [None], [[False]], {"k": None}, {None: 1}, {(1,): 2}, {"k": [(1,)]}, [1, {"a": [True]}]]
    for bad in bads:
        out.append({"helper": "insert_python", "callee": list(SINK), "args": [enc(TOKEN), enc(bad)],
                    "run_first": rng.random() < 0.5, "replace": rng.random() < 0.5, "expect_refusal": True})
    for bad in [None, True, (1,), [1], {"a": 1}]:
        out.append({"helper": "append_python", "callee": list(SINK), "args": [enc(TOKEN), enc(bad)],
                    "pop_result": True, "expect_refusal": True})
        out.append({"helper": "callobj", "fdef": FDEF_INJ, "fname": FNAME, "compile": False, "cargs": [enc(bad)],
                    "expect_refusal": True})
    return out


def known_class_modes(rng, base_len):
    """cases inside the three recorded findings"""
    out = []
    for bad in ["123", b"12", 1.5, " 7 ", [TOKEN, "42"], {"k": "9"}, -0.0, float("inf"), "1_0"]:
        out.append({"helper": "insert_python", "callee": list(SINK), "args": [enc(TOKEN), enc(bad)],
                    "run_first": rng.random() < 0.5, "replace": rng.random() < 0.5})
    for bad in ["123", b"12", 2.5]:
        out.append({"helper": "append_python", "callee": list(SINK), "args": [enc(TOKEN), enc(bad)], "pop_result": True})
        out.append({"helper": "callobj", "fdef": FDEF_INJ, "fname": FNAME, "compile": False, "cargs": [enc(bad)]})
    for ix in (-2, -3, -base_len, -base_len - 5):
        out.append({"helper": "insert_magic_int", "magic": 5, "index": ix})
    return out


def known_signatures(mode):
    h = mode["helper"]
    if h == "insert_magic_int":
        return ["magic-negative-index"] if (mode["index"] is not None and mode["index"] < -1) else []
    sigs = []
    vals = [dec(a) for a in (mode.get("args") or mode.get("cargs") or [])]
    if any(deep_coercible(v) for v in vals):
        sigs.append("arg-coercion")
    if h == "append_python" and not mode["pop_result"]:
        sigs.append("append-nopop-stack")
    if h == "callobj":
        sigs.append("callobj-pure-python")
    return sigs


def model_query(mode, base_ops, out_ops):
    """S-expression text of the model query for this case"""
    h = mode["helper"]
    p = base_ops
    if h in ("insert_python", "insert_python_eval", "insert_python_exec"):
        return sx(["inject_insert", wire(mode["callee"][0]), wire(mode["callee"][1]),
                   [arg_sexp(dec(a)) for a in mode["args"]], bool(mode["run_first"]), bool(mode["replace"]), p])
    if h == "append_python":
        return sx(["inject_append", wire(mode["callee"][0]), wire(mode["callee"][1]),
                   [const_or_refused_sexp(dec(a)) for a in mode["args"]], bool(mode["pop_result"]), p])
    if h == "insert_magic_int":
        return sx(["inject_magic", str(mode["magic"]), str(-1 if mode["index"] is None else mode["index"]), p])
    if h == "callobj":
        bc = "-"
        if mode["compile"]:
            # marshal output is not reproducible across processes (reference flags): the model takes the
            # bytes constant the real helper emitted; the oracle checks what those bytes do
            bc = None
            for a, b, c in zip(out_ops or [], (out_ops or [])[1:], (out_ops or [])[2:]):
                if a == ["GLOBAL", wire("marshal"), wire("loads")] and b == "MARK" and c[0] == "CONST" \
                        and c[1][0] == "bytes":
                    bc = c[1][1]
            if bc is None:
                bc = wire(b"")
        return sx(["inject_callobj", wire(mode["fdef"]), wire(mode["fname"]), bc,
                   [const_or_refused_sexp(dec(a)) for a in (mode["cargs"] or [])], p])
    raise ValueError(h)


# ------------------------------------------------------------------ real side (worker processes only)
class StopSpy(pickle._Unpickler):
    """pure-Python unpickler that records what is left on the VM stack at STOP"""
    dispatch = dict(pickle._Unpickler.dispatch)

    def load_stop(self):
        value = self.stack.pop()
        self.at_stop = (len(self.stack), len(self.metastack))
        raise pickle._Stop(value)
    dispatch[pickle.STOP[0]] = load_stop


def fp(x):
    """structural fingerprint: types and contents; mutable containers and instances are numbered in
    first-visit order so that sharing among them (and cycles) is part of the fingerprint; identity
    of immutable atoms is not"""
    seen = {}
    keep = []       # temporaries (reduce tuples, state dicts) must stay alive: ids are only unique among live objects

    def go(v, depth=0):
        keep.append(v)
        if depth > 200:
            return "(deep)"
        if v is None or isinstance(v, (bool, int, str, bytes)):
            return f"{type(v).__name__}:{v!r}"
        if isinstance(v, float):
            return "float:" + struct.pack(">d", v).hex()
        if isinstance(v, tuple):
            return "(tuple " + " ".join(go(i, depth + 1) for i in v) + ")"
        if isinstance(v, frozenset):
            return "(frozenset " + " ".join(sorted(go(i, depth + 1) for i in v)) + ")"
        if isinstance(v, type) or callable(v) and hasattr(v, "__qualname__"):
            return f"(global {getattr(v, '__module__', '?')} {v.__qualname__})"
        if id(v) in seen:
            return f"(ref {seen[id(v)]})"
        seen[id(v)] = len(seen)
        n = seen[id(v)]
        if isinstance(v, list):
            return f"(list#{n} " + " ".join(go(i, depth + 1) for i in v) + ")"
        if isinstance(v, dict) and type(v) is dict:
            return f"(dict#{n} " + " ".join(go(k, depth + 1) + "=" + go(i, depth + 1) for k, i in v.items()) + ")"
        if isinstance(v, set):
            return f"(set#{n} " + " ".join(sorted(go(i, depth + 1) for i in v)) + ")"
        try:
            red = v.__reduce_ex__(4)
            keep.append(red)
            parts = [go(red[0], depth + 1), go(red[1], depth + 1)]
            if len(red) > 2:
                parts.append(go(red[2], depth + 1))
            if len(red) > 3 and red[3] is not None:
                parts.append(go(list(red[3]), depth + 1))
            if len(red) > 4 and red[4] is not None:
                parts.append(go(list(red[4]), depth + 1))
            return f"(obj#{n} {type(v).__module__}.{type(v).__qualname__} " + " ".join(parts) + ")"
        except Exception:
            return f"(opaque {type(v).__name__})"
    return go(x)


def observe(data, pure):
    import c08_sink
    import verif_sink
    c08_sink.install()
    c08_sink.reset()
    globals().pop(FNAME, None)      # the C unpickler's exec() defines the injected function here
    c08_sink.HOOK[1] = True
    stack = None
    try:
        if pure:
            u = StopSpy(io.BytesIO(data))
            v = u.load()
            stack = u.at_stop
        else:
            v = pickle.loads(data)
    except BaseException as e:           # SystemExit etc. must not kill the worker
        c08_sink.HOOK[1] = False
        return {"ok": False, "exc": f"{type(e).__name__}: {e}"[:200]}
    c08_sink.HOOK[1] = False
    return {"ok": True, "value": v, "log": [fp(x) for x in verif_sink.LOG], "inj": list(c08_sink.INJ),
            "fc": [(m, n, lp) for m, n, lp, _ in c08_sink.FC], "stack": stack}


def apply_mode(p, mode):
    h = mode["helper"]
    if h in ("insert_python", "insert_python_eval", "insert_python_exec"):
        args = [dec(a) for a in mode["args"]]
        kw = dict(run_first=mode["run_first"], use_output_as_unpickle_result=mode["replace"])
        if h == "insert_python":
            p.insert_python(*args, module=mode["callee"][0], attr=mode["callee"][1], **kw)
        elif h == "insert_python_eval":
            p.insert_python_eval(*args, **kw)
        else:
            p.insert_python_exec(*args, **kw)
    elif h == "append_python":
        p.append_python(*[dec(a) for a in mode["args"]], module=mode["callee"][0], attr=mode["callee"][1],
                        pop_result=mode["pop_result"])
    elif h == "insert_magic_int":
        if mode["index"] is None:
            p.insert_magic_int(mode["magic"])
        else:
            p.insert_magic_int(mode["magic"], mode["index"])
    elif h == "callobj":
        p.insert_function_call_on_unpickled_object(
            mode["fdef"], constant_args=None if mode["cargs"] is None else [dec(a) for a in mode["cargs"]],
            compile_code=mode["compile"])
    else:
        raise ValueError(h)


def check_obs(b, o, mode):
    """the property on one pair (base observation, rewritten observation); list of failure names"""
    if not o["ok"]:
        return ["rewritten-not-loadable"]
    fails = []
    h = mode["helper"]
    ins = h in ("insert_python", "insert_python_eval", "insert_python_exec")
    L = len(b["log"])
    if h == "insert_magic_int":
        if o["inj"]:
            fails.append("injected-call-count")
        pre, post, keep = [], [], True
    else:
        if ins:
            callee = tuple(mode["callee"])
            pre, post = [(callee[0], callee[1], 0)], []
            keep = not mode["replace"]
            first = mode["run_first"]
            exp_args = tuple(dec(a) for a in mode["args"]) if callee == SINK else (TOKEN, 7)
            exp_val = None if callee[1] == "exec" else ("inj-result", 1)
        elif h == "append_python":
            callee = tuple(mode["callee"])
            pre, post = [], [(callee[0], callee[1], L)]
            keep = mode["pop_result"]
            first = False
            exp_args = tuple(dec(a) for a in mode["args"]) if callee == SINK else (TOKEN, 7)
            exp_val = ("inj-result", 1)
        else:
            pre = []
            post = ([("marshal", "loads", L)] if mode["compile"] else []) + [("builtins", "exec", L),
                                                                              ("builtins", "eval", L)]
            keep, first = False, False
            exp_args = (b["value"],) + tuple(dec(a) for a in (mode["cargs"] or []))
            exp_val = ("inj-result", 1)
        if len(o["inj"]) != 1:
            fails.append("injected-call-count")
        else:
            args, kw, lp, fcp = o["inj"][0]
            if fp(args) != fp(exp_args) or kw != ():
                fails.append("injected-args-differ")
            if first and (lp != 0 or fcp != 1):
                fails.append("injected-call-not-first")
            if not first and (lp != len(o["log"]) or fcp != len(o["fc"])):
                fails.append("injected-call-not-last")
    if o["log"] != b["log"]:
        fails.append("base-effects-differ")
    if o["fc"] != pre + b["fc"] + post:
        fails.append("find_class-sequence-differs")
    if keep:
        if fp(o["value"]) != fp(b["value"]):
            fails.append("kept-value-differs")
    elif fp(o["value"]) != fp(exp_val):
        fails.append("replaced-value-differs")
    if o["stack"] is not None and o["stack"] != (0, 0):
        fails.append("stack-not-empty-at-stop")
    return fails


def real_case(case):
    """everything observed on the implementation for one case"""
    from fickling.analysis import check_safety
    from fickling.fickle import Pickled
    base = bytes.fromhex(case["hex"])
    mode = case["mode"]
    try:
        base_ops = vmlib.abstract_ops(base)
    except Exception:
        base_ops = None
    if base_ops is None:
        return {"status": "outside-model"}
    b = observe(base, pure=False)
    if not b["ok"]:
        return {"status": "base-not-loadable"}
    try:
        p = Pickled.load(base)
        from fickling.fickle import Interpreter
        Interpreter(p).run()
    except Exception:
        # outside the behavioural clauses (fickling cannot interpret the base), but the rating clause still
        # applies to whatever the helpers emit: the rewritten pickle is never rated LIKELY_SAFE (an analysis
        # that raises gives no rating at all, which is fine)
        res = {"status": "fickling-refuses-base"}
        if mode["helper"] != "insert_magic_int":
            try:
                p = Pickled.load(base)
                apply_mode(p, mode)
                out = p.dumps()
                sev = check_safety(Pickled.load(out)).severity.name
            except Exception as e:
                out, sev = None, f"raised {type(e).__name__}"
            res["severity"] = sev
            if sev == "LIKELY_SAFE":
                res["fails"] = ["rated-LIKELY_SAFE"]
                res["out_hex"] = out.hex()
        return res
    bs = observe(strip_frames(base), pure=True)
    if not bs["ok"] or bs["stack"] != (0, 0):
        return {"status": "base-leaves-values-on-the-stack"}        # outside the quantifier
    res = {"status": "ok", "base_ops": base_ops, "nops": len(base_ops), "framed": has_frame(base)}
    try:
        p = Pickled.load(base)
        apply_mode(p, mode)
        out = p.dumps()
    except Exception as e:
        res.update(status="refused", exc=f"{type(e).__name__}: {e}"[:200], fails=["helper-refused"])
        return res
    res["out_hex"] = out.hex()
    try:
        res["out_ops"] = vmlib.abstract_ops(out)
    except Exception:
        res["out_ops"] = None
    fails = []
    o = observe(out, pure=False)
    fails += check_obs(b, o, mode)
    if not has_frame(out):
        bp = observe(base, pure=True)
        if bp["ok"]:
            o2 = observe(out, pure=True)
            fails += ["pure-python:" + f for f in check_obs(bp, o2, mode)]
    else:
        o2 = observe(strip_frames(out), pure=True)          # frames do not touch the stack
        if o2["ok"] and o2["stack"] != (0, 0):
            fails.append("stack-not-empty-at-stop")
    names = [op.name for op in p]
    if not names or names[-1] != "STOP" or names.count("STOP") != 1 or out[-1:] != b".":
        fails.append("not-a-single-final-stop")
    if mode["helper"] != "insert_magic_int":
        try:
            sev = check_safety(Pickled.load(out)).severity.name
        except Exception as e:
            sev = f"raised {type(e).__name__}"
        res["severity"] = sev
        if sev == "raised RecursionError":
            # self-containing containers make ast.unparse recurse (the DESIGN D19 family, a robustness
            # matter of the analysis, not of the injector): no rating is produced, in particular not LIKELY_SAFE
            res["severity"] = "n/a (check_safety raises RecursionError: self-containing container)"
        elif sev.startswith("raised"):
            fails.append("check_safety-raises")
        elif sev == "LIKELY_SAFE":
            fails.append("rated-LIKELY_SAFE")
        elif (mode["helper"] == "callobj" or mode.get("callee", [None, None])[1] in ("eval", "exec")) \
                and sev != "OVERTLY_MALICIOUS":
            fails.append("eval-exec-injection-not-OVERTLY_MALICIOUS")
    res["fails"] = fails
    res["ncalls_base"] = len(b["log"]) + len(b["fc"])
    return res


def _work(batch):
    out = []
    for c in batch:
        try:
            out.append(real_case(c))
        except Exception as e:
            out.append({"status": "harness-error", "exc": f"{type(e).__name__}: {e}"[:300]})
    return out


def run_cases(cases, workers=14):
    B = 40
    batches = [cases[i:i + B] for i in range(0, len(cases), B)]
    with ProcessPoolExecutor(max_workers=min(workers, max(1, len(batches)))) as ex:
        return [r for rs in ex.map(_work, batches) for r in rs]


def strip_tag(f):
    return f.split(":", 1)[1] if f.startswith("pure-python:") else f


def judge(case, r, model_line):
    """-> (list of unexplained failure names, known signatures reproduced)"""
    fails = list(r.get("fails", []))
    if model_line is not None:
        if r["status"] == "refused":
            if not model_line.startswith("ERR"):
                pass                                        # already in fails as helper-refused
            else:
                fails = [f for f in fails if f != "helper-refused"]   # both refuse: agreement
                if model_line == "ERR ValueError" and not str(r.get("exc", "")).startswith("ValueError"):
                    fails.append("refusal-is-not-a-ValueError")
        else:
            real = "OK " + sx(r["out_ops"]) if r.get("out_ops") is not None else "OUTSIDE-MODEL"
            if model_line != real:
                fails.append("correspondence")
    if case["mode"].get("expect_refusal") and r["status"] != "refused":
        fails.append("unsupported-argument-accepted")
    hit = []
    for sig in known_signatures(case["mode"]):
        allowed = KNOWN_ALLOWED[sig]
        rest = [f for f in fails if allowed is not None and f not in allowed]
        if len(rest) < len(fails):
            hit.append(sig)
        fails = rest
    return fails, hit


def brief(entries):
    """compact summary of failing cases for the obligation detail"""
    import collections
    cnt = collections.Counter((tuple(e["fails"]), e["case"]["mode"]["helper"]) for e in entries)
    first = [{"fails": e["fails"], "kind": e["case"]["kind"], "mode": e["case"]["mode"], "exc": e.get("exc"),
              "hex": e["case"]["hex"][:160] + ("..." if len(e["case"]["hex"]) > 160 else "")} for e in entries[:3]]
    return json.dumps({"counts": [[list(k[0]), k[1], v] for k, v in cnt.most_common(12)], "first": first},
                      default=repr)


def main(tier, seed):
    chk = Check("C08", tier, seed)
    chk.rule = ("base pickles: special values (300-entry memo, shared references, instances with state, "
                "__reduce__/__getnewargs_ex__ classes) and generated values at protocols 0-5, framed and with the "
                "FRAME opcodes stripped; generated opcode programs with sparse memo keys (incl. 1, 2, 321987, "
                "len(memo)), marks, junk and verif_sink effects, with/without PROTO/FRAME; each crossed with every "
                "helper x flag combination (insert_python[_eval|_exec] run_first x replace x {sink, eval, exec}, "
                "append_python pop x {sink, eval}, insert_magic_int default / in-range index, "
                "insert_function_call_on_unpickled_object plain/compiled x args) with fresh argument values "
                "(ints, text, bytes, nested lists/dicts).  distinct = (base bytes, mode); non-trivial = the "
                "base performs at least one global resolution or sink call, or has >= 8 opcodes")
    built = chk.regen_and_build(["proofs/InjectProofs.vo", "proofs/InjectSevProofs.vo", "proofs/InjectFkFrame.vo"])
    if built:
        chk.prove()
    rng = chk.rng
    nnat, nasm, per_base = (60, 110, None) if tier == "quick" else (1500, 3000, None)
    bases = []
    corpus_path = os.path.join(os.path.dirname(__file__), "corpus", "c08.jsonl")
    corpus_cases = []
    if os.path.exists(corpus_path):
        for line in open(corpus_path):
            if line.strip():
                corpus_cases.append(json.loads(line))
    bases = gen_bases(rng, nnat, nasm)
    cases = list(corpus_cases)
    for kind, data in bases:
        try:
            nops = sum(1 for _ in pickletools.genops(data))
        except Exception:
            continue
        for m in mode_variants(rng, nops):
            cases.append({"kind": kind, "hex": data.hex(), "mode": m})
    for kind, data in bases[::7]:
        try:
            nops = sum(1 for _ in pickletools.genops(data))
        except Exception:
            continue
        for m in known_class_modes(rng, nops):
            cases.append({"kind": kind + "+known-class", "hex": data.hex(), "mode": m})
        for m in refusal_modes(rng, nops):
            cases.append({"kind": kind + "+refusal-class", "hex": data.hex(), "mode": m})
    results = run_cases(cases)
    lines, idx = [], []
    for i, (c, r) in enumerate(zip(cases, results)):
        if r["status"] in ("ok", "refused"):
            lines.append(model_query(c["mode"], r["base_ops"], r.get("out_ops")))
            idx.append(i)
    out = Driver().query(lines) if built else [None] * len(lines)
    model_of = dict(zip(idx, out))
    corr_bad, prop_bad, known_hits = [], [], {}
    evaluated = 0
    for i, (c, r) in enumerate(zip(cases, results)):
        st = r["status"]
        chk.stats["status:" + st] = chk.stats.get("status:" + st, 0) + 1
        if st == "harness-error":
            prop_bad.append({"case": c, "fails": ["harness-error " + r["exc"]]})
            continue
        if st not in ("ok", "refused"):
            if st == "fickling-refuses-base" and r.get("severity"):
                key = "refused-base severity:" + r["severity"]
                chk.stats[key] = chk.stats.get(key, 0) + 1
            if r.get("fails"):
                prop_bad.append({"case": c, "fails": r["fails"], "rewritten_hex": r.get("out_hex", "")[:200]})
            continue
        evaluated += 1
        chk.count()
        chk.stats["kind:" + c["kind"].split("-")[0]] = chk.stats.get("kind:" + c["kind"].split("-")[0], 0) + 1
        chk.stats["helper:" + c["mode"]["helper"]] = chk.stats.get("helper:" + c["mode"]["helper"], 0) + 1
        if r.get("framed"):
            chk.stats["framed"] = chk.stats.get("framed", 0) + 1
        if str(r.get("severity", "")).startswith("n/a"):
            chk.stats["check_safety raised RecursionError (self-containing container)"] = \
                chk.stats.get("check_safety raised RecursionError (self-containing container)", 0) + 1
        elif r.get("severity"):
            chk.stats["severity:" + r["severity"]] = chk.stats.get("severity:" + r["severity"], 0) + 1
        if r.get("ncalls_base", 0) >= 1 or r.get("nops", 0) >= 8:
            chk.nontriv((c["hex"], json.dumps(c["mode"], sort_keys=True)))
        rest, sigs = judge(c, r, model_of.get(i))
        for sig in sigs:
            known_hits.setdefault(sig, {"case": c, "fails": r.get("fails")})
        if rest:
            entry = {"case": c, "fails": rest, "exc": r.get("exc"), "model": (model_of.get(i) or "")[:300],
                     "real": (sx(r["out_ops"])[:300] if r.get("out_ops") else None)}
            if rest == ["correspondence"] or (rest == ["helper-refused"]):
                corr_bad.append(entry)
            else:
                prop_bad.append(entry)
        elif len(chk.samples) < 6 and i % 97 == 0:
            chk.sample({"kind": c["kind"], "base_hex": c["hex"][:120], "mode": c["mode"],
                        "rewritten_hex": r.get("out_hex", "")[:160], "severity": r.get("severity")})
    for sig, hit in known_hits.items():
        k = chk.match_known(sig)
        if k:
            chk.known_finding(k, "e.g. " + json.dumps(hit["case"]["mode"])[:200])
        else:
            prop_bad.append({"case": hit["case"], "fails": hit["fails"]})
    if built:
        chk.oblige(f"correspondence: opcode list produced by the real helper == model Inject.inject, "
                   f"{evaluated} injections", not corr_bad, brief(corr_bad))
    chk.oblige(f"property oracle on the real unpicklers (exactly-once call, arguments, base effects in order, "
               f"value, empty stack at STOP, single final STOP, severity), {evaluated} injections",
               not prop_bad, brief(prop_bad))

    # severity only (the bases are not loadable for real: BUILD applied to a builtin): base pickles that alias
    # builtins eval / exec through a variable (C04's alias escape D18) or shadow the name by a stdlib import (D20)
    from fickling.analysis import check_safety
    from fickling.fickle import Pickled
    alias_bad = []
    alias_bases = [b"\x80\x02cbuiltins\neval\nNb(X\x01\x00\x00\x001tR.",
                   b"cbuiltins\nexec\n}b(V1\ntR.",
                   b"\x80\x02cast\neval\n0cbuiltins\neval\n(X\x01\x00\x00\x001tR."]
    for ab in alias_bases:
        for m in mode_variants(rng, 5):
            if m["helper"] == "insert_magic_int" or (m["helper"] != "callobj" and m["callee"][1] not in ("eval", "exec")):
                continue
            try:
                pk = Pickled.load(ab)
                apply_mode(pk, m)
                sev = check_safety(Pickled.load(pk.dumps())).severity.name
            except Exception as e:
                sev = f"raised {type(e).__name__}: {e}"
            chk.count()
            if sev != "OVERTLY_MALICIOUS":
                alias_bad.append({"base_hex": ab.hex(), "mode": m, "severity": sev})
    chk.oblige("eval/exec injections into base pickles that alias or shadow eval/exec are rated OVERTLY_MALICIOUS "
               f"({len(alias_bases)} bases x every eval/exec mode)", not alias_bad, json.dumps(alias_bad[:2]))

    def search():
        for e in alias_bad:
            return {"case": {"kind": "alias-base", "hex": e["base_hex"], "mode": e["mode"]},
                    "oracle": ["eval-exec-injection-not-OVERTLY_MALICIOUS: " + e["severity"]]}
        for e in prop_bad:
            return {"case": e["case"], "oracle": e["fails"]}
        # a correspondence failure alone: look at the same cases with the oracle only
        for e in corr_bad:
            r = run_cases([e["case"]], workers=1)[0]
            rest, _ = judge(e["case"], r, None)
            if rest:
                return {"case": e["case"], "oracle": rest}
        return None

    report_broken_obligations(chk, search)
    return chk.finish()


def replay(path):
    doc = json.load(open(path))
    case = (doc.get("case") or {}).get("case")
    if not case:
        print("replay: no concrete input recorded; re-running the quick check")
        return main("quick", doc.get("seed", 0))
    r = run_cases([case], workers=1)[0]
    rest, sigs = judge(case, r, None)
    sig = ",".join(sigs)
    if rest:
        print(f"VIOLATION property=C08 replay={path}")
        print(json.dumps({"fails": rest, "status": r["status"], "exc": r.get("exc")}))
        return 1
    print("replay: the recorded case no longer fails" + (f" (known finding {sig})" if sig else ""))
    return 0
