"""C12 -- hook lifecycle: protection holds while armed and is restored exactly on exit.

Theorems: coq/props/C12.v over coq/model/Hooks.v.  Tie: the extracted model and the real
fickling.hook / fickling.context / fickling.loader are run on the same operation histories
(children: harness/c12_child.py); after every step the identity class of pickle.load,
pickle.loads, _pickle.load, _pickle.loads, pickle.Unpickler and the behaviour of probe loads of six
pickles through all five entry points are compared.  Oracle (model-free): `oracle()` below."""
import json
import os
import subprocess
import sys
from concurrent.futures import ThreadPoolExecutor

from harness import asm
from harness.common import PY, VERIF, Check, Driver, env_child, report_broken_obligations, sx, wire

CHILD = os.path.join(VERIF, "harness", "c12_child.py")
SLOTS = ["pl", "pls", "cl", "cls", "unp"]
INITIAL_IDS = [0, 1, 0, 1, 2]         # tokens of the originals (c12_child.SEEN); _pickle.load IS pickle.load
SINK = ("verif_sink", "record")
OD = ("fractions", "Fraction")        # stdlib, NOT in ML_ALLOWLIST (checked at run time)
FR = ("decimal", "Decimal")
NP = ("numpy", "dtype")
PICKLE_GLOBALS = [[], [OD], [SINK], [NP], [OD, FR], [NP, SINK]]
ADDS = [None, ["fractions.Fraction"], ["verif_sink.record"],
        ["fractions.Fraction", "decimal.Decimal"], []]
# histories that were findings before the repair of fickling/context.py (C12-activate-inside-context,
# C12-arm-inside-context), and the other shapes a context manager can get wrong: a manager constructed
# early and entered after something else was switched on ("mk" ... "enterp"), one manager object
# entered twice ("reenter"), something switched on or removed inside the block.  Always run, in fresh
# children, observed after every step, against the model AND the oracle.
TARGETED = [
    ["enter", ["act", 0], "leave"],
    ["enter", "arm", "leave"],
    [["act", 1], "enter", ["act", 0], "leavex"],
    ["arm", "enter", "rm", "leave"],
    [["act", 2], "enter", "rm", "enter", "leave", "leave"],
    ["mk", ["act", 0], "enterp", "leave"],
    ["mk", "arm", "enterp", "leavex"],
    ["mk", "mk", "arm", "enterp", ["act", 3], "enterp", "rm", "leave", "leave"],
    ["mk", "enter", "enterp", "leave", "leave"],
    ["enter", "reenter", "leave", "leave"],
    ["arm", "enter", ["act", 1], "reenter", "rm", "leave", ["probe", "unp", 2], "leavex"],
    ["enter", ["act", 0], "enter", "leave", ["probe", "pl", 2], "leave", ["probe", "unp", 2]],
]


def build_pickle(globs):
    """a list holding every global in order; the sink is also CALLED right after it is resolved"""
    prog = [("PROTO", 2), "EMPTY_LIST"]
    for g in globs:
        prog.append(("GLOBAL", g))
        if g == SINK:
            prog += [("BININT1", 7), "TUPLE1", "REDUCE"]
        prog.append("APPEND")
    prog.append("STOP")
    return asm.assemble(prog)


def verdicts(pickles):
    """the analysis' verdict on each probe pickle (an INPUT of the model), computed in this process
    where no hook is ever installed"""
    from fickling.analysis import Severity, check_safety
    from fickling.fickle import Pickled
    return [bool(check_safety(Pickled.load(p)).severity > Severity.LIKELY_SAFE) for p in pickles]


def split(dotted):
    m, n = dotted.rsplit(".", 1)
    return (m, n)


def adds_pairs(i):
    return [split(a) for a in (ADDS[i] or [])]


# ---------------------------------------------------------------- histories
def enumerate_histories(maxlen, maxdepth=3):
    """all histories over the state-changing operations, every leave matched, nesting <= maxdepth"""
    alphabet = ["arm", ["act", 0], ["act", 1], "rm", "enter", "leave", "leavex"]
    out = []

    def rec(h, depth):
        if h:
            out.append(list(h))
        if len(h) == maxlen:
            return
        for op in alphabet:
            if op in ("leave", "leavex"):
                if depth == 0:
                    continue
                rec(h + [op], depth - 1)
            elif op == "enter":
                if depth == maxdepth:
                    continue
                rec(h + [op], depth + 1)
            else:
                rec(h + [op], depth)

    rec([], 0)
    return out


def random_history(rng, maxlen, maxdepth=3):
    n = rng.randrange(6, maxlen + 1)
    h, depth = [], 0
    for _ in range(n):
        r = rng.random()
        if r < 0.04:
            op = "mk"
        elif r < 0.10:
            op = rng.choice(["arm", "arm2"])
        elif r < 0.24:
            op = ["act", rng.randrange(len(ADDS))]
        elif r < 0.34:
            op = rng.choice(["rm", "rm2"])
        elif r < 0.54:
            op = (rng.choice(["enter", "enter", "enterp", "reenter"]) if depth < maxdepth
                  else rng.choice(["leave", "leavex"]))
        elif r < 0.74:
            op = rng.choice(["leave", "leavex"]) if depth > 0 else "enter"
        else:
            op = ["probe", rng.choice(SLOTS), rng.randrange(len(PICKLE_GLOBALS))]
        if op in ("enter", "enterp", "reenter"):
            depth += 1
        elif op in ("leave", "leavex"):
            depth -= 1
        h.append(op)
    return h


def kind(op):
    k = op if isinstance(op, str) else op[0]
    return {"arm2": "arm", "rm2": "rm", "enterp": "enter", "reenter": "enter"}.get(k, k)


# ---------------------------------------------------------------- running both sides
def run_child(histories, pickles, observe):
    job = {"pickles": [p.hex() for p in pickles], "adds": ADDS, "histories": histories,
           "observe": observe}
    p = subprocess.run([PY, CHILD], input=json.dumps(job), capture_output=True, text=True,
                       env=env_child({"PYTHONDONTWRITEBYTECODE": "1"}), timeout=3000, cwd=VERIF)
    lines = [l for l in p.stdout.splitlines() if l.startswith("{")]
    if p.returncode != 0 or not lines:
        raise RuntimeError(f"c12 child failed rc={p.returncode}: {p.stderr[-800:]}")
    return json.loads(lines[-1])


def run_children(chunks, pickles, observe, workers=14):
    with ThreadPoolExecutor(max_workers=workers) as ex:
        return list(ex.map(lambda c: run_child(c, pickles, observe), chunks))


def op_sx(op, flags):
    k = kind(op)
    if k in ("arm", "rm", "enter", "leave", "leavex", "mk"):
        return k
    if k == "act":
        return ["act", [[wire(m), wire(n)] for m, n in adds_pairs(op[1])]]
    if k == "probe":
        return ["probe", op[1], pickle_sx(op[2], flags)]
    raise ValueError(op)


def pickle_sx(k, flags):
    return [flags[k], [[wire(m), wire(n)] for m, n in PICKLE_GLOBALS[k]]]


def model_lines(drv, histories, flags):
    pk = [pickle_sx(k, flags) for k in range(len(PICKLE_GLOBALS))]
    qs = [sx(["hooks", pk, [op_sx(o, flags) for o in h]]) for h in histories]
    return [l.split("|") for l in drv.query(qs)]


def tok(pr, globs):
    """probe record -> the model's token (R/U/X + number of resolved globals) + sink calls"""
    return f"{pr['r']}{pr['n']}s{pr['sink']}"


def model_tok(t, globs):
    """the model prints R<n> / U<n> / X<n>; the sink is called iff it was resolved"""
    n = int(t[1:])
    return f"{t}s{sum(1 for g in globs[:n] if g == SINK)}"


def real_line(st):
    s = " ".join(st["cls"]) + f" d{st['depth']}"
    if "probes" in st:
        s += ";" + " ".join(",".join(tok(pr, PICKLE_GLOBALS[k]) for k, pr in enumerate(row))
                            for row in st["probes"])
    return s


def model_line(line, hist_op, with_probes):
    parts = line.split(";")
    s = parts[0]
    if with_probes:
        s += ";" + " ".join(",".join(model_tok(t, PICKLE_GLOBALS[k]) for k, t in enumerate(row.split(",")))
                            for row in parts[1].split(" "))
    return s


def compare(hist, steps, mlines, flags):
    """first differing step (index, real, model) or None"""
    if len(mlines) != len(steps):
        return (0, f"{len(steps)} steps", f"{len(mlines)} steps")
    for i, (op, st, ml) in enumerate(zip(hist, steps, mlines)):
        if "op_error" in st:
            return (i, "operation raised " + st["op_error"], ml)
        r = real_line(st)
        m = model_line(ml, op, "probes" in st)
        if kind(op) == "probe":
            x = st.get("x")
            r += ";" + (tok(x, PICKLE_GLOBALS[op[2]]) if x else "?")
            m += ";" + model_tok(ml.split(";")[2], PICKLE_GLOBALS[op[2]])
        if r != m:
            return (i, r, m)
    return None


# ---------------------------------------------------------------- the property itself (model-free)
def permitted(base, adds_str, g):
    """BASE + additions, read off the class string M(mod:name,...) of the live closure"""
    if g[1] in base.get(g[0], ()):
        return True
    inner = adds_str[2:-1]
    return any(a == f"{g[0]}:{g[1]}" for a in inner.split(",") if a)


def check_probe(cls, pr, k, flags, base, where):
    """what a load through a binding of class `cls` may do with pickle k (None = fine)"""
    globs = PICKLE_GLOBALS[k]
    if cls.startswith("X") or cls.endswith("!wrongkind"):
        return f"{where}: bound to something that is neither the original nor a fickling protection: {cls}"
    if cls == "O":
        if pr["r"] != "R":
            return f"{where}: original function failed on a harmless pickle: {pr['r']}"
        return None
    if cls == "C":
        if flags[k] and (pr["r"] != "U" or pr["n"] or pr["sink"]):
            return (f"{where}: checked loader in force but the flagged pickle {globs} was not refused "
                    f"before anything was resolved: {tok(pr, globs)}")
        if not flags[k] and pr["r"] not in ("R", "U"):
            return f"{where}: checked loader fails on an unflagged pickle {globs}: {pr['r']}"
        return None
    if cls.startswith("M("):
        res = [tuple(e) for e in pr["ev"]]
        for g in res:
            if not permitted(base, cls, g):
                return (f"{where}: ML environment {cls} in force but {g[0]}.{g[1]} outside BASE+additions "
                        f"was resolved")
        bad = [g for g in globs if not permitted(base, cls, g)]
        if bad and pr["r"] != "U":
            return f"{where}: ML environment {cls} did not abort on {bad[0]}: {pr['r']}"
        if not bad and pr["r"] != "R":
            return f"{where}: ML environment {cls} refused a pickle over permitted globals {globs}: {pr['r']}"
        if pr["sink"] and not permitted(base, cls, SINK):
            return f"{where}: sink executed under {cls}"
        return None
    return f"{where}: unknown class {cls}"


def oracle(hist, steps, flags, base):
    """C12 evaluated on the observations of one history, no model involved.
    Returns (why, step, signature) -- signature names a recorded finding or is None (no finding of
    this property is open at present, so it always is None).

    "In force" is scoped: what is switched on or off inside a context ends with the context, i.e.
    leaving re-instates the mechanisms (and must re-instate the bindings) of the matching entry."""
    armed, ml, depth = False, None, 0
    removed_inside = False
    saved = []          # per open context: (identities of the five bindings, armed, ml) at its entry
    prev = list(INITIAL_IDS)
    for i, (op, st) in enumerate(zip(hist, steps)):
        k = kind(op)
        ids, cls = st["ids"], st["cls"]
        if "op_error" in st:
            return (f"operation {op} raised {st['op_error']}", i, None)
        if k == "arm":
            armed = True
        elif k == "act":
            ml = "M(" + ",".join(f"{m}:{n}" for m, n in adds_pairs(op[1])) + ")"
        elif k == "rm":
            armed, ml = False, None
            removed_inside = removed_inside or depth > 0
            if depth == 0 and ids != INITIAL_IDS:
                return ("after removal with no context open the bindings are not the originals: "
                        f"{dict(zip(SLOTS, cls))}", i, None)
        elif k == "mk":
            if ids != prev:
                return ("constructing a context manager (without entering it) changed the bindings: "
                        f"{dict(zip(SLOTS, cls))}", i, None)
        elif k == "enter":
            saved.append((prev, armed, ml))
            depth += 1
            if ids[1:] != prev[1:]:
                return (f"entering a context changed {dict(zip(SLOTS[1:], cls[1:]))}", i, None)
        elif k in ("leave", "leavex"):
            before, armed, ml = saved.pop()
            depth -= 1
            if ids != before:
                wrong = [s for s, x, y in zip(SLOTS, ids, before) if x != y]
                return (f"leaving ({k}) did not restore {wrong} to the binding(s) in force immediately "
                        f"before the matching enter: now {dict(zip(SLOTS, cls))}", i, None)
        elif k == "probe":
            if ids != prev:
                return ("a probe load changed the bindings", i, None)
            x = st.get("x")
            why = check_probe(cls[SLOTS.index(op[1])], x, op[2], flags, base, f"probe {op[1]}")
            if why:
                return (why, i, None)
        # behaviour of every entry point against the protection bound there
        for si, row in enumerate(st.get("probes") or []):
            for pk, pr in enumerate(row):
                why = check_probe(cls[si], pr, pk, flags, base, SLOTS[si])
                if why:
                    return (why, i, None)
        # the ML environment covers every entry point: no half state
        for si in range(1, len(SLOTS)):
            want = ml or "O"
            if cls[si] != want:
                return (f"{SLOTS[si]} is {cls[si]} but the ML environment in force is {want}", i, None)
        if cls[0] not in ("C", ml or "O"):
            return (f"pickle.load is {cls[0]}: neither the checked loader nor the ML environment in force "
                    f"({ml or 'none'})", i, None)
        # a mechanism in force => pickle.load is protected
        if (armed or ml) and cls[0] == "O":
            return ("a protection is in force (global check=%s, ML=%s) but pickle.load is the original "
                    "function" % (armed, ml), i, None)
        # an open context => pickle.load is protected (unless hooks were removed inside it: the
        # property speaks of removal "with no context open" only)
        if depth == 0:
            removed_inside = False
        if depth > 0 and cls[0] == "O" and not removed_inside:
            return (f"{depth} context(s) open but pickle.load is the original function", i, None)
        prev = ids
    return None


def twin(hist):
    return [("leave" if o == "leavex" else "leavex" if o == "leave" else o) for o in hist]


def strip_ids(steps):
    return [{k: v for k, v in st.items() if k != "ids"} for st in steps]


def full_oracle(hist, pickles, flags):
    """fresh child, every step observed; also: leaving by exception == leaving normally"""
    res = run_child([hist], pickles, "all")
    r = oracle(hist, res["runs"][0], flags, res["base"])
    if r:
        return r
    if any(o in ("leave", "leavex") for o in hist):
        res2 = run_child([twin(hist)], pickles, "all")
        a, b = strip_ids(res["runs"][0]), strip_ids(res2["runs"][0])
        for i, (x, y) in enumerate(zip(a, b)):
            if x != y:
                return ("leaving by exception and leaving normally give different states", i, None)
    return None


def shrink(hist, pickles, flags, sig, budget=40):
    """greedy deletion keeping every leave matched and the same kind of failure"""
    def wellformed(h):
        d = 0
        for o in h:
            if kind(o) == "enter":
                d += 1
            elif o in ("leave", "leavex"):
                d -= 1
                if d < 0:
                    return False
        return True
    cur = list(hist)
    i = 0
    while i < len(cur) and budget > 0:
        cand = cur[:i] + cur[i + 1:]
        if cand and wellformed(cand):
            budget -= 1
            r = full_oracle(cand, pickles, flags)
            if r and r[2] == sig:
                cur = cand
                continue
        i += 1
    return cur


# ---------------------------------------------------------------- main
def main(tier, seed):
    chk = Check("C12", tier, seed)
    quick = tier == "quick"
    maxlen = 5 if quick else 6
    chk.rule = (f"bounded-exhaustive: every history of length <= {maxlen} over {{arm, activate(none), "
                "activate([fractions.Fraction]), remove, enter, leave, leave-by-exception}} with every "
                "leave matched and nesting <= 3 (prefix-closed, so the probe matrix after the last step covers "
                "every step); random: histories of length 6..40 over 5 addition sets incl. explicit probe "
                "operations, managers constructed early and entered later, and one manager entered twice, "
                f"+ {len(TARGETED)} targeted histories (switching on / removing inside a context; the two former "
                "findings), each in a FRESH child, observed after every step.  Observed: identity class of the "
                "five bindings + 5 entry points x 6 probe pickles (outcome, #globals resolved, sink calls).  "
                "non-trivial = at least one binding not original; distinct by final binding classes + depth")
    built = chk.regen_and_build(["proofs/HooksProofs.vo"])
    if built:
        chk.prove()
    pickles = [build_pickle(g) for g in PICKLE_GLOBALS]
    flags = verdicts(pickles)
    import fickling.ml as fml
    vocab_ok = (not flags[0] and not flags[1] and not flags[4] and flags[2] and flags[3] and flags[5]
                and all(g[1] not in fml.ML_ALLOWLIST.get(g[0], ()) for g in (OD, FR, SINK))
                and NP[1] in fml.ML_ALLOWLIST.get(NP[0], ()))
    chk.stats["vocabulary_as_intended"] = vocab_ok
    chk.stats["probe_pickles"] = [{"globals": [".".join(g) for g in gl], "flagged": f}
                                  for gl, f in zip(PICKLE_GLOBALS, flags)]
    exh = enumerate_histories(maxlen)
    nrand = 28 if quick else 400
    rnd = [list(h) for h in TARGETED] + [random_history(chk.rng, 40) for _ in range(nrand)]
    chk.stats["exhaustive_histories"] = len(exh)
    chk.stats["targeted_histories"] = len(TARGETED)
    chk.stats["random_histories"] = len(rnd) - len(TARGETED)
    chk.stats["random_length_mean"] = round(sum(map(len, rnd)) / max(1, len(rnd)), 1)
    nchunk = 14
    chunks = [exh[i::nchunk] for i in range(nchunk)]
    chunks = [c for c in chunks if c]
    bad = []           # disagreeing histories
    base = {}
    try:
        res = run_children(chunks, pickles, "last")
        base = res[0]["base"]
        exh_runs = []
        for c, r in zip(chunks, res):
            exh_runs += list(zip(c, r["runs"]))
        rres = run_children([[h] for h in rnd], pickles, "all")
        rnd_runs = [(h, r["runs"][0]) for h, r in zip(rnd, rres)]
        ran = True
    except Exception as e:  # noqa: BLE001
        chk.oblige("implementation side ran (children)", False, f"{type(e).__name__}: {e}")
        exh_runs, rnd_runs, ran = [], [], False
    if ran and built:
        drv = Driver()
        for name, runs in (("bounded-exhaustive", exh_runs), ("random/fresh-process", rnd_runs)):
            ml = model_lines(drv, [h for h, _ in runs], flags)
            mism = []
            for (h, steps), lines in zip(runs, ml):
                chk.count(len(steps))
                fin = steps[-1]
                if any(c != "O" for c in fin["cls"]):
                    chk.nontriv((tuple(fin["cls"]), fin["depth"]))
                for o in h:
                    chk.stats.setdefault("ops", {}).setdefault(kind(o), 0)
                    chk.stats["ops"][kind(o)] += 1
                d = compare(h, steps, lines, flags)
                if d:
                    mism.append({"history": h, "step": d[0], "real": d[1], "model": d[2]})
            chk.oblige(f"correspondence: Hooks model vs real hook/context/loader, {name}: "
                       f"{len(runs)} histories", not mism, json.dumps(mism[:3]))
            bad += mism
        if exh_runs:
            h, steps = exh_runs[len(exh_runs) // 2]
            chk.sample({"history": h, "observed_last_step": real_line(steps[-1])})
        if rnd_runs:
            h, steps = rnd_runs[0]
            chk.sample({"history": h[:12], "observed_step_0": real_line(steps[0])})
    chk.exhaustive = False
    chk.extra["bounds"] = {"exhaustive_max_length": maxlen, "max_nesting": 3, "random_max_length": 40}

    # ---- the property itself (model-free oracle) on the targeted histories, every run ----
    if ran:
        tfail = []
        for hist in TARGETED:
            try:
                r = full_oracle(hist, pickles, flags)
            except Exception as e:  # noqa: BLE001
                r = (f"oracle crashed: {e}", 0, None)
            k = chk.match_known(r[2]) if (r and r[2]) else None
            if r and k:
                chk.known_finding(k, f"[history {hist}: {r[0]}]")
            elif r:
                tfail.append({"history": hist, "step": r[1], "real": r[0], "model": "(oracle)"})
        chk.oblige(f"oracle (model-free): the {len(TARGETED)} targeted histories satisfy the property",
                   not tfail, json.dumps(tfail[:3]))
        bad = tfail + bad

    def search():
        tried = set()
        cands = [b["history"] for b in bad]
        cands += [h for h, _ in rnd_runs] + [h for h, _ in exh_runs[:: max(1, len(exh_runs) // 300)]]
        for h in cands:
            key = json.dumps(h)
            if key in tried:
                continue
            tried.add(key)
            if len(tried) > 500:
                break
            r = full_oracle(h, pickles, flags)
            if not r:
                continue
            why, step, sig = r
            k = chk.match_known(sig) if sig else None
            if k:
                chk.known_finding(k)
                continue
            small = shrink(h[: step + 1], pickles, flags, sig)
            r2 = full_oracle(small, pickles, flags) or r
            return {"oracle": r2[0], "history": small, "step": r2[1], "adds_table": ADDS,
                    "probe_pickles": [p.hex() for p in pickles], "original_history": h}
        return None

    report_broken_obligations(chk, search)
    return chk.finish()


def replay(path):
    doc = json.load(open(path))
    case = doc.get("case")
    if not case or "history" not in case:
        print("replay: no concrete history recorded; re-running the quick check")
        return main("quick", doc.get("seed", 0))
    pickles = [build_pickle(g) for g in PICKLE_GLOBALS]
    flags = verdicts(pickles)
    r = full_oracle(case["history"], pickles, flags)
    from harness.common import load_known_findings
    known = {k.get("signature") for k in load_known_findings()
             if k.get("property") == "C12" and k.get("status", "known") == "known"}
    if r and r[2] not in known:
        print(f"VIOLATION property=C12 replay={path}")
        print(f"step {r[1]}: {r[0]}")
        return 1
    print("replay: the recorded history no longer fails")
    return 0
