"""C12 -- hook lifecycle: protection holds while armed and is restored exactly on exit.

Theorems: coq/props/C12.v over coq/model/Hooks.v.  Tie: the extracted model and the real
fickling.hook / fickling.context / fickling.loader are run on the same operation histories
(children: harness/c12_child.py); after every step the identity class of pickle.load,
pickle.loads, _pickle.load, _pickle.loads and the behaviour of probe loads of six pickles through
all four entry points are compared.  Oracle (model-free): `oracle()` below."""
import json
import os
import subprocess
import sys
from concurrent.futures import ThreadPoolExecutor

from harness import asm
from harness.common import PY, VERIF, Check, Driver, env_child, report_broken_obligations, sx, wire

CHILD = os.path.join(VERIF, "harness", "c12_child.py")
SLOTS = ["pl", "pls", "cl", "cls"]
SINK = ("verif_sink", "record")
OD = ("fractions", "Fraction")        # stdlib, NOT in ML_ALLOWLIST (checked at run time)
FR = ("decimal", "Decimal")
NP = ("numpy", "dtype")
PICKLE_GLOBALS = [[], [OD], [SINK], [NP], [OD, FR], [NP, SINK]]
ADDS = [None, ["fractions.Fraction"], ["verif_sink.record"],
        ["fractions.Fraction", "decimal.Decimal"], []]
KNOWN_WITNESS = {
    "activate-inside-context": ["enter", ["act", 0], "leave"],
    "arm-inside-context": ["enter", "arm", "leave"],
}


def build_pickle(globs):
    """a list holding every global in order; the sink is also CALLED right after it is resolved"""
    prog = [("PROTO", 2), "EMPTY_LIST"]
    for g in globs:
        prog.append(("GLOBAL", g))
        if g == SINK:
            prog += [("BININT1", 7), "TUPLE1", "REDUCE"]
        prog.append("APPEND")
    prog.append("STOP")
    return asm.assemble(prog)


def verdicts(pickles):
    """the analysis' verdict on each probe pickle (an INPUT of the model), computed in this process
    where no hook is ever installed"""
    from fickling.analysis import Severity, check_safety
    from fickling.fickle import Pickled
    return [bool(check_safety(Pickled.load(p)).severity > Severity.LIKELY_SAFE) for p in pickles]


def split(dotted):
    m, n = dotted.rsplit(".", 1)
    return (m, n)


def adds_pairs(i):
    return [split(a) for a in (ADDS[i] or [])]


# ---------------------------------------------------------------- histories
def enumerate_histories(maxlen, maxdepth=3):
    """all histories over the state-changing operations, every leave matched, nesting <= maxdepth"""
    alphabet = ["arm", ["act", 0], ["act", 1], "rm", "enter", "leave", "leavex"]
    out = []

    def rec(h, depth):
        if h:
            out.append(list(h))
        if len(h) == maxlen:
            return
        for op in alphabet:
            if op in ("leave", "leavex"):
                if depth == 0:
                    continue
                rec(h + [op], depth - 1)
            elif op == "enter":
                if depth == maxdepth:
                    continue
                rec(h + [op], depth + 1)
            else:
                rec(h + [op], depth)

    rec([], 0)
    return out


def random_history(rng, maxlen, maxdepth=3):
    n = rng.randrange(6, maxlen + 1)
    h, depth = [], 0
    for _ in range(n):
        r = rng.random()
        if r < 0.10:
            op = rng.choice(["arm", "arm2"])
        elif r < 0.24:
            op = ["act", rng.randrange(len(ADDS))]
        elif r < 0.34:
            op = rng.choice(["rm", "rm2"])
        elif r < 0.54:
            op = "enter" if depth < maxdepth else rng.choice(["leave", "leavex"])
        elif r < 0.74:
            op = rng.choice(["leave", "leavex"]) if depth > 0 else "enter"
        else:
            op = ["probe", rng.choice(SLOTS), rng.randrange(len(PICKLE_GLOBALS))]
        if op == "enter":
            depth += 1
        elif op in ("leave", "leavex"):
            depth -= 1
        h.append(op)
    return h


def kind(op):
    k = op if isinstance(op, str) else op[0]
    return {"arm2": "arm", "rm2": "rm"}.get(k, k)


# ---------------------------------------------------------------- running both sides
def run_child(histories, pickles, observe):
    job = {"pickles": [p.hex() for p in pickles], "adds": ADDS, "histories": histories,
           "observe": observe}
    p = subprocess.run([PY, CHILD], input=json.dumps(job), capture_output=True, text=True,
                       env=env_child({"PYTHONDONTWRITEBYTECODE": "1"}), timeout=3000, cwd=VERIF)
    lines = [l for l in p.stdout.splitlines() if l.startswith("{")]
    if p.returncode != 0 or not lines:
        raise RuntimeError(f"c12 child failed rc={p.returncode}: {p.stderr[-800:]}")
    return json.loads(lines[-1])


def run_children(chunks, pickles, observe, workers=14):
    with ThreadPoolExecutor(max_workers=workers) as ex:
        return list(ex.map(lambda c: run_child(c, pickles, observe), chunks))


def op_sx(op, flags):
    k = kind(op)
    if k in ("arm", "rm", "enter", "leave", "leavex"):
        return k
    if k == "act":
        return ["act", [[wire(m), wire(n)] for m, n in adds_pairs(op[1])]]
    if k == "probe":
        return ["probe", op[1], pickle_sx(op[2], flags)]
    raise ValueError(op)


def pickle_sx(k, flags):
    return [flags[k], [[wire(m), wire(n)] for m, n in PICKLE_GLOBALS[k]]]


def model_lines(drv, histories, flags):
    pk = [pickle_sx(k, flags) for k in range(len(PICKLE_GLOBALS))]
    qs = [sx(["hooks", pk, [op_sx(o, flags) for o in h]]) for h in histories]
    return [l.split("|") for l in drv.query(qs)]


def tok(pr, globs):
    """probe record -> the model's token (R/U/X + number of resolved globals) + sink calls"""
    return f"{pr['r']}{pr['n']}s{pr['sink']}"


def model_tok(t, globs):
    """the model prints R<n> / U<n> / X<n>; the sink is called iff it was resolved"""
    n = int(t[1:])
    return f"{t}s{sum(1 for g in globs[:n] if g == SINK)}"


def real_line(st):
    s = " ".join(st["cls"]) + f" d{st['depth']}"
    if "probes" in st:
        s += ";" + " ".join(",".join(tok(pr, PICKLE_GLOBALS[k]) for k, pr in enumerate(row))
                            for row in st["probes"])
    return s


def model_line(line, hist_op, with_probes):
    parts = line.split(";")
    s = parts[0]
    if with_probes:
        s += ";" + " ".join(",".join(model_tok(t, PICKLE_GLOBALS[k]) for k, t in enumerate(row.split(",")))
                            for row in parts[1].split(" "))
    return s


def compare(hist, steps, mlines, flags):
    """first differing step (index, real, model) or None"""
    if len(mlines) != len(steps):
        return (0, f"{len(steps)} steps", f"{len(mlines)} steps")
    for i, (op, st, ml) in enumerate(zip(hist, steps, mlines)):
        if "op_error" in st:
            return (i, "operation raised " + st["op_error"], ml)
        r = real_line(st)
        m = model_line(ml, op, "probes" in st)
        if kind(op) == "probe":
            x = st.get("x")
            r += ";" + (tok(x, PICKLE_GLOBALS[op[2]]) if x else "?")
            m += ";" + model_tok(ml.split(";")[2], PICKLE_GLOBALS[op[2]])
        if r != m:
            return (i, r, m)
    return None


# ---------------------------------------------------------------- the property itself (model-free)
def permitted(base, adds_str, g):
    """BASE + additions, read off the class string M(mod:name,...) of the live closure"""
    if g[1] in base.get(g[0], ()):
        return True
    inner = adds_str[2:-1]
    return any(a == f"{g[0]}:{g[1]}" for a in inner.split(",") if a)


def check_probe(cls, pr, k, flags, base, where):
    """what a load through a binding of class `cls` may do with pickle k (None = fine)"""
    globs = PICKLE_GLOBALS[k]
    if cls.startswith("X") or cls.endswith("!wrongkind"):
        return f"{where}: bound to something that is neither the original nor a fickling protection: {cls}"
    if cls == "O":
        if pr["r"] != "R":
            return f"{where}: original function failed on a harmless pickle: {pr['r']}"
        return None
    if cls == "C":
        if flags[k] and (pr["r"] != "U" or pr["n"] or pr["sink"]):
            return (f"{where}: checked loader in force but the flagged pickle {globs} was not refused "
                    f"before anything was resolved: {tok(pr, globs)}")
        if not flags[k] and pr["r"] not in ("R", "U"):
            return f"{where}: checked loader fails on an unflagged pickle {globs}: {pr['r']}"
        return None
    if cls.startswith("M("):
        res = [tuple(e) for e in pr["ev"]]
        for g in res:
            if not permitted(base, cls, g):
                return (f"{where}: ML environment {cls} in force but {g[0]}.{g[1]} outside BASE+additions "
                        f"was resolved")
        bad = [g for g in globs if not permitted(base, cls, g)]
        if bad and pr["r"] != "U":
            return f"{where}: ML environment {cls} did not abort on {bad[0]}: {pr['r']}"
        if not bad and pr["r"] != "R":
            return f"{where}: ML environment {cls} refused a pickle over permitted globals {globs}: {pr['r']}"
        if pr["sink"] and not permitted(base, cls, SINK):
            return f"{where}: sink executed under {cls}"
        return None
    return f"{where}: unknown class {cls}"


def oracle(hist, steps, flags, base):
    """C12 evaluated on the observations of one history, no model involved.
    Returns (why, step, signature) -- signature names a recorded finding or is None."""
    armed, ml, depth = False, None, 0
    armed_inside = ml_inside = removed_inside = False
    saved = []
    prev = [0, 1, 0, 1]
    for i, (op, st) in enumerate(zip(hist, steps)):
        k = kind(op)
        ids, cls = st["ids"], st["cls"]
        if "op_error" in st:
            return (f"operation {op} raised {st['op_error']}", i, None)
        if k == "arm":
            armed, armed_inside = True, depth > 0
        elif k == "act":
            ml = "M(" + ",".join(f"{m}:{n}" for m, n in adds_pairs(op[1])) + ")"
            ml_inside = depth > 0
        elif k == "rm":
            armed, ml = False, None
            armed_inside = ml_inside = False
            removed_inside = removed_inside or depth > 0
            if depth == 0 and ids != [0, 1, 0, 1]:
                return ("after removal with no context open the bindings are not the originals: "
                        f"{dict(zip(SLOTS, cls))}", i, None)
            if depth == 0 and st.get("unp", "O") != "O":
                return ("after removal with no context open pickle.Unpickler is still the environment's "
                        "replacement class", i, None)
        elif k == "enter":
            saved.append(prev)
            depth += 1
            if ids[1:] != prev[1:]:
                return (f"entering a context changed {dict(zip(SLOTS[1:], cls[1:]))}", i, None)
        elif k in ("leave", "leavex"):
            before = saved.pop()
            depth -= 1
            if depth == 0:
                # what was switched on inside stays "inside" (it was subject to this leave)
                pass
            if ids[0] != before[0]:
                return (f"leaving ({k}) did not restore pickle.load to the binding in force immediately "
                        f"before the matching enter: now {cls[0]}", i, None)
            if ids[1:] != prev[1:]:
                return (f"leaving ({k}) changed {dict(zip(SLOTS[1:], cls[1:]))}", i, None)
        elif k == "probe":
            if ids != prev:
                return ("a probe load changed the bindings", i, None)
            x = st.get("x")
            why = check_probe(cls[SLOTS.index(op[1])], x, op[2], flags, base, f"probe {op[1]}")
            if why:
                return (why, i, None)
        # behaviour of every entry point against the protection bound there
        for si, row in enumerate(st.get("probes") or []):
            for pk, pr in enumerate(row):
                why = check_probe(cls[si], pr, pk, flags, base, SLOTS[si])
                if why:
                    return (why, i, None)
        # the ML environment covers all four entry points
        for si in (1, 2, 3):
            want = ml or "O"
            if cls[si] != want:
                return (f"{SLOTS[si]} is {cls[si]} but the ML environment state is {want}", i, None)
        # a mechanism switched on and not removed => pickle.load is protected.  Recorded findings:
        # the mechanism was switched on INSIDE a context that has been left since.
        if (armed or ml) and cls[0] == "O":
            sig = ("activate-inside-context" if (ml and ml_inside) else
                   "arm-inside-context" if (armed and armed_inside) else None)
            return ("a protection is switched on and was not removed (global check=%s, ML=%s) but "
                    "pickle.load is the original function" % (armed, ml), i, sig)
        # an open context => pickle.load is protected (unless hooks were removed inside it: the
        # property speaks of removal "with no context open" only)
        if depth == 0:
            removed_inside = False
        if depth > 0 and cls[0] == "O" and not removed_inside:
            return (f"{depth} context(s) open but pickle.load is the original function", i, None)
        prev = ids
    return None


def twin(hist):
    return [("leave" if o == "leavex" else "leavex" if o == "leave" else o) for o in hist]


def strip_ids(steps):
    return [{k: v for k, v in st.items() if k != "ids"} for st in steps]


def full_oracle(hist, pickles, flags):
    """fresh child, every step observed; also: leaving by exception == leaving normally"""
    res = run_child([hist], pickles, "all")
    r = oracle(hist, res["runs"][0], flags, res["base"])
    if r:
        return r
    if any(o in ("leave", "leavex") for o in hist):
        res2 = run_child([twin(hist)], pickles, "all")
        a, b = strip_ids(res["runs"][0]), strip_ids(res2["runs"][0])
        for i, (x, y) in enumerate(zip(a, b)):
            if x != y:
                return ("leaving by exception and leaving normally give different states", i, None)
    return None


def shrink(hist, pickles, flags, sig, budget=40):
    """greedy deletion keeping every leave matched and the same kind of failure"""
    def wellformed(h):
        d = 0
        for o in h:
            if o == "enter":
                d += 1
            elif o in ("leave", "leavex"):
                d -= 1
                if d < 0:
                    return False
        return True
    cur = list(hist)
    i = 0
    while i < len(cur) and budget > 0:
        cand = cur[:i] + cur[i + 1:]
        if cand and wellformed(cand):
            budget -= 1
            r = full_oracle(cand, pickles, flags)
            if r and r[2] == sig:
                cur = cand
                continue
        i += 1
    return cur


# ---------------------------------------------------------------- main
def main(tier, seed):
    chk = Check("C12", tier, seed)
    quick = tier == "quick"
    maxlen = 5 if quick else 6
    chk.rule = (f"bounded-exhaustive: every history of length <= {maxlen} over {{arm, activate(none), "
                "activate([fractions.Fraction]), remove, enter, leave, leave-by-exception}} with every "
                "leave matched and nesting <= 3 (prefix-closed, so the probe matrix after the last step covers "
                "every step); random: histories of length 6..40 over 5 addition sets incl. explicit probe "
                "operations, each in a FRESH child, observed after every step.  Observed: identity class of the "
                "four bindings + 4 entry points x 6 probe pickles (outcome, #globals resolved, sink calls).  "
                "non-trivial = at least one binding not original; distinct by final binding classes + depth")
    built = chk.regen_and_build(["proofs/HooksProofs.vo"])
    if built:
        chk.prove()
    pickles = [build_pickle(g) for g in PICKLE_GLOBALS]
    flags = verdicts(pickles)
    import fickling.ml as fml
    vocab_ok = (not flags[0] and not flags[1] and not flags[4] and flags[2] and flags[3] and flags[5]
                and all(g[1] not in fml.ML_ALLOWLIST.get(g[0], ()) for g in (OD, FR, SINK))
                and NP[1] in fml.ML_ALLOWLIST.get(NP[0], ()))
    chk.stats["vocabulary_as_intended"] = vocab_ok
    chk.stats["probe_pickles"] = [{"globals": [".".join(g) for g in gl], "flagged": f}
                                  for gl, f in zip(PICKLE_GLOBALS, flags)]
    exh = enumerate_histories(maxlen)
    nrand = 28 if quick else 400
    rnd = [random_history(chk.rng, 40) for _ in range(nrand)]
    chk.stats["exhaustive_histories"] = len(exh)
    chk.stats["random_histories"] = len(rnd)
    chk.stats["random_length_mean"] = round(sum(map(len, rnd)) / max(1, len(rnd)), 1)
    nchunk = 14
    chunks = [exh[i::nchunk] for i in range(nchunk)]
    chunks = [c for c in chunks if c]
    bad = []           # disagreeing histories
    base = {}
    try:
        res = run_children(chunks, pickles, "last")
        base = res[0]["base"]
        exh_runs = []
        for c, r in zip(chunks, res):
            exh_runs += list(zip(c, r["runs"]))
        rres = run_children([[h] for h in rnd], pickles, "all")
        rnd_runs = [(h, r["runs"][0]) for h, r in zip(rnd, rres)]
        ran = True
    except Exception as e:  # noqa: BLE001
        chk.oblige("implementation side ran (children)", False, f"{type(e).__name__}: {e}")
        exh_runs, rnd_runs, ran = [], [], False
    if ran and built:
        drv = Driver()
        for name, runs in (("bounded-exhaustive", exh_runs), ("random/fresh-process", rnd_runs)):
            ml = model_lines(drv, [h for h, _ in runs], flags)
            mism = []
            for (h, steps), lines in zip(runs, ml):
                chk.count(len(steps))
                fin = steps[-1]
                if any(c != "O" for c in fin["cls"]):
                    chk.nontriv((tuple(fin["cls"]), fin["depth"]))
                for o in h:
                    chk.stats.setdefault("ops", {}).setdefault(kind(o), 0)
                    chk.stats["ops"][kind(o)] += 1
                d = compare(h, steps, lines, flags)
                if d:
                    mism.append({"history": h, "step": d[0], "real": d[1], "model": d[2]})
            chk.oblige(f"correspondence: Hooks model vs real hook/context/loader, {name}: "
                       f"{len(runs)} histories", not mism, json.dumps(mism[:3]))
            bad += mism
        if exh_runs:
            h, steps = exh_runs[len(exh_runs) // 2]
            chk.sample({"history": h, "observed_last_step": real_line(steps[-1])})
        if rnd_runs:
            h, steps = rnd_runs[0]
            chk.sample({"history": h[:12], "observed_step_0": real_line(steps[0])})
    chk.exhaustive = False
    chk.extra["bounds"] = {"exhaustive_max_length": maxlen, "max_nesting": 3, "random_max_length": 40}

    # ---- recorded findings: re-confirmed with the oracle on their witness histories ----
    if ran:
        for sig, hist in KNOWN_WITNESS.items():
            k = chk.match_known(sig)
            try:
                r = full_oracle(hist, pickles, flags)
            except Exception as e:  # noqa: BLE001
                r = (f"oracle crashed: {e}", 0, None)
            if r and r[2] == sig and k:
                chk.known_finding(k, f"[history {hist}: {r[0]}]")
            elif r and not (r[2] == sig and k):
                chk.oblige(f"witness history {hist} behaves as recorded", False, json.dumps(r))
                bad.append({"history": hist, "step": r[1], "real": r[0], "model": "(witness)"})

    def search():
        tried = set()
        cands = [b["history"] for b in bad]
        cands += [h for h, _ in rnd_runs] + [h for h, _ in exh_runs[:: max(1, len(exh_runs) // 300)]]
        for h in cands:
            key = json.dumps(h)
            if key in tried:
                continue
            tried.add(key)
            if len(tried) > 500:
                break
            r = full_oracle(h, pickles, flags)
            if not r:
                continue
            why, step, sig = r
            k = chk.match_known(sig) if sig else None
            if k:
                chk.known_finding(k)
                continue
            small = shrink(h[: step + 1], pickles, flags, sig)
            r2 = full_oracle(small, pickles, flags) or r
            return {"oracle": r2[0], "history": small, "step": r2[1], "adds_table": ADDS,
                    "probe_pickles": [p.hex() for p in pickles], "original_history": h}
        return None

    report_broken_obligations(chk, search)
    return chk.finish()


def replay(path):
    doc = json.load(open(path))
    case = doc.get("case")
    if not case or "history" not in case:
        print("replay: no concrete history recorded; re-running the quick check")
        return main("quick", doc.get("seed", 0))
    pickles = [build_pickle(g) for g in PICKLE_GLOBALS]
    flags = verdicts(pickles)
    r = full_oracle(case["history"], pickles, flags)
    from harness.common import load_known_findings
    known = {k.get("signature") for k in load_known_findings()
             if k.get("property") == "C12" and k.get("status", "known") == "known"}
    if r and r[2] not in known:
        print(f"VIOLATION property=C12 replay={path}")
        print(f"step {r[1]}: {r[0]}")
        return 1
    print("replay: the recorded history no longer fails")
    return 0
