"""Child process of the C02 check: runs checked loads against the REAL fickling modules.

stdin : one JSON job {"scratch": dir, "cases": [case...]}
        case = {"id", "arming": "direct"|"direct_pos"|"hook"|"ctx"|"ctx_default", "thr": 0..5,
                "hist": ["arm"|"rm"|"enter"|"leave", ...]   (hook operations performed before the arming),
                "kind": "bytes"|"bytearray"|"bytesio"|"file"|"nonseek"|"nonseek_noattr"|"swap"|"swap_nonseek",
                "content": hex (whole stream), "off": int, "evil": hex|null, "prefix": hex|null}
stdout: one JSON line per case (see run_case).

Observation points (no instrumentation inside fickling):
  * sys.addaudithook: every `pickle.find_class` event while a load is running;
  * verif_sink.LOG: calls that reached the harmless sink module;
  * recording wrappers around the ORIGINAL pickle.load / pickle.loads, installed before fickling is
    imported (so they are what fickling considers the originals): the bytes the stock unpickler is
    handed, and whether the stock pickle.load was reached;
  * an instrumented stream object logging every read/readline/readinto/seek/tell with the phase of the
    call it happened in; "swap" streams serve a different (sink-calling) content once the parse is over;
  * the phase flips from "parse" to "after" when Pickled.load returns / check_safety is entered
    (thin wrappers on those two names, installed from outside); the wrapper on check_safety also
    remembers WHICH Pickled object the loader analyses, so that its decompiled program can be compared
    with the program of the bytes handed to the stock unpickler;
  * "flaky" streams (c02_streams.Flaky) answer a re-read of a region with different bytes.
After the checked load the child computes, with the untouched originals, the reference facts the
property is stated against: the stock unpickler's value / exception / find_class events on the first
pickle's bytes, and the verdict (or failure) of the analysis on them."""
import io
import json
import os
import pickle
import re
import sys

VERIF = os.path.dirname(os.path.dirname(os.path.abspath(__file__)))
if VERIF not in sys.path:
    sys.path.append(VERIF)

ORIG_LOAD, ORIG_LOADS = pickle.load, pickle.loads
REC = {"loads": [], "load": 0}
CALLER = [None]
EVENTS = []
ON = [False]
PHASE = ["parse"]


def rec_loads(data, *a, **k):
    try:
        REC["loads"].append(bytes(data).hex())
    except Exception:  # noqa: BLE001
        REC["loads"].append("<%s>" % type(data).__name__)
    return ORIG_LOADS(data, *a, **k)


def rec_load(file, *a, **k):
    # a private in-memory copy is the same thing as pickle.loads of its bytes; anything else is a
    # read of somebody's stream by the stock unpickler
    if type(file) is io.BytesIO and file is not CALLER[0]:
        REC["loads"].append(file.getvalue()[file.tell():].hex())
    else:
        REC["load"] += 1
    return ORIG_LOAD(file, *a, **k)


pickle.loads = rec_loads
pickle.load = rec_load


def _audit(ev, args):
    if ON[0] and ev == "pickle.find_class":
        EVENTS.append([str(args[0]), str(args[1])])


# canary package: importable, not in the standard library, not imported yet.  Its __init__ and its
# submodule log their own execution, so "a module named by the pickle was imported" is observable
# even when no pickle.find_class event is raised (e.g. importlib.util.find_spec("pkg.sub") imports pkg)
import builtins  # noqa: E402
builtins._verif_canary_log = []
CANARY_SRC = "import builtins\nbuiltins._verif_canary_log.append(__name__)\n\n\ndef go(*a):\n    return 0\n"


def install_canary(scratch):
    d = os.path.join(scratch, "canary-%d" % os.getpid())
    os.makedirs(os.path.join(d, "verif_canary_pkg"), exist_ok=True)
    for name in ("__init__.py", "sub.py"):
        with open(os.path.join(d, "verif_canary_pkg", name), "w") as f:
            f.write(CANARY_SRC)
    sys.path.append(d)
    return d


def canary_reset():
    del builtins._verif_canary_log[:]
    for m in [m for m in sys.modules if m.startswith("verif_canary")]:
        del sys.modules[m]


sys.addaudithook(_audit)

import fickling  # noqa: E402
import fickling.context as fcontext  # noqa: E402
import fickling.fickle as ffickle  # noqa: E402
import fickling.hook as fhook  # noqa: E402
import fickling.loader as floader  # noqa: E402
from fickling.analysis import Severity  # noqa: E402
from fickling.analysis import check_safety as REAL_CHECK  # noqa: E402
from fickling.exception import UnsafeFileError  # noqa: E402
import verif_sink  # noqa: E402
from c02_streams import Flaky  # noqa: E402

SEVS = list(Severity)
REAL_PARSE = ffickle.Pickled.load


def _parse_wrapper(pickled):
    try:
        return REAL_PARSE(pickled)
    finally:
        PHASE[0] = "after"


ffickle.Pickled.load = staticmethod(_parse_wrapper)
_LOADER_CHECK = floader.check_safety


ANALYSED = [None]


def _check_wrapper(*a, **k):
    PHASE[0] = "after"
    ANALYSED[0] = k.get("pickled", a[0] if a else None)      # the object the loader has analysed
    return _LOADER_CHECK(*a, **k)


def program_text(pickled):
    """the decompiled program of a Pickled object = what the analyses look at"""
    import ast
    try:
        return ast.unparse(pickled.ast)
    except BaseException as e:  # noqa: BLE001
        return "<no program: %s>" % type(e).__name__


floader.check_safety = _check_wrapper


class Instr:
    """instrumented binary stream; serves `evil` instead of `good` once the parse is over"""

    def __init__(self, good, off, evil=None, can_seek=True):
        self._good = io.BytesIO(good)
        self._good.seek(off)
        self._evil = io.BytesIO(evil) if evil is not None else None
        self._can_seek = can_seek
        self.log = []

    def _cur(self, what):
        self.log.append([PHASE[0], what])
        if PHASE[0] != "parse" and self._evil is not None:
            return self._evil
        return self._good

    def read(self, n=-1):
        return self._cur("read").read(n)

    def readline(self, n=-1):
        return self._cur("readline").readline(n)

    def readinto(self, b):
        return self._cur("readinto").readinto(b)

    def tell(self):
        return self._cur("tell").tell()

    def seekable(self):
        return self._can_seek

    def seek(self, pos, whence=0):
        if not self._can_seek:
            self.log.append([PHASE[0], "seek!"])
            raise io.UnsupportedOperation("not seekable")
        return self._cur("seek").seek(pos, whence)


class NoAttr:
    """file-like object with read/readline only (no seekable attribute at all)"""

    def __init__(self, good, off, evil=None):
        self._i = Instr(good, off, evil, can_seek=False)
        self.log = self._i.log

    def read(self, n=-1):
        return self._i.read(n)

    def readline(self, n=-1):
        return self._i.readline(n)


def canon(v):
    try:
        r = repr(v)
    except Exception as e:  # noqa: BLE001
        r = "<repr raised %s>" % type(e).__name__
    return type(v).__module__ + "." + type(v).__qualname__ + ":" + re.sub(r"0x[0-9a-fA-F]+", "0x", r)[:4000]


def make_stream(case, scratch):
    content = bytes.fromhex(case["content"])
    off = case["off"]
    evil = bytes.fromhex(case["evil"]) if case.get("evil") is not None else None
    k = case["kind"]
    if k == "bytes":
        return content[off:], None, None
    if k == "bytearray":
        return bytearray(content[off:]), None, None
    if k == "bytesio":
        s = Instr(content, off)
        return s, s, None
    if k == "rawbytesio":
        s = io.BytesIO(content)
        s.seek(off)
        return s, None, None
    if k == "file":
        path = os.path.join(scratch, "c02-%d.pkl" % os.getpid())
        with open(path, "wb") as f:
            f.write(content)
        f = open(path, "rb")
        f.seek(off)
        return f, None, f
    if k == "nonseek":
        s = Instr(content, off, can_seek=False)
        return s, s, None
    if k == "nonseek_noattr":
        s = NoAttr(content, off)
        return s, s, None
    if k == "swap":
        s = Instr(content, off, evil=evil)
        return s, s, None
    if k == "swap_nonseek":
        s = Instr(content, off, evil=evil, can_seek=False)
        return s, s, None
    if k == "flaky":
        s = Flaky(content, evil, phase=lambda: PHASE[0])
        return s, s, None
    raise ValueError(k)


STACK = []


def do_history(ops):
    for op in ops:
        if op == "arm":
            fickling.always_check_safety()
        elif op == "rm":
            fhook.remove_hook()
        elif op == "enter":
            cm = fickling.check_safety()
            cm.__enter__()
            STACK.append(cm)
        elif op == "leave":
            STACK.pop().__exit__(None, None, None)
        else:
            raise ValueError(op)


def checked_call(case, stream):
    a = case["arming"]
    thr = SEVS[case["thr"]]
    do_history(case.get("hist") or [])
    if a == "direct":
        return fickling.load(stream, max_acceptable_severity=thr)
    if a == "direct_pos":
        return fickling.load(stream, thr)
    if a == "hook":
        fickling.always_check_safety()
        return pickle.load(stream)
    if a == "ctx":
        with fcontext.FicklingContextManager(max_acceptable_severity=thr):
            return pickle.load(stream)
    if a == "ctx_default":
        with fickling.check_safety():
            return pickle.load(stream)
    raise ValueError(a)


def reset():
    del STACK[:]
    pickle.load = rec_load
    pickle.loads = rec_loads
    verif_sink.reset()
    canary_reset()
    del EVENTS[:]
    REC["loads"] = []
    REC["load"] = 0
    ANALYSED[0] = None
    PHASE[0] = "parse"


def reference(prefix):
    """stock unpickler and analysis on the first pickle's bytes, with the untouched originals"""
    out = {}
    reset()
    ON[0] = True
    try:
        v = ORIG_LOADS(prefix)
        out["stock"] = ["val", canon(v)]
    except BaseException as e:  # noqa: BLE001
        out["stock"] = ["exc", type(e).__name__]
    finally:
        ON[0] = False
    out["stock_events"] = list(EVENTS)
    out["stock_sink"] = len(verif_sink.LOG)
    try:
        p = REAL_PARSE(prefix)
    except BaseException as e:  # noqa: BLE001
        out["verdict"] = ["parse-error", type(e).__name__]
        return out
    try:
        res = REAL_CHECK(p)
        out["verdict"] = ["ok", res.severity.name]
        out["to_dict"] = json.dumps(res.to_dict(), sort_keys=True, default=repr)
        out["dumps_is_prefix"] = (p.dumps() == prefix)
    except BaseException as e:  # noqa: BLE001
        out["verdict"] = ["analysis-error", type(e).__name__]
    return out


def run_case(case, scratch):
    reset()
    arg, instr, fobj = make_stream(case, scratch)
    CALLER[0] = arg
    out = {"id": case["id"]}
    ON[0] = True
    try:
        v = checked_call(case, arg)
        out["r"] = "RET"
        out["value"] = canon(v)
    except UnsafeFileError as e:
        out["r"] = "UNSAFE"
        info = getattr(e, "info", None)
        out["sev"] = info.get("severity") if isinstance(info, dict) else None
        try:
            out["info"] = json.dumps(info, sort_keys=True, default=repr)
        except Exception:  # noqa: BLE001
            out["info"] = None
        out["filepath_is_arg"] = getattr(e, "filepath", None) is arg
    except BaseException as e:  # noqa: BLE001
        out["r"] = "EXC"
        out["exc"] = type(e).__name__
        out["exc_mod"] = type(e).__module__
    finally:
        ON[0] = False
        # whatever happened, leave no arming behind
        del STACK[:]
        pickle.load = rec_load
        pickle.loads = rec_loads
    out["events"] = list(EVENTS)
    out["imports"] = list(builtins._verif_canary_log)
    out["sink"] = len(verif_sink.LOG)
    out["loads"] = list(REC["loads"])
    out["load_calls"] = REC["load"]
    out["log"] = list(instr.log) if instr is not None else None
    if fobj is not None:
        try:
            out["file_pos"] = fobj.tell()
        except Exception:  # noqa: BLE001
            out["file_pos"] = None
        fobj.close()
    analysed = ANALYSED[0]
    handed = None
    if out["loads"] and not out["loads"][0].startswith("<"):
        handed = bytes.fromhex(out["loads"][0])
    if analysed is not None:
        # what was analysed vs what the bytes handed to the stock unpickler decompile to
        out["analysed_src"] = program_text(analysed)
        if handed is not None:
            try:
                out["exec_src"] = program_text(REAL_PARSE(handed))
            except BaseException as e:  # noqa: BLE001
                out["exec_src"] = "<no parse: %s>" % type(e).__name__
    if case.get("prefix") is not None:
        out["ref"] = reference(bytes.fromhex(case["prefix"]))
    return out


def main():
    job = json.loads(sys.stdin.read())
    scratch = job["scratch"]
    os.makedirs(scratch, exist_ok=True)
    canary_dir = install_canary(scratch)
    real_stdout = sys.stdout
    sys.stdout = io.StringIO()          # nothing a pickle prints may corrupt the protocol
    lines = []
    for case in job["cases"]:
        try:
            lines.append(json.dumps(run_case(case, scratch)))
        except BaseException as e:  # noqa: BLE001
            lines.append(json.dumps({"id": case["id"], "r": "CHILD-ERROR", "exc": "%s: %s" % (type(e).__name__, e)}))
    sys.stdout = real_stdout
    sys.stdout.write("\n".join(lines) + "\n")
    try:
        os.remove(os.path.join(scratch, "c02-%d.pkl" % os.getpid()))
    except OSError:
        pass
    import shutil
    shutil.rmtree(canary_dir, ignore_errors=True)


if __name__ == "__main__":
    main()
