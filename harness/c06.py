"""C06 -- parse / re-serialise is byte-exact; stacked pickles partition the input.

Proof side: coq/props/C06.v over coq/model/Codec.v (+ the regenerated OpTable).
Tie: the extracted Codec model vs Pickled.load / StackedPickle.load / pickletools.genops on the
same streams (per opcode (name, pos, data), dumps(), tell(), bytes still readable, error class);
mode "seq" = Pickled.load called again and again on the SAME stream (the model is asked once per
call, at the offset its previous answer left the caller's stream at).
Oracle (model-free): the property evaluated on the implementation against the stock tokeniser's
own delimitation of the first pickle (and the VM's stopping point where the VM accepts).

The implementation side runs in child processes (a mutated parser may loop for ever)."""
import hashlib
import io
import json
import os
import pickle
import pickletools
import shutil
import signal
import struct
import subprocess
import sys
import threading
import time
from concurrent.futures import ThreadPoolExecutor

from harness import asm
from harness.common import BUILD, PY, REPO, VERIF, Check, Driver, env_child, report_broken_obligations

# non-seekable deliveries: a reader that says seekable() == False; one with read/readline only (no
# seekable, no tell attribute); one with read only that hands out at most a few bytes per call; the
# read end of an os.pipe, buffered and raw
NONSEEK = ["nonseek", "nonseek_noattr", "nonseek_readonly", "pipe", "pipe_raw"]
SEEKABLE = ["bytesio", "file", "rawfile"]     # rawfile: open(path, "rb", buffering=0), an io.FileIO
MODEL_KIND = {"bytes": "bytes", "bytearray": "bytes", "bytesio": "seek", "file": "seek", "rawfile": "seek"}
MODEL_KIND.update({d: "nonseek" for d in NONSEEK})
STREAM_DELIVERIES = SEEKABLE + NONSEEK
MAX_SEQ = 9               # Pickled.load calls on one stream in mode "seq" (concatenations have <= 6 parts)
BOUNDARY = [0, 1, 255, 256, 65535, 65536]
KNOWN_SIG = "nonseekable:tail-consumed"
CASE_TIMEOUT = 20         # seconds per case on the implementation side
MAX_HANGS = 2             # a worker gives up after this many hung cases (the check has failed by then)


# --------------------------------------------------------------------------------------------
# implementation side (child process)
# --------------------------------------------------------------------------------------------
class CaseTimeout(BaseException):
    pass


class NoAttr:
    """read()/readline() only: no seekable, no tell, no seek attribute at all"""

    def __init__(self, raw):
        self._raw = raw

    def read(self, n=-1):
        return self._raw.read(n)

    def readline(self):
        return self._raw.readline()


class NonSeekable(NoAttr):
    """a pipe-like reader over `raw` that says so: seekable() is False; no seek, no tell"""

    def readable(self):
        return True

    def seekable(self):
        return False


class ReadOnlyShort:
    """read() only (no readline), and a read(n) hands out at most k bytes -- what a raw stream may do"""

    def __init__(self, raw, k):
        self._raw = raw
        self._k = k

    def read(self, n=-1):
        if n is None or n < 0:
            return self._raw.read()
        return self._raw.read(min(n, self._k))


def _read_exactly(f, n):
    out = b""
    while len(out) < n:
        d = f.read(n - len(out))
        if not d:
            break
        out += d
    return out


def _read_all(f):
    out = []
    while True:
        d = f.read(1 << 16)
        if not d:
            return b"".join(out)
        out.append(d)


def deliver_pipe(buf, off, buffering):
    """the read end of an os.pipe fed with buf by a thread; the caller has already read `off` bytes"""
    r, w = os.pipe()

    def writer():
        try:
            view = memoryview(buf)
            while len(view):
                view = view[os.write(w, view[:1 << 16]):]
        except OSError:
            pass
        finally:
            try:
                os.close(w)
            except OSError:
                pass
    t = threading.Thread(target=writer, daemon=True)
    t.start()
    f = os.fdopen(r, "rb", buffering=buffering)
    assert not f.seekable()
    _read_exactly(f, off)

    def probe():
        rest = _read_all(f)
        return len(buf) - len(rest), rest, False

    def close():
        f.close()
        t.join(2)
    return f, probe, close


STRUCTURAL = ("pickle exhausted before seeing STOP", " unknown", "not enough data in stream",
              "no newline found", " bytes in a ", "byte count < 0", "byte count > sys.maxsize")


def genops_profile(buf, off):
    """the STOCK tokeniser on buf from off: (tokens [(name,pos,len)], 'done'|'struct'|'content', msg).
    'content' = genops rejected the CONTENT of an argument (int('x'), bad escape, utf-8 ...), which the
    Coq model deliberately does not validate."""
    f = io.BytesIO(buf)
    f.seek(off)
    toks = []
    try:
        for info, _arg, pos in pickletools.genops(f):
            toks.append((info.name, pos, f.tell() - pos))
        return toks, "done", None
    except ValueError as e:
        msg = str(e)
        structural = (not isinstance(e, UnicodeError)) and any(s in msg for s in STRUCTURAL)
        return toks, ("struct" if structural else "content"), msg


def _has_class(name):
    from fickling import fickle
    return name in fickle.OPCODES_BY_NAME


def deliver(buf, off, delivery, scratch):
    """-> (object handed to fickling, probe() -> (caller position, bytes still readable, altered?))"""
    if delivery == "bytes":
        return buf, (lambda: (None, None, False)), (lambda: None)
    if delivery == "bytearray":
        ba = bytearray(buf)
        return ba, (lambda: (None, None, bytes(ba) != buf)), (lambda: None)
    if delivery == "bytesio":
        f = io.BytesIO(buf)
        f.seek(off)
        return f, (lambda: (f.tell(), f.read(), f.getvalue() != buf)), (lambda: None)
    if delivery in ("file", "rawfile"):
        path = os.path.join(scratch, "in.pkl")
        with open(path, "wb") as w:
            w.write(buf)
        f = open(path, "rb") if delivery == "file" else open(path, "rb", buffering=0)
        f.seek(off)

        def probe():
            if f.closed:
                return None, b"<the caller's stream was closed>", True
            pos = f.tell()
            rest = f.read()
            with open(path, "rb") as g:
                altered = g.read() != buf
            return pos, rest, altered
        return f, probe, f.close
    if delivery in ("nonseek", "nonseek_noattr", "nonseek_readonly"):
        raw = io.BytesIO(buf)
        raw.seek(off)            # the caller has already consumed `off` bytes of its pipe
        obj = (NonSeekable(raw) if delivery == "nonseek" else NoAttr(raw) if delivery == "nonseek_noattr"
               else ReadOnlyShort(raw, 1 + (len(buf) + off) % 5))
        # raw.tell() = how many bytes the caller's stream has handed out
        return obj, (lambda: (raw.tell(), raw.read(), raw.getvalue() != buf)), (lambda: None)
    if delivery in ("pipe", "pipe_raw"):
        return deliver_pipe(buf, off, -1 if delivery == "pipe" else 0)
    raise ValueError(delivery)


def canon_ops(p):
    out = []
    for op in p:
        try:
            d = "h" + bytes(op.data).hex()
        except NotImplementedError:
            d = "ENCODE-NotImplementedError"
        out.append(f"({op.name} {op.pos} {d})")
    return out


def _opt(x):
    return "-" if x is None else str(x)


def observe(case, scratch):
    """Run the real implementation on one case; returns the canonical line for the correspondence,
    the model-free oracle verdict, and what the stock tokeniser / VM say about the same bytes."""
    from fickling.fickle import Pickled, StackedPickle
    buf, off, delivery, mode = case["buf"], case["off"], case["delivery"], case["mode"]
    obj, probe, close = deliver(buf, off, delivery, scratch)
    res = {"id": case["id"]}
    err = None
    loaded = None
    try:
        try:
            if mode == "seq":
                loaded = []
                for _ in range(MAX_SEQ):
                    loaded.append(Pickled.load(obj))
            else:
                loaded = Pickled.load(obj) if mode == "load" else StackedPickle.load(obj)
        except CaseTimeout:
            raise
        except MemoryError:
            err = "MemoryError"
        except Exception as e:
            err = type(e).__name__
        caller, rest, altered = probe()
        if err in ("OverflowError", "MemoryError") and delivery in ("file", "rawfile"):
            # f.read(n) of a real file raises for a huge byte count where BytesIO just returns what is
            # there: does the STOCK tokeniser raise the same on this very stream?  (not fickling's doing,
            # and then there is no reference delimitation of the pickle on this stream type)
            obj.seek(off)
            try:
                while True:
                    for _ in pickletools.genops(obj):
                        pass
                    if mode == "load":
                        break
            except ValueError:
                pass
            except Exception as e:
                if type(e).__name__ == err:
                    res["stock_raises"] = err
    finally:
        close()
    if mode == "load":
        if err is not None:
            res["line"] = "err " + err
        else:
            try:
                d = "h" + loaded.dumps().hex()
            except NotImplementedError:
                d = "ENCODE-NotImplementedError"
            res["line"] = " ".join(["ok", _opt(caller), _opt(None if rest is None else len(rest))]
                                   + canon_ops(loaded) + ["d=" + d])
        why = oracle_load(buf, off, delivery, loaded, err, caller, rest, altered, res)
        if res.get("stock_raises"):
            why = None
    elif mode == "seq":
        segs = []
        for q in loaded:
            try:
                d = "h" + q.dumps().hex()
            except NotImplementedError:
                d = "ENCODE-NotImplementedError"
            segs.append(" ".join(["ok"] + canon_ops(q) + ["d=" + d]))
        segs.append("err " + err if err is not None else "more")
        res["line"] = " | ".join(segs)
        why = oracle_seq(buf, off, delivery, loaded, err, case.get("parts"), rest, altered, res)
        if res.get("stock_raises"):
            why = None
    else:
        if err is not None:
            res["line"] = "err " + err
        else:
            res["line"] = " ".join(["ok"] + [" ".join(["["] + canon_ops(p) + ["]"]) for p in loaded])
        why = oracle_stacked(buf, off, delivery, loaded, err, case.get("parts"), altered, res)
        if res.get("stock_raises"):
            why = None
    res["oracle"] = why
    if case.get("vm") and mode == "load":
        res["vm"] = vm_check(buf, off, res.get("ref_end"),
                             caller if err is None and delivery in STREAM_DELIVERIES else None)
    return res


def _refusal_allowed(names):
    return any(not _has_class(n) for n in names)


def oracle_load(buf, off, delivery, p, err, caller, rest, altered, res):
    """C06, first sentence, evaluated on the implementation against the stock tokeniser's delimitation
    of the first pickle.  Returns None or {'sig','why'}."""
    toks, status, msg = genops_profile(buf, off)
    res["ref_status"] = status
    res["ref_ntok"] = len(toks)
    names = [t[0] for t in toks]
    # expected error class when the stock tokeniser itself raises (pinned mapping)
    first_unsupported = next((i for i, n in enumerate(names) if not _has_class(n)), None)
    if status != "done":
        res["ref_err_class"] = ("NotImplementedError" if first_unsupported is not None
                                else ("PickleDecodeError" if toks else "EmptyPickleError"))
        if err is None:
            return {"sig": "accepts-incomplete",
                    "why": f"parsed {len(p)} opcodes although the stream does not begin with a complete "
                           f"pickle (stock genops: {msg})"}
        if altered:
            return {"sig": "input-altered", "why": "the caller's data was altered"}
        return None
    end = toks[-1][1] + toks[-1][2]
    res["ref_end"] = end
    want = buf[off:end]
    if err is not None:
        if err == "NotImplementedError" and first_unsupported is not None:
            return None            # documented refusal of an opcode fickling has no class for
        return {"sig": "refuses-complete-pickle",
                "why": f"{err} on a stream that begins with a complete pickle of {end - off} bytes "
                       f"({len(toks)} opcodes, all with a fickling class: {first_unsupported is None})"}
    if first_unsupported is not None:
        return {"sig": "accepts-unsupported",
                "why": f"parsed a pickle containing {names[first_unsupported]}, which has no class"}
    try:
        got = p.dumps()
        joined = b"".join(bytes(op.data) for op in p)
        w = io.BytesIO()
        p.dump(w)
        dumped = w.getvalue()
    except Exception as e:
        return {"sig": "dumps-raises", "why": f"re-serialising the untouched parse raised {type(e).__name__}: {e}"}
    for label, g in (("dumps()", got), ("dump(file)", dumped), ("concatenated opcode.data", joined)):
        if g != want:
            i = next((k for k in range(min(len(g), len(want))) if g[k] != want[k]), min(len(g), len(want)))
            return {"sig": "dumps-differs",
                    "why": f"{label} has {len(g)} bytes, the first pickle has {len(want)}; first difference at "
                           f"offset {i}: got {g[i:i + 8].hex()} want {want[i:i + 8].hex()}"}
    if len(p) == 0 or p[-1].name != "STOP":
        return {"sig": "no-stop", "why": "the parse does not end in STOP"}
    if altered:
        return {"sig": "input-altered", "why": "the caller's data was altered"}
    if delivery in NONSEEK and rest != buf[end:] and buf[end:].endswith(rest):
        return {"sig": KNOWN_SIG,
                "why": f"non-seekable stream ({delivery}): {len(buf) - end} bytes follow the first pickle but only "
                       f"{len(rest)} are still readable from the caller's stream: {len(buf) - end - len(rest)} bytes "
                       f"beyond the pickle were consumed"}
    if delivery in STREAM_DELIVERIES:
        if caller != end:
            return {"sig": "position", "why": f"stream left at {caller}, the first pickle ends at {end}"}
        if rest != buf[end:]:
            return {"sig": "tail", "why": f"{len(rest)} bytes readable afterwards, {len(buf) - end} follow the pickle"}
    return None


def ref_partition(buf, off):
    """the stock tokeniser applied repeatedly from off: (complete pickles, end of the last one, opcode names
    seen, opcodes delivered by the failing remainder, was some argument's content rejected)"""
    ref, p, names, content = [], off, [], False
    while True:
        toks, status, _msg = genops_profile(buf, p)
        names += [t[0] for t in toks]
        content |= status == "content"
        if status != "done":
            return ref, p, names, len(toks), content
        e = toks[-1][1] + toks[-1][2]
        ref.append(buf[p:e])
        p = e


def oracle_seq(buf, off, delivery, loads, err, parts, rest, altered, res):
    """C06 with Pickled.load called repeatedly on the SAME stream: call i returns pickle i (nothing of what
    follows a pickle was consumed or altered by the calls before), until what is left does not begin with a
    complete pickle; then the call raises and nothing that was never handed to the parser is missing."""
    ref, p, names, tail_tokens, content = ref_partition(buf, off)
    res["ref_status"] = "content" if content else "struct"
    res["ref_parts"] = len(ref)
    refusal_ok = _refusal_allowed(names)
    try:
        got = [q.dumps() for q in loads]
    except Exception as e:
        return {"sig": "dumps-raises", "why": f"re-serialising the untouched parse raised {type(e).__name__}: {e}"}
    if err == "NotImplementedError" and refusal_ok and got == ref[:len(got)]:
        return None
    if got != ref[:len(got)] or len(got) != min(len(ref), MAX_SEQ):
        k = next((i for i in range(min(len(got), len(ref))) if got[i] != ref[i]), min(len(got), len(ref)))
        sig = KNOWN_SIG if delivery in NONSEEK and got == ref[:len(got)] and len(got) < len(ref) else "seq-parts"
        return {"sig": sig,
                "why": f"{len(ref)} complete pickles on a {delivery} stream, but successive Pickled.load calls "
                       f"returned {len(got)} (then {err}); first missing/differing element {k}"}
    if len(ref) < MAX_SEQ:
        want = "PickleDecodeError" if tail_tokens > 0 else "EmptyPickleError"
        if err != want:
            return {"sig": "seq-end", "why": f"after {len(ref)} pickles the remainder delivers {tail_tokens} opcodes "
                                             f"before failing: expected {want}, got {err}"}
    if not buf[p:].endswith(rest):
        return {"sig": "tail", "why": "what is still readable is not a suffix of what followed the last pickle"}
    if parts is not None and len(parts) < MAX_SEQ and len(got) != len(parts):
        return {"sig": "seq-parts", "why": f"{len(parts)} pickles were concatenated, {len(got)} loads succeeded"}
    if altered:
        return {"sig": "input-altered", "why": "the caller's data was altered"}
    return None


def oracle_stacked(buf, off, delivery, sp, err, parts, altered, res):
    """C06, second sentence: the stack has exactly one element per pickle, each re-serialising to its own
    bytes, so that the parts concatenate to the input.  Reference partition = the stock tokeniser
    applied repeatedly."""
    ref, p, names, tail_tokens, content = ref_partition(buf, off)
    res["ref_status"] = "content" if content else "struct"
    res["ref_parts"] = len(ref)
    refusal_ok = _refusal_allowed(names)
    if err is not None:
        if err == "NotImplementedError" and refusal_ok:
            return None
        if err == "PickleDecodeError" and tail_tokens > 0:
            return None            # what follows the last complete pickle starts an incomplete one
        if err == "EmptyPickleError" and not ref and tail_tokens == 0:
            return None
        return {"sig": "stacked-refuses",
                "why": f"{err} on a concatenation of {len(ref)} complete pickles "
                       f"(remainder delivers {tail_tokens} opcodes before failing)"}
    got = [q.dumps() for q in sp]
    if got != ref[:len(got)] or len(got) != len(ref):
        k = next((i for i in range(min(len(got), len(ref))) if got[i] != ref[i]), min(len(got), len(ref)))
        return {"sig": "stacked-parts",
                "why": f"{len(got)} elements for {len(ref)} pickles; first differing element {k}"}
    if tail_tokens > 0 and not refusal_ok:
        return {"sig": "stacked-silent-drop",
                "why": f"returned normally although {len(buf) - p} trailing bytes start an incomplete pickle "
                       f"({tail_tokens} opcodes): the parts do not give back the input and nothing is raised"}
    if parts is not None:
        if len(got) != len(parts) or b"".join(got) != buf[off:]:
            return {"sig": "stacked-partition",
                    "why": f"{len(parts)} pickles were concatenated, {len(got)} elements came back / the parts "
                           f"do not concatenate to the input"}
    if altered:
        return {"sig": "input-altered", "why": "the caller's data was altered"}
    return None


def vm_check(buf, off, ref_end, caller):
    """Where the reference VM stops on the same bytes (C and pure-python unpicklers); only for harmless
    value pickles.  Differential only."""
    out = {}
    for label, load in (("c", pickle.load), ("py", lambda f: pickle._Unpickler(f).load())):
        f = io.BytesIO(buf)
        f.seek(off)
        try:
            load(f)
            out[label] = f.tell()
        except Exception as e:
            out[label] = "err:" + type(e).__name__
    bad = None
    for label in ("c", "py"):
        if isinstance(out[label], int):
            if ref_end is not None and out[label] != ref_end:
                bad = f"{label}-VM stops at {out[label]}, stock tokeniser at {ref_end}"
            if caller is not None and out[label] != caller:
                bad = f"{label}-VM stops at {out[label]}, fickling leaves the stream at {caller}"
    out["bad"] = bad
    return out


def _alarm(_sig, _frm):
    raise CaseTimeout()


def worker_main(path, k, nk):
    import resource
    try:
        resource.setrlimit(resource.RLIMIT_AS, (3 << 30, 3 << 30))
    except Exception:
        pass
    scratch = os.path.join(os.path.dirname(path), f"w{k}")
    os.makedirs(scratch, exist_ok=True)
    signal.signal(signal.SIGALRM, _alarm)
    hangs = 0
    with open(path) as f, open(f"{path}.out.{k}", "w") as out:
        for i, line in enumerate(f):
            if i % nk != k:
                continue
            if hangs >= MAX_HANGS:
                break
            case = json.loads(line)
            case["buf"] = bytes.fromhex(case["buf"])
            signal.alarm(CASE_TIMEOUT)
            try:
                try:
                    res = observe(case, scratch)
                except CaseTimeout:
                    # a busy machine can stall one case: ask once more with a long limit before calling it a hang
                    signal.alarm(6 * CASE_TIMEOUT)
                    res = observe(case, scratch)
            except CaseTimeout:
                hangs += 1
                res = {"id": case["id"], "line": "err <timeout>", "ref_status": "struct",
                       "oracle": {"sig": "hang", "why": f"no answer within {CASE_TIMEOUT}s, nor within "
                                                        f"{6 * CASE_TIMEOUT}s when asked again"}}
            except BaseException as e:   # never lose a case
                res = {"id": case["id"], "line": f"err <harness:{type(e).__name__}:{e}>",
                       "ref_status": "struct", "oracle": None}
            finally:
                signal.alarm(0)
            out.write(json.dumps(res) + "\n")
            out.flush()
    return 0


def run_real(cases, scratch, nworkers, timeout):
    """Run the implementation side on all cases in child processes. -> {id: result}"""
    path = os.path.join(scratch, "cases.jsonl")
    with open(path, "w") as f:
        for c in cases:
            d = dict(c)
            d["buf"] = c["buf"].hex()
            f.write(json.dumps(d) + "\n")
    procs = [subprocess.Popen([PY, os.path.abspath(__file__), "--worker", path, str(k), str(nworkers)],
                              env=env_child({"PYTHONDONTWRITEBYTECODE": "1",
                                             "PYTHONPATH": os.pathsep.join([REPO, os.path.join(VERIF, "harness"), VERIF])}),
                              cwd=VERIF,
                              stdout=subprocess.DEVNULL, stderr=subprocess.PIPE)
             for k in range(nworkers)]
    deadline = time.time() + timeout
    errs = []
    for p in procs:
        try:
            _, se = p.communicate(timeout=max(1, deadline - time.time()))
            if p.returncode != 0:
                errs.append(se.decode(errors="replace")[-600:])
        except subprocess.TimeoutExpired:
            p.kill()
            errs.append("worker timed out")
    results = {}
    for k in range(nworkers):
        try:
            for line in open(f"{path}.out.{k}"):
                r = json.loads(line)
                results[r["id"]] = r
        except FileNotFoundError:
            pass
    return results, errs


# --------------------------------------------------------------------------------------------
# generators
# --------------------------------------------------------------------------------------------
TEMPT = b".\nN.K\x01(lp0\n\x80\x04\x95X\x00\x00"   # bytes that look like opcodes / line ends


def payload(rng, L, text=False):
    if L == 0:
        return b""
    if text:
        base = "a.béN" if L >= 8 else "a"
        s = (base * (L // len(base.encode()) + 1)).encode()[:L]
        # do not cut a multi-byte character
        while True:
            try:
                s.decode("utf-8")
                break
            except UnicodeDecodeError:
                s = s[:-1]
        return s + b"x" * (L - len(s))
    if L <= 64:
        return bytes(rng.choice(TEMPT) if rng.random() < 0.5 else rng.randrange(256) for _ in range(L))
    blk = bytes(rng.randrange(256) for _ in range(61)) + TEMPT
    return (blk * (L // len(blk) + 1))[:L]


def arg_wire(rng, info, L=None):
    """wire bytes of a (normally valid) argument of `info` whose variable part is L bytes long
    (None: small random); returns None when L is not representable"""
    if info.arg is None:
        return b""
    r = info.arg.reader.__name__
    n = info.arg.n
    if n > 0:
        c = rng.randrange(4)
        return [b"\x00" * n, b"\xff" * n, b"\x0a" * n, bytes(rng.randrange(256) for _ in range(n))][c]
    if L is None:
        L = rng.choice([0, 1, 2, 3, 5, 9, 17])
    if r == "read_decimalnl_short":
        return (b"7" * L if L else b"") + b"\n"
    if r == "read_decimalnl_long":
        return (b"7" * L if L else b"") + b"L\n"
    if r == "read_floatnl":
        return (b"1" * L if L else b"") + b"\n"
    if r == "read_stringnl":
        return b"'" + b"a" * L + b"'\n"
    if r == "read_stringnl_noescape":
        return b"a" * L + b"\n"
    if r == "read_stringnl_noescape_pair":
        return b"m" * L + b"\n" + b"n" * (L // 2 + (1 if L else 0)) + b"\n"
    if r == "read_unicodestringnl":
        return b"u" * L + b"\n"
    text = "unicode" in r
    if r in ("read_string1", "read_bytes1", "read_unicodestring1", "read_long1"):
        return None if L > 255 else bytes([L]) + payload(rng, L, text)
    if r in ("read_string4", "read_long4"):
        return struct.pack("<i", L) + payload(rng, L, text)
    if r in ("read_bytes4", "read_unicodestring4"):
        return struct.pack("<I", L) + payload(rng, L, text)
    if r in ("read_bytes8", "read_bytearray8", "read_unicodestring8"):
        return struct.pack("<Q", L) + payload(rng, L, text)
    raise NotImplementedError(r)


def prog_bytes(items):
    """[(NAME, wire-arg-bytes)] -> bytes via the assembler over the live pickletools table"""
    return asm.assemble([(n, asm.RawArg(a)) if a else n for n, a in items])


def boundary_programs(rng, tier):
    """every argument-carrying opcode of the live table at boundary lengths, in two contexts"""
    out = []
    for info in pickletools.opcodes:
        if info.arg is None:
            out.append((f"argless:{info.name}", prog_bytes([(info.name, b""), ("STOP", b"")])))
            continue
        lens = [None, None] if info.arg.n > 0 else BOUNDARY + [2, 4300]
        for L in lens:
            a = arg_wire(rng, info, L)
            if a is None:
                continue
            out.append((f"boundary:{info.name}:{L}", prog_bytes([(info.name, a), ("STOP", b"")])))
            if L is None or L <= 256 or tier == "thorough":
                a2 = arg_wire(rng, info, L)
                items = [("PROTO", b"\x02"), (info.name, a), ("BINPUT", b"\x07"), (info.name, a2),
                         ("NONE", b""), ("UNICODE", b"x\n"), (info.name, a), ("STOP", b"")]
                out.append((f"boundary-ctx:{info.name}:{L}", prog_bytes(items)))
    # malformed counts: negative signed count, count beyond the data, 8-byte count > sys.maxsize
    for name, a in [("BINSTRING", struct.pack("<i", -1)), ("LONG4", struct.pack("<i", -2 ** 31)),
                    ("BINBYTES", struct.pack("<I", 2 ** 32 - 1) + b"ab"), ("BINUNICODE", struct.pack("<I", 3) + b"ab"),
                    ("BINBYTES8", struct.pack("<Q", 2 ** 63) + b"ab"), ("BINUNICODE8", struct.pack("<Q", 2 ** 63 - 1) + b"a"),
                    ("BINBYTES8", struct.pack("<Q", 2 ** 64 - 1)), ("SHORT_BINBYTES", b"\x05abcd"),
                    ("LONG1", b"\xff" + b"\x01" * 254), ("BYTEARRAY8", struct.pack("<Q", 2) + b"a")]:
        out.append((f"badcount:{name}", asm.assemble(["NONE", (name, asm.RawArg(a))]) + b"."))
    return out


def soup_program(rng):
    infos = pickletools.opcodes
    k = rng.randrange(1, 14)
    items = []
    for _ in range(k):
        info = rng.choice(infos)
        if info.name == "STOP":
            continue
        if not _has_class(info.name) and rng.random() < 0.8:
            continue
        a = arg_wire(rng, info, None)
        items.append((info.name, a))
    b = prog_bytes(items)
    r = rng.random()
    if r < 0.85:
        b += b"."
    elif r < 0.92:
        b += b"." + prog_bytes(items[:2]) + b"."
    return b


class _NoFrame(pickle._Pickler):
    """pure-python pickler without FRAME opcodes at protocol >= 4"""

    def dump(self, obj):
        if self.proto >= 2:
            self.write(pickle.PROTO + struct.pack("<B", self.proto))
        self.save(obj)
        self.write(pickle.STOP)


def gen_value(rng, depth=0):
    import verif_sink
    leaf = [None, True, False, 0, 1, -1, 255, 256, 65535, 65536, 2 ** 31 - 1, 2 ** 31, -2 ** 31, 2 ** 63 - 1,
            2 ** 63, -2 ** 63 - 1, 2 ** 70, -2 ** 200, 10 ** 40, 1.5, -0.0, float("inf"), 3e200,
            "", "a", "text", "café", "€中", "\U0001f600x", "line\nbreak", "q'uo\"te\\", "\x00\x1a\r",
            "123", "1.5e3", ".", "N.", b"", b"x", b"by\ntes.", bytes(range(256)), b"\xff" * 255, b"\x00" * 256,
            "s" * 255, "s" * 256, "é" * 128, bytearray(b"ba"), 1 + 2j, range(3), frozenset(), Ellipsis]
    if depth >= 3 or rng.random() < 0.45:
        return rng.choice(leaf)
    c = rng.randrange(9)
    kids = [gen_value(rng, depth + 1) for _ in range(rng.randrange(0, 5))]
    if c == 0:
        return kids
    if c == 1:
        return tuple(kids)
    if c == 2:
        return {f"k{i}" if rng.random() < 0.7 else i: v for i, v in enumerate(kids)}
    if c == 3:
        try:
            return set(k for k in kids if k.__hash__ is not None and not isinstance(k, (list, dict, set, bytearray)))
        except TypeError:
            return kids
    if c == 4:
        try:
            return frozenset(k for k in kids if not isinstance(k, (list, dict, set, bytearray)) and hash(k) is not None)
        except TypeError:
            return tuple(kids)
    if c == 5:
        shared = kids[:1] or [["shared"]]
        return [shared, shared, {"again": shared}]
    if c == 6:
        t = verif_sink.Thing(*kids[:2])
        if rng.random() < 0.5:
            t.state = {"s": kids[2:3]}
        return t
    if c == 7:
        return [verif_sink.record, len, kids]
    return [kids, {"n": kids}]


def value_pickles(rng, n, big):
    out = []
    for i in range(n):
        v = gen_value(rng)
        proto = rng.randrange(0, 6)
        how = rng.choice(["c", "py", "opt", "noframe"])
        try:
            if how == "c":
                b = pickle.dumps(v, protocol=proto)
            elif how == "py":
                b = pickle._dumps(v, protocol=proto)
            elif how == "opt":
                b = pickletools.optimize(pickle.dumps(v, protocol=proto))
            else:
                f = io.BytesIO()
                _NoFrame(f, proto).dump(v)
                b = f.getvalue()
        except Exception:
            continue
        out.append((f"value:p{proto}:{how}", b))
    for L in big:
        for v in (b"\x2e" * L, "éN." * (L // 4) + "z" * (L % 4)):
            for proto in (0, 2, 3, 4, 5):
                out.append((f"value-big:p{proto}:{L}", pickle.dumps([v, 1], protocol=proto)))
                if proto >= 4:
                    f = io.BytesIO()
                    _NoFrame(f, proto).dump([v, 1])
                    out.append((f"value-big:p{proto}:{L}:noframe", f.getvalue()))
    return out


def trails(rng, second):
    return [b"", b"\x00", b"garbage", b".", b"N.", b"K", b"K\x01", b"X\x05\x00\x00\x00ab", b"\x80", b"\x80\x04",
            b"\xff\xff", b"\n", b"I12", b"cos\nsys", b"(lp0\n.", b"\x95\x02\x00\x00\x00\x00\x00\x00\x00N.",
            second, second + b"\x00\x01", bytes(rng.randrange(256) for _ in range(rng.randrange(1, 9)))]


PREFIXES = [b"N.", b"\x80\x04K\x01.", b"\x00\x00\x00", b"X\xff\xff", b"junk\n", b"."]


class CaseList:
    def __init__(self):
        self.cases = []

    def add(self, mode, fam, buf, delivery, off=0, vm=False, parts=None):
        self.cases.append({"id": len(self.cases), "mode": mode, "fam": fam, "buf": buf, "delivery": delivery,
                           "off": off, "vm": vm, "parts": parts})

    def add_deliveries(self, rng, mode, fam, body, vm=False, parts=None, how="some"):
        """deliver `body` as bytes / bytearray / streams at offset 0 and at an offset > 0"""
        dl = ["bytes", "bytearray"] + STREAM_DELIVERIES
        if how == "two":
            dl = [rng.choice(["bytes", "bytearray"]), rng.choice(STREAM_DELIVERIES)]
        elif how == "some":
            dl = ["bytes"] + rng.sample(["bytearray"] + STREAM_DELIVERIES, 3)
        elif how == "streams":
            dl = [rng.choice(SEEKABLE)] + rng.sample(NONSEEK, 2)
        for d in dl:
            if d in ("bytes", "bytearray"):
                self.add(mode, fam, body, d, 0, vm, parts)
            else:
                if how == "all" or rng.random() < 0.5:
                    self.add(mode, fam, body, d, 0, vm, parts)
                    if how != "all":
                        continue
                pre = rng.choice(PREFIXES)
                self.add(mode, fam, pre + body, d, len(pre), vm, parts)


def complete_pickle(b):
    """0 = not exactly one complete pickle (per the stock tokeniser); 1 = complete, every opcode has a
    fickling class; 2 = complete but contains an opcode fickling refuses"""
    toks, status, _ = genops_profile(b, 0)
    if status != "done" or toks[-1][1] + toks[-1][2] != len(b):
        return 0
    return 1 if all(_has_class(t[0]) for t in toks) else 2


def build_cases(rng, tier):
    cl = CaseList()
    quick = tier == "quick"
    vals = value_pickles(rng, 260 if quick else 16000, [65535, 65536] if quick else [255, 256, 65535, 65536, 70000])
    bnd = boundary_programs(rng, tier)
    soups = [("soup", soup_program(rng)) for _ in range(350 if quick else 30000)]
    second = pickle.dumps({"second": [1, 2]}, protocol=2)
    pool, pool_refused = [], []      # small complete pickles for concatenation
    def to_pool(b):
        c = complete_pickle(b)
        if c:
            (pool if c == 1 else pool_refused).append(b)
    # 1. value pickles, each followed by trailing bytes
    for fam, b in vals:
        big = len(b) > 4096
        tl = trails(rng, second)
        for t in ([b"", rng.choice(tl[1:])] if big else [b"", rng.choice(tl[1:]), rng.choice(tl[1:])]):
            cl.add_deliveries(rng, "load", fam, b + t, vm=not big or quick is False, how="two" if big else "some")
        if not big:
            to_pool(b)
    # 2. every argument-carrying opcode at boundary lengths
    for fam, b in bnd:
        big = len(b) > 4096
        tl = trails(rng, second)
        for t in [b"", rng.choice(tl[1:])]:
            cl.add_deliveries(rng, "load", fam, b + t, how="two" if big else ("all" if t == b"" and not quick else "some"))
        if not big:
            to_pool(b)
    # 3. opcode soup
    for fam, b in soups:
        t = rng.choice(trails(rng, second))
        cl.add_deliveries(rng, "load", fam, b + t, how="two")
        to_pool(b)
    # 4. truncations at every byte of samples, random byte flips
    samples = [pickle.dumps({"a": [1, 2.5, "xé"], "b": (None, b"yz", 2 ** 40)}, protocol=p) for p in (0, 2, 4)]
    samples.append(asm.assemble([("PROTO", 4), ("GLOBAL", ("verif_sink", "record")), ("BINPUT", 0), "MARK",
                                 ("SHORT_BINUNICODE", "ab"), ("BINBYTES", b"xyz"), ("LONG1", 2 ** 20),
                                 ("INT", 12), "TUPLE", "REDUCE", "STOP"]))
    if not quick:
        samples += [b for _, b in vals[:40] if len(b) < 400]
    for s in samples:
        for cut in range(len(s) + 1):
            cl.add("load", "truncate", s[:cut], "bytes")
            cl.add("load", "truncate", b"N." + s[:cut], rng.choice(STREAM_DELIVERIES), 2)
            if cut % 3 == 0:
                cl.add("stacked", "truncate-stacked", second + s[:cut], rng.choice(["bytes"] + STREAM_DELIVERIES))
    for _ in range(300 if quick else 50000):
        s = bytearray(rng.choice(samples) + rng.choice([b"", second]))
        for _ in range(rng.randrange(1, 4)):
            s[rng.randrange(len(s))] = rng.choice([rng.randrange(256), 0x2e, 0x0a, 0x80, 0xff, 0x00])
        cl.add_deliveries(rng, "load", "flip", bytes(s), how="two")
        if rng.random() < 0.3:
            cl.add("stacked", "flip-stacked", bytes(s), rng.choice(["bytes"] + STREAM_DELIVERIES))
    # 5. concatenations of 1..6 complete pickles
    for _ in range(220 if quick else 20000):
        k = rng.randrange(1, 7)
        parts = [rng.choice(pool_refused if rng.random() < 0.04 else pool) for _ in range(k)]
        body = b"".join(parts)
        cl.add_deliveries(rng, "stacked", f"concat:{k}", body, parts=[len(p) for p in parts], how="some")
        junk = b""
        if rng.random() < 0.5:
            junk = rng.choice(trails(rng, second)[1:])
            cl.add_deliveries(rng, "stacked", f"concat-junk:{k}", body + junk, how="two")
        # Pickled.load again and again on the same stream
        cl.add_deliveries(rng, "seq", f"seq{'-junk' if junk else ''}:{k}", body + junk,
                          parts=None if junk else [len(p) for p in parts], how="streams")
    cl.add("stacked", "concat:0", b"", "bytes")
    cl.add("stacked", "concat:0", b"\xff", "bytesio")
    # regression of the repaired finding D12 (Codec: C06_nonseekable_tail_kept), through every kind of
    # non-seekable stream
    for d in NONSEEK:
        cl.add("load", "regression:nonseekable-tail", b"N.N.", d, 0)
        cl.add("load", "regression:nonseekable-tail", b"N.N.", d, 2)
        cl.add("seq", "regression:nonseekable-tail", b"N.N.", d, 0, parts=[2, 2])
        cl.add("stacked", "regression:nonseekable-tail", b"N.N.", d, 0, parts=[2, 2])
        cl.add("load", "regression:nonseekable-empty", b"", d, 0)
        cl.add("seq", "regression:nonseekable-truncated", b"N.(lp0\nI1\naI2", d, 0)
    # long stacks: later members start well past any internal buffer size (8 KiB, 64 KiB) of a reader that one
    # StackedPickle.load keeps across its members (seeded C06 r6: a recording reader that releases what lies
    # behind the current position)
    import pickle as _pk
    small = [_pk.dumps({"a": "a", "k": [i, "a", "a"]}, protocol=4) for i in range(3)]
    big = _pk.dumps(list(range(4000)), protocol=2)
    huge = _pk.dumps(["x" * 70000, "x" * 70000], protocol=4)
    long_stacks = [[big] + small, [small[0]] * 400, [huge, small[1], big, small[2]]]
    for parts in long_stacks:
        body = b"".join(parts)
        for d in NONSEEK + [SEEKABLE[0]]:
            cl.add("stacked", f"long-stack:{len(parts)}", body, d, 0, parts=[len(p) for p in parts])
        if len(parts) <= 6:              # mode "seq" follows at most MAX_SEQ successive loads
            cl.add("seq", f"long-stack-seq:{len(parts)}", body, NONSEEK[0], 0, parts=[len(p) for p in parts])
    return cl.cases


# --------------------------------------------------------------------------------------------
# model side
# --------------------------------------------------------------------------------------------
def model_line(c, off=None):
    cmd = "c06_stacked" if c["mode"] == "stacked" else "c06_load"
    return f"({cmd} {MODEL_KIND[c['delivery']]} h{c['buf'].hex()} {c['off'] if off is None else off})"


def model_answers(cases, n):
    """one line per case.  Mode "seq": load_model is asked once per Pickled.load call, each time at the offset
    its previous answer left the CALLER's stream at (l_caller), until it refuses."""
    out = [None] * len(cases)
    plain = [i for i, c in enumerate(cases) if c["mode"] != "seq"]
    for i, a in zip(plain, parallel_query([model_line(cases[i]) for i in plain], n)):
        out[i] = a
    active = [i for i, c in enumerate(cases) if c["mode"] == "seq"]
    offs = {i: cases[i]["off"] for i in active}
    segs = {i: [] for i in active}
    for _ in range(MAX_SEQ):
        if not active:
            break
        nxt = []
        for i, a in zip(active, parallel_query([model_line(cases[i], offs[i]) for i in active], n)):
            if a.startswith("ok "):
                f = a.split(" ")
                segs[i].append(" ".join(["ok"] + f[3:]))
                offs[i] = int(f[1])
                nxt.append(i)
            else:
                segs[i].append(a)
        active = nxt
    for i in active:
        segs[i].append("more")
    for i, sg in segs.items():
        out[i] = " | ".join(sg)
    return out


def parallel_query(lines, n=8):
    if not lines:
        return []
    n = max(1, min(n, len(lines) // 50 + 1))
    chunks = [lines[i::n] for i in range(n)]
    with ThreadPoolExecutor(n) as ex:
        outs = list(ex.map(lambda ch: Driver().query(ch), chunks))
    res = [None] * len(lines)
    for k, o in enumerate(outs):
        res[k::n] = o
    return res


def case_record(c, extra=None):
    d = {"mode": c["mode"], "fam": c["fam"], "delivery": c["delivery"], "off": c["off"],
         "hex": c["buf"].hex() if len(c["buf"]) <= 4096 else None,
         "hex_sha1": hashlib.sha1(c["buf"]).hexdigest(), "len": len(c["buf"]), "parts": c.get("parts")}
    if d["hex"] is None:
        d["hex_zlib"] = __import__("base64").b64encode(__import__("zlib").compress(c["buf"], 9)).decode()
    if extra:
        d.update(extra)
    return d


def case_from_record(d):
    if d.get("hex") is not None:
        buf = bytes.fromhex(d["hex"])
    else:
        buf = __import__("zlib").decompress(__import__("base64").b64decode(d["hex_zlib"]))
    return {"id": 0, "mode": d["mode"], "fam": d.get("fam", "replay"), "buf": buf, "delivery": d["delivery"],
            "off": d["off"], "vm": False, "parts": d.get("parts")}


# --------------------------------------------------------------------------------------------
# the check
# --------------------------------------------------------------------------------------------
def parser_alive():
    code = ("import pickle\nfrom fickling.fickle import Pickled\n"
            "for p in range(6):\n    Pickled.load(pickle.dumps({'a': [1, 'x', (2, None)]}, p) + b'N.').dumps()\n"
            "Pickled.load(b'cverif_sink\\nrecord\\n(S\"x\"\\ntR.')\n")
    try:
        subprocess.run([PY, "-c", code], env=env_child(), cwd=VERIF, timeout=180,
                       stdout=subprocess.DEVNULL, stderr=subprocess.DEVNULL)
        return True          # exceptions are the business of the cases below; only a hang matters here
    except subprocess.TimeoutExpired:
        return False


def main(tier, seed):
    chk = Check("C06", tier, seed)
    chk.rule = ("streams = complete pickle (value generator at protocols 0-5 via C/pure-python/optimize/unframed "
                "picklers; every opcode of the live pickletools table with its argument at boundary lengths "
                "0/1/255/256/4300/65535/65536 in two contexts; random opcode soup incl. opcodes without a class; "
                "malformed counts) + trailing bytes (none, junk, opcode look-alikes, a second pickle), delivered as "
                "bytes / bytearray / BytesIO / real file / five non-seekable streams (reader with seekable()==False; "
                "reader with read+readline only; reader with read only and short reads; read end of an os.pipe, "
                "buffered and raw) at offset 0 and > 0; truncations at every byte; byte flips; concatenations of 1..6 "
                "pickles (+junk) through StackedPickle.load and through repeated Pickled.load calls on the same stream. "
                "Compared per case: (name,pos,data) of every opcode, dumps(), position of the caller's stream / bytes "
                "it has handed out, bytes still readable from it, error class. A case is non-trivial when fickling "
                "accepts it; distinct by (sha1(bytes), delivery, offset, mode)")
    chk.extra["assumptions"] = [
        "model/Codec.reader_kinds: how many bytes each pickletools reader consumes is written by hand from "
        "CPython 3.12 pickletools.py; validated on every run against pickletools.genops itself (all 68 opcodes)",
        "argument CONTENT validation of genops (int('x'), escapes, utf-8, quotes) is not modelled: on those inputs "
        "only the pinned error mapping is compared (one-sided); counted in content_rejected_by_stock_tokeniser",
        "streams are modelled as random-access byte buffers (BytesIO semantics); a real file whose read(n) raises "
        "OverflowError/MemoryError for a huge count inside the STOCK tokeniser is outside the model (counted)",
        "a non-seekable stream is modelled as the bytes it will deliver; that pickletools.genops asks it only for the "
        "bytes of the token it is decoding (read(n)/readline(), no look-ahead) is read off CPython 3.12 pickletools.py "
        "and observed on every non-seekable case (bytes handed out by the caller's stream == end of the first pickle)",
        "C06_stops_where_vm_stops is differential only (pickle.load / pickle._Unpickler f.tell() on VM-accepted streams)",
        "sys.maxsize = 2^63-1",
    ]
    # a parser that loops for ever (dropped seek-back, ...) would also hang the table generators, which
    # parse sample pickles with it: ask it for a sign of life first, and if there is none go straight to the
    # implementation side, which reports the hanging input
    alive = parser_alive()
    chk.oblige("Pickled.load answers on six small pickles within 30 s (pre-flight, child process)", alive)
    built = alive and chk.regen_and_build(["proofs/CodecProofs.vo"])
    if built:
        chk.prove()
    scratch = os.path.join(BUILD, "scratch", f"c06-{os.getpid()}")
    os.makedirs(scratch, exist_ok=True)
    try:
        cases = build_cases(chk.rng, tier)
        t0 = time.time()
        nworkers = 8 if tier == "quick" else 14
        real, werrs = run_real(cases, scratch, nworkers, 240 if tier == "quick" else 1500)
        t_real = time.time() - t0
        model = None
        t0 = time.time()
        if os.path.exists(os.path.join(BUILD, "driver", "driver")):
            try:
                model = model_answers(cases, 8 if tier == "quick" else 14)
                tok_cases = [c for c in cases if c["mode"] == "load" and c["delivery"] in ("bytes", "bytesio")]
                tok_model = parallel_query([f"(c06_tok h{c['buf'].hex()} {c['off']})" for c in tok_cases], 8)
            except Exception as e:
                chk.oblige("extracted model answers every query", False, f"{type(e).__name__}: {e}")
                model = None
        t_model = time.time() - t0
        chk.extra["timing_s"] = {"implementation": round(t_real, 1), "model": round(t_model, 1)}

        # ---- implementation answered every case ----
        missing = [c for c in cases if c["id"] not in real]
        hung = [c for c in cases if c["id"] in real and real[c["id"]]["line"].startswith("err <")]
        chk.oblige(f"implementation side answered all {len(cases)} cases",
                   not missing and not hung and not werrs,
                   json.dumps({"missing": len(missing), "hung_or_crashed": [real[c['id']]['line'] for c in hung[:3]],
                               "worker": werrs[:2]}))

        # ---- correspondence: Pickled.load / StackedPickle.load vs Codec ----
        mism, content_n, by = [], 0, {}
        for i, c in enumerate(cases):
            r = real.get(c["id"])
            if r is None:
                continue
            chk.count()
            st = chk.stats
            st.setdefault("family", {})
            fam = c["fam"].split(":")[0]
            st["family"][fam] = st["family"].get(fam, 0) + 1
            st.setdefault("delivery", {})
            dk = f"{c['delivery']}@{'0' if c['off'] == 0 else '>0'}"
            st["delivery"][dk] = st["delivery"].get(dk, 0) + 1
            st.setdefault("outcome", {})
            oc = f"{c['mode']}:{r['line'].split(' ')[0]}" + ("" if r["line"].startswith("ok") else ":" + r["line"].split(" ")[1])
            st["outcome"][oc] = st["outcome"].get(oc, 0) + 1
            if r["line"].startswith("ok"):
                chk.nontriv((hashlib.sha1(c["buf"]).hexdigest(), c["delivery"], c["off"], c["mode"]))
            if model is None:
                continue
            if r.get("stock_raises"):
                st["file_read_overflow_in_stock_genops"] = st.get("file_read_overflow_in_stock_genops", 0) + 1
                continue
            if r.get("ref_status") == "content":
                # the stock tokeniser rejected an argument's CONTENT (not modelled): only the pinned
                # error mapping is checked, one-sidedly
                content_n += 1
                if c["mode"] == "load":
                    if r["line"] != "err " + r.get("ref_err_class", "?"):
                        mism.append(case_record(c, {"real": r["line"][:300], "model": "(content rejection) expected err "
                                                    + r.get("ref_err_class", "?")}))
                # stacked: the model (which accepts the content) may go on where the implementation stops
                # with EmptyPickleError/PickleDecodeError; only the oracle (stock tokeniser as reference
                # partition) judges these
                continue
            if r["line"] != model[i]:
                a, b = r["line"], model[i]
                k = next((j for j in range(min(len(a), len(b))) if a[j] != b[j]), min(len(a), len(b)))
                mism.append(case_record(c, {"real": a[max(0, k - 60):k + 120], "model": b[max(0, k - 60):k + 120],
                                            "first_difference_at_char": k}))
        st = chk.stats
        st["content_rejected_by_stock_tokeniser"] = content_n
        st["size_bytes"] = {"max": max(len(c["buf"]) for c in cases),
                            "median": sorted(len(c["buf"]) for c in cases)[len(cases) // 2],
                            ">=65536": sum(1 for c in cases if len(c["buf"]) >= 65536)}
        if model is not None:
            chk.oblige(f"correspondence: Pickled.load / StackedPickle.load vs Codec.load_model / stacked_load on "
                       f"{len(cases)} streams (opcodes with pos+data, dumps, tell, readable rest, error class)",
                       not mism, json.dumps(mism[:3])[:1800])
            # ---- correspondence: tokenizer vs the stock genops directly ----
            tmis = []
            names_seen = set()
            for c, ml in zip(tok_cases, tok_model):
                toks, status, msg = genops_profile(c["buf"], c["off"])
                names_seen.update(t[0] for t in toks)
                real_line = " ".join([f"({n} {p} {l})" for n, p, l in toks] +
                                     ["done" if status == "done" else "err:ValueError"])
                chk.count()
                if status == "content":
                    pre = " ".join(f"({n} {p} {l})" for n, p, l in toks)
                    if not ml.startswith(pre):
                        tmis.append(case_record(c, {"real": real_line[:300], "model": ml[:300]}))
                elif real_line != ml:
                    tmis.append(case_record(c, {"real": real_line[:300], "model": ml[:300], "genops": msg}))
            st["opcodes_tokenised"] = f"{len(names_seen)} of {len(pickletools.opcodes)}"
            chk.oblige(f"correspondence: Codec.genops vs pickletools.genops (name, pos, length of every token; how it "
                       f"ends) on {len(tok_cases)} streams", not tmis, json.dumps(tmis[:3])[:1800])
            mism += tmis

        # ---- the property itself on every generated case (model-free), known findings aside ----
        failing, known_hits = [], []
        for c in cases:
            r = real.get(c["id"])
            if r is None or not r.get("oracle"):
                continue
            k = chk.match_known(r["oracle"]["sig"])
            if k is not None:
                known_hits.append((c, r, k))
            else:
                failing.append((c, r))
        for c, r, k in known_hits[:1]:
            chk.known_finding(k, f"[{len(known_hits)} generated non-seekable cases followed by further bytes; e.g. "
                                 f"{c['buf'][:16].hex()} as {c['delivery']}@{c['off']}: {r['oracle']['why']}]")
        st["known_finding_cases"] = len(known_hits)
        chk.oblige(f"property oracle (dumps == first pickle as delimited by the stock tokeniser; position of the "
                   f"caller's stream; readable rest -- seekable and non-seekable alike; one stack element / one "
                   f"successive load per pickle) holds on all {len(cases)} cases",
                   not failing, json.dumps([case_record(c, {"oracle": r["oracle"]}) for c, r in failing[:2]])[:1800])
        # ---- VM stopping point (differential only) ----
        vm_n, vm_acc, vm_bad = 0, 0, []
        for c in cases:
            r = real.get(c["id"])
            if r and r.get("vm"):
                vm_n += 1
                vm_acc += isinstance(r["vm"].get("c"), int)
                if r["vm"].get("bad"):
                    vm_bad.append(case_record(c, {"vm": r["vm"]}))
        st["vm_stop"] = {"compared": vm_n, "accepted_by_vm": vm_acc}
        chk.oblige(f"differential: stops where the VM stops (pickle.load / pickle._Unpickler f.tell()) on {vm_acc} "
                   f"VM-accepted streams", not vm_bad, json.dumps(vm_bad[:2])[:1500])
        # samples
        for c in cases:
            r = real.get(c["id"])
            if r and r["line"].startswith("ok") and c["off"] > 0 and len(c["buf"]) < 60:
                chk.sample({"fam": c["fam"], "delivery": c["delivery"], "off": c["off"], "hex": c["buf"].hex(),
                            "observed": r["line"][:400]}, limit=3)
        for c in cases:
            r = real.get(c["id"])
            if r and c["mode"] == "stacked" and r["line"].startswith("ok") and len(c["buf"]) < 50 and c.get("parts") \
                    and len(c["parts"]) >= 2:
                chk.sample({"fam": c["fam"], "delivery": c["delivery"], "hex": c["buf"].hex(), "parts": c["parts"],
                            "observed": r["line"][:400]}, limit=5)
        for c in cases:
            r = real.get(c["id"])
            if r and r["line"].startswith("err") and len(c["buf"]) < 40:
                chk.sample({"fam": c["fam"], "delivery": c["delivery"], "hex": c["buf"].hex(),
                            "observed": r["line"]}, limit=6)

        def search():
            # the property evaluated on the implementation: first the disagreeing inputs, then the corpus
            order = [case_from_record(m) for m in mism if m.get("hex") is not None or m.get("hex_zlib")]
            for j, c in enumerate(order):
                c["id"] = j
            rr, _ = run_real(order, scratch, min(4, max(1, len(order))), 120) if order else ({}, [])
            for c in order:
                r = rr.get(c["id"])
                if r and r.get("oracle") and chk.match_known(r["oracle"]["sig"]) is None:
                    return case_record(c, {"oracle": r["oracle"], "observed": r["line"][:400]})
            for c, r in failing:
                return case_record(c, {"oracle": r["oracle"], "observed": r["line"][:400]})
            for c in missing[:1]:
                return case_record(c, {"oracle": {"sig": "hang", "why": "the implementation never answered"}})
            for c in cases:
                r = real.get(c["id"])
                if r and r.get("vm") and r["vm"].get("bad"):
                    return case_record(c, {"oracle": {"sig": "vm-stop", "why": r["vm"]["bad"]}})
            return None

        report_broken_obligations(chk, search)
    finally:
        shutil.rmtree(scratch, ignore_errors=True)
    return chk.finish()


def replay(path):
    doc = json.load(open(path))
    case = doc.get("case")
    if not case or (case.get("hex") is None and not case.get("hex_zlib")):
        print("replay: no concrete input recorded; re-running the quick check")
        return main("quick", doc.get("seed", 0))
    c = case_from_record(case)
    scratch = os.path.join(BUILD, "scratch", f"c06-replay-{os.getpid()}")
    os.makedirs(scratch, exist_ok=True)
    try:
        rr, errs = run_real([c], scratch, 1, 60)
    finally:
        shutil.rmtree(scratch, ignore_errors=True)
    r = rr.get(0)
    why = (r or {}).get("oracle") if r else {"sig": "hang", "why": "no answer"}
    known = [k for k in __import__("harness.common", fromlist=["load_known_findings"]).load_known_findings()
             if k.get("property") == "C06" and k.get("status", "known") == "known"]
    if why and any(k.get("signature") == why["sig"] for k in known):
        print(f"KNOWN-FINDING: property=C06 {why['why']}")
        return 0
    if why:
        print(f"VIOLATION property=C06 replay={path}")
        print(why["why"])
        return 1
    print("replay: the recorded case no longer fails")
    return 0


if __name__ == "__main__":
    if len(sys.argv) >= 5 and sys.argv[1] == "--worker":
        sys.path.insert(0, VERIF)
        sys.exit(worker_main(sys.argv[2], int(sys.argv[3]), int(sys.argv[4])))
