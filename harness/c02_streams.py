"""Stream objects shared by harness/c02.py (parent: what does the first parse re-serialise to?) and
harness/c02_child.py (the checked loads)."""


class Flaky:
    """A seekable stream that misbehaves WHILE it is being parsed: any region that has been read before
    is served from `alt` instead of `good` (same length) -- content that changes between the tokeniser's
    read of an opcode and fickling's re-read of the same bytes (the back-fill of variable-width opcodes,
    the immediate re-read of fixed-width ones).  `phase()` labels each logged access."""

    def __init__(self, good, alt, phase=lambda: "parse"):
        assert len(good) == len(alt)
        self._good, self._alt, self._pos, self._high = good, alt, 0, 0
        self._phase = phase
        self.log = []

    def _take(self, n):
        src = self._alt if self._pos < self._high else self._good
        out = src[self._pos:self._pos + n]
        self._pos += len(out)
        self._high = max(self._high, self._pos)
        return out

    def read(self, n=-1):
        self.log.append([self._phase(), "read"])
        return self._take(len(self._good) if n is None or n < 0 else n)

    def readline(self, n=-1):
        self.log.append([self._phase(), "readline"])
        src = self._alt if self._pos < self._high else self._good
        i = src.find(b"\n", self._pos)
        return self._take((i + 1 if i >= 0 else len(src)) - self._pos)

    def tell(self):
        return self._pos

    def seekable(self):
        return True

    def seek(self, pos, whence=0):
        self._pos = pos
        return pos
