"""Shared machinery of every check: table regeneration, Coq build / theorem re-check, the
extracted-model driver, evidence, known findings and the violation protocol (DESIGN 2.6)."""
import fcntl
import hashlib
import json
import os
import random
import re
import subprocess
import sys
import time

VERIF = os.path.dirname(os.path.dirname(os.path.abspath(__file__)))
REPO = os.environ.get("FICKLING_REPO", "/repo")
PY = "/venv/bin/python"
BUILD = os.path.join(VERIF, "_build")
COQ = os.path.join(VERIF, "coq")
DRIVER = os.path.join(BUILD, "driver", "driver")
COQ_FLAGS = ["-Q", "gen", "Verif", "-Q", "model", "Verif", "-Q", "proofs", "Verif", "-Q", "props", "Verif"]

TRUSTED_BASE = [
    "Coq 8.16.1 kernel (coqc, full .vo build; vm_compute used for finite sweeps; no native_compute)",
    "gen/gen_tables.py and gen/gen_callgraph.py: print what the live /repo objects / sources contain",
    "extraction via ExtrOcamlBasic + ExtrOcamlNativeString only (no Extract Constant of our own); "
    "OCaml 4.13.1 and ocaml/driver.ml (S-expression reader) -- correspondence only",
    "harness generators/canonicalisers (differential testing validates the hand model against "
    "the code; it is never presented as a proof)",
    "CPython 3.12 pickle/_pickle/pickletools/ast.unparse as observed, not verified",
]


def env_child(extra=None):
    env = dict(os.environ)
    env["PYTHONPATH"] = REPO + os.pathsep + os.path.join(VERIF, "harness")
    env.setdefault("PYTHONHASHSEED", "0")
    env["PIP_NO_INDEX"] = "1"
    if extra:
        env.update(extra)
    return env


class Lock:
    def __init__(self):
        os.makedirs(BUILD, exist_ok=True)
        self.path = os.path.join(BUILD, ".lock")

    def __enter__(self):
        self.f = open(self.path, "w")
        fcntl.flock(self.f, fcntl.LOCK_EX)
        return self

    def __exit__(self, *a):
        fcntl.flock(self.f, fcntl.LOCK_UN)
        self.f.close()


def run(cmd, timeout=1800, cwd=VERIF, env=None, input=None):
    p = subprocess.run(cmd, cwd=cwd, env=env or env_child(), input=input, timeout=timeout,
                       stdout=subprocess.PIPE, stderr=subprocess.STDOUT, text=True)
    out = "\n".join(l for l in p.stdout.splitlines() if "conda.cli.condarc" not in l)
    return p.returncode, out


class Driver:
    """The extracted Gallina model behind a line protocol."""

    def __init__(self):
        if not os.path.exists(DRIVER):
            raise RuntimeError("driver not built")

    def query(self, lines, timeout=1800):
        if not lines:
            return []
        data = "\n".join(lines) + "\n"
        p = subprocess.run(["bash", "-c", f"ulimit -s unlimited 2>/dev/null; exec {DRIVER}"],
                           input=data, stdout=subprocess.PIPE, stderr=subprocess.PIPE,
                           text=True, timeout=timeout)
        out = p.stdout.split("\n")
        if out and out[-1] == "":
            out.pop()
        if len(out) != len(lines):
            raise RuntimeError(f"driver returned {len(out)} lines for {len(lines)} queries: "
                               f"{p.stderr[-500:]}")
        return out


def sx(x):
    """python nested lists / atoms -> S-expression text"""
    if isinstance(x, (list, tuple)):
        return "(" + " ".join(sx(i) for i in x) + ")"
    if isinstance(x, bool):
        return "T" if x else "F"
    if isinstance(x, int):
        return str(x)
    if isinstance(x, bytes):
        return "h" + x.hex()
    if isinstance(x, str):
        return x
    raise TypeError(type(x))


def wire(s):
    """a python str/bytes as a wire string atom (hex of its utf-8 / latin bytes)"""
    if isinstance(s, str):
        s = s.encode("utf-8", "surrogatepass")
    return "h" + s.hex()


def load_known_findings():
    path = os.path.join(VERIF, "KNOWN_FINDINGS.jsonl")
    out = []
    if os.path.exists(path):
        for line in open(path):
            line = line.strip()
            if line and not line.startswith("#"):
                out.append(json.loads(line))
    return out


def _descendants(root):
    """pids of every live descendant of `root` (from /proc)"""
    kids = {}
    for d in os.listdir("/proc"):
        if d.isdigit():
            try:
                with open(f"/proc/{d}/stat") as f:
                    st = f.read()
                ppid = int(st[st.rindex(")") + 2:].split()[1])
                kids.setdefault(ppid, []).append(int(d))
            except (OSError, ValueError):
                pass
    out, todo = [], [root]
    while todo:
        for k in kids.get(todo.pop(), []):
            out.append(k)
            todo.append(k)
    return out


class Check:
    def __init__(self, pid, tier, seed, technique=""):
        self.pid = pid
        self.tier = tier
        self.seed = seed
        self.rng = random.Random(seed * 1000003 + int(pid[1:]))
        self.t0 = time.time()
        self.obligations = []          # dicts: name, ok, detail
        self.violations = []           # replay paths
        self.samples = []
        self.evaluations = 0
        self.nontrivial = set()
        self.rule = ""
        self.stats = {}
        self.assumptions_out = {}
        self.table_digests = {}
        self.known_reported = []
        self.exhaustive = False
        self.extra = {}
        self.known = [k for k in load_known_findings() if k.get("property") == pid]
        self._nrep = 0
        self._arm_watchdog()

    # ---- fail-safe: a check that does not come back is an alarm, not a hang ----
    def _arm_watchdog(self):
        """A change to the implementation can make a call on some corpus input never return (e.g. a walk
        over a cyclic AST).  The harnesses bound individual calls where they can; this is the backstop:
        after VERIF_WALL_LIMIT seconds (default 2 h quick, 12 h thorough: far above the minutes a check takes even on a loaded machine) the check reports that the
        property is no longer shown, kills its worker processes and exits 1."""
        import signal
        import threading
        if threading.current_thread() is not threading.main_thread():
            return
        limit = int(os.environ.get("VERIF_WALL_LIMIT", "7200" if self.tier == "quick" else "43200"))

        def on_alarm(signum, frame):
            what = (f"the check did not complete within {limit} s of wall time: a call into the implementation "
                    f"(or the harness) does not return on some input of the corpus")
            self.oblige(f"the check completes within {limit} s of wall time", False, what)
            self.violation(what, found_input=False,
                           extra={"obligation_details": self.obligations[-6:], "note": "watchdog"})
            for pid in _descendants(os.getpid()):
                try:
                    os.kill(pid, signal.SIGKILL)
                except OSError:
                    pass
            os._exit(1)

        signal.signal(signal.SIGALRM, on_alarm)
        signal.alarm(limit)

    # ---- obligations ----
    def oblige(self, name, ok, detail=""):
        self.obligations.append({"name": name, "ok": bool(ok), "detail": detail[-2000:]})
        return ok

    def failed_obligations(self):
        return [o for o in self.obligations if not o["ok"]]

    # ---- build / prove ----
    def needed_tables(self):
        """generated tables the property's theorem file transitively imports (coq/props/Cnn.v through
        coq/proofs and coq/model).  A generator failure is an alarm only for the properties that need
        its table; the others go on with the previous copy of that table."""
        import glob
        files = {}
        for d in ("gen", "model", "proofs", "props"):
            for f in glob.glob(os.path.join(COQ, d, "*.v")):
                files[os.path.basename(f)[:-2]] = f
        known = {"SevTable", "OpTable", "AnalysisTable", "MLTable", "ConstTable", "ReportTable", "PolyTable",
                 "LoaderPaths", "CallGraph"}
        seen, todo = set(), [self.pid]
        while todo:
            n = todo.pop()
            if n in seen:
                continue
            seen.add(n)
            if n not in files:
                continue
            for m in re.finditer(r"From Verif Require (?:Import|Export)\s+([^.]*)\.", open(files[n]).read(), re.S):
                todo += m.group(1).split()
        need = seen & known
        return need or (known - {"CallGraph"})

    def regen_and_build(self, targets=()):
        """Regenerate coq/gen from /repo, build the model + driver and the given proof targets.
        Records one obligation per step.  Returns True if everything built."""
        with Lock():
            rc, out = run(["make", "-s", "gen"], timeout=2400)
            try:
                self.table_digests = json.load(open(os.path.join(BUILD, "gen.json")))
            except Exception:
                self.table_digests = {}
            try:
                cg = json.load(open(os.path.join(BUILD, "gen_callgraph.json")))
            except Exception:
                cg = {"CallGraph": {"error": "gen_callgraph.json unreadable"}}
            status = dict(self.table_digests)
            status["CallGraph"] = cg.get("CallGraph", {"error": str(cg)[:300]}) if isinstance(cg, dict) else {}
            need = self.needed_tables()
            errs = {t: status.get(t, {}).get("error", "not generated") for t in need
                    if "digest" not in status.get(t, {})}
            other = sorted(t for t, v in status.items() if isinstance(v, dict) and "error" in v and t not in need)
            if other:
                self.stats["generator errors in tables this property does not use"] = other
            ok = self.oblige("tables regenerated from /repo (gen/gen_tables.py, gen/gen_callgraph.py): "
                             + ", ".join(sorted(need)), rc == 0 and not errs, json.dumps(errs) + out[-1500:])
            if not ok:
                return False
            rc, out = run(["make", "-s", "driver"], timeout=2400)
            ok = self.oblige("executable model compiles and extracts (coq/model, ocaml driver)",
                             rc == 0, out)
            if not ok:
                return False
            allok = True
            for t in targets:
                rc, out = run(["timeout", "2400", "make", "-f", "Makefile.coq", "-j16",
                               "--no-print-directory", t], cwd=COQ, timeout=2500)
                allok &= self.oblige(f"lemmas re-checked against regenerated tables: {t}", rc == 0, out)
            return allok

    def prove(self, propfile=None):
        """coqc the property's theorem file; record one obligation per Theorem in it."""
        propfile = propfile or f"props/{self.pid}.v"
        src = open(os.path.join(COQ, propfile)).read()
        bad = re.findall(r"\b(Admitted|admit|Axiom|Parameter|Conjecture|Unset Guard|bypass_check)\b", src)
        theorems = re.findall(r"^\s*(?:Theorem|Corollary)\s+(\w+)", src, re.M)
        with Lock():
            rc, out = run(["timeout", "1200", "coqc"] + COQ_FLAGS + [propfile], cwd=COQ, timeout=1300)
        self.assumptions_out[propfile] = out[-6000:]
        closed = out.count("Closed under the global context")
        axioms = re.findall(r"^Axioms:\n((?:.+\n?)+)", out, re.M)
        ok = rc == 0 and not bad
        for th in theorems:
            self.oblige(f"theorem {th} ({propfile})", ok, out if not ok else "")
        self.extra.setdefault("print_assumptions", {})[propfile] = {
            "closed_under_global_context": closed,
            "axioms_reported": [a.strip() for a in axioms],
        }
        if bad:
            self.oblige(f"no Admitted/Axiom in {propfile}", False, str(bad))
        if ok and self.tier == "thorough":
            # independent re-check of the compiled theorem file and everything it depends on
            mod = "Verif." + os.path.basename(propfile)[:-2]
            with Lock():
                rc2, out2 = run(["timeout", "3000", "coqchk", "-silent", "-o"] + COQ_FLAGS + [mod],
                                cwd=COQ, timeout=3100)
            m = re.search(r"\* Axioms:\s*(.*?)\n\s*\n\s*\*", out2, re.S)
            axioms = m.group(1).strip() if m else "?"
            flags = {k: (re.search(r"\* " + re.escape(k) + r":\s*(.*?)\n", out2) or [None, "?"])[1]
                     for k in ("Constants/Inductives relying on type-in-type",
                               "Constants/Inductives relying on unsafe (co)fixpoints",
                               "Inductives whose positivity is assumed")}
            clean = rc2 == 0 and axioms == "<none>" and all(v == "<none>" for v in flags.values())
            self.oblige(f"coqchk -o re-checks {mod} and all its dependencies: no axioms, no assumed "
                        f"positivity / guardedness / type-in-type", clean, out2[-1500:])
            self.extra["coqchk"] = {"axioms": axioms, **flags}
        return ok

    # ---- cases ----
    def count(self, n=1):
        self.evaluations += n

    def nontriv(self, key):
        self.nontrivial.add(key if isinstance(key, (str, int, tuple)) else repr(key))

    def sample(self, s, limit=6):
        if len(self.samples) < limit:
            self.samples.append(s)

    # ---- violation protocol ----
    def violation(self, what, case=None, found_input=True, extra=None):
        """Write a replay file and print the VIOLATION line."""
        os.makedirs(os.path.join(VERIF, "replays"), exist_ok=True)
        self._nrep += 1
        path = os.path.join(VERIF, "replays", f"{self.pid}-{self.seed}-{self._nrep}.json")
        doc = {
            "property": self.pid,
            "what_broke": what,
            "failing_input_found": bool(found_input),
            "case": case,
            "seed": self.seed,
            "tier": self.tier,
            "replay_cmd": f"{PY} {VERIF}/check.py {self.pid} --replay {path}",
        }
        if extra:
            doc.update(extra)
        with open(path, "w") as f:
            json.dump(doc, f, indent=1, default=repr)
        self.violations.append(path)
        tail = "" if found_input else " no-failing-input-found"
        print(f"VIOLATION property={self.pid} replay={path}{tail}", flush=True)
        return path

    def match_known(self, signature):
        for k in self.known:
            if k.get("status", "known") != "known":
                continue
            if k.get("signature") == signature:
                return k
        return None

    def known_finding(self, k, detail=""):
        key = k.get("id")
        if key not in self.known_reported:
            self.known_reported.append(key)
            print(f"KNOWN-FINDING: property={self.pid} {k.get('what', key)} {detail}".rstrip(), flush=True)

    # ---- evidence ----
    def finish(self):
        obligations = len(self.obligations)
        discharged = sum(1 for o in self.obligations if o["ok"])
        ev = {
            "property_id": self.pid,
            "tier": self.tier,
            "seed": self.seed,
            "level": "proof",
            "coverage": {
                "obligations": obligations,
                "discharged": discharged,
                "checker_cmd": f"make -C {VERIF} gen driver && make -C {VERIF}/coq -f Makefile.coq <lemma targets> "
                               f"&& coqc -Q gen Verif -Q model Verif -Q proofs Verif -Q props Verif props/{self.pid}.v",
                "trusted_base": TRUSTED_BASE,
                "obligation_list": [{"name": o["name"], "ok": o["ok"]} for o in self.obligations],
                "evaluations": self.evaluations,
                "distinct_nontrivial": len(self.nontrivial),
                "rule": self.rule,
                "samples": self.samples,
                "exhaustive": self.exhaustive,
                "table_digests": self.table_digests,
                "input_distribution": self.stats,
                "known_findings_reproduced": self.known_reported,
            },
            "assumptions": self.extra.pop("assumptions", []),
            "wall_s": round(time.time() - self.t0, 2),
            "violations": len(self.violations),
        }
        ev["coverage"].update(self.extra)
        os.makedirs(os.path.join(VERIF, "evidence"), exist_ok=True)
        with open(os.path.join(VERIF, "evidence", f"{self.pid}.json"), "w") as f:
            json.dump(ev, f, indent=1, default=repr)
        return 1 if self.violations else 0


def report_broken_obligations(chk, search):
    """DESIGN 2.6: when a proof obligation or correspondence no longer checks, look for a concrete
    failing input with the model-free oracle `search()` (returns a case dict or None)."""
    broken = chk.failed_obligations()
    if not broken:
        return
    names = [o["name"] for o in broken]
    case = None
    try:
        case = search()
    except Exception as e:  # the search itself must never mask the report
        case = None
        names.append(f"(search raised {type(e).__name__}: {e})")
    if case is not None:
        chk.violation("; ".join(names), case=case, found_input=True,
                      extra={"obligation_details": broken})
    else:
        chk.violation("; ".join(names), case=None, found_input=False,
                      extra={"obligation_details": broken,
                             "note": "no concrete failing input found; the named theorem / "
                                     "correspondence no longer checks"})
