"""C09 -- stepping and tracing mirror the real pickle VM opcode by opcode."""
import ast
import contextlib
import io
import json
import os
from concurrent.futures import ProcessPoolExecutor

from harness import asm, progs, vmlib
from harness.common import Check, Driver, report_broken_obligations, sx


def norm_model(line, decline=("Unmodelled",)):
    parts = [p.strip() for p in line.split("|")] if line else []
    out = []
    for p in parts:
        if p.startswith("ERR"):
            out.append("UNMODELLED" if any(d in p for d in decline) else "ERR")
        else:
            out.append(p)
    return out


def oracle_shapes(data, permissive=False):
    """model-free C09 on one program: real Interpreter vs real reference VM after each opcode
    (permissive: the VM's opaque objects accept .append/.extend/.add like a real deque would)"""
    try:
        fk, _, _ = vmlib.fk_trace(data)
    except Exception as e:
        return None  # fickling refuses to parse: outside the quantifier
    vm, _, _, _ = vmlib.vm_trace(data, permissive)
    for i, (a, b) in enumerate(zip(fk, vm)):
        if a == "ERR" or b == "ERR":
            return None
        if a != b:
            return {"step": i, "fickling": a, "reference_vm": b}
    return None


def oracle_trace(data):
    """model-free: Trace.run reports every executed opcode once, in order, and returns the same AST"""
    from fickling.fickle import Interpreter, Pickled
    from fickling.tracing import Trace
    try:
        p = Pickled.load(data)
        plain = ast.unparse(Interpreter(p).to_ast())
    except Exception:
        return None
    expected = []
    for op in p:
        expected.append(op.name)
        if op.name == "STOP":
            break
    buf = io.StringIO()
    try:
        with contextlib.redirect_stdout(buf):
            traced = Trace(Interpreter(Pickled.load(data))).run()
    except Exception as e:
        return {"trace": f"Trace.run raised {type(e).__name__}: {e} although untraced decompilation succeeds"}
    names = [l for l in buf.getvalue().splitlines() if l and not l.startswith("\t")]
    if names != expected:
        return {"trace": "opcode report differs", "reported": names, "expected": expected}
    if ast.unparse(traced) != plain:
        return {"trace": "traced AST differs from untraced decompilation"}
    # passivity towards the traced OBJECT: tracing it the way `fickling --trace` does for the 2nd member of
    # a stack (own variable numbering / result name), and running a finished trace again after an edit, must
    # not change what the Pickled itself decompiles to afterwards
    try:
        p2 = Pickled.load(data)
        with contextlib.redirect_stdout(io.StringIO()):
            tr = Trace(Interpreter(p2, first_variable_id=3, result_variable="result1"))
            tr.run()
        after = ast.unparse(p2.ast)
        if after != plain:
            return {"trace": "after tracing, the traced Pickled decompiles differently", "before": plain[:300],
                    "after": after[:300]}
        p3 = Pickled.load(data)
        with contextlib.redirect_stdout(io.StringIO()):
            tr3 = Trace(Interpreter(p3))
            tr3.run()
            first = p3[0]
            p3.insert(0, first)         # an edit pair that leaves the opcode list as it was ...
            del p3[0]                   # ... but goes through the cache-resetting primitives
            ref = ast.unparse(Pickled(list(p3)).ast)
            try:
                tr3.run()                                          # a finished trace, run again
            except Exception:
                pass
        if ast.unparse(p3.ast) != ref:
            return {"trace": "running a finished trace again changed what the Pickled decompiles to"}
    except RecursionError:
        pass
    return None


def real_side(data):
    """everything observed on the implementation for one program (runs in worker processes)"""
    try:
        ops = vmlib.abstract_ops(data)
    except Exception:
        return None
    if ops is None:
        return None
    from harness.vmcheck import timed, CASE_LIMIT
    try:
        # a call that does not return is reported with its program (TIMEOUT differs from every model answer)
        fk = timed(lambda: vmlib.fk_trace(data)[0], default=["TIMEOUT (no answer after %d s)" % CASE_LIMIT])
    except Exception as e:
        fk = ["PARSE-ERR"]
    vm, _, _, _ = vmlib.vm_trace(data)
    return {"ops": sx(ops), "fk": fk, "vm": vm}


def _work(batch):
    return [real_side(d) for d in batch]


def main(tier, seed):
    chk = Check("C09", tier, seed)
    chk.rule = ("programs: bounded-exhaustive typed enumeration over a 34-opcode alphabet (quick: <=3 opcodes "
                "+ STOP, thorough: <=5), random typed programs (<=40 opcodes, 25-global vocabulary), natural "
                "pickles of generated values at protocols 0-5, structurally malformed programs; after EVERY "
                "opcode the (segment sizes between marks, memo keys, halted) shape of the real Interpreter / "
                "instrumented pickle._Unpickler is compared with the model's; distinct = distinct byte "
                "strings, non-trivial = >=4 opcodes executed")
    built = chk.regen_and_build(["proofs/ShapeProofs.vo"])
    if built:
        chk.prove()
    rng = chk.rng
    L = 3 if tier == "quick" else 5
    nrand, nnat, nmal = (3000, 1500, 800) if tier == "quick" else (60000, 20000, 15000)
    corpus = []
    corpus_path = os.path.join(os.path.dirname(__file__), "corpus", "c09.jsonl")
    if os.path.exists(corpus_path):
        for line in open(corpus_path):
            corpus.append(("corpus", bytes.fromhex(json.loads(line)["hex"])))
    for prog in progs.enumerate_typed(L):
        corpus.append(("exhaustive", asm.assemble(prog)))
    for prog in progs.object_container_programs():
        corpus.append(("objcontainer", asm.assemble(prog)))
    for prog in progs.alias_programs():
        corpus.append(("alias", asm.assemble(prog)))
    for _ in range(nrand):
        corpus.append(("random", asm.assemble(progs.random_typed(rng))))
    for _ in range(nnat):
        corpus.append(("natural", progs.natural_pickle(rng)[0]))
    for _ in range(nmal):
        corpus.append(("malformed", asm.assemble(progs.malformed(rng))))
    for label, data in progs.boundary_pickles():
        corpus.append(("boundary", data))             # plain data at size boundaries (seeded round 7)
    datas = [d for _, d in corpus]
    B = 400
    batches = [datas[i:i + B] for i in range(0, len(datas), B)]
    with ProcessPoolExecutor(max_workers=14) as ex:
        results = [r for rs in ex.map(_work, batches) for r in rs]
    mism, unmod, refused = [], 0, 0
    lines, idx = [], []
    for i, r in enumerate(results):
        if r is None:
            refused += 1
            continue
        lines.append("(fk_trace " + r["ops"] + ")")
        lines.append("(vm_trace " + r["ops"] + ")")
        idx.append(i)
    out = Driver().query(lines) if built else []
    seen = set()
    for j, i in enumerate(idx):
        r = results[i]
        kind, data = corpus[i]
        chk.count()
        chk.stats[kind] = chk.stats.get(kind, 0) + 1
        if data not in seen:
            seen.add(data)
            if len(r["fk"]) >= 4:
                chk.nontriv(data.hex())
        if not built:
            continue
        # the reference model declines ill-typed programs (TypeError) where CPython is sometimes lenient
        mfk, mvm = norm_model(out[2 * j]), norm_model(out[2 * j + 1], ("Unmodelled", "TypeError"))
        # fickling side: compare until the model declines (mark consumed as a value)
        rfk = r["fk"]
        if rfk != ["PARSE-ERR"]:
            cut = mfk.index("UNMODELLED") if "UNMODELLED" in mfk else None
            if cut is not None:
                unmod += 1
                # where the model declines, the reference VM must reject
                if len(r["vm"]) > cut and r["vm"][cut] != "ERR" and r["vm"][:cut] == mvm[:cut]:
                    mism.append({"kind": kind, "hex": data.hex(), "why": "model declines but VM accepts",
                                 "step": cut})
                if rfk[:cut] != mfk[:cut]:
                    mism.append({"kind": kind, "hex": data.hex(), "side": "fickling", "real": rfk, "model": mfk})
            elif rfk != mfk:
                mism.append({"kind": kind, "hex": data.hex(), "side": "fickling", "real": rfk, "model": mfk})
        mcut = mvm.index("UNMODELLED") if "UNMODELLED" in mvm else None
        rvm = r["vm"]
        if mcut is not None:
            chk.stats["refvm-model-declined:" + kind] = chk.stats.get("refvm-model-declined:" + kind, 0) + 1
            if kind in ("exhaustive", "natural") and len(rvm) > mcut and rvm[mcut] != "ERR":
                mism.append({"kind": kind, "hex": data.hex(), "side": "refvm", "real": rvm, "model": mvm,
                             "why": "reference model declines a well-typed program CPython accepts"})
            if rvm[:mcut] != mvm[:mcut]:
                mism.append({"kind": kind, "hex": data.hex(), "side": "refvm", "real": rvm, "model": mvm})
        elif rvm != mvm:
            mism.append({"kind": kind, "hex": data.hex(), "side": "refvm", "real": rvm, "model": mvm})
    chk.stats["model-declined(mark as value)"] = unmod
    chk.stats["outside-model(opcode without class or unparseable)"] = refused
    if built:
        chk.oblige(f"correspondence: per-opcode shapes, real Interpreter.step() and instrumented "
                   f"pickle._Unpickler vs model, {len(idx)} programs", not mism, json.dumps(mism[:3]))
    # container opcodes on OBJECTS: the Coq reference model declines them (and so does fickling today); if
    # fickling ever accepts them, its shapes must be the real VM's -- checked model-free on the whole family
    oc_bad = []
    for kind, d in corpus:
        if kind == "objcontainer":
            why = oracle_shapes(d, permissive=True)
            chk.count()
            if why:
                oc_bad.append({"hex": d.hex(), **why})
    chk.oblige("property oracle: programs applying APPEND/APPENDS/ADDITEMS to an object -- refused, or same "
               "shapes as the VM after every opcode", not oc_bad, json.dumps(oc_bad[:3]))
    # Trace.run passivity: model-free comparison on a sample (the model's statement is C09_trace_passive)
    tr_bad = []
    sample = [d for k, d in corpus if k in ("natural", "random", "corpus")][: (400 if tier == "quick" else 5000)]
    sample += [d for k, d in corpus if k == "boundary"]
    for d in sample:
        why = oracle_trace(d)
        chk.count()
        if why:
            tr_bad.append({"hex": d.hex(), **why})
    chk.oblige(f"correspondence: Trace.run reports the executed prefix and returns the untraced AST, "
               f"{len(sample)} programs", not tr_bad, json.dumps(tr_bad[:3]))
    for kind, data in corpus[len(corpus) // 2: len(corpus) // 2 + 2]:
        chk.sample({"kind": kind, "hex": data.hex()[:200], "fk_trace": results[corpus.index((kind, data))]["fk"][:6]
                    if results[corpus.index((kind, data))] else None})

    def search():
        for m in mism:
            why = oracle_shapes(bytes.fromhex(m["hex"]))
            if why:
                return {"hex": m["hex"], "oracle": "symbolic stack/memo shape differs from the reference VM", **why}
        for t in tr_bad:
            return {"hex": t["hex"], "oracle": "tracing is not passive", **{k: v for k, v in t.items() if k != "hex"}}
        for t in oc_bad:
            return {"oracle": "symbolic stack/memo shape differs from the reference VM (container opcode on an "
                              "object)", "permissive": True, **t}
        for kind, data in corpus:
            why = oracle_shapes(data)
            if why:
                return {"hex": data.hex(), "kind": kind,
                        "oracle": "symbolic stack/memo shape differs from the reference VM", **why}
        return None

    report_broken_obligations(chk, search)
    return chk.finish()


def replay(path):
    doc = json.load(open(path))
    case = doc.get("case") or {}
    if "hex" not in case:
        print("replay: no concrete input recorded; re-running the quick check")
        return main("quick", doc.get("seed", 0))
    data = bytes.fromhex(case["hex"])
    why = oracle_shapes(data, bool(case.get("permissive"))) or oracle_trace(data)
    if why:
        print(f"VIOLATION property=C09 replay={path}")
        print(json.dumps(why))
        return 1
    print("replay: the recorded case no longer fails")
    return 0
