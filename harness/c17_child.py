"""C17 child process: everything that needs torch / fickling.polyglot runs here, once per check run.

Usage:  python c17_child.py <job.json>      (job: mode, scratch, tier, seed, [case])
Writes <scratch>/result.json.  No dependency on harness.common (the parent imports this module too,
for the spec generators and the model-free oracle; torch is imported lazily)."""
import contextlib
import hashlib
import io
import itertools
import json
import os
import pickle
import random
import shutil
import sys
import tarfile
import zipfile

MARKERS = ["data.pkl", "constants.pkl", "version", "model.json", "attributes.pkl"]
MARKER_KEYS = ["has_data_pkl", "has_constants_pkl", "has_version", "has_model_json", "has_attributes_pkl"]
# README.md "PyTorch polyglots" / polyglot.py docstring, in documented precedence
DOC_ZIP = [
    ("TorchScript v1.4", ["data.pkl", "constants.pkl", "version"]),
    ("TorchScript v1.3", ["data.pkl", "constants.pkl"]),
    ("TorchScript v1.0", ["model.json", "constants.pkl"]),   # code asks for constants.pkl too (observation)
    ("TorchScript v1.1", ["model.json", "attributes.pkl"]),
    ("PyTorch v1.3", ["data.pkl"]),
]
ZIP_FORMATS = [f for f, _ in DOC_ZIP]
DECOYS = ["{m}.bak", "x{m}", "{m}/inner.bin", "old_{m}_copy"]


# ---------------------------------------------------------------- specs
def synth_specs_exhaustive():
    """all 32 marker subsets x placement (root / one directory deep) x leading junk x trailing data"""
    out = []
    for bits in itertools.product([0, 1], repeat=5):
        chosen = [m for m, b in zip(MARKERS, bits) if b]
        for deep in (0, 1):
            for junk in (0, 7):
                for trail in ("none", "pickle", "tar"):
                    names = ["archive/" + m if deep else m for m in chosen]
                    # a neutral first member so that the archive is never empty and torch can find
                    # the archive prefix when deep
                    names = (["archive/data/0"] if deep else ["payload.bin"]) + names
                    out.append({"k": "synth", "names": names, "junk": junk, "trail": trail,
                                "label": f"subset={''.join(map(str, bits))} deep={deep} junk={junk} trail={trail}"})
    return out


def synth_specs_random(rng, n):
    out = []
    for _ in range(n):
        names = []
        deep = rng.random() < 0.6
        pre = rng.choice(["archive/", "m/", "a.b/", "model/sub/"]) if deep else ""
        if rng.random() < 0.7:
            names.append(pre + rng.choice(["data/0", "byteorder", "code/__torch__.py", "x.bin"]))
        for m in MARKERS:
            r = rng.random()
            if r < 0.35:
                names.append(pre + m)
            elif r < 0.6:
                names.append(pre + rng.choice(DECOYS).format(m=m))
        if rng.random() < 0.25:
            names += [pre + "handler.py", pre + "MAR-INF/MANIFEST.json", pre + rng.choice(["w.pt", "w.pth"])]
        if rng.random() < 0.15:
            names.append(rng.choice(["data.pkl", "other/data.pkl"]))
        rng.shuffle(names)
        if not names:
            names = ["empty.txt"]
        # unique, zipfile would warn on duplicates
        names = list(dict.fromkeys(names))
        out.append({"k": "synth", "names": names, "junk": rng.choice([0, 0, 0, 5, 64]),
                    "trail": rng.choice(["none", "none", "pickle", "tar"]), "label": "random"})
    return out


def real_specs():
    return [
        {"k": "torch_save", "obj": "dict", "legacy": False, "label": "torch.save(state dict)"},
        {"k": "torch_save", "obj": "module", "legacy": False, "label": "torch.save(nn.Module)"},
        {"k": "torch_save", "obj": "tensor", "legacy": False, "label": "torch.save(tensor)"},
        {"k": "torch_save", "obj": "nested", "legacy": False, "label": "torch.save(nested containers)"},
        {"k": "torch_save", "obj": "dict", "legacy": True, "label": "legacy torch.save(state dict)"},
        {"k": "torch_save", "obj": "module", "legacy": True, "label": "legacy torch.save(nn.Module)"},
        {"k": "jit", "label": "torch.jit.save(scripted module)"},
        {"k": "legacy_tar", "label": "v0.1.1 tar (pickle, storages, tensors)"},
        {"k": "tar_other", "label": "tar without the legacy members"},
        {"k": "mar", "junk": 0, "label": "model archive zip"},
        {"k": "mar", "junk": 9, "label": "model archive zip with leading junk"},
        {"k": "npy", "pickle": False, "label": "numpy array"},
        {"k": "npy", "pickle": True, "label": "numpy object array"},
        {"k": "pickle", "stack": 1, "label": "plain pickle"},
        {"k": "pickle", "stack": 3, "label": "stacked pickles"},
        {"k": "bytes", "hex": "", "label": "empty file"},
        {"k": "bytes", "hex": b"hello, this is not a model\n".hex(), "label": "text"},
        {"k": "bytes", "hex": (b"PK\x03\x04" + b"\x00" * 40).hex(), "label": "zip magic then garbage"},
        {"k": "randzip", "label": "random zip with a random prefix (test_zip)"},
    ]


def pair_corpus_specs():
    """inputs of create_polyglot: every primary format, several files with no format, a TorchScript
    file whose constants.pkl/version cannot be located, a missing path, equal basenames"""
    return [
        {"k": "torch_save", "obj": "dict", "legacy": False, "name": "v13_dict.pt"},
        {"k": "torch_save", "obj": "module", "legacy": False, "name": "v13_module.pth"},
        {"k": "jit", "name": "ts14.pt"},
        {"k": "synth", "names": ["m/data.pkl", "m/constants.pkl", "m/version"], "junk": 0, "trail": "none",
         "name": "ts14_synth.zip"},
        {"k": "synth", "names": ["m/data.pkl", "m/constants.pkl.d/x", "m/version"], "junk": 0, "trail": "none",
         "name": "ts14_no_constants_member.zip"},
        {"k": "synth", "names": ["m/data.pkl", "m/constants.pkl", "m/versions/1"], "junk": 0, "trail": "none",
         "name": "ts14_no_version_member.zip"},
        {"k": "torch_save", "obj": "dict", "legacy": True, "name": "legacy_pickle.pth"},
        {"k": "legacy_tar", "name": "legacy_tar.pth"},
        {"k": "mar", "junk": 0, "name": "model.mar"},
        {"k": "mar", "junk": 9, "name": "model_junk.mar"},
        {"k": "randzip", "name": "none_random.zip"},
        {"k": "bytes", "hex": "", "name": "none_empty.bin"},
        {"k": "synth", "names": ["model.json"], "junk": 0, "trail": "none", "name": "none_model_json_only.zip"},
        {"k": "synth", "names": ["m/model.json", "m/attributes.pkl"], "junk": 0, "trail": "none", "name": "ts11.zip"},
        {"k": "missing", "name": "does_not_exist.pt"},
        {"k": "torch_save", "obj": "tensor", "legacy": False, "name": "v13_dict.pt", "dir": "in2"},
    ]


# ---------------------------------------------------------------- building files
def _tiny_tar_bytes():
    bio = io.BytesIO()
    with tarfile.open(fileobj=bio, mode="w:") as tar:
        ti = tarfile.TarInfo("note.txt")
        data = b"trailing tar member"
        ti.size = len(data)
        tar.addfile(ti, io.BytesIO(data))
    return bio.getvalue()


def build(spec, path, rng=None):
    """materialise a spec at `path` (deterministic given the spec)"""
    k = spec["k"]
    if k == "missing":
        return
    if k == "synth":
        bio = io.BytesIO()
        with zipfile.ZipFile(bio, "w") as z:
            for i, n in enumerate(spec["names"]):
                # torch's reader parses <archive>/version as an integer
                z.writestr(n, b"3\n" if n.rsplit("/", 1)[-1] == "version" else (f"member {i} {n}\n").encode())
        data = bytes(range(65, 65 + 26))[: spec["junk"]] * 1 if spec["junk"] <= 26 else b"J" * spec["junk"]
        data = data + bio.getvalue()
        if spec["trail"] == "pickle":
            data += pickle.dumps({"trailing": [1, 2, 3], "k": "v"}, protocol=2)
        elif spec["trail"] == "tar":
            data += _tiny_tar_bytes()
        open(path, "wb").write(data)
        return
    if k == "bytes":
        open(path, "wb").write(bytes.fromhex(spec["hex"]))
        return
    if k == "pickle":
        with open(path, "wb") as f:
            for i in range(spec["stack"]):
                f.write(pickle.dumps({"part": i, "l": [1, 2, 3]}, protocol=2 + (i % 3)))
        return
    if k == "randzip":
        r = random.Random(12345)
        bio = io.BytesIO()
        with zipfile.ZipFile(bio, "w") as z:
            z.writestr("blob.tmp", bytes(r.randrange(256) for _ in range(1024)))
        open(path, "wb").write(b"r4nd0mPr3f1xStr1ng20" + bio.getvalue())
        return
    if k == "mar":
        bio = io.BytesIO()
        with zipfile.ZipFile(bio, "w") as z:
            z.writestr("MAR-INF/MANIFEST.json", b'{"model": {"serializedFile": "weights.pt"}}')
            z.writestr("handler.py", b"def handle(data, context):\n    return data\n")
            z.writestr("weights.pt", b"not really weights")
        open(path, "wb").write(b"#" * spec["junk"] + bio.getvalue())
        return
    if k == "legacy_tar":
        with tarfile.open(path, mode="w:") as tar:
            for name, data in (("pickle", b"dummy content"),):
                ti = tarfile.TarInfo(name)
                ti.size = len(data)
                tar.addfile(ti, io.BytesIO(data))
            for d in ("storages", "tensors"):
                ti = tarfile.TarInfo(d)
                ti.type = tarfile.DIRTYPE
                tar.addfile(ti)
        return
    if k == "tar_other":
        open(path, "wb").write(_tiny_tar_bytes())
        return
    if k == "npy":
        import numpy as np
        if spec["pickle"]:
            np.save(path + ".npy", np.array([{"a": 1}, None], dtype=object), allow_pickle=True)
        else:
            np.save(path + ".npy", np.arange(6).reshape(2, 3))
        os.replace(path + ".npy", path)
        return
    import torch
    torch.manual_seed(7)
    if k == "torch_save":
        obj = {
            "dict": lambda: {"w": torch.arange(6, dtype=torch.float32).reshape(2, 3), "b": torch.zeros(3)},
            "module": lambda: torch.nn.Linear(3, 2),
            "tensor": lambda: torch.ones(4, dtype=torch.int64),
            "nested": lambda: {"l": [torch.zeros(0), (torch.ones(2, 2, dtype=torch.float64), "s")], "n": 3},
        }[spec["obj"]]()
        torch.save(obj, path, _use_new_zipfile_serialization=not spec["legacy"])
        return
    if k == "jit":
        import warnings

        class Tiny(torch.nn.Module):
            def __init__(self):
                super().__init__()
                self.l = torch.nn.Linear(2, 2)

            def forward(self, x):
                return self.l(x) + 1

        with warnings.catch_warnings():
            warnings.simplefilter("ignore")
            torch.jit.save(torch.jit.script(Tiny()), path)
        return
    raise ValueError(f"unknown spec {spec}")


def sha(path):
    return hashlib.sha256(open(path, "rb").read()).hexdigest()


class private_tmp:
    """while active, tempfile's default directory is <d>/tmp -- inside the observed tree, so scratch
    files the library forgets there show up in the listing"""

    def __init__(self, d):
        self.t = os.path.join(d, "tmp")
        os.makedirs(self.t, exist_ok=True)

    def __enter__(self):
        import tempfile
        self.saved = (tempfile.tempdir, os.environ.get("TMPDIR"))
        tempfile.tempdir = self.t
        os.environ["TMPDIR"] = self.t
        return self

    def __exit__(self, *a):
        import tempfile
        tempfile.tempdir = self.saved[0]
        if self.saved[1] is None:
            os.environ.pop("TMPDIR", None)
        else:
            os.environ["TMPDIR"] = self.saved[1]


def listing(root):
    """relative path -> 'd' | sha256, for everything below root"""
    out = {}
    for d, dirs, files in os.walk(root):
        for x in dirs:
            out[os.path.relpath(os.path.join(d, x), root)] = "d"
        for x in files:
            p = os.path.join(d, x)
            out[os.path.relpath(p, root)] = sha(p)
    return out


def namelist(path):
    try:
        with zipfile.ZipFile(path) as z:
            return z.namelist()
    except Exception:  # noqa
        return None


# ---------------------------------------------------------------- observing the implementation
def call_quiet(fn, *a, **kw):
    so = io.StringIO()
    with contextlib.redirect_stdout(so):
        try:
            r = ("ok", fn(*a, **kw))
        except BaseException as e:  # noqa
            r = ("raised", type(e).__name__)
    return r, so.getvalue()


def torch_accepts(path):
    import torch
    from torch.serialization import _is_zipfile
    with open(path, "rb") as f:
        magic = bool(_is_zipfile(f))
    rec = False
    try:
        rd = torch._C.PyTorchFileReader(path)
        rec = bool(rd.has_record("data.pkl"))
        del rd
    except Exception:  # noqa
        rec = False
    return magic, rec


def observe_identify(spec, workdir, tag):
    """build the file in its own directory and watch identify_pytorch_file_format on it"""
    import fickling.polyglot as poly
    d = os.path.join(workdir, tag)
    os.makedirs(os.path.join(d, "in"))
    os.makedirs(os.path.join(d, "cwd"))
    os.makedirs(os.path.join(d, "copy"))
    fname = spec.get("name", "model.bin")
    path = os.path.join(d, "in", fname)
    build(spec, path)
    ptmp = private_tmp(d)
    before = listing(d)
    cwd = os.getcwd()
    os.chdir(os.path.join(d, "cwd"))
    try:
        with ptmp:
            (s1, f1), out1 = call_quiet(poly.identify_pytorch_file_format, path)
            (s2, f2), _ = call_quiet(poly.identify_pytorch_file_format, path)
            (sp, props), _ = call_quiet(poly.find_file_properties, path)
        after = listing(d)
        cpath = os.path.join(d, "copy", "renamed_" + fname + ".dat")
        shutil.copyfile(path, cpath)
        (s3, f3), _ = call_quiet(poly.identify_pytorch_file_format, cpath)
        # history: ONE path outside this case's directory is rewritten with every case's bytes in turn and
        # identified again -- the answer must be that of the bytes it holds now, whatever it held before
        spath = os.path.join(workdir, "same_path_rewritten.bin")
        shutil.copyfile(path, spath)
        (s4, f4), _ = call_quiet(poly.identify_pytorch_file_format, spath)
        legacy = None
        if sp == "ok" and props.get("is_tar"):
            (sl, lv), _ = call_quiet(poly.check_if_legacy_format, path)
            legacy = bool(lv) if sl == "ok" else None
    finally:
        os.chdir(cwd)
    magic, rec = torch_accepts(path)
    obs = {
        "spec": spec, "tag": tag,
        "first": [s1, f1], "second": [s2, f2], "copy": [s3, f3], "same_path": [s4, f4],
        "props": props if sp == "ok" else None, "props_status": sp,
        "stdout": out1, "legacy": legacy,
        "before": before, "after": after,
        "names": namelist(path),
        "torch_magic": magic, "torch_record": rec,
        "size": os.path.getsize(path),
    }
    shutil.rmtree(d, ignore_errors=True)
    return obs


def reachable(bits):
    """records find_file_properties can produce: a marker is only found in a zip at offset 0 that zipfile opens"""
    tz, tar, pk, std, d, c, v, j, a, leg, mar = bits
    return (tz and std) or not (d or c or v or j or a)


def eval_record(poly, bits):
    tz, tar, pk, std, d, c, v, j, a, leg, mar = bits
    rec = {"is_torch_zip": tz, "is_tar": tar, "is_valid_pickle": pk, "is_numpy": False,
           "is_numpy_pickle": False, "is_standard_zip": std,
           "is_standard_not_torch": std and not tz, "has_constants_pkl": c, "has_data_pkl": d,
           "has_version": v, "has_model_json": j, "has_attributes_pkl": a}
    poly.find_file_properties = lambda file, print_properties=False: dict(rec)
    poly.check_if_legacy_format = lambda file: leg
    poly.check_if_model_archive_format = lambda file, properties: mar
    (s, f), out = call_quiet(poly.identify_pytorch_file_format, "unused-path")
    return {"bits": list(bits), "status": s, "formats": f, "corrupt": "corrupted" in out}


STUBBED = ["find_file_properties", "check_if_legacy_format", "check_if_model_archive_format"]


def observe_records(only=None):
    """the decision function on every reachable property record, with discovery stubbed out"""
    import fickling.polyglot as poly
    if not all(hasattr(poly, n) for n in STUBBED + ["identify_pytorch_file_format"]):
        return None
    saved = {n: getattr(poly, n) for n in STUBBED}
    res = []
    try:
        todo = [only] if only is not None else itertools.product([True, False], repeat=11)
        for bits in todo:
            if reachable(bits):
                res.append(eval_record(poly, bits))
    finally:
        for n, fn in saved.items():
            setattr(poly, n, fn)
    return res


def oracle_record(r):
    """the documented table on a bare properties record"""
    if r["status"] != "ok":
        return f"record {r['bits']}: identification raised {r['formats']}"
    tz, tar, pk, std, d, c, v, j, a, leg, mar = r["bits"]
    present = {"data.pkl": d, "constants.pkl": c, "version": v, "model.json": j, "attributes.pkl": a}
    want = [f for f, ms in DOC_ZIP if tz and all(present[m] for m in ms)]
    want += ["PyTorch v0.1.1"] if tar and leg else []
    want += ["PyTorch v0.1.10"] if pk else []
    want += ["PyTorch model archive format"] if std and mar else []
    if r["formats"] != want:
        keys = ["is_torch_zip", "is_tar", "is_valid_pickle", "is_standard_zip"] + MARKER_KEYS + ["legacy", "mar"]
        on = [k for k, x in zip(keys, r["bits"]) if x]
        return f"properties {on}: implementation answers {r['formats']}, documented table gives {want}"
    return None


def observe_pair(master, a, b, out_name, workdir, tag, pre_bytes=None):
    """create_polyglot on copies of two corpus files, in a scratch cwd with bystanders; with pre_bytes the
    output path already holds a file (an earlier output) when the call is made"""
    import fickling.polyglot as poly
    d = os.path.join(workdir, tag)
    cwdp = os.path.join(d, "cwd")
    os.makedirs(os.path.join(cwdp, "sub"))
    open(os.path.join(cwdp, "keep.txt"), "wb").write(b"bystander\n")
    open(os.path.join(cwdp, "sub", "inner.txt"), "wb").write(b"bystander 2\n")
    rels = []
    for ent in (a, b):
        sub = ent.get("dir", "in")
        os.makedirs(os.path.join(d, sub), exist_ok=True)
        rel = os.path.join("..", sub, ent["name"])
        if ent["k"] != "missing":
            shutil.copyfile(os.path.join(master, ent["id"]), os.path.join(d, sub, ent["name"]))
        rels.append(rel)
    pre_out = None
    if pre_bytes is not None and out_name is not None:
        open(os.path.join(cwdp, out_name), "wb").write(pre_bytes)
        pre_out = os.path.join("cwd", out_name)
    ptmp = private_tmp(d)
    before = listing(d)
    cwd = os.getcwd()
    os.chdir(cwdp)
    try:
        kw = {"print_results": True}
        if out_name is not None:
            kw["polyglot_file_name"] = out_name
        with ptmp:
            (st, val), out = call_quiet(poly.create_polyglot, rels[0], rels[1], **kw)
    finally:
        os.chdir(cwd)
    after = listing(d)
    new = sorted(p for p in after if p not in before)
    out_formats = None
    if pre_out is not None:
        (s, f), _ = call_quiet(poly.identify_pytorch_file_format, os.path.join(d, pre_out))
        out_formats = [s, f]
    for p in new:
        full = os.path.join(d, p)
        if os.path.isfile(full) and os.path.dirname(p) == "cwd" and not os.path.basename(p).startswith("temp_"):
            (s, f), _ = call_quiet(poly.identify_pytorch_file_format, full)
            out_formats = [s, f]
    return {"tag": tag, "a": a["id"], "b": b["id"], "rels": rels, "out": out_name,
            "status": st, "value": val if st == "raised" else bool(val), "stdout": out[-300:],
            "before": before, "after": after, "new": new, "out_formats": out_formats, "dir": d, "pre_out": pre_out}


# ---------------------------------------------------------------- model-free oracle
def has(names, m):
    return any(m in n for n in names)


def oracle_identify(o):
    """C17 on one identification observation; None if the property holds, else what fails"""
    s1, f1 = o["first"]
    if o["before"] != o["after"]:
        diff = sorted(set(o["after"].items()) ^ set(o["before"].items()))
        return f"identification is not read-only: directory tree changed {diff[:3]}"
    if o["first"] != o["second"]:
        return f"identification is not deterministic: {o['first']} then {o['second']}"
    if o["first"] != o["copy"]:
        return f"identification depends on more than the bytes: {o['first']} vs renamed copy {o['copy']}"
    if "same_path" in o and o["first"] != o["same_path"]:
        return (f"identification depends on more than the bytes: {o['first']} vs the same bytes written over a "
                f"path that held another file before {o['same_path']}")
    if s1 != "ok":
        return None  # raising is outside the table (nothing documented); tie handles it
    names = o["names"] or []
    zipf = [f for f in f1 if f in ZIP_FORMATS]
    if len(set(f1)) != len(f1):
        return f"duplicate formats {f1}"
    if o["torch_magic"]:
        want = [f for f, ms in DOC_ZIP if all(has(names, m) for m in ms)]
        if zipf != want:
            return f"zip at offset 0 with members {names}: reported {zipf}, documented table gives {want}"
        if f1[:len(zipf)] != zipf:
            return f"zip formats are not listed first: {f1}"
    elif zipf:
        return f"no zip magic at offset 0 but reported {zipf}"
    if o["torch_magic"] and o["torch_record"] and "PyTorch v1.3" not in f1:
        return f"torch's zip loader accepts the file but it is not reported as PyTorch v1.3: {f1}"
    return None


def oracle_pair(o):
    """C17 on one create_polyglot observation"""
    before, after = o["before"], o["after"]
    pre = o.get("pre_out")            # the output path held an earlier output: it is REPLACED by a successful call
    for p, h in before.items():
        if p == pre:
            continue
        if p not in after:
            return f"{p} was removed"
        if after[p] != h:
            return f"{p} was modified"
    new = [p for p in after if p not in before]
    ok_new = []
    if o["status"] == "ok" and o["value"] is True and pre:
        if pre not in after:
            return f"polyglot reported but the output path {pre} does not exist"
        ok_new = [pre]
    elif o["status"] == "ok" and o["value"] is True:
        ok_new = [p for p in new if os.path.dirname(p) == "cwd" and not os.path.basename(p).startswith("temp")]
        if len(ok_new) != 1:
            return f"polyglot reported but new paths are {new}"
    stray = [p for p in new if p not in ok_new]
    if stray:
        how = "raised " + str(o["value"]) if o["status"] == "raised" else f"returned {o['value']}"
        return f"files left behind after create_polyglot {how}: {stray}"
    if ok_new:
        s, f = o["out_formats"] or ["raised", None]
        need = o.get("combined")
        if need and (s != "ok" or not set(need).issubset(f)):
            return f"output identified as {f}, construction combined {need}"
    return None


# ---------------------------------------------------------------- main
def run(job):
    scratch = job["scratch"]
    rng = random.Random(job["seed"])
    res = {"identify": [], "pairs": [], "records": None}
    work = os.path.join(scratch, "work")
    os.makedirs(work, exist_ok=True)
    specs = synth_specs_exhaustive() + synth_specs_random(rng, job["n_random"]) + real_specs()
    for i, sp in enumerate(specs):
        res["identify"].append(observe_identify(sp, work, f"id{i}"))
    res["records"] = observe_records()
    # pairs
    master = os.path.join(scratch, "master")
    os.makedirs(master)
    corpus = []
    for i, sp in enumerate(pair_corpus_specs()):
        ent = dict(sp)
        ent["id"] = f"f{i}"
        if sp["k"] != "missing":
            build(sp, os.path.join(master, ent["id"]))
        corpus.append(ent)
    # what identification says about each corpus file (the model's `ident` input)
    import fickling.polyglot as poly
    cinfo = {}
    for ent in corpus:
        if ent["k"] == "missing":
            continue
        p = os.path.join(master, ent["id"])
        (s, f), _ = call_quiet(poly.identify_pytorch_file_format, p)
        cinfo[ent["id"]] = {"status": s, "formats": f, "names": namelist(p), "sha": sha(p),
                            "name": ent["name"], "dir": ent.get("dir", "in")}
    res["corpus"] = cinfo
    pairs = [(a, b) for a in corpus for b in corpus]
    if job.get("max_pairs") and len(pairs) > job["max_pairs"]:
        rng.shuffle(pairs)
        pairs = pairs[: job["max_pairs"]]
    for k, (a, b) in enumerate(pairs):
        out_name = rng.choice([None, None, "out_polyglot.bin"])
        res["pairs"].append(observe_pair(master, a, b, out_name, os.path.join(scratch, "pairs"), f"p{k}"))
    # history: every successful construction once more, into an output path that already holds the output of
    # ANOTHER construction (or, for the first one, a plain zip): the new output replaces it
    res["pairs_pre"] = []
    prev, prev_ids = None, None
    plain = next((os.path.join(master, e["id"]) for e in corpus if e["k"] == "torch_save" and not e.get("legacy")), None)
    for k, ((a, b), o) in enumerate(zip(pairs, res["pairs"])):
        if not (o["status"] == "ok" and o["value"] is True):
            continue
        outs = [p for p in o["new"] if os.path.dirname(p) == "cwd" and not os.path.basename(p).startswith("temp")]
        cur = open(os.path.join(o["dir"], outs[0]), "rb").read() if len(outs) == 1 else None
        pre = prev if prev is not None else (open(plain, "rb").read() if plain else b"PK\x03\x04junk")
        o2 = observe_pair(master, a, b, "out_polyglot.bin", os.path.join(scratch, "pairs"), f"q{k}", pre_bytes=pre)
        o2["pre_of"] = k
        o2["pre_pair"] = prev_ids          # ids of the pair whose output was at the output path (None: a plain zip)
        res["pairs_pre"].append(o2)
        if cur is not None:
            prev, prev_ids = cur, [a["id"], b["id"]]
    return res


def run_case(job):
    """replay: one identification spec or one pair of specs"""
    scratch = job["scratch"]
    case = job["case"]
    work = os.path.join(scratch, "work")
    os.makedirs(work, exist_ok=True)
    if case["kind"] == "identify":
        # give the shared path a history first (two files with other members), as the full run does
        for j, names in enumerate((["archive/data.pkl", "archive/version"], ["model.json", "constants.pkl"])):
            observe_identify({"k": "synth", "names": names, "junk": 0, "trail": "none", "label": f"history{j}"},
                             work, f"history{j}")
        o = observe_identify(case["spec"], work, "replay")
        return {"why": oracle_identify(o), "obs": o}
    if case["kind"] == "record":
        rs = observe_records(only=tuple(bool(x) for x in case["bits"]))
        return {"why": oracle_record(rs[0]) if rs else None, "obs": rs}
    master = os.path.join(scratch, "master")
    os.makedirs(master)
    ents = []
    for i, sp in enumerate([case["a"], case["b"]]):
        ent = dict(sp)
        ent["id"] = f"f{i}"
        if sp["k"] != "missing":
            build(sp, os.path.join(master, ent["id"]))
        ents.append(ent)
    pre_bytes = None
    if case.get("pre") is not None:
        if case["pre"]:                 # the output of another construction
            pents = []
            for i, sp in enumerate(case["pre"]):
                ent = dict(sp)
                ent["id"] = f"g{i}"
                if sp["k"] != "missing":
                    build(sp, os.path.join(master, ent["id"]))
                pents.append(ent)
            o0 = observe_pair(master, pents[0], pents[1], "out_polyglot.bin", os.path.join(scratch, "pairs"), "pre")
            outs = [p for p in o0["new"] if os.path.dirname(p) == "cwd" and not os.path.basename(p).startswith("temp")]
            pre_bytes = open(os.path.join(o0["dir"], outs[0]), "rb").read() if len(outs) == 1 else b""
        else:                           # a plain torch.save zip
            pp = os.path.join(master, "plain")
            build({"k": "torch_save", "obj": "dict", "legacy": False, "name": "plain.pt"}, pp)
            pre_bytes = open(pp, "rb").read()
    o = observe_pair(master, ents[0], ents[1], case.get("out"), os.path.join(scratch, "pairs"), "replay",
                     pre_bytes=pre_bytes)
    o["combined"] = case.get("combined")
    return {"why": oracle_pair(o), "obs": o}


if __name__ == "__main__":
    job = json.load(open(sys.argv[1]))
    result = run_case(job) if job["mode"] == "case" else run(job)
    with open(os.path.join(job["scratch"], "result.json"), "w") as f:
        json.dump(result, f)
