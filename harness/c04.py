"""C04 -- detection floor: dangerous imports and calls are never rated LIKELY_SAFE."""
import json
import sys
from concurrent.futures import ProcessPoolExecutor

from harness import anlib, asm, progs, vmlib
from harness.common import Check, Driver, report_broken_obligations, sx

DOC = ["LIKELY_SAFE", "POSSIBLY_UNSAFE", "SUSPICIOUS", "LIKELY_UNSAFE",
       "LIKELY_OVERTLY_MALICIOUS", "OVERTLY_MALICIOUS"]
DANGEROUS = ["os", "posix", "nt", "subprocess", "sys", "socket", "shutil", "urllib", "torch.hub", "dill", "code"]
BAD = ["eval", "exec", "compile", "open"]
STDLIB = set(sys.stdlib_module_names) | set(sys.builtin_module_names)


def is_stdlib(module):
    return module.split(".")[0] in STDLIB or module in vmlib.BUILTINS_MODULES


def labelled_programs(rng, n_per=1):
    """vocabulary x resolving opcode x call-making opcode x disposal x framing x surrounding data"""
    out = []
    disposals = ["result", "pop", "popmark", "dup", "memo", "stranded", "build", "arg", "inlist", "setitem"]
    # every documented dangerous module and a submodule of each, on top of the shared vocabulary
    vocab = list(progs.VOCAB)
    for d in DANGEROUS:
        for m in (d, d + ".sub"):
            if not any(v[0] == m for v in vocab):
                vocab.append((m, "f", "dangerous"))
    for m, a, label in vocab:
        for resolve in ("GLOBAL", "STACK_GLOBAL", "INST"):
            for call in ("none", "REDUCE", "OBJ", "NEWOBJ", "NEWOBJ_EX", "INSTCALL"):
                if resolve == "INST" and call not in ("none", "INSTCALL"):
                    continue
                if resolve != "INST" and call == "INSTCALL":
                    continue
                for disp in disposals:
                    if rng.random() > 0.35 * n_per:
                        continue
                    prog = []
                    proto = rng.choice([None, 0, 2, 4])
                    if proto is not None:
                        prog.append(("PROTO", proto))
                    if rng.random() < 0.5:      # benign data before
                        prog += [("BININT1", 5), "EMPTY_LIST", ("SHORT_BINUNICODE", "pad"), "APPEND", "POP", "POP"]
                    arg = rng.choice([("SHORT_BINUNICODE", "id"), ("BININT1", 3), ("BINUNICODE", "x" * 40)])
                    if resolve == "GLOBAL":
                        res = [("GLOBAL", (m, a))]
                    elif resolve == "STACK_GLOBAL":
                        res = [("SHORT_BINUNICODE", m), ("SHORT_BINUNICODE", a), "STACK_GLOBAL"]
                    else:
                        res = None
                    if resolve == "INST":
                        if call == "none":
                            continue
                        prog += ["MARK", arg, ("INST", (m, a))]
                    elif call == "none":
                        prog += res
                    elif call == "REDUCE":
                        prog += res + ["MARK", arg, "TUPLE", "REDUCE"]
                    elif call == "OBJ":
                        prog += ["MARK"] + res + [arg, "OBJ"]
                    elif call == "NEWOBJ":
                        prog += res + [arg, "TUPLE1", "NEWOBJ"]
                    elif call == "NEWOBJ_EX":
                        prog += res + [arg, "TUPLE1", "EMPTY_DICT", "NEWOBJ_EX"]
                    # computed callee: the value just made is itself called (result of a call as callee)
                    chain = rng.choice([None, None, None, "REDUCE", "NEWOBJ", "OBJ"]) if call != "none" else None
                    if chain == "REDUCE":
                        prog += ["MARK", arg, "TUPLE", "REDUCE"]
                    elif chain == "NEWOBJ":
                        prog += [arg, "TUPLE1", "NEWOBJ"]
                    elif chain == "OBJ":
                        prog += [("BINPUT", 5), "POP", "MARK", ("BINGET", 5), arg, "OBJ"]
                    # the value is now on top; dispose of it
                    if disp == "result":
                        pass
                    elif disp == "pop":
                        prog += ["POP", "NONE"]
                    elif disp == "popmark":
                        prog = prog[:0] + prog  # keep
                        prog += ["MARK", ("BININT1", 1), "POP_MARK", "POP", "NONE"]
                    elif disp == "dup":
                        prog += ["DUP", "TUPLE2"]
                    elif disp == "memo":
                        prog += [("BINPUT", 9), "POP", ("BININT1", 0)]
                    elif disp == "stranded":
                        prog += ["NONE"]
                    elif disp == "build":
                        prog += ["EMPTY_DICT", "BUILD"]
                    elif disp == "arg":
                        prog += ["TUPLE1", ("GLOBAL", ("collections", "OrderedDict")), ("BINPUT", 1), "POP",
                                 ("BINGET", 1), "MARK", "TUPLE", "REDUCE", "TUPLE2"]
                    elif disp == "inlist":
                        prog += ["EMPTY_LIST", ("BINPUT", 2), "POP", ("BINGET", 2), "MARK", "NONE", "APPENDS", "TUPLE2"]
                    elif disp == "setitem":
                        prog += ["EMPTY_DICT", ("SHORT_BINUNICODE", "k"), ("BININT1", 1), "SETITEM", "TUPLE2"]
                    if rng.random() < 0.4:      # benign data after (below the result)
                        prog += [("BINPUT", 77), "POP", ("SHORT_BINUNICODE", "tail"), "POP", ("BINGET", 77)]
                    prog.append("STOP")
                    kind = f"{label}/{resolve}/{call}{'+' + chain if chain else ''}/{disp}"
                    out.append((kind, asm.assemble(prog)))
                    if call != "none" and rng.random() < (0.3 if label == "bad_call" else 0.04):
                        # known finding D20: a stdlib attribute of the callee's printed name is also resolved
                        shadow = [("GLOBAL", ("collections", a)), "POP"]
                        if chain:
                            shadow += [("GLOBAL", ("collections", "_var0")), "POP"]
                        body = prog[:-1] + ["POP"] + shadow + ["NONE", "STOP"]
                        out.append(("shadow:" + kind, asm.assemble(body)))
    # memo traffic that only the real VM's MEMOIZE rule explains (it stores at index len(memo), even over
    # a slot a sparse PUT filled): a benign decoy is PUT at key n+1, then the callee is MEMOIZEd -- which
    # overwrites that slot -- and fetched back with GET n+1 before it is called (seeded change C04-2)
    for m, a, label in vocab:
        if rng.random() > 0.5 * n_per and label not in ("bad_call",):
            continue
        for call in ("REDUCE", "OBJ"):
            for n0 in (0, 2):
                pre = []
                for j in range(n0):
                    pre += [("BININT1", j), ("BINPUT", j), "POP"]
                key = n0 + 1
                decoy = [("GLOBAL", ("collections", "OrderedDict")), ("BINPUT", key), "POP"]
                callee = [("GLOBAL", (m, a)), "MEMOIZE", "POP"]
                arg = ("SHORT_BINUNICODE", "id")
                if call == "REDUCE":
                    tail = [("BINGET", key), "MARK", arg, "TUPLE", "REDUCE"]
                else:
                    tail = ["MARK", ("BINGET", key), arg, "OBJ"]
                out.append((f"{label}/GLOBAL/{call}/memo-clobber{n0}",
                            asm.assemble(pre + decoy + callee + tail + ["STOP"])))
    return out


def floor_of(data):
    """Ground truth from the reference VM's event log, exactly the property's four clauses:
       resolve of a global from a module outside the standard library           -> >= LIKELY_UNSAFE (3)
       resolve from a documented dangerous module or a submodule of one         -> >= LIKELY_OVERTLY_MALICIOUS (4)
       call of builtins eval / exec / compile / open                            -> OVERTLY_MALICIOUS (5)
       call of any other builtin, a non-stdlib global, or a computed callee     -> >= LIKELY_UNSAFE (3)
    (a call of a benign-stdlib global adds nothing).  Returns (floor, reason, attribution) where attribution
    gives the floor with the calls affected by a known finding discounted:
       wo_alias  -- bad-four calls reached through a variable fickling introduced (D18) count 3 instead of 5
       wo_shadow -- calls whose printed callee name is also resolved from a stdlib module (D20) count 0
    or None when the VM rejects the program."""
    tr, val, w, ok = vmlib.vm_trace(data)
    if not ok:
        return None
    std_names = {ev[2] for ev in w.events
                 if ev[0] == "resolve" and ev[1] not in vmlib.BUILTINS_MODULES and is_stdlib(ev[1])}
    var_shadow = any(vmlib._VAR.match(n) for n in std_names)
    contrib = []            # (floor, reason, alias, shadow)
    stated = set()          # stand-ins that had state / items applied (fickling names them by a variable)
    for ev in w.events:
        if ev[0] == "resolve":
            m = ev[1]
            f = 0
            if not is_stdlib(m):
                f = 3
            parts = m.split(".")
            if any(".".join(parts[:i]) in DANGEROUS for i in range(1, len(parts) + 1)):
                f = 4
            contrib.append((f, f"resolve {m}.{ev[2]}", False, False))
        elif ev[0] in ("setstate", "setitem"):
            if isinstance(ev[1], vmlib.Stub) and ev[1]._kind == "g":
                stated.add(id(ev[1]))
        elif ev[0] == "call":
            callee = ev[1]
            f, alias, shadow = 0, False, False
            if isinstance(callee, vmlib.Stub) and callee._kind == "g":
                m, a = callee._id
                named_by_var = id(callee) in stated
                if m in vmlib.BUILTINS_MODULES:
                    f = 5 if a in BAD else 3
                    alias = named_by_var and a in BAD
                elif not is_stdlib(m):
                    f = 3
                # BadCalls looks at the text only, so a shadowed bad-four call is still caught unless aliased
                shadow = (var_shadow if named_by_var else a in std_names) and not (a in BAD and not named_by_var)
            else:
                f = 3           # computed callee
                shadow = var_shadow
            contrib.append((f, f"call {vmlib.Canon().val(callee)}", alias, shadow))
    floor, reason = 0, None
    for f, why, _, _ in contrib:
        if f > floor:
            floor, reason = f, why
    wo_alias = max([min(f, 3) if al else f for f, _, al, _ in contrib] + [0])
    wo_shadow = max([0 if sh else f for f, _, _, sh in contrib] + [0])
    wo_both = max([0 if sh else (min(f, 3) if al else f) for f, _, al, sh in contrib] + [0])
    return floor, reason, {"wo_alias": wo_alias, "wo_shadow": wo_shadow, "wo_both": wo_both}


def oracle(data):
    from fickling.analysis import check_safety
    from fickling.fickle import Pickled
    fl = floor_of(data)
    if fl is None or fl[0] == 0:
        return None
    floor, reason, attr = fl
    try:
        p = Pickled.load(data)
        p.ast
    except Exception:
        return None          # refused: no verdict to compare
    try:
        sev = check_safety(p).severity.name
    except RecursionError:
        return None
    except Exception as e:
        return {"what": f"analysis raised {type(e).__name__}: {e}", "floor": DOC[floor], "because": reason}
    got = DOC.index(sev)
    if got < floor:
        known = None
        if got >= attr["wo_alias"]:
            known = ["alias-escape"]
        elif got >= attr["wo_shadow"]:
            known = ["stdlib-name-shadow"]
        elif got >= attr["wo_both"]:
            known = ["alias-escape", "stdlib-name-shadow"]
        return {"what": f"verdict {sev} is below the floor {DOC[floor]}", "because": reason, "known": known,
                "floor": DOC[floor], "verdict": sev}
    return None


def _oracle_batch(batch):
    out = []
    for d in batch:
        try:
            from harness.vmcheck import timed
            out.append(timed(oracle, d, default=None))     # a hang is reported by the correspondence (TIMEOUT)
        except RecursionError:
            out.append(None)
    return out


def _real_batch(batch):
    out = []
    for d in batch:
        try:
            mi = anlib.model_inputs(d)
        except Exception:
            mi = None
        if mi is None:
            out.append(None)
            continue
        ops, protos, stds, reprs = mi
        from harness.vmcheck import timed, CASE_LIMIT
        out.append({"q": sx(["analyze", ops, protos, stds, reprs]),
                    "real": timed(anlib.real_analyze, d, default="TIMEOUT (no answer after %d s)" % CASE_LIMIT)})
    return out


def pmap(fn, datas, B=250):
    batches = [datas[i:i + B] for i in range(0, len(datas), B)]
    with ProcessPoolExecutor(max_workers=14) as ex:
        return [r for rs in ex.map(fn, batches) for r in rs]


def correspond(chk, corpus, results):
    lines, idx = [], []
    for i, r in enumerate(results):
        if r is not None:
            lines.append(r["q"])
            idx.append(i)
    out = Driver().query(lines)
    mism = []
    for j, i in enumerate(idx):
        real, model = results[i]["real"], out[j]
        if real in ("RECURSION", "PARSE-ERR") or model.startswith("ERR Unmodelled"):
            continue
        if model.startswith("ERR") and real == "ERR":
            continue
        if model != real:
            mism.append({"kind": corpus[i][0], "hex": corpus[i][1].hex(), "real": real[:500], "model": model[:500]})
    return mism, len(idx)


def build_corpus(chk, tier):
    rng = chk.rng
    corpus = labelled_programs(rng, 2 if tier == "quick" else 3)
    n = (1500, 700) if tier == "quick" else (40000, 15000)
    for _ in range(n[0]):
        corpus.append(("random", asm.assemble(progs.random_typed(rng))))
    for _ in range(n[1]):
        corpus.append(("natural", progs.natural_pickle(rng)[0]))
    for prog in progs.enumerate_typed(3 if tier == "quick" else 4):
        corpus.append(("exhaustive", asm.assemble(prog)))
    return corpus


def main(tier, seed):
    chk = Check("C04", tier, seed)
    chk.rule = ("labelled vocabulary (25 globals: bad-call builtins / other builtins / documented dangerous stdlib / "
                "benign stdlib / non-stdlib) x resolving opcode (GLOBAL, STACK_GLOBAL, INST) x call-making opcode "
                "(REDUCE, OBJ, NEWOBJ, NEWOBJ_EX, INST), optionally followed by a call of the result (computed callee, by "
                "REDUCE / NEWOBJ / OBJ) x 10 disposals of the value (result, POP, POP_MARK, DUP, memo-only, stranded, "
                "BUILD-ed, passed as argument, in a list, SETITEM-ed) x PROTO framing x benign data before/after; a few "
                "with the callee's printed name also resolved from a stdlib module (known finding D20); plus random "
                "typed programs, natural pickles, bounded-exhaustive programs. "
                "(a) analysis model vs check_safety (verdict and every finding); (b) ground-truth floor from the "
                "reference VM's event log vs the real verdict. non-trivial = floor > LIKELY_SAFE")
    built = chk.regen_and_build(["proofs/FloorProofs.vo", "proofs/OtherCallProofs.vo"])
    if built:
        chk.prove()
    corpus = build_corpus(chk, tier)
    for k in chk.known:
        if k.get("status", "known") == "known" and k.get("replay", {}).get("hex"):
            corpus.insert(0, ("known:" + k["id"], bytes.fromhex(k["replay"]["hex"])))
    datas = [d for _, d in corpus]
    results = pmap(_real_batch, datas)
    mism = []
    if built:
        mism, ncmp = correspond(chk, corpus, results)
        chk.oblige(f"correspondence: analysis model vs check_safety (verdict + all findings), {ncmp} programs",
                   not mism, json.dumps(mism[:3]))
    orc = pmap(_oracle_batch, datas)
    new_fail = []
    seen = set()
    for (kind, data), why in zip(corpus, orc):
        chk.count()
        lab = kind.split("/")[0].split(":")[0]
        chk.stats[lab] = chk.stats.get(lab, 0) + 1
        if data not in seen:
            seen.add(data)
            fl = None
            if kind.count("/") == 3:
                chk.nontriv(data.hex())
        if not why:
            continue
        ks = [chk.match_known(sig) for sig in (why.get("known") or [])]
        if ks and all(ks):
            for k in ks:
                chk.known_finding(k)
            chk.stats["known-finding cases"] = chk.stats.get("known-finding cases", 0) + 1
        else:
            new_fail.append({"kind": kind, "hex": data.hex(), **why})
    new_fail.sort(key=lambda f: len(f["hex"]))
    chk.oblige(f"property oracle: real verdict >= ground-truth floor on {len(datas)} programs", not new_fail,
               json.dumps(new_fail[:2])[:2000])
    for kind, data in corpus[5:8]:
        chk.sample({"kind": kind, "hex": data.hex()[:200], "floor": str(floor_of(data))})

    def search():
        for f in new_fail:
            return {"oracle": f["what"], **f}
        for m in mism:
            why = oracle(bytes.fromhex(m["hex"]))
            if why and not why.get("known"):
                return {"hex": m["hex"], "oracle": why["what"], **why}
        return None

    report_broken_obligations(chk, search)
    return chk.finish()


def replay(path):
    doc = json.load(open(path))
    case = doc.get("case") or {}
    if "hex" not in case:
        print("replay: no concrete input recorded; re-running the quick check")
        return main("quick", doc.get("seed", 0))
    why = oracle(bytes.fromhex(case["hex"]))
    if why and why.get("known"):
        print("replay: the recorded case fails only through known findings " + ", ".join(why["known"]))
        return 0
    if why:
        print(f"VIOLATION property=C04 replay={path}")
        print(json.dumps(why))
        return 1
    print("replay: the recorded case no longer fails")
    return 0
