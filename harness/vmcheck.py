"""Shared corpus / correspondence / oracles for the decompiler properties C03 and C05."""
import ast
import json
import os
from concurrent.futures import ProcessPoolExecutor

from harness import asm, progs, vmlib
from harness.common import Driver, sx


def build_corpus(chk, tier, corpus_file, exhaustive_len=None, sizes=None):
    rng = chk.rng
    L = exhaustive_len if exhaustive_len is not None else (3 if tier == "quick" else 5)
    nrand, nnat, nmal = sizes or ((3000, 1500, 300) if tier == "quick" else (80000, 30000, 5000))
    corpus = []
    path = os.path.join(os.path.dirname(__file__), "corpus", corpus_file)
    if os.path.exists(path):
        for line in open(path):
            line = line.strip()
            if line:
                corpus.append(("corpus", bytes.fromhex(json.loads(line)["hex"]), None))
    for prog in progs.enumerate_typed(L):
        corpus.append(("exhaustive", asm.assemble(prog), None))
    for prog in progs.alias_programs():
        corpus.append(("alias", asm.assemble(prog), None))
    for prog in progs.object_container_programs():
        corpus.append(("objcontainer", asm.assemble(prog), None))
    for prog in progs.unmodelled_op_programs():
        corpus.append(("unmodelled", asm.assemble(prog), None))
    for _ in range(nrand):
        corpus.append(("random", asm.assemble(progs.random_typed(rng)), None))
    for _ in range(nnat):
        data, value, proto = progs.natural_pickle(rng)
        corpus.append(("natural", data, None))
    for _ in range(nnat // 2):
        data, value, proto = progs.natural_pickle(rng, plain=True)
        corpus.append(("plain", data, None))
    for _ in range(nmal):
        corpus.append(("malformed", asm.assemble(progs.malformed(rng)), None))
    for label, data in progs.boundary_pickles():
        corpus.append(("plain", data, None))          # plain data at size boundaries (seeded round 7)
    return corpus


# ---------------------------------------------------------------- classifiers of known-finding preconditions
def _same_name_resolves(data):
    """D14 precondition read off the reference VM's own resolves (exact also when STACK_GLOBAL takes its
    strings from the memo)"""
    try:
        _, _, w, _ = vmlib.vm_trace(data)
    except Exception:
        return False
    seen = {}
    for ev in w.events:
        if ev[0] != "resolve" or not isinstance(ev[1], str) or not isinstance(ev[2], str):
            continue
        m = "builtins" if ev[1] in vmlib.BUILTINS_MODULES else ev[1]
        if ev[2] in seen and seen[ev[2]] != m:
            return True
        seen[ev[2]] = m
    return False


def same_name_globals(data):
    """D14: two globals with the same attribute name from different modules"""
    if _same_name_resolves(data):
        return True
    try:
        ops = vmlib.abstract_ops(data)
    except Exception:
        return False
    if not ops:
        return False
    seen = {}
    strs = []
    for o in ops:
        if isinstance(o, list) and o[0] in ("GLOBAL", "INST"):
            m, n = bytes.fromhex(o[1][1:]).decode(), bytes.fromhex(o[2][1:]).decode()
        elif o == "STACK_GLOBAL" and len(strs) >= 2:
            m, n = strs[-2], strs[-1]
        else:
            if isinstance(o, list) and o[0] == "CONST" and isinstance(o[1], list) and o[1][0] == "str":
                strs.append(bytes.fromhex(o[1][1][1:]).decode("utf-8", "replace"))
            continue
        if m in vmlib.BUILTINS_MODULES:
            m = "builtins"
        if n in seen and seen[n] != m:
            return True
        seen[n] = m
    return False


def _reach_nodes(stmt, acc, depth=0):
    # not ast.walk: fickling builds ast.Tuple with a *tuple* of elts (TUPLE1/2/3), which
    # ast.iter_child_nodes does not descend into, so a list captured through a tuple was missed
    todo, seen = [stmt], set()
    while todo:
        node = todo.pop()
        if id(node) in seen:
            continue
        seen.add(id(node))
        if isinstance(node, (ast.List, ast.Set, ast.Dict)):
            acc[id(node)] = node
        if isinstance(node, ast.AST):
            for name in node._fields:
                v = getattr(node, name, None)
                if isinstance(v, ast.AST):
                    todo.append(v)
                elif isinstance(v, (list, tuple)):
                    todo.extend(x for x in v if isinstance(x, ast.AST))


def _size(node):
    if isinstance(node, ast.Dict):
        return len(node.keys)
    return len(node.elts)


def mutation_after_capture(data):
    """D15: a mutable AST node already captured by an emitted statement is mutated afterwards"""
    from fickling.fickle import Interpreter, Pickled
    try:
        interp = Interpreter(Pickled.load(data))
    except Exception:
        return False
    captured = {}
    sizes = {}
    nstmts = 0
    try:
        while True:
            try:
                interp.step()
            except StopIteration:
                break
            for nid, node in captured.items():
                if _size(node) != sizes[nid]:
                    return True
            body = interp.module_body
            if len(body) > nstmts:
                for st in body[nstmts:]:
                    try:
                        _reach_nodes(st, captured)
                    except Exception:
                        pass
                nstmts = len(body)
                for nid, node in captured.items():
                    sizes[nid] = _size(node)
    except Exception:
        return False
    return False


# ---------------------------------------------------------------- property oracles (model-free)
def is_subsequence(small, big):
    it = iter(big)
    return all(any(x == y for y in it) for x in small)


def oracle(data, want_value=True):
    """C03 / C05 on one program, on the real implementation only.
    Returns None (holds or outside the quantifier) or a dict describing the failure."""
    from fickling.fickle import Pickled
    tr, val, w, ok = vmlib.vm_trace(data)
    if not ok:
        return None                      # the reference VM rejects: outside the quantifier
    try:
        pk = Pickled.load(data)
    except Exception:
        return None                      # refused by the parser: allowed
    try:
        module = pk.ast
    except Exception as e1:
        # refused with an error: allowed -- and the refusal is final: asked again, the same object must not
        # hand out a program after all (one that leaves the refused operation out)
        try:
            again = pk.ast
        except Exception:
            return None
        try:
            src2 = ast.unparse(again)
        except Exception:
            src2 = "<does not unparse>"
        return {"what": "decompilation was refused and then, asked again on the same object, succeeded: the "
                        "operation fickling could not model is left out of the program",
                "first_answer": f"{type(e1).__name__}: {e1}"[:200], "second_answer": src2[:400], "property": "C03"}
    try:
        src = ast.unparse(module)
    except RecursionError:
        return None                      # cyclic structure: acyclic values only
    except Exception as e:
        return {"what": "decompilation succeeded but the AST does not unparse",
                "error": f"{type(e).__name__}: {e}"}
    rv, w2, err = vmlib.exec_decompiled(src)
    if err:
        return {"what": "decompiled program does not run under inert stand-ins", "error": err, "source": src}
    c1, c2 = vmlib.Canon(), vmlib.Canon()
    ev_vm, _ = vmlib.canon_events(w, c1)
    ev_dc, _ = vmlib.canon_events(w2, c2)
    core = ("resolve", "call", "persload", "setstate")
    core_vm = [e for e in ev_vm if e.split(" ", 1)[0] in core]
    core_dc = [e for e in ev_dc if e.split(" ", 1)[0] in core]
    if not is_subsequence(core_vm, core_dc):
        return {"what": "an import/call/state event of the reference VM is missing from (or altered in) "
                        "the decompiled program", "vm_events": core_vm, "decompiled_events": core_dc,
                "source": src, "property": "C03"}
    if want_value:
        if ev_vm != ev_dc:
            return {"what": "events (incl. item assignments on objects) differ", "vm_events": ev_vm,
                    "decompiled_events": ev_dc, "source": src, "property": "C05"}
        a, b = c1.val(val), c2.val(rv)
        if a != b:
            return {"what": "result value differs", "vm_value": a, "decompiled_value": b, "source": src,
                    "property": "C05"}
    return None


def plain_oracle(data):
    """plain data: decompilation succeeds and exec(result) == original object, same type"""
    import pickle
    from fickling.fickle import Pickled
    try:
        orig = pickle.loads(data)
    except Exception:
        return None
    try:
        ops = vmlib.abstract_ops(data)
    except Exception:
        return None
    if ops is None:
        return None           # uses an opcode without a fickling class (FLOAT, BYTEARRAY8, ...): excluded
    try:
        src = ast.unparse(Pickled.load(data).ast)
    except Exception as e:
        return {"what": "plain data does not decompile", "error": f"{type(e).__name__}: {e}"}
    g = {}
    try:
        exec(src, {}, g)      # plain data: only _codecs.encode / builtins are ever imported
    except Exception as e:
        return {"what": "decompiled plain data does not execute", "error": f"{type(e).__name__}: {e}",
                "source": src}
    res = g.get("result")
    if not _deep_eq(res, orig):
        return {"what": "decompiled plain data is not equal to the original", "source": src,
                "original": repr(orig)[:300], "got": repr(res)[:300]}
    return None


def _deep_eq(a, b):
    import math
    if type(a) is not type(b):
        return False
    if isinstance(a, float):
        return (math.isnan(a) and math.isnan(b)) or (a == b and math.copysign(1, a) == math.copysign(1, b))
    if isinstance(a, (list, tuple)):
        return len(a) == len(b) and all(_deep_eq(x, y) for x, y in zip(a, b))
    if isinstance(a, (set, frozenset)):
        return len(a) == len(b) and a == b and sorted(map(repr, a)) == sorted(map(repr, b))
    if isinstance(a, dict):
        return list(map(repr, a.keys())) == list(map(repr, b.keys())) and \
            all(_deep_eq(a[k], b[k]) for k in a)
    return a == b


# ---------------------------------------------------------------- correspondence (real vs model)
CASE_LIMIT = 30      # seconds one program may take on the real implementation


class CaseTimeout(BaseException):
    """not an Exception: must not be swallowed by an `except Exception` on the way"""


def timed(fn, *args, default=None, limit=CASE_LIMIT, **kw):
    """timed_once, asked a second time with four times the limit before giving up: a busy machine can stall
    one call, a real endless loop fails both"""
    marker = object()
    r = timed_once(fn, *args, default=marker, limit=limit, **kw)
    if r is marker:
        r = timed_once(fn, *args, default=default, limit=4 * limit, **kw)
    return r


def timed_once(fn, *args, default=None, limit=CASE_LIMIT, **kw):
    """fn(*args) or `default` if it has not returned after `limit` seconds (worker processes only: uses
    SIGALRM).  A change to the implementation can make one call loop for ever -- e.g. a walk over the
    cyclic AST of a self-containing list; the program is then reported, not waited for."""
    import signal

    def on_alarm(signum, frame):
        raise CaseTimeout()

    import time
    outer = signal.getitimer(signal.ITIMER_REAL)[0]      # the check's own watchdog, when called in the main process
    t0 = time.time()
    old = signal.signal(signal.SIGALRM, on_alarm)
    signal.setitimer(signal.ITIMER_REAL, limit if not outer else min(limit, outer))
    try:
        return fn(*args, **kw)
    except CaseTimeout:
        return default
    finally:
        signal.setitimer(signal.ITIMER_REAL, 0)
        signal.signal(signal.SIGALRM, old)
        if outer:
            signal.setitimer(signal.ITIMER_REAL, max(0.05, outer - (time.time() - t0)))


def real_side(data):
    try:
        ops = vmlib.abstract_ops(data)
    except Exception:
        return None
    if ops is None:
        return None
    return {"ops": sx(ops), "fk": timed(vmlib.real_fk_run, data, default="TIMEOUT (no answer after %d s)" % CASE_LIMIT),
            "vm": timed(vmlib.real_vm_run, data, default="TIMEOUT (no answer after %d s)" % CASE_LIMIT)}


def _work(batch):
    return [real_side(d) for d in batch]


def run_real(datas):
    B = 300
    batches = [datas[i:i + B] for i in range(0, len(datas), B)]
    with ProcessPoolExecutor(max_workers=14) as ex:
        return [r for rs in ex.map(_work, batches) for r in rs]


def correspond(chk, corpus, results):
    """model vs real: decompiled body (fickling side), value + events (reference side)."""
    lines, idx = [], []
    for i, r in enumerate(results):
        if r is None:
            continue
        lines.append("(fk_run " + r["ops"] + ")")
        lines.append("(vm_run " + r["ops"] + ")")
        idx.append(i)
    out = Driver().query(lines)
    mism = []
    declined = 0
    for j, i in enumerate(idx):
        r = results[i]
        kind, data, _ = corpus[i]
        mfk, mvm = out[2 * j], out[2 * j + 1]
        rfk, rvm = r["fk"], r["vm"]
        if "RENDER-ERR" in (rfk, rvm):
            continue
        # fickling side
        if rfk != "PARSE-ERR":
            if mfk.startswith("ERR Unmodelled"):
                declined += 1
            elif mfk.startswith("ERR"):
                if rfk != "ERR":
                    mism.append({"kind": kind, "hex": data.hex(), "side": "fickling", "real": rfk[:400],
                                 "model": mfk[:400]})
            elif mfk != rfk:
                mism.append({"kind": kind, "hex": data.hex(), "side": "fickling", "real": rfk[:400],
                             "model": mfk[:400]})
        # reference side (the model declines ill-typed programs)
        if mvm.startswith("ERR TypeError") or mvm.startswith("ERR Unmodelled"):
            if kind in ("exhaustive", "plain") and rvm != "ERR":
                mism.append({"kind": kind, "hex": data.hex(), "side": "refvm", "real": rvm[:400],
                             "model": mvm[:400], "why": "reference model declines a well-typed program"})
        elif mvm.startswith("ERR") or mvm == "NOSTOP":
            if rvm != "ERR":
                mism.append({"kind": kind, "hex": data.hex(), "side": "refvm", "real": rvm[:400],
                             "model": mvm[:400]})
        elif mvm != rvm:
            mism.append({"kind": kind, "hex": data.hex(), "side": "refvm", "real": rvm[:400],
                         "model": mvm[:400]})
    chk.stats["model-declined(mark as value / non-plain names)"] = declined
    return mism, len(idx)


# ---------------------------------------------------------------- C05 layer B: model evaluator vs exec
def _pyeval_work(batch):
    out = []
    for d in batch:
        try:
            ops = vmlib.abstract_ops(d)
        except Exception:
            ops = None
        if ops is None:
            out.append(None)
            continue
        try:
            real = timed(vmlib.real_py_eval, d, default="TIMEOUT (no answer after %d s)" % CASE_LIMIT)
        except RecursionError:
            real = "SKIP"
        names = [o if isinstance(o, str) else o[0] for o in ops]
        try:
            rvm = vmlib.real_vm_run(d)
        except RecursionError:
            rvm = "RENDER-ERR"
        out.append({"ops": sx(ops), "real": real, "rvm": rvm,
                    "data_only": all(n in DATA_OPS for n in names)})
    return out


DATA_OPS = {"CONST", "MARK", "STOP", "POP", "POP_MARK", "DUP", "EMPTY_LIST", "EMPTY_DICT", "EMPTY_SET",
            "EMPTY_TUPLE", "APPEND", "APPENDS", "LIST", "TUPLE", "TUPLE1", "TUPLE2", "TUPLE3", "DICT",
            "SETITEM", "SETITEMS", "ADDITEMS", "FROZENSET", "PUT", "GET", "MEMOIZE", "NOOP"}
_HOST_ERRORS = ("ERR KeyError", "ERR TypeError", "ERR IndexError", "ERR ValueError")


def correspond_pyeval(chk, datas):
    """Layer B tie: PyEval (the model's mini-Python evaluator applied to the model's decompilation)
    vs exec(ast.unparse(Pickled.load(data).ast)) under the inert stand-ins: canonical value of
    `result` and the event log.  Also the theorem's instance on data-only programs: the model
    evaluator's value equals the reference-VM model's value.  Returns (mismatches, stats)."""
    B = 300
    batches = [datas[i:i + B] for i in range(0, len(datas), B)]
    with ProcessPoolExecutor(max_workers=14) as ex:
        reals = [r for rs in ex.map(_pyeval_work, batches) for r in rs]
    lines, idx = [], []
    for i, r in enumerate(reals):
        if r is not None:
            lines.append("(py_eval " + r["ops"] + ")")
            lines.append("(vm_run " + r["ops"] + ")")
            idx.append(i)
    out = Driver().query(lines)
    mism = []
    st = {"compared": 0, "agree-OK": 0, "agree-OK-with-events": 0, "agree-ERR": 0, "model-declined": 0,
          "real-skipped": 0, "data-only-theorem-instances": 0, "refvm-model-differs(skipped)": 0}
    for j, i in enumerate(idx):
        r = reals[i]
        m, mvm, real = out[2 * j], out[2 * j + 1], r["real"]
        if real in ("SKIP", "RENDER-ERR", "PARSE-ERR"):
            st["real-skipped"] += 1
            continue
        if mvm.startswith("OK ") and r["rvm"].startswith("OK ") and mvm != r["rvm"]:
            # the shared value model (RefVM / ShowVM) is itself off on this input (e.g. a set holding both
            # 1 and True): that is reported by the existing RefVM correspondence, not a fact about PyEval
            st["refvm-model-differs(skipped)"] += 1
            continue
        if m.startswith("OK "):
            st["compared"] += 1
            if m != real:
                mism.append({"hex": datas[i].hex(), "side": "pyeval", "real": real[:400], "model": m[:400]})
            else:
                st["agree-OK"] += 1
                if m.split(" | ", 1)[-1].strip():
                    st["agree-OK-with-events"] += 1
            if r["data_only"] and mvm.startswith("OK "):
                # C05_plain_data_eval, observed through the canonical rendering
                st["data-only-theorem-instances"] += 1
                if m != mvm:
                    mism.append({"hex": datas[i].hex(), "side": "pyeval-vs-refvm-model", "real": mvm[:400],
                                 "model": m[:400]})
        elif m.startswith(_HOST_ERRORS):
            st["compared"] += 1
            if real != "ERR":
                mism.append({"hex": datas[i].hex(), "side": "pyeval", "real": real[:400], "model": m[:400]})
            else:
                st["agree-ERR"] += 1
        elif m.startswith("ERR Unmodelled") and mvm.startswith("OK "):
            # since C05_eval_agrees covers every statement form fickling emits, the evaluator may only
            # decline where the reference-VM model itself declines (ill-typed programs)
            st["compared"] += 1
            mism.append({"hex": datas[i].hex(), "side": "pyeval", "real": real[:400], "model": m[:400],
                         "why": "evaluator declines a program the reference-VM model accepts"})
        elif m.startswith("ERR Fuel") and real != "SKIP":
            st["compared"] += 1
            mism.append({"hex": datas[i].hex(), "side": "pyeval", "real": real[:400], "model": m[:400],
                         "why": "evaluator out of fuel on a program the real exec handles"})
        else:
            # FK-ERR (no decompiled program) / NORESULT / Unmodelled where RefVM declines too /
            # Fuel on a cyclic value (real: RecursionError)
            st["model-declined"] += 1
    return mism, st
