"""C18 -- CLI on stacked pickles: injection is local, decompilation is one valid program.

Real side: fickling.cli.main([...]) in-process with redirected stdin / stdout / stderr (binary and
text layers), reading the stack from a file, from a seekable stdin and from a pipe-like stdin; a
sample also through real child processes (`python -m fickling`, real pipes, real exit status).
Model side: coq/model/Cli.v through the extracted driver (c18_inject, c18_decompile).
The property oracle (`oracle_inject`, `oracle_decompile`) evaluates the property text directly on the
CLI's output, without the model."""
import ast
import io
import json
import os
import re
import shutil
import subprocess
import sys
from concurrent.futures import ProcessPoolExecutor

from harness import asm, progs, vmlib
from harness.common import BUILD, PY, Check, Driver, env_child, report_broken_obligations, sx

_VAR = re.compile(r"^_var(\d+)$")
_RES = re.compile(r"^result(\d*)$")
CODES = ["1+1", "__import__('os').getcwd()", "len('café')"]
STREAMS = ["file", "stdin", "pipe"]


# ------------------------------------------------------------------ running the real CLI
class _Std:
    """a text stream with a binary .buffer, like sys.stdout / sys.stdin"""

    def __init__(self, data=b"", pipe=False):
        self.buffer = _Pipe(data) if pipe else io.BytesIO(data)
        self.txt = io.StringIO()

    def write(self, s):
        return self.txt.write(s)

    def flush(self):
        pass

    def isatty(self):
        return False

    def read(self, *a):
        return ""


class _Pipe:
    """non-seekable binary reader (what sys.stdin.buffer is when stdin is a pipe)"""

    def __init__(self, data):
        self._b = io.BytesIO(data)

    def read(self, n=-1):
        return self._b.read(n)

    def readline(self, *a):
        return self._b.readline(*a)

    def seekable(self):
        return False

    def close(self):
        pass


def run_cli(argv, stdin=b"", pipe=False):
    """-> (status, stdout_bytes, stdout_text, stderr_text); status = int return code or
    ('raise', ExceptionName)"""
    from fickling import cli
    so, se, si = _Std(), _Std(), _Std(stdin, pipe)
    keep = so.buffer
    old = sys.stdin, sys.stdout, sys.stderr
    sys.stdin, sys.stdout, sys.stderr = si, so, se
    try:
        try:
            rc = cli.main(["fickling"] + list(argv))
        except SystemExit as e:
            rc = ("exit", e.code)
        except RecursionError:
            rc = ("raise", "RecursionError")
        except Exception as e:
            rc = ("raise", type(e).__name__)
    finally:
        sys.stdin, sys.stdout, sys.stderr = old
    try:
        ob = keep.getvalue()
    except ValueError:
        ob = b"<closed>"
    return rc, ob, so.txt.getvalue(), se.txt.getvalue()


def scratch_dir():
    d = os.path.join(BUILD, "scratch", str(os.getpid()))
    os.makedirs(d, exist_ok=True)
    return d


def invoke(pickles, stream, extra):
    data = b"".join(pickles)
    if stream == "file":
        path = os.path.join(scratch_dir(), "stack.pkl")
        with open(path, "wb") as f:
            f.write(data)
        return run_cli([path] + extra)
    return run_cli(["-"] + extra, stdin=data, pipe=(stream == "pipe"))


# ------------------------------------------------------------------ injection
def expected_injection(b, code, run_last, replace):
    """the input's pickle with the injection applied, by the library call on a fresh parse"""
    from fickling.fickle import Pickled
    try:
        p = Pickled.load(b)
        p.insert_python_eval(code, run_first=not run_last, use_output_as_unpickle_result=replace)
        return p.dumps()
    except RecursionError:
        return None
    except Exception:
        return None


def reparse(ob):
    from fickling.fickle import StackedPickle
    try:
        return [p.dumps() for p in StackedPickle.load(ob)]
    except Exception as e:
        return f"{type(e).__name__}: {e}"


def inject_args(case):
    a = ["--inject", case["code"], "--inject-target", str(case["k"])]
    if case["run_last"]:
        a.append("--run-last")
    if case["replace"]:
        a.append("--replace-result")
    return a


def oracle_inject(case, obs=None):
    """the property text, directly on the CLI output.  None = holds (or outside the quantifier)."""
    pickles = [bytes.fromhex(h) for h in case["pickles"]]
    n, k = len(pickles), case["k"]
    if k < 0:
        return None                                   # targets 0..n+1 only
    rc, ob, ot, et = obs or invoke(pickles, case["stream"], inject_args(case))
    if k >= n:
        if rc == 0 or rc is None or rc == ("exit", 0):
            return {"why": "out-of-range target did not fail", "status": rc}
        if ob or ot:
            return {"why": "out-of-range target emitted output", "stdout_bytes": len(ob), "stdout_text": ot[:80]}
        if not et:
            return {"why": "out-of-range target wrote nothing to stderr"}
        return None
    inj = expected_injection(pickles[k], case["code"], case["run_last"], case["replace"])
    if inj is None:
        return None                                   # the injection itself raises: C08's business
    if rc != 0:
        return {"why": "in-range injection failed", "status": rc, "stderr": et[-200:]}
    want = pickles[:k] + [inj] + pickles[k + 1:]
    if ob != b"".join(want):
        parts = reparse(ob)
        detail = {"why": "emitted bytes differ from input with only pickle k replaced",
                  "emitted_pickles": len(parts) if isinstance(parts, list) else parts, "expected_pickles": n}
        if isinstance(parts, list):
            detail["differing_positions"] = [j for j in range(max(len(parts), n))
                                             if j >= len(parts) or j >= n or parts[j] != want[j]][:6]
        return detail
    parts = reparse(ob)
    if parts != want:
        return {"why": "emitted bytes do not re-parse to the n pickles", "reparse": str(parts)[:200]}
    if ot:
        return {"why": "text written to stdout besides the pickles", "text": ot[:80]}
    return None


def model_inject_query(case):
    pickles = [bytes.fromhex(h) for h in case["pickles"]]
    table = {}
    for b in pickles:
        if b not in table:
            inj = expected_injection(b, case["code"], case["run_last"], case["replace"])
            table[b] = "ERR" if inj is None else "h" + inj.hex()
    return sx(["c18_inject", str(case["k"]), ["h" + b.hex() for b in pickles],
               [["h" + b.hex(), r] for b, r in table.items()]])


def real_inject_line(obs):
    rc, ob, ot, et = obs
    st = "exit:%d" % rc if isinstance(rc, int) else ("raise" if rc[0] == "raise" else "exit:%s" % (rc[1],))
    # an uncaught exception reaches stderr as the interpreter's traceback
    return st, bool(et) or st == "raise", ob


def compare_inject(case, obs, line):
    """real observation vs model line -> None or mismatch detail"""
    st, err, ob = real_inject_line(obs)
    m = re.match(r"^(\S+) ([TF]) \((.*)\)$", line)
    if not m:
        return {"why": "model output unreadable", "model": line[:200]}
    mst, merr, chunks = m.group(1), m.group(2) == "T", m.group(3).split()
    if mst.startswith("raise:"):
        mst = "raise"
    mbytes = b"".join(bytes.fromhex(c[1:]) for c in chunks)
    if (st, err, ob) != (mst, merr, mbytes):
        return {"why": "CLI and model differ", "real": [st, err, len(ob)], "model": [mst, merr, len(mbytes)],
                "model_chunks": len(chunks)}
    if chunks and mst == "exit:0":
        parts = reparse(ob)
        if parts != [bytes.fromhex(c[1:]) for c in chunks]:
            return {"why": "emitted bytes do not re-parse to the model's chunks", "reparse": str(parts)[:200]}
    return None


# ------------------------------------------------------------------ decompilation
def strip_trace(text):
    """--trace interleaves opcode names (column 0) and tab-indented events with the programs"""
    import pickletools
    names = {o.name for o in pickletools.opcodes}
    return "".join(l for l in text.splitlines(True) if not l.startswith("\t") and l.strip() not in names)


def split_segments(tree):
    """statements grouped up to and including each `result<d> = ...`; -> (segments, leftover)"""
    segs, cur = [], []
    for st in tree.body:
        cur.append(st)
        if isinstance(st, ast.Assign) and len(st.targets) == 1 and isinstance(st.targets[0], ast.Name) \
                and _RES.match(st.targets[0].id):
            segs.append(cur)
            cur = []
    return segs, cur


def seg_names(stmts):
    assigned, read = [], []
    for st in stmts:
        for node in ast.walk(st):
            if isinstance(node, ast.Name) and _VAR.match(node.id):
                (assigned if isinstance(node.ctx, ast.Store) else read).append(node.id)
    return assigned, read


def standalone(b):
    """the library decompilation of one pickle on its own, exec'd under inert stand-ins"""
    from fickling.fickle import Interpreter, Pickled
    try:
        src = ast.unparse(Interpreter(Pickled.load(b)).to_ast())
    except RecursionError:
        return None
    except Exception:
        return None
    val, _w, err = vmlib.exec_decompiled(src)
    if err:
        return None
    try:
        return vmlib.Canon().val(val)
    except Exception:
        return None


def oracle_decompile(case, obs=None):
    pickles = [bytes.fromhex(h) for h in case["pickles"]]
    n = len(pickles)
    extra = ["--trace"] if case.get("trace") else []
    rc, ob, ot, et = obs or invoke(pickles, case["stream"], extra)
    alone = [standalone(b) for b in pickles]
    if any(a is None for a in alone):
        return None                  # a pickle that does not decompile to a runnable program by itself
    if rc != 0:
        return {"why": "decompilation of a stack of decompilable pickles failed", "status": rc, "stderr": et[-200:]}
    text = strip_trace(ot) if case.get("trace") else ot
    try:
        tree = ast.parse(text)
        compile(text, "<stack>", "exec")
    except SyntaxError as e:
        return {"why": "printed text is not one valid Python program", "error": str(e), "text": text[:300]}
    segs, left = split_segments(tree)
    names = [s[-1].targets[0].id for s in segs]
    if left or names != ["result%d" % i for i in range(n)]:
        return {"why": "pickles are not bound to result0..result%d in order" % (n - 1), "bound": names,
                "trailing_statements": len(left), "text": text[:300]}
    owner = {}
    for i, s in enumerate(segs):
        assigned, read = seg_names(s)
        for v in assigned:
            if v in owner:
                return {"why": "variable assigned twice", "variable": v, "segments": [owner[v], i], "text": text[:400]}
            owner[v] = i
    for i, s in enumerate(segs):
        for v in seg_names(s)[1]:
            if owner.get(v) != i:
                return {"why": "segment reads a variable it does not assign", "variable": v, "segment": i,
                        "assigned_in": owner.get(v), "text": text[:400]}
    src = text + "\n__verif_all__ = (" + "".join("result%d, " % i for i in range(n)) + ")\n"
    vals, _w, err = vmlib.exec_decompiled(src, result_name="__verif_all__")
    if err:
        return {"why": "the printed program does not run although each pickle's own program does",
                "error": err, "text": text[:400]}
    for i in range(n):
        try:
            got = vmlib.Canon().val(vals[i])
        except Exception:
            continue
        if got != alone[i]:
            return {"why": "result%d differs from the pickle's own decompilation" % i, "got": got[:200],
                    "alone": alone[i][:200], "text": text[:400]}
    return None


class _Norm(ast.NodeTransformer):
    """undo two artefacts of printing and re-parsing: `-5` parses as a unary minus on 5, and the empty
    set display is printed as {*()}"""

    def visit_UnaryOp(self, node):
        self.generic_visit(node)
        if isinstance(node.op, ast.USub) and isinstance(node.operand, ast.Constant) \
                and isinstance(node.operand.value, (int, float)) and not isinstance(node.operand.value, bool):
            return ast.copy_location(ast.Constant(-node.operand.value), node)
        return node

    def visit_Set(self, node):
        self.generic_visit(node)
        if len(node.elts) == 1 and isinstance(node.elts[0], ast.Starred) \
                and isinstance(node.elts[0].value, ast.Tuple) and not node.elts[0].value.elts:
            node.elts = []
        return node


def render_stmt(s, i):
    if isinstance(s, ast.Assign) and len(s.targets) == 1 and isinstance(s.targets[0], ast.Name):
        t = s.targets[0].id
        if t == "result%d" % i:
            return "(result %s)" % vmlib.render_expr(s.value)
        if _RES.match(t):
            return "(?result %s)" % t
    return vmlib.render_stmt(s)


def real_decompile_line(obs, trace):
    rc, ob, ot, et = obs
    st = "exit:%d" % rc if isinstance(rc, int) else "raise"
    text = strip_trace(ot) if trace else ot
    try:
        tree = _Norm().visit(ast.parse(text))
    except SyntaxError:
        return st, None, None
    segs, left = split_segments(tree)
    if left:
        segs = segs + [left]
    out, ranges = [], []
    for i, s in enumerate(segs):
        out.append(" ".join(["(seg %d)" % i] + [render_stmt(x, i) for x in s]))
        ranges.append(sorted(int(_VAR.match(v).group(1)) for v in seg_names(s)[0]))
    return st, out, ranges


def compare_decompile(obs, trace, line):
    st, rsegs, rranges = real_decompile_line(obs, trace)
    parts = line.split(" | ")
    mst = "raise" if parts[0].startswith("raise:") else parts[0]
    if "Unmodelled" in parts[0] or "(deep)" in line:
        # the model declines (a mark used as a value), or a display is cyclic / deeper than the
        # rendering bound: there ast.unparse raises RecursionError, which Cli.v does not model
        # (it models to_ast, not the printer)
        return "declined"
    if rsegs is None:
        return {"why": "printed text does not parse", "model": line[:200]}
    msegs, mranges = [], []
    for p in parts[1:]:
        m = re.match(r"^\(seg (\d+) (\d+) (\d+)\)(.*)$", p)
        msegs.append(("(seg %s)" % m.group(1)) + m.group(4))
        mranges.append(list(range(int(m.group(2)), int(m.group(3)))))
    if mst == "raise" and st == "raise":
        # the statements of the failing pickle are never printed; compare what was
        pass
    if (st, rsegs, rranges) != (mst, msegs, mranges):
        k = next((j for j in range(max(len(rsegs), len(msegs)))
                  if j >= len(rsegs) or j >= len(msegs) or rsegs[j] != msegs[j]), None)
        return {"why": "CLI and model differ", "status": [st, mst], "first_differing_segment": k,
                "real": (rsegs[k][:300] if k is not None and k < len(rsegs) else None),
                "model": (msegs[k][:300] if k is not None and k < len(msegs) else None),
                "real_ranges": rranges, "model_ranges": mranges}
    return None


def model_decompile_query(pickles):
    progs_ = []
    for b in pickles:
        try:
            ops = vmlib.abstract_ops(b)
        except Exception:
            ops = None
        if ops is None:
            return None
        progs_.append(ops)
    return sx(["c18_decompile", progs_])


# ------------------------------------------------------------------ generation
def gen_pickle(rng):
    """one pickle fickling parses; about half make calls (so that they own _var names)"""
    from fickling.fickle import Pickled
    for _ in range(50):
        r = rng.random()
        if r < 0.30:
            b = progs.natural_pickle(rng)[0]
        elif r < 0.45:
            b = progs.natural_pickle(rng, plain=True)[0]
        elif r < 0.60:
            b = asm.fam_flagged(rng, rng.choice(["unused", "nonstd_call", "osmod", "eval", "builtin_call"]))[0]
        elif r < 0.70:
            m, a, _ = rng.choice(progs.VOCAB)
            b = asm.assemble([("PROTO", 2), ("GLOBAL", (m, a)), "EMPTY_TUPLE", "REDUCE",
                              ("GLOBAL", (m, a)), "MARK", ("BININT1", rng.randrange(200)), "TUPLE", "REDUCE",
                              "TUPLE2", "STOP"])
        else:
            b = asm.assemble(progs.random_typed(rng, maxlen=rng.choice([6, 14, 30])))
        try:
            p = Pickled.load(b)
            if p.dumps() == b and len(b) < 4000:
                return b
        except Exception:
            continue
    return b"N."


def gen_stack(rng, n=None):
    n = n or rng.randrange(1, 6)
    return [gen_pickle(rng) for _ in range(n)]


CORPUS = [
    [[("GLOBAL", ("os", "getcwd")), "EMPTY_TUPLE", "REDUCE", "STOP"]] * 3,
    [[("PROTO", 2), ("GLOBAL", ("verif_sink", "record")), ("BININT1", 7), "TUPLE1", "REDUCE", "STOP"],
     [("BININT1", 1), "STOP"],
     [("GLOBAL", ("collections", "OrderedDict")), "EMPTY_TUPLE", "REDUCE", ("GLOBAL", ("os", "getcwd")),
      "EMPTY_TUPLE", "REDUCE", "TUPLE2", "STOP"]],
    [["NONE", "STOP"]],
    [["EMPTY_LIST", "STOP"], ["EMPTY_LIST", "STOP"]],
    # text-protocol pickles whose FIRST opcode sits at stream offset 0 and does not re-encode to its own
    # bytes from its decoded argument (`I01` = True, `L5L`, quoted STRING): untouched members must come out
    # byte-identical (seeded change C18 r3: raw-byte capture skipped for the opcode at offset 0)
    [[("INT", asm.RawArg(b"01\n")), "STOP"], [("BININT1", 1), "STOP"], [("INT", asm.RawArg(b"00\n")), "STOP"]],
    [[("LONG", asm.RawArg(b"1180591620717411303424L\n")), "STOP"], ["EMPTY_LIST", ("BININT1", 2), "APPEND", "STOP"]],
    [[("STRING", asm.RawArg(b"'abc'\n")), "STOP"], [("INT", asm.RawArg(b"01\n")), "STOP"]],
    # the same attribute name imported from two modules by different members, A B A (B A B): every member's
    # own import must be in force when its result is bound (seeded change C18 r4a: an import already printed
    # for an earlier member is not printed again)
    [[("GLOBAL", ("collections", "OrderedDict")), "STOP"], [("GLOBAL", ("verif_sink", "OrderedDict")), "STOP"],
     [("GLOBAL", ("collections", "OrderedDict")), "STOP"]],
    [[("GLOBAL", ("verif_sink", "getcwd")), "EMPTY_TUPLE", "REDUCE", "STOP"],
     [("GLOBAL", ("os", "getcwd")), "EMPTY_TUPLE", "REDUCE", "STOP"],
     [("PROTO", 2), ("GLOBAL", ("verif_sink", "getcwd")), ("BININT1", 3), "TUPLE1", "REDUCE", "STOP"],
     [("GLOBAL", ("os", "getcwd")), "EMPTY_TUPLE", "REDUCE", "STOP"]],
]


# ------------------------------------------------------------------ one batch (worker process)
def run_batch(batch):
    out = []
    try:
        for case in batch:
            pickles = [bytes.fromhex(h) for h in case["pickles"]]
            if case["mode"] == "inject":
                obs = invoke(pickles, case["stream"], inject_args(case))
                out.append({"obs": [obs[0], obs[1].hex(), obs[2], obs[3]],
                            "oracle": oracle_inject(case, obs), "query": model_inject_query(case)})
            else:
                obs = invoke(pickles, case["stream"], ["--trace"] if case.get("trace") else [])
                out.append({"obs": [obs[0], obs[1].hex(), obs[2], obs[3]],
                            "oracle": oracle_decompile(case, obs), "query": model_decompile_query(pickles)})
    finally:
        shutil.rmtree(os.path.join(BUILD, "scratch", str(os.getpid())), ignore_errors=True)
    return out


def _obs(r):
    rc = r["obs"][0]
    if isinstance(rc, list):
        rc = tuple(rc)
    return rc, bytes.fromhex(r["obs"][1]), r["obs"][2], r["obs"][3]


def child_cli(pickles, extra, via_stdin):
    """the same through a real process: real pipes, real exit status"""
    d = scratch_dir()
    data = b"".join(pickles)
    path = os.path.join(d, "child.pkl")
    with open(path, "wb") as f:
        f.write(data)
    argv = [PY, "-m", "fickling"] + (["-"] if via_stdin else [path]) + extra
    p = subprocess.run(argv, input=data if via_stdin else b"", stdout=subprocess.PIPE, stderr=subprocess.PIPE,
                       env=env_child(), timeout=120)
    err = "\n".join(l for l in p.stderr.decode("utf-8", "replace").splitlines() if "conda.cli.condarc" not in l)
    return p.returncode, p.stdout, err


def make_cases(rng, nstacks):
    cases = []
    stacks = [[asm.assemble(p) for p in st] for st in CORPUS]
    stacks += [gen_stack(rng, n) for n in (1, 2, 3, 4, 5)]
    stacks += [gen_stack(rng) for _ in range(nstacks)]
    for si, st in enumerate(stacks):
        n = len(st)
        hexes = [b.hex() for b in st]
        full = si < len(CORPUS) + 5
        targets = list(range(0, n + 2)) + list(range(-1, -n - 2, -1))
        for k in targets:
            combos = [(l, r) for l in (False, True) for r in (False, True)]
            if not full:
                combos = [rng.choice(combos)] if k < 0 else combos
            for run_last, replace in combos:
                streams = STREAMS if (full and k >= 0) else [rng.choice(STREAMS)]
                for stream in streams:
                    cases.append({"mode": "inject", "pickles": hexes, "k": k, "run_last": run_last,
                                  "replace": replace, "stream": stream, "code": rng.choice(CODES)})
        for trace in (False, True):
            for stream in (STREAMS if full else [rng.choice(STREAMS)]):
                cases.append({"mode": "decompile", "pickles": hexes, "trace": trace, "stream": stream})
    # decompilation is cheap: more stacks for it alone
    for _ in range(6 * nstacks):
        hexes = [b.hex() for b in gen_stack(rng)]
        for trace in (False, True):
            cases.append({"mode": "decompile", "pickles": hexes, "trace": trace, "stream": rng.choice(STREAMS)})
    return cases


def main(tier, seed):
    chk = Check("C18", tier, seed)
    chk.rule = ("stacks of 1..5 pickles (corpus stacks, then lengths 1-5, then random lengths) drawn from natural "
                "pickles of generated values at protocols 0-5, call-making assembler programs and random typed "
                "programs; every stack x inject targets 0..n+1 (and -1..-(n+1), model only) x --run-last x "
                "--replace-result x {file, seekable stdin, pipe stdin} and decompile / --trace; real "
                "fickling.cli.main in-process with redirected stdio (+ a sample through child processes); "
                "observables: return code / exception, stdout bytes re-parsed with StackedPickle.load, stderr "
                "non-empty, printed program parsed with ast (statements, _var ranges, result names), compile + "
                "exec under inert stand-ins; distinct = distinct (stack, mode, flags, target); non-trivial = "
                "stack of >= 2 pickles with an in-range target, or decompilation with >= 2 segments owning _vars")
    built = chk.regen_and_build(["proofs/CliProofs.vo"])
    if built:
        chk.prove()
    rng = chk.rng
    nstacks = 14 if tier == "quick" else 1200
    cases = make_cases(rng, nstacks)
    B = 40
    batches = [cases[i:i + B] for i in range(0, len(cases), B)]
    with ProcessPoolExecutor(max_workers=14) as ex:
        results = [r for rs in ex.map(run_batch, batches) for r in rs]
    queries = [(i, r["query"]) for i, r in enumerate(results) if r["query"]]
    out = Driver().query([q for _, q in queries]) if built else []
    mism, bad, declined, nomodel = [], [], 0, 0
    qmap = {i: line for (i, _), line in zip(queries, out)}
    for i, (case, r) in enumerate(zip(cases, results)):
        chk.count()
        n = len(case["pickles"])
        key = "%s:n=%d" % (case["mode"], n)
        chk.stats[key] = chk.stats.get(key, 0) + 1
        chk.stats["stream:" + case["stream"]] = chk.stats.get("stream:" + case["stream"], 0) + 1
        obs = _obs(r)
        if isinstance(obs[0], tuple):
            chk.stats[case["mode"] + ":raised"] = chk.stats.get(case["mode"] + ":raised", 0) + 1
        if case["mode"] == "inject":
            kind = "in-range" if 0 <= case["k"] < n else ("too-high" if case["k"] >= n else "negative")
            chk.stats["target:" + kind] = chk.stats.get("target:" + kind, 0) + 1
            if n >= 2 and kind == "in-range":
                chk.nontriv(json.dumps(case, sort_keys=True))
        else:
            _st, _segs, ranges = real_decompile_line(obs, case.get("trace"))
            if ranges and sum(1 for x in ranges if x) >= 2:
                chk.nontriv(json.dumps(case, sort_keys=True))
        if r["oracle"]:
            bad.append({**case, "oracle": r["oracle"]})
        if not built:
            continue
        if i not in qmap:
            nomodel += 1
            continue
        if case["mode"] == "inject":
            d = compare_inject(case, obs, qmap[i])
        else:
            d = compare_decompile(obs, case.get("trace"), qmap[i])
            if d == "declined":
                declined += 1
                d = None
        if d:
            mism.append({**case, "mismatch": d})
    chk.stats["model-declined(mark used as a value / cyclic or very deep display)"] = declined
    chk.stats["outside-model(opcode without abstract form)"] = nomodel
    for c in cases[:400:67]:
        chk.sample({k: (v if k != "pickles" else [h[:60] for h in v]) for k, v in c.items()})
    if built:
        chk.oblige(f"correspondence: fickling.cli.main vs Cli model (inject: status, stderr, stdout bytes and "
                   f"their re-parse; decompile/trace: status, statements, _var ranges, result names), "
                   f"{len(qmap)} invocations", not mism, json.dumps(mism[:3])[:1800])
    chk.oblige(f"property evaluated directly on the CLI output (model-free oracle), {len(cases)} invocations",
               not bad, json.dumps(bad[:3])[:1800])
    # a sample through real processes: exit status of the interpreter, real pipes
    cbad = []
    sample = [c for c in cases if len(c["pickles"]) >= 2][:: max(1, len(cases) // (24 if tier == "quick" else 200))]
    try:
        for c in sample:
            pickles = [bytes.fromhex(h) for h in c["pickles"]]
            extra = inject_args(c) if c["mode"] == "inject" else (["--trace"] if c.get("trace") else [])
            rc, ob, et = child_cli(pickles, extra, c["stream"] != "file")
            chk.count()
            inproc = invoke(pickles, c["stream"], extra)
            irc = inproc[0] if isinstance(inproc[0], int) else 1
            same_out = (ob == inproc[1]) if c["mode"] == "inject" else (ob.decode("utf-8", "replace") == inproc[2])
            if rc != irc or not same_out or bool(et) != bool(inproc[3] or not isinstance(inproc[0], int)):
                cbad.append({**c, "child": [rc, len(ob), et[-200:]], "inprocess": [str(inproc[0]), len(inproc[1])]})
    finally:
        shutil.rmtree(os.path.join(BUILD, "scratch", str(os.getpid())), ignore_errors=True)
    chk.oblige(f"correspondence: `python -m fickling` child processes agree with the in-process runs, "
               f"{len(sample)} invocations", not cbad, json.dumps(cbad[:2])[:1500])
    chk.extra["assumptions"] = []
    chk.extra["observations"] = [
        "negative --inject-target is not range-checked (target -1 emits 2n pickles); outside the quantifier; "
        "model reproduces it (C18_negative_target_observation)",
        "an injection that raises leaves the verbatim prefix on stdout (model: C18_inject_local, second clause)",
        "syntactic validity of the printed text is checked differentially only (compile + exec)"]

    def search():
        for b in bad:
            return b
        for m in mism:
            why = oracle_inject(m) if m["mode"] == "inject" else oracle_decompile(m)
            if why:
                return {**{k: v for k, v in m.items() if k != "mismatch"}, "oracle": why}
        return None

    report_broken_obligations(chk, search)
    return chk.finish()


def replay(path):
    doc = json.load(open(path))
    case = doc.get("case") or {}
    if "pickles" not in case:
        print("replay: no concrete input recorded; re-running the quick check")
        return main("quick", doc.get("seed", 0))
    try:
        why = oracle_inject(case) if case["mode"] == "inject" else oracle_decompile(case)
    finally:
        shutil.rmtree(os.path.join(BUILD, "scratch", str(os.getpid())), ignore_errors=True)
    if why:
        print(f"VIOLATION property=C18 replay={path}")
        print(json.dumps(why)[:1500])
        return 1
    print("replay: the recorded case no longer fails")
    return 0
