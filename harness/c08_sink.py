"""Harmless non-stdlib callee injected by the C08 harness.  It keeps its own log, so that the base
pickle's observable behaviour (verif_sink.LOG, return values of verif_sink.record) is untouched by
the injected call; every entry carries how many base effects had happened before it."""
import verif_sink

INJ = []     # (args, kwargs, len(verif_sink.LOG) at the call, len(FC) at the call)
FC = []      # pickle.find_class audit events: (module, name, len(verif_sink.LOG), len(INJ))
HOOK = [False, False]   # [installed, enabled]


def inj(*args, **kwargs):
    INJ.append((args, tuple(sorted(kwargs.items())), len(verif_sink.LOG), len(FC)))
    return ("inj-result", len(INJ))


def _audit(event, args):
    if HOOK[1] and event == "pickle.find_class":
        FC.append((args[0], args[1], len(verif_sink.LOG), len(INJ)))


def install():
    """only ever called in harness worker processes"""
    import sys
    if not HOOK[0]:
        sys.addaudithook(_audit)
        HOOK[0] = True


def reset():
    del INJ[:]
    del FC[:]
    verif_sink.reset()
