"""C01 -- Analysis is inert: inspecting a pickle never executes any part of it.

Obligations of one run:
  1. gen/gen_callgraph.py re-extracts the call graph of the analysis code from the live sources
     (coq/gen/CallGraph.v) and proofs/EffectsProofs.vo is rebuilt;
  2. props/C01.v: no path from an analysis entry point reaches an Effectful leaf (vm_compute on the
     regenerated graph + the closure soundness theorem, proved once for every graph);
  3. runtime tie: every analysis entry point of the REAL implementation is run in sandboxed children
     under a CPython audit hook on an adversarial corpus; the observed trace, abstracted to effect
     classes, must stay inside what the extracted model (`eff_reach`) predicts for that entry point, and
     the model-free oracle (nothing beyond reading the input, reading fixed package data, writing the
     user-named report, printing, benign lazy stdlib imports not named by the input) must hold.
The oracle is also the violation search when obligation 1/2 breaks.
"""
import json
import os
import pickle
import shutil
import subprocess
import sys
import time

from harness import asm
from harness.common import BUILD, PY, REPO, VERIF, Check, Driver, env_child, report_broken_obligations, sx, wire

CHILD = os.path.join(VERIF, "harness", "c01_child.py")
NCHILD = 8

# harness entry -> call-graph bodies it invokes (the model's prediction is the union over them)
ENTRY_NODES = {
    "load_bytes": ["fickle.Pickled.load"],
    "load_stream": ["fickle.Pickled.load"],
    "stacked": ["fickle.StackedPickle.load"],
    "decompile": ["fickle.Pickled.load", "fickle.Pickled.ast"],
    "interpreter": ["fickle.Pickled.load", "fickle.Interpreter.__init__", "fickle.Interpreter.step",
                    "fickle.Interpreter.to_ast", "fickle.Interpreter.unused_assignments",
                    "fickle.Interpreter.unused_variables", "fickle.Interpreter.interpret",
                    "fickle.Interpreter.__str__", "fickle.Interpreter.run", "fickle.Interpreter.next_variable_id"],
    "properties": ["fickle.Pickled.load", "fickle.Pickled.properties", "fickle.Pickled.has_import",
                   "fickle.Pickled.has_call", "fickle.Pickled.has_non_setstate_call",
                   "fickle.Pickled.unsafe_imports", "fickle.Pickled.non_standard_imports"],
    "trace": ["fickle.Pickled.load", "tracing.Trace.run"],
    "check_safety": ["fickle.Pickled.load", "analysis.check_safety"],
    "check_safety_json": ["fickle.Pickled.load", "analysis.check_safety"],
    "is_likely_safe": ["analysis.is_likely_safe"],
    "analyzer": ["fickle.Pickled.load", "analysis.Analyzer.analyze", "analysis.AnalysisContext.analyze"],
    "cli_decompile": ["cli.main"], "cli_trace": ["cli.main"], "cli_check": ["cli.main"],
    "cli_check_json": ["cli.main"], "cli_stdin": ["cli.main"],
    "check_pickle": ["polyglot.check_pickle"],
}
ENTRIES = list(ENTRY_NODES)
REPORT = {"check_safety_json": "report.json", "cli_check": "safety_results.json", "cli_check_json": "out.json"}
READS_INPUT_FILE = {"load_stream", "is_likely_safe", "cli_decompile", "cli_trace", "cli_check", "cli_check_json",
                    "check_pickle"}

# ------------------------------------------------------------------ corpus
# every global is harmless even if really resolved and called with the given argument: process /
# network / destructive events are additionally blocked by the child's audit hook
UNLOADED_STDLIB = ["smtplib", "ftplib", "poplib", "imaplib", "telnetlib", "mailbox", "sndhdr", "pipes",
                   "xmlrpc.client", "cgi", "wave", "chunk"]
GLOBALS = [
    ("os", "system", "true"), ("posix", "system", "true"), ("builtins", "exec", "VERIF_C01 = 1"),
    ("__builtin__", "eval", "1+1"), ("builtins", "eval", "1+1"), ("subprocess", "Popen", "true"),
    ("socket", "socket", None), ("verif_canary_fs", "go", "x"), ("verif_canary_pkg.sub", "go", "x"),
    ("verif_canary_pre", "go", "x"), ("builtins", "compile", "1"), ("builtins", "__import__", "verif_canary_fs"),
    ("importlib", "import_module", "verif_canary_fs"), ("builtins", "getattr", "x"),
]


def val_ops(arg, binary):
    if arg is None:
        return []
    if binary:
        return [("SHORT_BINUNICODE", arg)]
    return [("UNICODE", arg)]


def glob_ops(m, n, style):
    if style == "GLOBAL":
        return [("GLOBAL", (m, n))]
    return [("SHORT_BINUNICODE", m), ("SHORT_BINUNICODE", n), "STACK_GLOBAL"]


def shapes(m, n, arg, rng):
    """(shape name, program) for one global through every global-resolving / call-making opcode"""
    out = []
    for style in ("GLOBAL", "STACK_GLOBAL"):
        binary = style == "STACK_GLOBAL"
        pre = [("PROTO", 4)] if binary else []
        g = glob_ops(m, n, style)
        a = val_ops(arg, binary)
        out.append((f"{style}", pre + g + ["STOP"]))
        out.append((f"{style}+REDUCE", pre + g + ["MARK"] + a + ["TUPLE", "REDUCE", "STOP"]))
        out.append((f"{style}+REDUCE+POP", pre + g + ["MARK"] + a + ["TUPLE", "REDUCE", "POP", "NONE", "STOP"]))
        out.append((f"{style}+OBJ", pre + ["MARK"] + g + a + ["OBJ", "STOP"]))
        out.append((f"{style}+NEWOBJ", pre + g + ["MARK"] + a + ["TUPLE", "NEWOBJ", "STOP"]))
        out.append((f"{style}+NEWOBJ_EX", pre + g + ["MARK"] + a + ["TUPLE", "EMPTY_DICT", "NEWOBJ_EX", "STOP"]))
        out.append((f"{style}+BUILD", pre + g + ["EMPTY_TUPLE", "REDUCE", "MARK"] + val_ops("k", binary) +
                    a + (["NONE"] if not a else []) + ["DICT", "BUILD", "STOP"]))
        out.append((f"{style}+BUILD-on-global", pre + g + ["EMPTY_DICT", "BUILD", "STOP"]))
        out.append((f"{style}+BINPERSID", pre + g + ["BINPERSID", "STOP"]))
        out.append((f"{style}+memo+DUP", pre + g + [("BINPUT", 1), "POP", ("BINGET", 1), "DUP", "MARK"] + a +
                    ["TUPLE", "REDUCE", ("BINPUT", 2), "TUPLE2", "STOP"]))
        out.append((f"{style}+nested", pre + g + ["MARK"] + g + ["MARK"] + a + ["TUPLE", "REDUCE", "TUPLE", "REDUCE",
                                                                           "STOP"]))
        out.append((f"{style}+APPENDS", pre + ["EMPTY_LIST", "MARK"] + g + g + ["EMPTY_TUPLE", "REDUCE", "APPENDS",
                                                                            "STOP"]))
        out.append((f"{style}+SETITEM", pre + ["EMPTY_DICT"] + val_ops("k", binary) + g + ["EMPTY_TUPLE", "REDUCE",
                                                                                          "SETITEM", "STOP"]))
    # a completed call followed by an opcode fickling has no class / no run for ("awkward" opcodes)
    g0 = glob_ops(m, n, "GLOBAL")
    call = g0 + ["MARK"] + val_ops(arg, False) + ["TUPLE", "REDUCE", "POP"]
    for awk in (("PERSID", asm.RawArg(b"pid\n")), ("EXT1", 1), ("EXT2", 1), ("EXT4", 1), ("FLOAT", 1.5),
                ("BYTEARRAY8", b"ba"), ("LONG", 5), ("BINFLOAT", 1.5)):
        out.append((f"call-then-{awk[0]}", call + [awk, "STOP"]))
    out.append(("call-then-NEXT_BUFFER", call + ["NEXT_BUFFER", "STOP"]))
    out.append(("INST", ["MARK"] + val_ops(arg, False) + [("INST", (m, n)), "STOP"]))
    out.append(("INST+BUILD", ["MARK", ("INST", (m, n)), "EMPTY_DICT", "BUILD", "STOP"]))
    out.append(("PERSID", [("PERSID", asm.RawArg(f"{m}.{n}\n".encode())), "STOP"]))
    out.append(("BINPERSID-str", [("UNICODE", f"{m}.{n}"), "BINPERSID", "STOP"]))
    out.append(("EXT1", [("EXT1", 1), "STOP"]))
    return out


class Plain:
    def __init__(self):
        self.a, self.b = 1, [2, 3]


def benign_values():
    import collections
    import datetime
    import decimal
    import fractions
    vals = [None, True, 0, -1, 255, 256, 65536, 2 ** 31, -2 ** 31 - 1, 2 ** 70, 1.5, -0.0, "", "text",
            "hé 中 \U0001f600", "line\nbreak\\x", b"", b"bytes\x00\xff", [], [1, [2, [3]]], (), (1,), (1, 2),
            (1, 2, 3), (1, 2, 3, 4), {}, {"a": 1, "b": [2, {"c": ()}]}, set(), {1, 2}, frozenset({1}),
            bytearray(b"ba"), complex(1, 2), collections.OrderedDict(a=1), collections.Counter("aab"),
            datetime.date(2020, 1, 2), decimal.Decimal("1.5"), fractions.Fraction(1, 3), range(3), slice(1, 2),
            Plain(), [Plain(), Plain()], "x" * 300, list(range(300)), {i: str(i) for i in range(40)}]
    shared = [1, 2]
    vals.append([shared, shared, {"s": shared}])
    rec = []
    rec.append(rec)
    vals.append(rec)
    return vals


CORRUPTIONS = ["truncate", "flip", "insert", "delete", "opcode-swap", "bad-opcode-tail", "length-tamper", "splice",
               "append-garbage", "drop-stop"]


def corrupt(data, kind, rng, other=b""):
    b = bytearray(data)
    n = len(b)
    if n == 0:
        return bytes(b)
    codes = [ord(i.code) for i in asm.INFO.values()]
    if kind == "truncate":
        return bytes(b[:rng.randrange(0, n)])
    if kind == "flip":
        i = rng.randrange(n)
        b[i] ^= 1 << rng.randrange(8)
    elif kind == "insert":
        b.insert(rng.randrange(n + 1), rng.randrange(256))
    elif kind == "delete":
        del b[rng.randrange(n)]
    elif kind == "opcode-swap":
        i = rng.randrange(n)
        b[i] = rng.choice(codes)
    elif kind == "bad-opcode-tail":
        # an undefined opcode byte just before / instead of the final STOP: everything before it is intact
        pos = n - 1 if rng.random() < 0.5 else n
        b.insert(pos, rng.choice([0xff, 0xfe, 0x00, 0x7f]))
    elif kind == "length-tamper":
        i = rng.randrange(n)
        b[i:i + rng.choice([1, 4])] = rng.choice([b"\xff", b"\xff\xff\xff\x7f", b"\x00\x00\x00\x80", b"\x00"])
    elif kind == "splice":
        cut = rng.randrange(n)
        o = other or data
        return bytes(b[:cut]) + o[rng.randrange(len(o)):]
    elif kind == "append-garbage":
        b += bytes(rng.randrange(256) for _ in range(rng.randrange(1, 9)))
    elif kind == "drop-stop":
        if b[-1:] == b".":
            del b[-1]
    return bytes(b)


def build_corpus(rng, tier, scale=1):
    """list of dicts: id, data, family, label (what makes the case distinct), names (module names it mentions)"""
    cases = []

    def add(data, family, label, named=()):
        cases.append({"id": len(cases), "data": data, "family": family, "label": label, "named": list(named)})

    vals = benign_values()
    for vi, v in enumerate(vals):
        for proto in range(0, 6):
            try:
                add(pickle.dumps(v, protocol=proto), "valid", f"value{vi}/proto{proto}")
            except Exception:
                pass
    unl = list(UNLOADED_STDLIB)
    rng.shuffle(unl)
    globs = list(GLOBALS) + [(m, "go", "x") for m in unl[:4]]
    for m, n, arg in globs:
        for shape, prog in shapes(m, n, arg, rng):
            try:
                add(asm.assemble(prog), "assembled", f"{m}.{n}/{shape}", named=[m])
            except Exception as e:  # an assembler limitation must not silently thin the corpus
                raise RuntimeError(f"cannot assemble {m}.{n}/{shape}: {e}")
    # codec names: `_codecs.encode(text, NAME)` is how protocols 0-2 spell bytes; NAME is input data and a
    # codec lookup by it would import encodings.<NAME> / call registered search functions (seeded C01 r2)
    for codec in ("idna", "punycode", "rot13", "uu", "cp037", "verif_canary_codec"):
        for fn in ("encode", "decode"):
            add(asm.assemble([("GLOBAL", ("_codecs", fn)), ("UNICODE", "abc"), ("UNICODE", codec), "TUPLE2",
                              "REDUCE", "STOP"]), "assembled", f"_codecs.{fn}/{codec}", named=["_codecs"])
            add(asm.assemble([("PROTO", 2), ("GLOBAL", ("_codecs", fn)), ("BINUNICODE", "abc"),
                              ("BINUNICODE", codec), "TUPLE2", "REDUCE", ("BINPUT", 0), "STOP"]),
                "assembled", f"_codecs.{fn}/{codec}/p2", named=["_codecs"])
    # names that are str.format / %-templates: a report that renders the pickle's own text as a template walks
    # attribute and index paths of live objects as the input directs (seeded C01 r6); the paths below end on the
    # pre-imported tripwire module, on a not-yet-imported stdlib module and on a function's __globals__
    templates = ["{0.__init__.__globals__[sys].modules[verif_canary_pre].go}",
                 "{0.__class__.__init__.__globals__[sys].modules[verif_canary_pre].go}",
                 "{0.trigger.__class__.__mro__}", "{0.severity.__class__.__init__.__globals__}",
                 "{0}", "{x}", "%(x)s", "{0.__init__.__globals__[sys].modules[concurrent.futures].ProcessPoolExecutor}"]
    for t in templates:
        for m, n in (("os", t), (t, "system"), ("verif_canary_mod", t), ("builtins", "eval")):
            prog = [("GLOBAL", (m, n))] + (["MARK", ("UNICODE", t), "TUPLE", "REDUCE"] if n == "eval" else []) + ["STOP"]
            try:
                add(asm.assemble(prog), "assembled", f"template/{m[:12]}.{n[:12]}", named=[m.split(".")[0]] if "{" not in m and "%" not in m else [])
            except Exception:
                pass
        add(asm.assemble([("PROTO", 4), ("SHORT_BINUNICODE", "os"), ("SHORT_BINUNICODE", t), "STACK_GLOBAL",
                          "EMPTY_TUPLE", "REDUCE", "STOP"]), "assembled", "template/stack_global", named=["os"])
    base = list(cases)
    # stacked files
    for _ in range(20 * scale):
        parts = [rng.choice(base) for _ in range(rng.randrange(2, 4))]
        add(b"".join(p["data"] for p in parts), "stacked", "+".join(p["label"] for p in parts),
            named=[x for p in parts for x in p["named"]])
    # byte-level corruptions and truncations of all of them
    base = list(cases)
    per = (1 if tier == "quick" else 30) * scale
    for c in base:
        # dangerous programs get every corruption kind over time; valid pickles fewer
        k = per * (2 if c["family"] != "valid" else 1)
        for _ in range(k):
            kind = rng.choice(CORRUPTIONS)
            other = rng.choice(base)["data"]
            d = corrupt(c["data"], kind, rng, other)
            add(d, "corrupted", f"{kind}({c['label']})", named=c["named"])
    # one LARGE input (a 17 MiB constant, immediately popped): size-dependent paths -- spooling, chunked
    # reads of non-seekable streams -- must be as inert as the small ones (added last: not corrupted/stacked)
    add(asm.assemble([("PROTO", 4), ("BINBYTES", b"\x00" * (17 << 20)), "POP",
                      ("GLOBAL", ("os", "getcwd")), "EMPTY_TUPLE", "REDUCE", "STOP"]),
        "assembled", "large-17MiB-constant+os.getcwd/REDUCE", named=["os"])
    return cases


# ------------------------------------------------------------------ running the children
def run_children(cases, entries, scratch, with_torch=True, nchild=NCHILD, timeout=600):
    """returns (results, abnormal): results = list of per-run dicts; abnormal = cases whose child died"""
    os.makedirs(scratch, exist_ok=True)
    chunks = [cases[i::nchild] for i in range(nchild)]
    procs = []
    for i, ch in enumerate(chunks):
        if not ch:
            continue
        d = os.path.join(scratch, f"child{i}")
        os.makedirs(d, exist_ok=True)
        with open(os.path.join(d, "batch.jsonl"), "w") as f:
            for c in ch:
                f.write(json.dumps({"id": c["id"], "hex": c["data"].hex(), "entries": entries}) + "\n")
        env = env_child({"PYTHONDONTWRITEBYTECODE": "1", "PYTHONHASHSEED": "0",
                         "PYTHONPATH": REPO + os.pathsep + os.path.join(VERIF, "harness")})
        cmd = [PY, CHILD, d, os.path.join(d, "batch.jsonl"), os.path.join(d, "out.jsonl")]
        if with_torch:
            cmd.append("--torch")
        p = subprocess.Popen(cmd, env=env, cwd=d, stdin=subprocess.DEVNULL, stdout=subprocess.PIPE,
                             stderr=subprocess.STDOUT, text=True)
        procs.append((p, d, ch))
    results, abnormal, meta = [], [], {}
    deadline = time.time() + timeout
    for p, d, ch in procs:
        try:
            out, _ = p.communicate(timeout=max(1, deadline - time.time()))
        except subprocess.TimeoutExpired:
            p.kill()
            out, _ = p.communicate()
            out = (out or "") + "\n<timeout>"
        done, last_begin, bye = set(), None, False
        path = os.path.join(d, "out.jsonl")
        if os.path.exists(path):
            for line in open(path):
                try:
                    r = json.loads(line)
                except ValueError:
                    continue
                if "hello" in r:
                    meta = r
                elif "begin" in r:
                    last_begin = r["begin"]
                elif "bye" in r:
                    bye = True
                elif "id" in r:
                    r["scratch"] = d
                    results.append(r)
                    done.add((r["id"], r["entry"]))
        if not bye:
            abnormal.append({"child": d, "rc": p.returncode, "running": last_begin,
                             "output": "\n".join(l for l in (out or "").splitlines() if "condarc" not in l)[-800:]})
    return results, abnormal, meta


# ------------------------------------------------------------------ abstraction + oracle
def is_stdlib(mod):
    top = mod.split(".")[0]
    return top in sys.stdlib_module_names


def hex_or_rle(data):
    """replayable text form of an input: plain hex, or for big inputs hex with runs of one byte written as
    <byte*count> (the 17 MiB constant is one run)"""
    if len(data) <= (1 << 16):
        return data.hex()
    out, i, n = [], 0, len(data)
    while i < n:
        j = i
        while j < n and data[j] == data[i]:
            j += 1
        if j - i >= 64:
            out.append("<%02x*%d>" % (data[i], j - i))
        else:
            out.append(data[i:j].hex())
        i = j
    return "".join(out)


def from_hex_or_rle(text):
    import re
    out = bytearray()
    for m in re.finditer(r"<([0-9a-f]{2})\*(\d+)>|([0-9a-f]+)", text):
        if m.group(3) is not None:
            out += bytes.fromhex(m.group(3))
        else:
            out += bytes([int(m.group(1), 16)]) * int(m.group(2))
    return bytes(out)


def named_by_input(mod, data):
    parts = mod.split(".")
    cands = {mod, parts[0]}
    if parts[0] == "encodings" and len(parts) > 1:
        cands.add(parts[-1])        # a codec NAME in the input selects the module encodings.<name>
    return any(c.encode() in data for c in cands if c)


def judge(r, case, meta):
    """abstract one run to effect classes and list everything the property forbids.
    Returns (classes, unexpected list)."""
    data = case["data"]
    classes, bad = {"Pure"}, []
    cwd = os.path.join(r["scratch"], "cwd")
    inp = os.path.join(cwd, "in.pkl")
    report = os.path.join(cwd, REPORT[r["entry"]]) if r["entry"] in REPORT else None
    stdlib_list_dir = meta.get("stdlib_list")
    # imports: the principled rule -- a stdlib module that the input does not name
    imported = [e[1] for e in r["events"] if e[0] == "import"] + list(r["new_modules"])
    bad_imports = [m for m in imported if not is_stdlib(m) or named_by_input(m, data)]
    for m in sorted(set(bad_imports)):
        bad.append(f"imported module {m!r}" + (" (named by the input)" if named_by_input(m, data) else " (not stdlib)"))
    if imported and not bad_imports:
        classes.add("ReadFixed")  # loading fixed stdlib code
    for e in r["events"]:
        if e[0] == "import":
            continue
        if e[0] == "@import":
            if bad_imports or not imported:
                bad.append(f"event inside import machinery: {e[1:]}")
            continue
        if e[0] == "open":
            path, mode = e[1], e[2]
            if isinstance(path, str) and not os.path.isabs(path):
                path = os.path.join(cwd, path)
            writing = mode is None or any(c in str(mode) for c in "wax+")
            if path == inp and not writing:
                classes.add("ReadInput")
                if r["entry"] not in READS_INPUT_FILE:
                    bad.append(f"entry point was given bytes but opened the input file: {e}")
            elif stdlib_list_dir and isinstance(path, str) and path.startswith(stdlib_list_dir + os.sep) and not writing:
                classes.add("ReadFixed")
            elif report and path == report and str(mode) == "a":
                classes.add("WriteUserPath")
            else:
                bad.append(f"open{tuple(e[1:])}")
            continue
        bad.append(f"audit event {e[0]}{tuple(e[1:])}")
    for t in r["trip"]:
        bad.append(f"attribute {t!r} resolved on pre-imported module verif_canary_pre")
    allowed_files = {REPORT[r["entry"]]} if r["entry"] in REPORT else set()
    for k in r["created"]:
        if k not in allowed_files:
            bad.append(f"file created: {k}")
    for k in r["changed"]:
        if k == "<canary-marker>":
            bad.append("canary module imported (marker file written)")
        elif k not in allowed_files and k != "in.pkl":
            bad.append(f"file changed: {k}")
    for k in r["deleted"]:
        bad.append(f"file deleted: {k}")
    if r["outcome"] == "RunTimeout":
        bad.append("the run did not finish within the per-run time limit (inertness cannot be certified)")
    if r["outcome"] == "blocked-by-monitor":
        bad.append("a dangerous operation was attempted and blocked by the monitor")
    if r["stdout"] or r["stderr"]:
        classes.add("Print")
    if bad:
        classes.add("Effectful")
    return classes, bad


# ------------------------------------------------------------------ main
def model_predictions(chk):
    """what the regenerated call graph predicts per harness entry (extracted model)"""
    drv = Driver()
    nodes = sorted({n for ns in ENTRY_NODES.values() for n in ns})
    out = drv.query([sx(["eff_reach", wire(n)]) for n in nodes] + [sx(["eff_check"])])
    per = dict(zip(nodes, out[:-1]))
    pred, problems = {}, []
    for e, ns in ENTRY_NODES.items():
        s = set()
        for n in ns:
            if per[n].startswith("!"):
                problems.append(f"{n}: {per[n]}")
            else:
                s |= set(per[n].split())
        pred[e] = s
    return pred, problems, out[-1]


def evaluate(chk, cases, results, meta, pred, count=True):
    by_id = {c["id"]: c for c in cases}
    failing, mism = [], []
    for r in results:
        c = by_id[r["id"]]
        classes, bad = judge(r, c, meta)
        if count:
            chk.count()
            if c["family"] != "valid":
                chk.nontriv((c["data"], r["entry"]))      # distinct by input bytes x entry point
            st = chk.stats.setdefault("outcome", {})
            st[r["outcome"]] = st.get(r["outcome"], 0) + 1
            for cl in classes:
                oc = chk.stats.setdefault("observed_class", {})
                oc[cl] = oc.get(cl, 0) + 1
            for ev in r["events"]:
                es = chk.stats.setdefault("audit_events", {})
                es[ev[0] if ev[0] != "@import" else "@import:" + ev[1]] = es.get(
                    ev[0] if ev[0] != "@import" else "@import:" + ev[1], 0) + 1
            for m in r["new_modules"]:
                lm = chk.stats.setdefault("lazy_imports", {})
                lm[m] = lm.get(m, 0) + 1
        doc = {"input_hex": hex_or_rle(c["data"]), "family": c["family"], "label": c["label"], "entry": r["entry"],
               "outcome": r["outcome"], "observed_classes": sorted(classes), "unexpected": bad[:8],
               "events": r["events"][:12], "size": len(c["data"])}
        if bad:
            failing.append(doc)
        if pred is not None and r["entry"] in pred and not classes <= pred[r["entry"]]:
            doc = dict(doc, predicted=sorted(pred[r["entry"]]))
            mism.append(doc)
    failing.sort(key=lambda d: (d["size"], d["entry"]))
    mism.sort(key=lambda d: (d["size"], d["entry"]))
    return failing, mism


def main(tier, seed):
    chk = Check("C01", tier, seed)
    chk.rule = ("corpus = pickle.dumps of %d benign values x protocols 0-5; hand-assembled programs naming "
                "os.system / posix.system / builtins.exec / eval / compile / __import__ / subprocess.Popen / "
                "socket.socket / importlib.import_module / canary modules (not-yet-imported, dotted, pre-imported "
                "tripwire) / not-yet-imported stdlib modules through GLOBAL and STACK_GLOBAL x {bare, REDUCE, "
                "REDUCE+POP, OBJ, NEWOBJ, NEWOBJ_EX, BUILD, BUILD-on-global, BINPERSID, memo+DUP, nested, APPENDS, "
                "SETITEM} + INST, PERSID, EXT1 + a completed call followed by an opcode fickling cannot run "
                "(PERSID, EXT1/2/4, FLOAT, BYTEARRAY8, NEXT_BUFFER, ...); stacked files; %d kinds of byte-level corruption / truncation of all "
                "of them; every input is run through %d entry points in sandboxed children under an audit hook. "
                "A case is non-trivial when its input is not a plain valid pickle; distinct by "
                "(input bytes, entry point)" % (len(benign_values()), len(CORRUPTIONS),
                                                                   len(ENTRIES)))
    chk.extra["trusted_base_c01"] = [
        "gen/gen_callgraph.py + gen/effect_tables.py: completeness of the Python call-graph extraction (reflection, "
        "monkey-patching from modules outside the scope, callables smuggled through external containers are not "
        "seen statically) and the effect class given to each stdlib leaf (genops, ast.unparse, in_stdlib, json.dump, "
        "argparse ...) are TRUSTED; both are cross-examined on every run by the audit-hook monitor",
        "CPython audit events (PEP 578) as the observation channel; attribute resolution on an already imported "
        "module raises no audit event and is observed only through the tripwire module verif_canary_pre",
        "the claim is partial: proof over the call-graph abstraction + differential monitoring, not a proof about "
        "CPython's execution of fickling",
    ]
    chk.extra["assumptions"] = []
    built = chk.regen_and_build(["proofs/EffectsProofs.vo"])
    cg = {}
    try:
        cg = json.load(open(os.path.join(BUILD, "gen_callgraph.json")))
    except Exception as e:
        cg = {"CallGraph": {"error": f"gen_callgraph.json unreadable: {e}"}}
    if "error" in cg.get("CallGraph", {}):
        chk.oblige("call graph extracted from the live sources (gen/gen_callgraph.py)", False,
                   cg["CallGraph"]["error"])
    else:
        chk.table_digests["CallGraph"] = cg.get("CallGraph")
        chk.table_digests["callgraph_sources"] = cg.get("sources")
        chk.extra["callgraph"] = {k: cg.get(k) for k in ("nodes", "bodies", "leaves", "edges", "entry_points",
                                                         "reachable", "reachable_bodies", "reachable_leaves",
                                                         "effectful_in_graph", "effectful_reachable",
                                                         "pruned_branches", "python")}
        chk.oblige("call graph: no Effectful leaf reachable from an analysis entry point (extractor's own "
                   "search, diagnostic twin of theorem C01_no_effectful_reachable)",
                   not cg.get("effectful_reachable"), json.dumps(cg.get("effectful_reachable"))[:1500])
    if built:
        chk.prove()
    scratch = os.path.join(BUILD, "scratch", f"c01-{os.getpid()}")
    state = {}
    try:
        cases = build_corpus(chk.rng, tier)
        fam = chk.stats.setdefault("family", {})
        for c in cases:
            fam[c["family"]] = fam.get(c["family"], 0) + 1
        chk.stats["inputs"] = len(cases)
        chk.stats["input_bytes"] = {"min": min(len(c["data"]) for c in cases),
                                    "max": max(len(c["data"]) for c in cases)}
        pred, problems, eff_check = None, [], None
        if built:
            try:
                pred, problems, eff_check = model_predictions(chk)
            except Exception as e:
                problems = [f"driver: {e}"]
            chk.oblige("extracted model: closure of the regenerated graph is closed for every tied entry point "
                       "and check_avoid = T", pred is not None and not problems and eff_check == "T",
                       json.dumps({"problems": problems, "eff_check": eff_check}))
            if pred:
                chk.extra["model_predicted_effects"] = {k: sorted(v) for k, v in pred.items()}
        t0 = time.time()
        results, abnormal, meta = run_children(cases, ENTRIES, scratch, timeout=300 if tier == "quick" else 2400)
        chk.stats["monitor_wall_s"] = round(time.time() - t0, 1)
        chk.stats["entry_points_run"] = meta.get("hello")
        expected_runs = len(cases) * len(meta.get("hello", []))
        chk.oblige(f"sandboxed children completed all {expected_runs} runs", not abnormal and
                   len(results) == expected_runs, json.dumps(abnormal)[:1500] + f" got {len(results)}")
        failing, mism = evaluate(chk, cases, results, meta, pred)
        chk.oblige(f"correspondence: observed effect classes within the call graph's prediction on "
                   f"{len(results)} runs ({len(cases)} inputs x {len(meta.get('hello', []))} entry points)",
                   pred is not None and not mism, json.dumps(mism[:3])[:1800])
        chk.oblige(f"oracle: no run did anything beyond reading the input, reading fixed package data, writing "
                   f"the user-named report, printing, benign lazy stdlib imports ({len(results)} runs)",
                   not failing, json.dumps(failing[:3])[:1800])
        for c in cases[:1] + [c for c in cases if c["family"] == "assembled"][:2] + \
                [c for c in cases if c["family"] == "corrupted"][:2]:
            rs = [r for r in results if r["id"] == c["id"]][:3]
            chk.sample({"family": c["family"], "label": c["label"], "hex": c["data"].hex()[:120],
                        "runs": [{"entry": r["entry"], "outcome": r["outcome"],
                                  "classes": sorted(judge(r, c, meta)[0])} for r in rs]})
        state.update(failing=failing, abnormal=abnormal, cases=cases, meta=meta)

        def search():
            # the monitor IS the model-free oracle: first what this run already saw ...
            if state["failing"]:
                return dict(state["failing"][0], oracle="; ".join(state["failing"][0]["unexpected"][:4]),
                            other_failing_runs=len(state["failing"]) - 1)
            if state["abnormal"]:
                a = state["abnormal"][0]
                cid = a["running"][0] if a.get("running") else None
                c = next((c for c in state["cases"] if c["id"] == cid), None)
                if c is not None:
                    return {"oracle": "the sandboxed child died / hung while running this input",
                            "input_hex": hex_or_rle(c["data"]), "entry": a["running"][1], "label": c["label"],
                            "child_output": a["output"]}
            # ... then a larger corpus with fresh corruptions
            for rnd in range(2 if tier == "quick" else 3):
                more = build_corpus(chk.rng, "quick", scale=3 + 6 * rnd)
                sc2 = os.path.join(scratch, f"search{rnd}")
                res2, abn2, meta2 = run_children(more, ENTRIES, sc2, timeout=600)
                chk.stats["search_runs"] = chk.stats.get("search_runs", 0) + len(res2)
                f2, _ = evaluate(chk, more, res2, meta2, None, count=False)
                if f2:
                    return dict(f2[0], oracle="; ".join(f2[0]["unexpected"][:4]), other_failing_runs=len(f2) - 1)
            return None

        report_broken_obligations(chk, search)
    finally:
        shutil.rmtree(scratch, ignore_errors=True)
    return chk.finish()


def replay(path):
    doc = json.load(open(path))
    case = doc.get("case")
    if not case or "input_hex" not in case:
        print("replay: no concrete input recorded; re-running the quick check")
        return main("quick", doc.get("seed", 0))
    scratch = os.path.join(BUILD, "scratch", f"c01-replay-{os.getpid()}")
    try:
        data = from_hex_or_rle(case["input_hex"])
        cases = [{"id": 0, "data": data, "family": case.get("family", "replay"), "label": case.get("label", ""),
                  "named": []}]
        results, abnormal, meta = run_children(cases, ENTRIES, scratch, nchild=1, timeout=300)
        bad = []
        for r in results:
            classes, b = judge(r, cases[0], meta)
            if b:
                bad.append((r["entry"], b))
    finally:
        shutil.rmtree(scratch, ignore_errors=True)
    if bad or abnormal:
        print(f"VIOLATION property=C01 replay={path}")
        for e, b in bad[:6]:
            print(f"  {e}: {'; '.join(b[:4])}")
        if abnormal:
            print(f"  child terminated abnormally: {abnormal[0]['output'][-300:]}")
        return 1
    print("replay: the recorded case no longer fails")
    return 0
