"""Real-side machinery for the pickle-machine properties (C03, C04, C05, C08, C09, C13, C14, C19):
abstract-op view of byte programs, stepping the real fickling Interpreter, an instrumented
pure-Python reference unpickler with inert stand-ins, and execution of decompiled programs
against the same stand-ins."""
import ast
import builtins
import io
import pickle
import pickletools
import struct

from harness.common import sx, wire

BUILTINS_MODULES = ("__builtin__", "__builtins__", "builtins")
_VAR = __import__("re").compile(r"^_var(\d+)$")
CONST_OPS = {"INT", "BININT", "BININT1", "BININT2", "LONG", "LONG1", "LONG4", "STRING", "BINSTRING",
             "SHORT_BINSTRING", "BINBYTES", "SHORT_BINBYTES", "BINBYTES8", "UNICODE",
             "SHORT_BINUNICODE", "BINUNICODE", "BINUNICODE8", "BINFLOAT", "NONE", "NEWTRUE", "NEWFALSE"}
PUT_OPS = {"PUT", "BINPUT", "LONG_BINPUT"}
GET_OPS = {"GET", "BINGET", "LONG_BINGET"}
NOOP_OPS = {"PROTO", "FRAME"}
PLAIN_OPS = {"MARK", "STOP", "POP", "POP_MARK", "DUP", "EMPTY_LIST", "EMPTY_DICT", "EMPTY_SET",
             "EMPTY_TUPLE", "APPEND", "APPENDS", "LIST", "TUPLE", "TUPLE1", "TUPLE2", "TUPLE3", "DICT",
             "SETITEM", "SETITEMS", "ADDITEMS", "FROZENSET", "STACK_GLOBAL", "OBJ", "NEWOBJ",
             "NEWOBJ_EX", "REDUCE", "BUILD", "BINPERSID", "MEMOIZE"}


def const_sexp(v):
    if v is None:
        return "none"
    if isinstance(v, bool):
        return ["bool", "T" if v else "F"]
    if isinstance(v, int):
        return ["int", str(v)]
    if isinstance(v, float):
        return ["float", "h" + struct.pack(">d", v).hex()]
    if isinstance(v, str):
        return ["str", wire(v)]
    if isinstance(v, (bytes, bytearray)):
        return ["bytes", "h" + bytes(v).hex()]
    raise TypeError(type(v))


def abstract_ops(data: bytes):
    """bytes -> list of abstract op S-expressions (python nested lists), or None when the program
    uses an opcode outside the model (fickling must refuse those)."""
    out = []
    for info, arg, _pos in pickletools.genops(data):
        n = info.name
        if n in CONST_OPS:
            if n == "NONE":
                arg = None
            elif n == "NEWTRUE":
                arg = True
            elif n == "NEWFALSE":
                arg = False
            out.append(["CONST", const_sexp(arg)])
        elif n in PUT_OPS:
            out.append(["PUT", str(int(arg))])
        elif n in GET_OPS:
            out.append(["GET", str(int(arg))])
        elif n in NOOP_OPS:
            out.append("NOOP")
        elif n in ("GLOBAL", "INST"):
            m, _, a = arg.partition(" ")
            out.append([n, wire(m), wire(a)])
        elif n in PLAIN_OPS:
            out.append(n)
        elif n == "PERSID":
            out.append("NORUN")
        else:
            return None
    return out


# ---------------------------------------------------------------- real fickling, stepwise
def fk_shape(interp, halted):
    from fickling.fickle import MarkObject
    frames = [0]
    for obj in interp.stack:        # bottom to top
        if isinstance(obj, MarkObject):
            frames.insert(0, 0)
        else:
            frames[0] += 1
    keys = sorted(interp.memory)
    return "(%s) (%s) %s" % (" ".join(map(str, frames)), " ".join(map(str, keys)), "T" if halted else "F")


def fk_trace(data: bytes, on_step=None):
    """Step the real Interpreter; returns list of shape strings / 'ERR', and the interpreter."""
    from fickling.fickle import Interpreter, Pickled, Stop
    pickled = Pickled.load(data)
    interp = Interpreter(pickled)
    out = []
    while True:
        try:
            opcode = interp.step()
        except StopIteration:
            break
        except RecursionError:
            out.append("ERR")
            break
        except Exception:
            out.append("ERR")
            break
        out.append(fk_shape(interp, isinstance(opcode, Stop)))
        if on_step:
            on_step(interp, opcode)
    return out, interp, pickled


# ---------------------------------------------------------------- inert stand-ins + reference VM
class World:
    """Event log shared by the stand-ins of one run."""

    def __init__(self, permissive=False):
        self.events = []
        self.nobj = 0
        self.globals = {}
        self.flags = set()
        # permissive: opaque objects also accept .append / .extend / .add (what APPEND / APPENDS / ADDITEMS
        # call on a non-list target).  Off by default: the Coq reference model declines those programs.
        self.permissive = permissive

    def global_stub(self, module, name):
        """one stand-in per (module, name): resolving a global twice yields the same object"""
        key = ("builtins" if module in BUILTINS_MODULES else module, name)
        if key not in self.globals:
            self.globals[key] = Stub(self, "g", (module, name))
        return self.globals[key]

    def fresh(self):
        k = self.nobj
        self.nobj += 1
        return k


class Stub:
    """Inert stand-in for a global (kind 'g') or for the opaque result of a call (kind 'o')."""
    __slots__ = ("_w", "_kind", "_id", "__weakref__")

    def __new__(first, *args, **kwargs):
        if first is Stub:
            return object.__new__(Stub)
        # invoked as cls.__new__(cls, *args, **kwargs) by NEWOBJ / NEWOBJ_EX on a stand-in
        return first._call(args, kwargs)

    def __init__(self, world=None, kind=None, ident=None):
        if isinstance(world, World):
            self._w, self._kind, self._id = world, kind, ident

    def _call(self, args, kwargs):
        w = self._w
        k = w.fresh()
        w.events.append(("call", self, tuple(args), dict(kwargs) if kwargs else None, k))
        return Stub(w, "o", k)

    def __call__(self, *args, **kwargs):
        return self._call(args, kwargs)

    def __setstate__(self, state):
        self._w.events.append(("setstate", self, state))

    def __setitem__(self, k, v):
        self._w.events.append(("setitem", self, k, v))

    def update(self, d):
        for k, v in d.items():
            self._w.events.append(("setitem", self, k, v))

    # APPEND / APPENDS / ADDITEMS on an object (a deque, a list or set subclass made by REDUCE / NEWOBJ):
    # the pickle VM calls these methods; the stand-in accepts them like the real object would
    def append(self, v):
        if not self._w.permissive:
            raise AttributeError("append")
        self._w.events.append(("append", self, v))

    def extend(self, vs):
        if not self._w.permissive:
            raise AttributeError("extend")
        for v in vs:
            self._w.events.append(("append", self, v))

    def add(self, v):
        if not self._w.permissive:
            raise AttributeError("add")
        self._w.events.append(("add", self, v))

    def __repr__(self):
        return f"<stub {self._kind} {self._id}>"


class PersLoader:
    def __init__(self, world):
        self.w = world

    def persistent_load(self, pid):
        k = self.w.fresh()
        self.w.events.append(("persload", pid, k))
        return Stub(self.w, "o", k)


def _importable_names(module, name):
    """can `from <module> import <name>` be written in Python at all?"""
    import keyword
    try:
        ok = lambda x: x.isidentifier() and not keyword.iskeyword(x)  # noqa: E731
        return ok(name) and all(ok(part) for part in module.split("."))
    except Exception:
        return False


# one extension code, so that EXT1 / EXT2 / EXT4 are programs the reference VM accepts (process-local)
import copyreg as _copyreg  # noqa: E402
EXT_CODE = 0x41
if EXT_CODE not in _copyreg._inverted_registry:
    _copyreg.add_extension("verif_sink", "record", EXT_CODE)


class RefUnpickler(pickle._Unpickler):
    """CPython's pure-Python unpickler with inert find_class / persistent_load and a per-opcode hook."""

    def __init__(self, data, world, on_step=None):
        super().__init__(io.BytesIO(data))
        self.world = world
        self.on_step = on_step
        self.halted = False
        _copyreg._extension_cache.pop(EXT_CODE, None)   # every run resolves the extension through find_class

    def find_class(self, module, name):
        self.world.events.append(("resolve", module, name))
        if not _importable_names(module, name):
            self.world.flags.add("non-identifier-global")
        return self.world.global_stub(module, name)

    def persistent_load(self, pid):
        k = self.world.fresh()
        self.world.events.append(("persload", pid, k))
        return Stub(self.world, "o", k)

    def _shape(self):
        frames = [len(self.stack)] + [len(s) for s in reversed(self.metastack)]
        keys = sorted(self.memo)
        return "(%s) (%s) %s" % (" ".join(map(str, frames)), " ".join(map(str, keys)),
                                 "T" if self.halted else "F")


def _wrap(fn):
    is_build = fn is pickle._Unpickler.load_build

    def handler(self):
        if is_build and len(self.stack) >= 2 and not isinstance(self.stack[-2], Stub):
            self.world.flags.add("build-on-plain-value")
        fn(self)
        self.trace.append(self._shape())
    return handler


RefUnpickler.dispatch = {k: _wrap(f) for k, f in pickle._Unpickler.dispatch.items()}


def vm_trace(data: bytes, permissive=False):
    """Run the instrumented reference VM; returns (shape trace incl. 'ERR', value or None, world)."""
    w = World(permissive)
    u = RefUnpickler(data, w)
    u.trace = []
    value = None
    ok = False
    try:
        # replicate _Unpickler.load so that the STOP step is observable too
        u._unframer = pickle._Unframer(u._file_read, u._file_readline)
        u.read = u._unframer.read
        u.readinto = u._unframer.readinto
        u.readline = u._unframer.readline
        u.metastack = []
        u.stack = []
        u.append = u.stack.append
        u.proto = 0
        while True:
            key = u.read(1)
            if not key:
                raise EOFError
            try:
                u.dispatch[key[0]](u)
            except pickle._Stop as stop:
                value = stop.value
                u.halted = True
                u.trace.append(u._shape())
                ok = True
                break
    except RecursionError:
        u.trace.append("ERR")
    except Exception:
        u.trace.append("ERR")
    return u.trace, (value if ok else None), w, ok


# ---------------------------------------------------------------- executing decompiled programs
class _Builtins(dict):
    def __init__(self, world):
        super().__init__()
        self.world = world
        self["__verif_frozenset__"] = frozenset
        self["__verif_import__"] = self._import

    def _import(self, name, attr):
        self.world.events.append(("resolve", name, attr))
        return self.world.global_stub(name, attr)

    def __missing__(self, key):
        # implicit builtins resolve to stand-ins; they are NOT logged as a resolve by themselves
        return self.world.global_stub("builtins", key)


def exec_decompiled(source: str, result_name="result"):
    """exec() the decompiled program against inert stand-ins. Returns (value, world, error)."""
    w = World()
    g = {"__builtins__": _Builtins(w), "UNPICKLER": PersLoader(w)}
    try:
        tree = ast.parse(source)
        # `from m import n` -> n = __verif_import__('m', 'n'), so that every other name (including
        # __import__) can be an inert stand-in
        new_body = []
        for st in tree.body:
            if isinstance(st, ast.ImportFrom):
                for al in st.names:
                    new_body.append(ast.Assign(
                        [ast.Name(al.asname or al.name, ast.Store())],
                        ast.Call(ast.Name("__verif_import__", ast.Load()),
                                 [ast.Constant(st.module), ast.Constant(al.name)], [])))
            elif isinstance(st, ast.Import):
                raise ValueError("plain import statement in decompiled program")
            else:
                new_body.append(st)
        tree.body = new_body
        # the FROZENSET opcode decompiles to frozenset({...}) (a set display argument, never the
        # direct value of a `_var<i> = ...` statement): that one builds a real frozenset; any other
        # use of the name frozenset is the stand-in for the global the VM resolved
        direct = {id(st.value) for st in new_body
                  if isinstance(st, ast.Assign) and isinstance(st.targets[0], ast.Name)
                  and _VAR.match(st.targets[0].id)}
        for node in ast.walk(tree):
            if isinstance(node, ast.Call) and isinstance(node.func, ast.Name) and node.func.id == "frozenset" \
                    and len(node.args) == 1 and isinstance(node.args[0], ast.Set) and not node.keywords \
                    and id(node) not in direct:
                node.func = ast.Name("__verif_frozenset__", ast.Load())
        ast.fix_missing_locations(tree)
        code = compile(tree, "<decompiled>", "exec")
        exec(code, g)
    except RecursionError as e:
        return None, w, f"RecursionError"
    except Exception as e:
        return None, w, f"{type(e).__name__}: {e}"
    return g.get(result_name), w, None


# ---------------------------------------------------------------- canonical values and events
class Canon:
    """Canonical S-expression of a value built from stand-ins and plain data.  Containers are
    compared structurally (by unfolding; a container met again on the current path prints as
    (cycle)); opaque call results are numbered through objmap so that identity of stand-in objects
    IS compared."""

    def __init__(self, objmap=None):
        self.objmap = objmap if objmap is not None else {}

    def obj(self, s):
        if s._kind == "g":
            m, n = s._id
            if m in BUILTINS_MODULES:
                m = "builtins"
            return f"(global {m} {n})"
        return f"(obj {self.objmap.setdefault(s._id, len(self.objmap))})"

    def val(self, v, path=()):
        if len(path) > 60:
            return "(deep)"
        if isinstance(v, Stub):
            return self.obj(v)
        if v is None or isinstance(v, (bool, int, str, bytes)):
            return repr(v)
        if isinstance(v, float):
            return "f" + struct.pack(">d", v).hex()
        if isinstance(v, (tuple, frozenset, list, set, dict)):
            if id(v) in path:
                return "(cycle)"
            path = path + (id(v),)
        if isinstance(v, tuple):
            return "(tuple " + " ".join(self.val(x, path) for x in v) + ")"
        if isinstance(v, frozenset):
            return "(frozenset " + " ".join(sorted(self.val(x, path) for x in v)) + ")"
        if isinstance(v, list):
            return "(list " + " ".join(self.val(x, path) for x in v) + ")"
        if isinstance(v, set):
            return "(set " + " ".join(sorted(self.val(x, path) for x in v)) + ")"
        if isinstance(v, dict):
            return "(dict " + " ".join(
                "(" + self.val(k, path) + " " + self.val(x, path) + ")" for k, x in v.items()) + ")"
        return f"(other {type(v).__name__})"


def canon_events(world, canon=None, kinds=("resolve", "call", "persload", "setstate", "setitem"),
                 skip_builtin_resolve=True):
    """Event log as canonical strings.  Object ids are renumbered by order of creation so the two
    sides (reference VM, decompiled program) are comparable."""
    c = canon or Canon()
    out = []
    for ev in world.events:
        if ev[0] not in kinds:
            continue
        if ev[0] == "resolve":
            if skip_builtin_resolve and ev[1] in BUILTINS_MODULES:
                continue
            out.append(f"resolve {ev[1]} {ev[2]}")
        elif ev[0] == "call":
            _, f, args, kw, k = ev
            c.objmap.setdefault(k, len(c.objmap))
            out.append("call " + c.val(f) + " (" + " ".join(c.val(a) for a in args) + ")" +
                       (" kw=" + c.val(kw) if kw else "") + f" -> {c.objmap[k]}")
        elif ev[0] == "persload":
            c.objmap.setdefault(ev[2], len(c.objmap))
            out.append("persload " + c.val(ev[1]) + f" -> {c.objmap[ev[2]]}")
        elif ev[0] == "setstate":
            out.append("setstate " + c.val(ev[1]) + " " + c.val(ev[2]))
        elif ev[0] == "setitem":
            out.append("setitem " + c.val(ev[1]) + " " + c.val(ev[2]) + " " + c.val(ev[3]))
    return out, c


# ---------------------------------------------------------------- renderers matching coq/model/ShowVM.v
DEPTH = 14


def _w(s):
    if not isinstance(s, (str, bytes)):
        return "(?nonstr)"
    return wire(s)


def render_const(v):
    if v is None:
        return "none"
    if isinstance(v, bool):
        return "(bool %s)" % ("T" if v else "F")
    if isinstance(v, int):
        return "(int %d)" % v
    if isinstance(v, float):
        return "(float h%s)" % struct.pack(">d", v).hex()
    if isinstance(v, str):
        return "(str %s)" % _w(v)
    if isinstance(v, (bytes, bytearray)):
        return "(bytes h%s)" % bytes(v).hex()
    return "(?const %s)" % type(v).__name__


def render_expr(e, fuel=DEPTH):
    if fuel == 0:
        return "(deep)"
    n = fuel - 1
    go = lambda x: render_expr(x, n)  # noqa: E731
    if isinstance(e, ast.Constant):
        return render_const(e.value)
    if isinstance(e, ast.Name):
        m = _VAR.match(e.id)
        if m:
            return "(var %d)" % int(m.group(1))
        return "(name %s)" % _w(e.id)
    if isinstance(e, ast.Tuple):
        return "(" + " ".join(["tuple"] + [go(x) for x in e.elts]) + ")"
    if isinstance(e, ast.List):
        return "(" + " ".join(["list"] + [go(x) for x in e.elts]) + ")"
    if isinstance(e, ast.Set):
        return "(" + " ".join(["set"] + [go(x) for x in e.elts]) + ")"
    if isinstance(e, ast.Dict):
        return "(" + " ".join(["dict"] + ["(%s %s)" % (go(k), go(v)) for k, v in zip(e.keys, e.values)]) + ")"
    if isinstance(e, ast.Call):
        kw = "-"
        if e.keywords:
            if len(e.keywords) == 1 and isinstance(e.keywords[0], ast.keyword) and e.keywords[0].arg is None:
                kw = go(e.keywords[0].value)
            else:
                kw = "(?keywords)"
        return "(call %s (%s) %s)" % (go(e.func), " ".join(go(a) for a in e.args), kw)
    if isinstance(e, ast.Starred):
        return "(star %s)" % go(e.value)
    if isinstance(e, ast.Attribute):
        return "(attr %s %s)" % (go(e.value), _w(e.attr))
    return "(?expr %s)" % type(e).__name__


def render_stmt(s):
    if isinstance(s, ast.ImportFrom) and len(s.names) == 1:
        return "(import %s %s)" % (_w(s.module), _w(s.names[0].name))
    if isinstance(s, ast.Assign) and len(s.targets) == 1:
        t = s.targets[0]
        if isinstance(t, ast.Name):
            m = _VAR.match(t.id)
            if m:
                return "(assign %d %s)" % (int(m.group(1)), render_expr(s.value))
            if t.id.startswith("result"):
                return "(result %s)" % render_expr(s.value)
        if isinstance(t, ast.Subscript) and isinstance(t.value, ast.Name) and _VAR.match(t.value.id):
            return "(setitem %d %s %s)" % (int(_VAR.match(t.value.id).group(1)), render_expr(t.slice),
                                           render_expr(s.value))
    if isinstance(s, ast.Expr):
        return "(expr %s)" % render_expr(s.value)
    return "(?stmt %s)" % type(s).__name__


def render_body(module):
    return " ".join(render_stmt(s) for s in module.body)


def render_val(v, fuel=DEPTH, norm=False):
    """mirrors ShowVM.show_val_gen: [norm] renders True/False as 1/0 (the comparison key of set members
    and dict keys); dict entries whose keys have the same comparison key are merged (first key, last
    value) -- for a real dict that only happens where the depth cut prints both keys as (deep)"""
    if fuel == 0:
        return "(deep)"
    n = fuel - 1
    go = lambda x: render_val(x, n, norm)  # noqa: E731
    if isinstance(v, Stub):
        if v._kind == "g":
            m, a = v._id
            if m in BUILTINS_MODULES:
                m = "builtins"
            return "(global %s %s)" % (_w(m), _w(a))
        return "(obj %d)" % v._id
    if isinstance(v, tuple):
        return "(" + " ".join(["tuple"] + [go(x) for x in v]) + ")"
    if isinstance(v, list):
        return "(" + " ".join(["list"] + [go(x) for x in v]) + ")"
    if isinstance(v, set):
        return "(" + " ".join(["set"] + sorted({go(x) for x in v})) + ")"
    if isinstance(v, frozenset):
        return "(" + " ".join(["frozenset"] + sorted({go(x) for x in v})) + ")"
    if isinstance(v, dict):
        acc = []
        for k, x in v.items():
            kk = render_val(k, n, True)
            for e in acc:
                if e[0] == kk:
                    e[2] = go(x)
                    break
            else:
                acc.append([kk, go(k), go(x)])
        return "(" + " ".join(["dict"] + ["(%s %s)" % (e[1], e[2]) for e in acc]) + ")"
    if norm and isinstance(v, bool):
        return render_const(int(v))
    return render_const(v)


def render_events(world):
    out = []
    for ev in world.events:
        if ev[0] == "resolve":
            out.append("(resolve %s %s)" % (_w(ev[1]), _w(ev[2])))
        elif ev[0] == "call":
            _, f, args, kw, k = ev
            out.append("(call %s (%s) %s %d)" % (render_val(f), " ".join(render_val(a) for a in args),
                                                 render_val(kw) if kw is not None else "-", k))
        elif ev[0] == "persload":
            out.append("(persload %s %d)" % (render_val(ev[1]), ev[2]))
        elif ev[0] == "setstate":
            out.append("(setstate %s %s)" % (render_val(ev[1]), render_val(ev[2])))
        elif ev[0] == "setitem":
            out.append("(setitem %s %s %s)" % (render_val(ev[1]), render_val(ev[2]), render_val(ev[3])))
    return " ".join(out)


def real_fk_run(data):
    """'OK <body>' / 'ERR' for the real decompiler"""
    from fickling.fickle import Interpreter, Pickled
    try:
        p = Pickled.load(data)
    except Exception:
        return "PARSE-ERR"
    try:
        mod = Interpreter(p).to_ast()
    except RecursionError:
        return "ERR"
    except Exception:
        return "ERR"
    try:
        return "OK " + render_body(mod)
    except Exception:       # garbage ASTs (marks or AST nodes used as names): outside the model
        return "RENDER-ERR"


def real_vm_run(data):
    tr, val, w, ok = vm_trace(data)
    if not ok:
        return "ERR"
    try:
        return "OK " + render_val(val) + " | " + render_events(w)
    except Exception:
        return "RENDER-ERR"


# ---------------------------------------------------------------- C05 layer B: exec of the decompile
def real_py_eval(data):
    """'OK <value> | <events>' of exec(ast.unparse(Pickled.load(data).ast)) under the inert stand-ins
    (rendered like real_vm_run), 'ERR' when the program raises, 'NORESULT' when it binds no result,
    'PARSE-ERR' / 'FK-ERR' / 'SKIP' when there is no decompiled program to run."""
    from fickling.fickle import Pickled
    try:
        p = Pickled.load(data)
    except Exception:
        return "PARSE-ERR"
    try:
        module = p.ast
    except RecursionError:
        return "SKIP"
    except Exception:
        return "FK-ERR"
    try:
        src = ast.unparse(module)
    except RecursionError:
        return "SKIP"                # cyclic / very deep AST: no finite print-out
    except Exception:
        return "RENDER-ERR"
    try:
        ast.parse(src)
    except SyntaxError:
        return "SKIP"                # the decompiled text is not Python (finding D19): nothing to evaluate
    except Exception:
        return "SKIP"
    rv, w, err = exec_decompiled(src)
    if err:
        return "SKIP" if err == "RecursionError" else "ERR"
    if not any(isinstance(st, ast.Assign) and isinstance(st.targets[0], ast.Name)
               and st.targets[0].id == "result" for st in module.body):
        return "NORESULT"
    try:
        return "OK " + render_val(rv) + " | " + render_events(w)
    except Exception:
        return "RENDER-ERR"
