"""C10 -- all faces of the safety check agree on the same per-pickle severity."""
import contextlib
import io
import json
import os
import shutil
import sys

from harness import asm
from harness.common import BUILD, Check, Driver, report_broken_obligations, sx

DOC = ["LIKELY_SAFE", "POSSIBLY_UNSAFE", "SUSPICIOUS", "LIKELY_UNSAFE",
       "LIKELY_OVERTLY_MALICIOUS", "OVERTLY_MALICIOUS"]
OPS = ["lt", "le", "eq", "ne", "gt", "ge"]


def real_ops(a, b):
    import operator
    return [bool(getattr(operator, o)(a, b)) for o in OPS]


def gen_file(rng, kmax=4):
    k = rng.randrange(1, kmax + 1)
    parts, labels = [], []
    for _ in range(k):
        if rng.random() < 0.45:
            parts.append(asm.fam_benign(rng))
            labels.append("benign")
        else:
            b, lab = asm.fam_flagged(rng)
            parts.append(b)
            labels.append(lab)
    return parts, labels


def parse_json_docs(text):
    docs, dec, i = [], json.JSONDecoder(), 0
    while i < len(text):
        while i < len(text) and text[i].isspace():
            i += 1
        if i >= len(text):
            break
        d, j = dec.raw_decode(text, i)
        docs.append(d)
        i = j
    return docs


def observe(parts, scratch, opt):
    """Run every face of the real implementation on the file made of `parts`."""
    import fickling
    from fickling import cli
    from fickling.analysis import Severity, check_safety
    from fickling.exception import UnsafeFileError
    from fickling.fickle import StackedPickle
    sevs = list(Severity)
    data = b"".join(parts)
    path = os.path.join(scratch, "in.pkl")
    with open(path, "wb") as f:
        f.write(data)
    try:
        sp = StackedPickle.load(data)
    except Exception:
        return None  # fickling refuses the file: outside the quantifier of C10
    findings = [[sevs.index(r.severity) for r in check_safety(p).results] for p in sp]
    lib_sev = [check_safety(p).severity.name for p in sp]
    obs = {"findings": findings, "lib": lib_sev, "n": len(parts)}
    # bool(results): "True if all analyses failed to find any unsafe operations"
    bools = []
    for p in sp:
        try:
            bools.append(bool(check_safety(p)))
        except Exception as e:
            bools.append(f"raised {type(e).__name__}: {e}")
    obs["bool"] = bools
    # the severity a report carries does not depend on how verbose the report is asked to be
    vs, vj = [], []
    for p in sp:
        row, jrow = [], []
        for v in sevs:
            row.append(check_safety(p).to_dict(v).get("severity"))
            jp = os.path.join(scratch, "verbosity.json")
            if os.path.exists(jp):
                os.remove(jp)
            check_safety(p, verbosity=v, json_output_path=jp)
            docs = parse_json_docs(open(jp).read()) if os.path.exists(jp) else []
            jrow.append(docs[0].get("severity") if len(docs) == 1 else f"<{len(docs)} documents>")
        vs.append(row)
        vj.append(jrow)
    obs["verbosity_dict"], obs["verbosity_json"] = vs, vj
    obs["ils"] = bool(fickling.is_likely_safe(path))
    loader = []
    for thr in sevs:
        try:
            with open(path, "rb") as f:
                fickling.load(f, max_acceptable_severity=thr)
            loader.append((False, None))
        except UnsafeFileError as e:
            loader.append((True, e.info.get("severity") if isinstance(e.info, dict) else None))
    obs["loader"] = loader
    # CLI
    cwd = os.getcwd()
    os.chdir(scratch)
    try:
        for fn in ("out.json", "safety_results.json"):
            if os.path.exists(fn):
                os.remove(fn)
        argv = ["fickling", "--check-safety", path]
        report = "safety_results.json"
        if opt.get("json"):
            argv += ["--json-output", "out.json"]
            report = "out.json"
        if opt.get("print"):
            argv += ["--print-results"]
        so, se = io.StringIO(), io.StringIO()
        with contextlib.redirect_stdout(so), contextlib.redirect_stderr(se):
            rc = cli.main(argv)
        obs["cli_rc"] = rc
        obs["cli_json"] = [d.get("severity") for d in parse_json_docs(open(report).read())] \
            if os.path.exists(report) else None
    finally:
        os.chdir(cwd)
    return obs


def oracle(obs):
    """Model-free statement of C10 on one observation; returns a description of what fails or None."""
    ranks = [max([f for f in fs], default=0) for fs in obs["findings"]]
    # finding indices are enum definition order; the documented rank of each name:
    from fickling.analysis import Severity
    names = [s.name for s in Severity]
    def dr(i):
        return DOC.index(names[i])
    ranks = [max([dr(f) for f in fs], default=0) for fs in obs["findings"]]
    if [DOC[r] for r in ranks] != obs["lib"]:
        return f"library verdict {obs['lib']} is not the max of the findings {[DOC[r] for r in ranks]}"
    for i, r in enumerate(ranks):
        if obs["bool"][i] is not (r == 0):
            return f"bool(check_safety(pickle {i})) = {obs['bool'][i]!r} but its severity is {DOC[r]}"
    if obs["ils"] != (ranks[0] == 0):
        return f"is_likely_safe={obs['ils']} but first pickle severity is {DOC[ranks[0]]}"
    for ti, (raised, sevname) in enumerate(obs["loader"]):
        t = dr(ti)
        if raised != (ranks[0] > t):
            return f"loader raised={raised} at threshold {DOC[t]} for severity {DOC[ranks[0]]}"
        if raised and sevname != DOC[ranks[0]]:
            return f"UnsafeFileError carries severity {sevname}, verdict is {DOC[ranks[0]]}"
    if (obs["cli_rc"] == 0) != all(r == 0 for r in ranks):
        return f"CLI exit {obs['cli_rc']} for per-pickle severities {[DOC[r] for r in ranks]}"
    if obs["cli_rc"] not in (0, 1):
        return f"CLI exit {obs['cli_rc']}"
    if obs["cli_json"] != [DOC[r] for r in ranks]:
        return f"JSON report severities {obs['cli_json']} vs {[DOC[r] for r in ranks]}"
    for i, r in enumerate(ranks):
        for key in ("verbosity_dict", "verbosity_json"):
            row = (obs.get(key) or [[]] * len(ranks))[i]
            if any(x != DOC[r] for x in row):
                return (f"{key}: pickle {i} has severity {DOC[r]} but its report says {row} for verbosity "
                        f"= each Severity in definition order")
    return None


def model_expect(drv, obs_list):
    lines = []
    for obs in obs_list:
        for thr in range(6):
            lines.append(sx(["sev_faces", thr, obs["findings"]]))
    out = drv.query(lines)
    res = []
    for i, obs in enumerate(obs_list):
        res.append(out[i * 6:(i + 1) * 6])
    return res


def real_faces_line(obs, thr):
    first_raise = obs["loader"][thr][0]
    names = " ".join(obs["cli_json"] or ["<no-report>"])
    b = obs["bool"][0]
    return (f"(faces {'T' if obs['ils'] else 'F'} {('T' if b else 'F') if isinstance(b, bool) else '<' + b + '>'} "
            f"{'T' if first_raise else 'F'} {obs['cli_rc']} ({names}))")


def main(tier, seed):
    chk = Check("C10", tier, seed)
    chk.rule = ("exhaustive: all 36 ordered pairs of live Severity members x 6 operators vs the model; "
                "differential: files of 1..4 stacked pickles from benign/flagged families x CLI options; "
                "a case is non-trivial when it has >=1 finding; distinct by (labels, options)")
    built = chk.regen_and_build(["proofs/SeverityProofs.vo"])
    if built:
        chk.prove()
    scratch = os.path.join(BUILD, "scratch", f"c10-{os.getpid()}")
    os.makedirs(scratch, exist_ok=True)
    bad_cases = []
    try:
        from fickling.analysis import Severity
        sevs = list(Severity)
        # ---- exhaustive operator tie ----
        if built:
            drv = Driver()
            lines = [sx(["sev_ops", i, j]) for i in range(len(sevs)) for j in range(len(sevs))]
            lines += [sx(["sev_name", i]) for i in range(len(sevs))]
            out = drv.query(lines)
            k = 0
            mism = []
            for i, a in enumerate(sevs):
                for j, b in enumerate(sevs):
                    real = " ".join("T" if x else "F" for x in real_ops(a, b))
                    chk.count()
                    chk.nontriv(("ops", i, j))
                    if real != out[k]:
                        mism.append({"pair": [a.name, b.name], "ops": OPS, "real": real, "model": out[k]})
                    k += 1
            for i, a in enumerate(sevs):
                if out[k] != a.name:
                    mism.append({"name": a.name, "model": out[k]})
                k += 1
            chk.oblige("correspondence: Severity operators, all pairs x 6 operators (exhaustive)",
                       not mism, json.dumps(mism[:5]))
            bad_cases += [{"kind": "ops", **m} for m in mism]
            chk.sample({"pair": [sevs[1].name, sevs[3].name], "ops": OPS,
                        "real": real_ops(sevs[1], sevs[3])})
        # ---- faces ----
        n = 60 if tier == "quick" else 1500
        obs_list, meta = [], []
        for it in range(n):
            parts, labels = gen_file(chk.rng)
            opt = {"json": chk.rng.random() < 0.6, "print": chk.rng.random() < 0.3}
            try:
                obs = observe(parts, scratch, opt)
            except Exception as e:
                bad_cases.append({"kind": "faces-crash", "parts": [p.hex() for p in parts],
                                  "error": f"{type(e).__name__}: {e}"})
                continue
            if obs is None:
                chk.stats["refused-by-parser"] = chk.stats.get("refused-by-parser", 0) + 1
                continue
            obs_list.append(obs)
            meta.append((parts, labels, opt))
            chk.count()
            if any(obs["findings"]):
                chk.nontriv((tuple(labels), opt["json"], opt["print"]))
            for l in labels:
                chk.stats[l.split(":")[0]] = chk.stats.get(l.split(":")[0], 0) + 1
        if built and obs_list:
            exp = model_expect(Driver(), obs_list)
            mism = []
            for obs, (parts, labels, opt), e in zip(obs_list, meta, exp):
                for thr in range(6):
                    r = real_faces_line(obs, thr)
                    if r != e[thr]:
                        mism.append({"kind": "faces", "labels": labels, "opt": opt, "thr": thr,
                                     "parts": [p.hex() for p in parts], "real": r, "model": e[thr]})
                        break
            chk.oblige(f"correspondence: faces (is_likely_safe, loader x6 thresholds, CLI exit, JSON) "
                       f"on {len(obs_list)} stacked files", not mism, json.dumps(mism[:3]))
            bad_cases += mism
            parts, labels, opt = meta[0]
            chk.sample({"labels": labels, "opt": opt, "findings": obs_list[0]["findings"],
                        "faces@LIKELY_SAFE": real_faces_line(obs_list[0], 0)})
        # the property itself, model-free, on every observed file (incl. the report's severity under every
        # verbosity, which the face lines sent to the model do not carry)
        orc_bad = [w for w in (oracle(o) for o in obs_list) if w]
        chk.oblige(f"property oracle (model-free) holds on all {len(obs_list)} observed files", not orc_bad,
                   json.dumps(orc_bad[:3]))
        # crashes of a face are failures of the correspondence too
        crashes = [c for c in bad_cases if c["kind"] == "faces-crash"]
        if crashes:
            chk.oblige("faces run without crashing on generated files", False, json.dumps(crashes[:3]))

        def search():
            # model-free oracle: first the disagreeing inputs, then the whole generated corpus
            for c in bad_cases:
                if c["kind"] == "ops":
                    if "pair" in c:
                        return {"oracle": "operator result differs from documented ranking", **c}
                if c["kind"] == "faces":
                    parts = [bytes.fromhex(h) for h in c["parts"]]
                    obs = observe(parts, scratch, c["opt"])
                    why = oracle(obs)
                    if why:
                        return {"oracle": why, "parts": c["parts"], "opt": c["opt"], "labels": c["labels"]}
                if c["kind"] == "faces-crash":
                    return {"oracle": "a face of the safety check crashed", **c}
            for i, a in enumerate(sevs):
                for j, b in enumerate(sevs):
                    want = [DOC.index(a.name) < DOC.index(b.name), DOC.index(a.name) <= DOC.index(b.name),
                            a.name == b.name, a.name != b.name,
                            DOC.index(a.name) > DOC.index(b.name), DOC.index(a.name) >= DOC.index(b.name)]
                    if real_ops(a, b) != want:
                        return {"oracle": "operator result differs from documented ranking",
                                "pair": [a.name, b.name], "ops": OPS, "real": real_ops(a, b), "want": want}
            for obs, (parts, labels, opt) in zip(obs_list, meta):
                why = oracle(obs)
                if why:
                    return {"oracle": why, "parts": [p.hex() for p in parts], "opt": opt, "labels": labels}
            return None

        report_broken_obligations(chk, search)
    finally:
        shutil.rmtree(scratch, ignore_errors=True)
    return chk.finish()


def replay(path):
    doc = json.load(open(path))
    case = doc.get("case")
    if not case or "parts" not in case:
        print("replay: no concrete input recorded; re-running the quick check")
        return main("quick", doc.get("seed", 0))
    scratch = os.path.join(BUILD, "scratch", f"c10-replay-{os.getpid()}")
    os.makedirs(scratch, exist_ok=True)
    try:
        obs = observe([bytes.fromhex(h) for h in case["parts"]], scratch, case.get("opt", {}))
        why = oracle(obs)
    finally:
        shutil.rmtree(scratch, ignore_errors=True)
    if why:
        print(f"VIOLATION property=C10 replay={path}")
        print(why)
        return 1
    print("replay: the recorded case no longer fails")
    return 0
