"""C11 -- user allowlist additions do not outlive or leak beyond their activation.

Theorems: coq/props/C11.v over coq/model/Allowlist.v (heap of inner dicts; copy_deep = the fixed
FicklingMLUnpickler.__init__, copy_shallow = the pinned one, defect D4).  Tie: extracted model vs
the real fickling.hook / fickling.ml on the same histories, every history in its own forked
process (harness/c11_child.py); observed after every step: deep comparison of ML_ALLOWLIST with
its initial snapshot (+ which entries differ), allowed/blocked outcome of probe loads.
Oracle (model-free): the two-variable reference (BASE snapshot, current additions)."""
import json
import os
import subprocess
from concurrent.futures import ThreadPoolExecutor

from harness.common import PY, VERIF, Check, Driver, env_child, report_broken_obligations, sx, wire

CHILD = os.path.join(VERIF, "harness", "c11_child.py")
VOCAB = [("collections", "OrderedDict"),    # built in
         ("collections", "Counter"),        # new member of an allow-listed module
         ("collections", "deque"),          # another one
         ("fractions", "Fraction"),         # module not in the table
         ("decimal", "Decimal"),            # another one
         ("numpy", "zeros"),                # new member of an allow-listed module
         ("numpy.core.multiarray", "scalar"),  # new member of an allow-listed DOTTED module
         ("verif_sink", "record")]          # never added
ADDS = [None,                                                    # none
        ["fractions.Fraction"],                                  # new module
        ["collections.Counter"],                                 # new member of an allow-listed module
        ["decimal.Decimal", "numpy.zeros", "collections.deque", "numpy.core.multiarray.scalar"],  # both
        ["collections.OrderedDict"],                             # re-adds a built-in entry
        ["decimal.Decimal", "decimal.Context", "collections.Counter", "collections.Counter"],
        []]
NEXH = 4          # addition sets used by the bounded-exhaustive part


def split(d):
    m, n = d.rsplit(".", 1)
    return (m, n)


def pairs(i):
    return [split(a) for a in (ADDS[i] or [])]


def enumerate_histories(maxlen):
    alphabet = [["act", i] for i in range(NEXH)] + ["deact"] + [["cons", j] for j in range(NEXH)] + ["pall"]
    out = []

    def rec(h):
        if h:
            out.append(h + ["pall", "iall"])
        if len(h) == maxlen:
            return
        for op in alphabet:
            if op == "pall" and h and h[-1] == "pall":
                continue       # idempotent on the model's observable state; keeps the set small
            rec(h + [op])

    rec([])
    return out


def random_history(rng, maxlen):
    n = rng.randrange(5, maxlen + 1)
    h, ninst = [], 0
    for _ in range(n):
        r = rng.random()
        if r < 0.25:
            h.append(["acts" if rng.random() < 0.35 else "act", rng.randrange(len(ADDS))])
        elif r < 0.37:
            h.append("deact")
        elif r < 0.55:
            h.append(["conss" if rng.random() < 0.35 else "cons", rng.randrange(len(ADDS))])
            ninst += 1
        elif r < 0.70:
            h.append("pall")
        elif r < 0.88:
            h.append(["probe", rng.randrange(len(VOCAB))])
        elif ninst:
            h.append(["iprobe", rng.randrange(ninst), rng.randrange(len(VOCAB))])
        else:
            h.append("pall")
    return h + ["pall", "iall"]


def gsx(g):
    return [wire(g[0]), wire(g[1])]


def op_sx(op):
    if isinstance(op, str):
        return op
    if op[0] in ("act", "cons", "acts", "conss"):
        # "acts" / "conss": the caller hands over ONE list object that it edits in place between calls --
        # to the model (and to the property) that is the same as a fresh list with those contents
        return [{"acts": "act", "conss": "cons"}.get(op[0], op[0]), [gsx(g) for g in pairs(op[1])]]
    if op[0] == "probe":
        return ["probe", gsx(VOCAB[op[1]])]
    if op[0] == "iprobe":
        return ["iprobe", op[1], gsx(VOCAB[op[2]])]
    raise ValueError(op)


def model_lines(drv, histories, mode="deep"):
    voc = [gsx(g) for g in VOCAB]
    qs = [sx(["allow", mode, voc, [op_sx(o) for o in h]]) for h in histories]
    return [l.split("|") for l in drv.query(qs)]


def run_child(histories):
    job = {"adds": ADDS, "vocab": VOCAB, "histories": histories}
    p = subprocess.run([PY, CHILD], input=json.dumps(job), capture_output=True, text=True,
                       env=env_child({"PYTHONDONTWRITEBYTECODE": "1"}), timeout=3000, cwd=VERIF)
    lines = [l for l in p.stdout.splitlines() if l.startswith("{")]
    if p.returncode != 0 or not lines:
        raise RuntimeError(f"c11 child failed rc={p.returncode}: {p.stderr[-800:]}")
    return json.loads(lines[-1])


def run_children(histories, nchunk=14):
    chunks = [histories[i::nchunk] for i in range(nchunk)]
    chunks = [c for c in chunks if c]
    with ThreadPoolExecutor(max_workers=nchunk) as ex:
        res = list(ex.map(run_child, chunks))
    runs = []
    for c, r in zip(chunks, res):
        runs += list(zip(c, r["runs"]))
    return runs, res[0]["base"]


# ---------------------------------------------------------------- the property itself (model-free)
def oracle(hist, steps, base):
    """two-variable reference: BASE (snapshot taken before the history) and the additions of the
    activation currently in force.  Returns (why, step) or None."""
    def permitted(g, a):
        return g[1] in base.get(g[0], ()) or g in a
    cur = None
    inst = []
    for i, (op, line) in enumerate(zip(hist, steps)):
        if line.startswith("!"):
            return (f"operation {op} raised {line[1:]}", i)
        k = op if isinstance(op, str) else op[0]
        k = {"acts": "act", "conss": "cons"}.get(k, k)
        if k == "act":
            cur = pairs(op[1])
        elif k == "deact":
            cur = None
        elif k == "cons":
            inst.append(pairs(op[1]))
        cut = line.index("]") + 1
        head, extra = line[:cut], line[cut + 1:]
        if not head.startswith("T"):
            return (f"the module-level ML_ALLOWLIST was altered: {head[1:]}", i)
        want = None
        if k == "pall":
            want = "".join("U" if cur is None else ("A" if permitted(g, cur) else "B") for g in VOCAB)
        elif k == "probe":
            g = VOCAB[op[1]]
            want = "U" if cur is None else ("A" if permitted(g, cur) else "B")
        elif k == "iall":
            want = "/".join("".join("A" if permitted(g, a) else "B" for g in VOCAB) for a in inst)
        elif k == "iprobe":
            want = "A" if permitted(VOCAB[op[2]], inst[op[1]]) else "B"
        if want is not None and extra != want:
            what = ("activation with additions %s" % (cur,)) if k in ("pall", "probe") else "instances %s" % (inst,)
            return (f"permitted set is not BASE + current additions ({what}): observed {extra}, "
                    f"expected {want} over {['.'.join(g) for g in VOCAB]}", i)
    return None


def split_strings(rng, n=300):
    """addition strings: the ones the histories use, C07's, and made-up dotted names with 0..4 dots (empty
    segments included) under a root that cannot be imported"""
    out = [a for adds in ADDS if adds for a in adds]
    out += ["collections.abc.Mapping", "pickle.loads", "_pickle.loads", "verif_sink.record", "nodot", "", ".", "a.", ".a"]
    segs = ["a", "b", "loader", "x1", "", "Mapping", "abc"]
    for _ in range(n):
        k = rng.randrange(0, 5)
        out.append(".".join(["zzverifroot"] + [rng.choice(segs) for _ in range(k)]))
    seen, uniq = set(), []
    for s in out:
        if s not in seen:
            seen.add(s)
            uniq.append(s)
    return uniq


def split_correspondence(chk):
    strings = split_strings(chk.rng)
    p = subprocess.run([PY, CHILD], input=json.dumps({"splits": strings}), capture_output=True, text=True,
                       env=env_child({"PYTHONDONTWRITEBYTECODE": "1"}), timeout=600, cwd=VERIF)
    lines = [l for l in p.stdout.splitlines() if l.startswith("{")]
    if p.returncode != 0 or not lines:
        return [{"error": f"child failed rc={p.returncode}: {p.stderr[-400:]}"}], 0
    real = json.loads(lines[-1])["splits"]
    from harness.common import wire
    model = Driver().query([sx(["split_adds"] + [wire(s) for s in strings])])[0].split("|") if strings else []
    import fickling.ml as fml
    bad = []
    for s, r, m in zip(strings, real, model):
        if m == "ERR":
            want = "ERR"
        else:
            mh, nh = m.split(",")
            mm, nn = bytes.fromhex(mh[1:]).decode(), bytes.fromhex(nh[1:]).decode()
            cut = len(mm)
            want = [] if nn in fml.ML_ALLOWLIST.get(mm, ()) else [cut]
        got = "ERR" if isinstance(r, str) and r.startswith("ERR") else r
        if got != want:
            bad.append({"addition": s, "model_split": m, "model_permits_cut_at": want, "real_permits_cuts_at": r})
        chk.count()
    chk.stats["addition strings split"] = len(strings)
    return bad, len(strings)


def mlan_programs(rng, n=200):
    """pickles whose imports the table-consulting analysis judges: one / several globals from the vocabulary,
    from allow-listed modules (right and wrong names) and from unknown modules; imported only or called"""
    from harness import asm
    import fickling.ml as fml
    known = [(m, n) for m, d in list(fml.ML_ALLOWLIST.items())[:40] for n in list(d)[:2]]
    wrong = [(m, "zz_not_listed") for m in list(fml.ML_ALLOWLIST)[:12]]
    pool = [tuple(g) for g in VOCAB] + known + wrong + [("zzverifroot.mod", "f"), ("os", "getcwd")]
    progs_ = []
    for g in pool:
        progs_.append([("GLOBAL", g), "STOP"])
        progs_.append([("PROTO", 2), ("GLOBAL", g), "EMPTY_TUPLE", "REDUCE", "STOP"])
    for _ in range(n):
        gs = [rng.choice(pool) for _ in range(rng.randrange(2, 6))]
        p = ["MARK"]
        for g in gs:
            p.append(("GLOBAL", g))
            if rng.random() < 0.4:
                p += ["EMPTY_TUPLE", "REDUCE"]
        progs_.append(p + ["TUPLE", "STOP"])
    return [asm.assemble(p) for p in progs_]


def mlan_correspondence(chk):
    """ml.MLAllowlist (the static analysis that consults ML_ALLOWLIST) vs the model's MLAllowlist analysis over the
    regenerated table -- fresh, while an environment with additions is active, and after deactivation"""
    from harness import anlib
    datas = mlan_programs(chk.rng)
    adds = sorted({a for ad in ADDS if ad for a in ad} | {".".join(g) for g in VOCAB})
    p = subprocess.run([PY, CHILD], input=json.dumps({"mlan": [d.hex() for d in datas], "adds": adds}),
                       capture_output=True, text=True, env=env_child({"PYTHONDONTWRITEBYTECODE": "1"}),
                       timeout=900, cwd=VERIF)
    lines = [l for l in p.stdout.splitlines() if l.startswith("{")]
    if p.returncode != 0 or not lines:
        return [{"error": f"child failed rc={p.returncode}: {p.stderr[-400:]}"}], [], 0
    real = json.loads(lines[-1])["mlan"]
    qs, idx = [], []
    for i, d in enumerate(datas):
        mi = anlib.model_inputs(d)
        if mi is not None:
            ops, protos, stds, reprs = mi
            qs.append(sx(["analyze_with", [wire("MLAllowlist")], ops, protos, stds, reprs]))
            idx.append(i)
    model = Driver().query(qs)
    bad, leak = [], []
    for j, i in enumerate(idx):
        for phase in ("fresh", "active", "after"):
            r = real[phase][i]
            if r != real["fresh"][i]:
                leak.append({"hex": datas[i].hex(), "phase": phase, "fresh": real["fresh"][i][:300], "then": r[:300]})
            if r != model[j] and not (model[j].startswith("ERR") and r == "ERR"):
                bad.append({"hex": datas[i].hex(), "phase": phase, "real": r[:300], "model": model[j][:300]})
        chk.count()
    chk.stats["table-consulting analysis (MLAllowlist) programs"] = len(idx)
    return bad, leak, len(idx)


def split_oracle(b):
    """C11 on one addition string, model-free: the permitted set is EXACTLY built-in + the addition, so of all
    the ways to read the text s as (module, name) only the cut at the last dot may be permitted through it"""
    s, real = b["addition"], b["real_permits_cuts_at"]
    if not isinstance(real, list) or "." not in s:
        return None          # the constructor raised / nothing to cut: no pair is permitted, the property holds
    last = s.rindex(".")
    extra = [i for i in real if i != last]
    if extra:
        def pair(i):
            return (s[:last].rsplit(".", 1)[0], s[last + 1:]) if i == -1 else (s[:i], s[i + 1:])
        return (f"addition {s!r} also permits {[pair(i) for i in extra]} besides its own pair "
                f"{(s[:last], s[last + 1:])}: not in the built-in table and never added")
    return None


def shrink(hist, budget=60):
    """greedy deletion of operations while the oracle still fails (each trial in a fresh fork)"""
    cur = list(hist)
    i = 0
    while i < len(cur) and budget > 0:
        cand = cur[:i] + cur[i + 1:]
        if cand and not any(o[0] == "iprobe" for o in cand if not isinstance(o, str)):
            budget -= 1
            res = run_child([cand])
            if oracle(cand, res["runs"][0], res["base"]):
                cur = cand
                continue
        i += 1
    return cur


def main(tier, seed):
    chk = Check("C11", tier, seed)
    quick = tier == "quick"
    maxlen = 4 if quick else 5
    chk.rule = (f"bounded-exhaustive: every history of length <= {maxlen} over {{activate(A0..A3), deactivate, "
                "construct-unpickler(A0..A3), probe-all}} (A0 none, A1 new module, A2 new member of an allow-listed "
                "module, A3 both), each followed by probe-all + probe-every-instance; random: histories of length "
                "5..30 over 7 addition sets (incl. re-adding a built-in entry, duplicates) with single probes and "
                "instance probes.  Every history runs in its own forked process.  Observed after every step: deep "
                "equality of ML_ALLOWLIST with its initial snapshot + differing entries; allowed/blocked/unmediated "
                "outcome of probe loads over 7 globals.  non-trivial = some activation or instance with additions "
                "precedes a probe; distinct by the observation sequence")
    built = chk.regen_and_build(["proofs/AllowlistProofs.vo"])
    if built:
        chk.prove()
    exh = enumerate_histories(maxlen)
    rnd = [random_history(chk.rng, 30) for _ in range(150 if quick else 3000)]
    # targeted: ONE list object edited in place between activations / constructions
    for a, b in ((1, 2), (2, 1), (3, 0), (1, 6)):
        rnd.append([["acts", a], "pall", "deact", ["acts", b], "pall", "iall"])
        rnd.append([["conss", a], ["conss", b], ["acts", a], "pall", "iall"])
        rnd.append([["acts", a], ["acts", b], "pall", ["conss", a], "pall", "iall"])
    chk.stats["exhaustive_histories"] = len(exh)
    chk.stats["random_histories"] = len(rnd)
    bad = []
    base = {}
    runs_all = []
    try:
        exh_runs, base = run_children(exh)
        rnd_runs, _ = run_children(rnd)
        ran = True
    except Exception as e:  # noqa: BLE001
        chk.oblige("implementation side ran (children)", False, f"{type(e).__name__}: {e}")
        exh_runs, rnd_runs, ran = [], [], False
    if ran:
        import fickling.ml as fml
        voc_ok = ([g[1] in fml.ML_ALLOWLIST.get(g[0], ()) for g in VOCAB] ==
                  [True] + [False] * (len(VOCAB) - 1)
                  and "numpy" in fml.ML_ALLOWLIST and "fractions" not in fml.ML_ALLOWLIST
                  and "decimal" not in fml.ML_ALLOWLIST)
        chk.stats["vocabulary_as_intended"] = voc_ok
    if ran and built:
        drv = Driver()
        for name, runs in (("bounded-exhaustive", exh_runs), ("random", rnd_runs)):
            hs = [h for h, _ in runs]
            ml = model_lines(drv, hs, "deep")
            mism = []
            for (h, steps), lines in zip(runs, ml):
                chk.count(len(steps))
                if any((not isinstance(o, str)) and o[0] in ("act", "cons") and ADDS[o[1]] for o in h[:-2]):
                    chk.nontriv("|".join(steps))
                for o in h:
                    k = o if isinstance(o, str) else o[0]
                    chk.stats.setdefault("ops", {}).setdefault(k, 0)
                    chk.stats["ops"][k] += 1
                if steps != lines:
                    i = next((j for j, (a, b) in enumerate(zip(steps, lines)) if a != b), min(len(steps), len(lines)))
                    mism.append({"history": h, "step": i,
                                 "real": steps[i] if i < len(steps) else None,
                                 "model": lines[i] if i < len(lines) else None})
            detail = json.dumps(mism[:3])
            if mism:
                # which variant does the code implement?
                sh = model_lines(drv, [m["history"] for m in mism[:50]], "shallow")
                look = {json.dumps(h): st for h, st in runs}
                agree = sum(1 for m, l in zip(mism[:50], sh) if look[json.dumps(m["history"])] == l)
                detail = (f"{len(mism)} histories disagree with copy_deep; {agree}/{min(50, len(mism))} of them agree "
                          f"with copy_shallow (defect D4: inner dicts shared). " + detail)
            chk.oblige(f"correspondence: Allowlist model (copy_deep) vs real hook/ml, {name}: {len(runs)} histories",
                       not mism, detail)
            bad += mism
            runs_all += runs
        if exh_runs:
            h, steps = exh_runs[len(exh_runs) // 3]
            chk.sample({"history": h, "observed": steps})
        if rnd_runs:
            h, steps = rnd_runs[0]
            chk.sample({"history": h[:10], "observed": steps[:10]})
    # the glue between the caller's addition STRINGS and the pairs of the model: rsplit(".", 1)
    if built:
        split_bad, nsplit = split_correspondence(chk)
        so_bad = [w for w in (split_oracle(b) for b in split_bad) if w]
        chk.oblige("property oracle (model-free): no addition string permits a pair other than its own", not so_bad,
                   json.dumps(so_bad[:3]))
        chk.oblige(f"correspondence: addition string -> permitted (module, name) pair, model AddSplit.rsplit_dot vs "
                   f"find_class of FicklingMLUnpickler(also_allow=[s]) on every cut of s, {nsplit} strings",
                   not split_bad, json.dumps(split_bad[:3]))
        bad += split_bad
    if built:
        an_bad, an_leak, nan = mlan_correspondence(chk)
        chk.oblige("property oracle (model-free): the table-consulting static analysis answers the same before, "
                   "during and after an activation with additions", not an_leak, json.dumps(an_leak[:3]))
        chk.oblige(f"correspondence: ml.MLAllowlist analysis vs the model's MLAllowlist over the regenerated table, "
                   f"{nan} programs x 3 phases", not an_bad, json.dumps(an_bad[:3]))
        bad += an_leak + an_bad
    # the property itself, model-free, on every observed history (two-variable model: BASE, current additions)
    orc_bad = []
    for h, steps in runs_all:
        r = oracle(h, steps, base)
        if r:
            orc_bad.append({"history": h, "oracle": r[0], "step": r[1]})
    if runs_all:
        chk.oblige(f"property oracle (model-free) holds on all {len(runs_all)} observed histories", not orc_bad,
                   json.dumps(orc_bad[:3])[:1500])
        bad += orc_bad
    chk.extra["bounds"] = {"exhaustive_max_length": maxlen, "random_max_length": 30,
                           "addition_sets": ADDS, "vocabulary": [".".join(g) for g in VOCAB]}

    def search():
        seen = set()
        # an addition that permits a pair other than its own rsplit is a concrete input for the property
        for b in bad:
            if "phase" in b and "then" in b:
                return {"oracle": "the static analysis that consults the built-in allowlist answers differently "
                                  f"{b['phase']} an activation with additions", **b}
            why = split_oracle(b) if "addition" in b else None
            if why:
                return {"oracle": why, "addition": b["addition"], "real_permits_cuts_at": b["real_permits_cuts_at"]}
        cands = [b["history"] for b in bad if "history" in b] + [h for h, _ in runs_all]
        lookup = {json.dumps(h): s for h, s in runs_all}
        for h in cands:
            key = json.dumps(h)
            if key in seen:
                continue
            seen.add(key)
            steps = lookup.get(key)
            if steps is None:
                res = run_child([h])
                steps = res["runs"][0]
            r = oracle(h, steps, base)
            if r:
                small = shrink(h[: r[1] + 1])
                res = run_child([small])
                r2 = oracle(small, res["runs"][0], res["base"]) or r
                return {"oracle": r2[0], "history": small, "step": r2[1], "observed": res["runs"][0],
                        "adds_table": ADDS, "vocabulary": [".".join(g) for g in VOCAB],
                        "original_history": h}
        return None

    report_broken_obligations(chk, search)
    return chk.finish()


def replay(path):
    doc = json.load(open(path))
    case = doc.get("case")
    if case and "addition" in case:
        p = subprocess.run([PY, CHILD], input=json.dumps({"splits": [case["addition"]]}), capture_output=True,
                           text=True, env=env_child({"PYTHONDONTWRITEBYTECODE": "1"}), timeout=600, cwd=VERIF)
        real = json.loads([l for l in p.stdout.splitlines() if l.startswith("{")][-1])["splits"][0]
        why = split_oracle({"addition": case["addition"], "real_permits_cuts_at": real})
        if why:
            print(f"VIOLATION property=C11 replay={path}")
            print(why)
            return 1
        print("replay: the recorded addition no longer fails")
        return 0
    if not case or "history" not in case:
        print("replay: no concrete history recorded; re-running the quick check")
        return main("quick", doc.get("seed", 0))
    res = run_child([case["history"]])
    r = oracle(case["history"], res["runs"][0], res["base"])
    if r:
        print(f"VIOLATION property=C11 replay={path}")
        print(f"step {r[1]}: {r[0]}")
        return 1
    print("replay: the recorded history no longer fails")
    return 0
