"""C11 -- user allowlist additions do not outlive or leak beyond their activation.

Theorems: coq/props/C11.v over coq/model/Allowlist.v (heap of inner dicts; copy_deep = the fixed
FicklingMLUnpickler.__init__, copy_shallow = the pinned one, defect D4).  Tie: extracted model vs
the real fickling.hook / fickling.ml on the same histories, every history in its own forked
process (harness/c11_child.py); observed after every step: deep comparison of ML_ALLOWLIST with
its initial snapshot (+ which entries differ), allowed/blocked outcome of probe loads.
Oracle (model-free): the two-variable reference (BASE snapshot, current additions)."""
import json
import os
import subprocess
from concurrent.futures import ThreadPoolExecutor

from harness.common import PY, VERIF, Check, Driver, env_child, report_broken_obligations, sx, wire

CHILD = os.path.join(VERIF, "harness", "c11_child.py")
VOCAB = [("collections", "OrderedDict"),    # built in
         ("collections", "Counter"),        # new member of an allow-listed module
         ("collections", "deque"),          # another one
         ("fractions", "Fraction"),         # module not in the table
         ("decimal", "Decimal"),            # another one
         ("numpy", "zeros"),                # new member of an allow-listed module
         ("numpy.core.multiarray", "scalar"),  # new member of an allow-listed DOTTED module
         ("verif_sink", "record")]          # never added
ADDS = [None,                                                    # none
        ["fractions.Fraction"],                                  # new module
        ["collections.Counter"],                                 # new member of an allow-listed module
        ["decimal.Decimal", "numpy.zeros", "collections.deque", "numpy.core.multiarray.scalar"],  # both
        ["collections.OrderedDict"],                             # re-adds a built-in entry
        ["decimal.Decimal", "decimal.Context", "collections.Counter", "collections.Counter"],
        []]
NEXH = 4          # addition sets used by the bounded-exhaustive part


def split(d):
    m, n = d.rsplit(".", 1)
    return (m, n)


def pairs(i):
    return [split(a) for a in (ADDS[i] or [])]


def enumerate_histories(maxlen):
    alphabet = [["act", i] for i in range(NEXH)] + ["deact"] + [["cons", j] for j in range(NEXH)] + ["pall"]
    out = []

    def rec(h):
        if h:
            out.append(h + ["pall", "iall"])
        if len(h) == maxlen:
            return
        for op in alphabet:
            if op == "pall" and h and h[-1] == "pall":
                continue       # idempotent on the model's observable state; keeps the set small
            rec(h + [op])

    rec([])
    return out


def random_history(rng, maxlen):
    n = rng.randrange(5, maxlen + 1)
    h, ninst = [], 0
    for _ in range(n):
        r = rng.random()
        if r < 0.25:
            h.append(["acts" if rng.random() < 0.35 else "act", rng.randrange(len(ADDS))])
        elif r < 0.37:
            h.append("deact")
        elif r < 0.55:
            h.append(["conss" if rng.random() < 0.35 else "cons", rng.randrange(len(ADDS))])
            ninst += 1
        elif r < 0.70:
            h.append("pall")
        elif r < 0.88:
            h.append(["probe", rng.randrange(len(VOCAB))])
        elif ninst:
            h.append(["iprobe", rng.randrange(ninst), rng.randrange(len(VOCAB))])
        else:
            h.append("pall")
    return h + ["pall", "iall"]


def gsx(g):
    return [wire(g[0]), wire(g[1])]


def op_sx(op):
    if isinstance(op, str):
        return op
    if op[0] in ("act", "cons", "acts", "conss"):
        # "acts" / "conss": the caller hands over ONE list object that it edits in place between calls --
        # to the model (and to the property) that is the same as a fresh list with those contents
        return [{"acts": "act", "conss": "cons"}.get(op[0], op[0]), [gsx(g) for g in pairs(op[1])]]
    if op[0] == "probe":
        return ["probe", gsx(VOCAB[op[1]])]
    if op[0] == "iprobe":
        return ["iprobe", op[1], gsx(VOCAB[op[2]])]
    raise ValueError(op)


def model_lines(drv, histories, mode="deep"):
    voc = [gsx(g) for g in VOCAB]
    qs = [sx(["allow", mode, voc, [op_sx(o) for o in h]]) for h in histories]
    return [l.split("|") for l in drv.query(qs)]


def run_child(histories):
    job = {"adds": ADDS, "vocab": VOCAB, "histories": histories}
    p = subprocess.run([PY, CHILD], input=json.dumps(job), capture_output=True, text=True,
                       env=env_child({"PYTHONDONTWRITEBYTECODE": "1"}), timeout=3000, cwd=VERIF)
    lines = [l for l in p.stdout.splitlines() if l.startswith("{")]
    if p.returncode != 0 or not lines:
        raise RuntimeError(f"c11 child failed rc={p.returncode}: {p.stderr[-800:]}")
    return json.loads(lines[-1])


def run_children(histories, nchunk=14):
    chunks = [histories[i::nchunk] for i in range(nchunk)]
    chunks = [c for c in chunks if c]
    with ThreadPoolExecutor(max_workers=nchunk) as ex:
        res = list(ex.map(run_child, chunks))
    runs = []
    for c, r in zip(chunks, res):
        runs += list(zip(c, r["runs"]))
    return runs, res[0]["base"]


# ---------------------------------------------------------------- the property itself (model-free)
def oracle(hist, steps, base):
    """two-variable reference: BASE (snapshot taken before the history) and the additions of the
    activation currently in force.  Returns (why, step) or None."""
    def permitted(g, a):
        return g[1] in base.get(g[0], ()) or g in a
    cur = None
    inst = []
    for i, (op, line) in enumerate(zip(hist, steps)):
        if line.startswith("!"):
            return (f"operation {op} raised {line[1:]}", i)
        k = op if isinstance(op, str) else op[0]
        k = {"acts": "act", "conss": "cons"}.get(k, k)
        if k == "act":
            cur = pairs(op[1])
        elif k == "deact":
            cur = None
        elif k == "cons":
            inst.append(pairs(op[1]))
        cut = line.index("]") + 1
        head, extra = line[:cut], line[cut + 1:]
        if not head.startswith("T"):
            return (f"the module-level ML_ALLOWLIST was altered: {head[1:]}", i)
        want = None
        if k == "pall":
            want = "".join("U" if cur is None else ("A" if permitted(g, cur) else "B") for g in VOCAB)
        elif k == "probe":
            g = VOCAB[op[1]]
            want = "U" if cur is None else ("A" if permitted(g, cur) else "B")
        elif k == "iall":
            want = "/".join("".join("A" if permitted(g, a) else "B" for g in VOCAB) for a in inst)
        elif k == "iprobe":
            want = "A" if permitted(VOCAB[op[2]], inst[op[1]]) else "B"
        if want is not None and extra != want:
            what = ("activation with additions %s" % (cur,)) if k in ("pall", "probe") else "instances %s" % (inst,)
            return (f"permitted set is not BASE + current additions ({what}): observed {extra}, "
                    f"expected {want} over {['.'.join(g) for g in VOCAB]}", i)
    return None


def shrink(hist, budget=60):
    """greedy deletion of operations while the oracle still fails (each trial in a fresh fork)"""
    cur = list(hist)
    i = 0
    while i < len(cur) and budget > 0:
        cand = cur[:i] + cur[i + 1:]
        if cand and not any(o[0] == "iprobe" for o in cand if not isinstance(o, str)):
            budget -= 1
            res = run_child([cand])
            if oracle(cand, res["runs"][0], res["base"]):
                cur = cand
                continue
        i += 1
    return cur


def main(tier, seed):
    chk = Check("C11", tier, seed)
    quick = tier == "quick"
    maxlen = 4 if quick else 5
    chk.rule = (f"bounded-exhaustive: every history of length <= {maxlen} over {{activate(A0..A3), deactivate, "
                "construct-unpickler(A0..A3), probe-all}} (A0 none, A1 new module, A2 new member of an allow-listed "
                "module, A3 both), each followed by probe-all + probe-every-instance; random: histories of length "
                "5..30 over 7 addition sets (incl. re-adding a built-in entry, duplicates) with single probes and "
                "instance probes.  Every history runs in its own forked process.  Observed after every step: deep "
                "equality of ML_ALLOWLIST with its initial snapshot + differing entries; allowed/blocked/unmediated "
                "outcome of probe loads over 7 globals.  non-trivial = some activation or instance with additions "
                "precedes a probe; distinct by the observation sequence")
    built = chk.regen_and_build(["proofs/AllowlistProofs.vo"])
    if built:
        chk.prove()
    exh = enumerate_histories(maxlen)
    rnd = [random_history(chk.rng, 30) for _ in range(150 if quick else 3000)]
    # targeted: ONE list object edited in place between activations / constructions
    for a, b in ((1, 2), (2, 1), (3, 0), (1, 6)):
        rnd.append([["acts", a], "pall", "deact", ["acts", b], "pall", "iall"])
        rnd.append([["conss", a], ["conss", b], ["acts", a], "pall", "iall"])
        rnd.append([["acts", a], ["acts", b], "pall", ["conss", a], "pall", "iall"])
    chk.stats["exhaustive_histories"] = len(exh)
    chk.stats["random_histories"] = len(rnd)
    bad = []
    base = {}
    runs_all = []
    try:
        exh_runs, base = run_children(exh)
        rnd_runs, _ = run_children(rnd)
        ran = True
    except Exception as e:  # noqa: BLE001
        chk.oblige("implementation side ran (children)", False, f"{type(e).__name__}: {e}")
        exh_runs, rnd_runs, ran = [], [], False
    if ran:
        import fickling.ml as fml
        voc_ok = ([g[1] in fml.ML_ALLOWLIST.get(g[0], ()) for g in VOCAB] ==
                  [True, False, False, False, False, False, False]
                  and "numpy" in fml.ML_ALLOWLIST and "fractions" not in fml.ML_ALLOWLIST
                  and "decimal" not in fml.ML_ALLOWLIST)
        chk.stats["vocabulary_as_intended"] = voc_ok
    if ran and built:
        drv = Driver()
        for name, runs in (("bounded-exhaustive", exh_runs), ("random", rnd_runs)):
            hs = [h for h, _ in runs]
            ml = model_lines(drv, hs, "deep")
            mism = []
            for (h, steps), lines in zip(runs, ml):
                chk.count(len(steps))
                if any((not isinstance(o, str)) and o[0] in ("act", "cons") and ADDS[o[1]] for o in h[:-2]):
                    chk.nontriv("|".join(steps))
                for o in h:
                    k = o if isinstance(o, str) else o[0]
                    chk.stats.setdefault("ops", {}).setdefault(k, 0)
                    chk.stats["ops"][k] += 1
                if steps != lines:
                    i = next((j for j, (a, b) in enumerate(zip(steps, lines)) if a != b), min(len(steps), len(lines)))
                    mism.append({"history": h, "step": i,
                                 "real": steps[i] if i < len(steps) else None,
                                 "model": lines[i] if i < len(lines) else None})
            detail = json.dumps(mism[:3])
            if mism:
                # which variant does the code implement?
                sh = model_lines(drv, [m["history"] for m in mism[:50]], "shallow")
                look = {json.dumps(h): st for h, st in runs}
                agree = sum(1 for m, l in zip(mism[:50], sh) if look[json.dumps(m["history"])] == l)
                detail = (f"{len(mism)} histories disagree with copy_deep; {agree}/{min(50, len(mism))} of them agree "
                          f"with copy_shallow (defect D4: inner dicts shared). " + detail)
            chk.oblige(f"correspondence: Allowlist model (copy_deep) vs real hook/ml, {name}: {len(runs)} histories",
                       not mism, detail)
            bad += mism
            runs_all += runs
        if exh_runs:
            h, steps = exh_runs[len(exh_runs) // 3]
            chk.sample({"history": h, "observed": steps})
        if rnd_runs:
            h, steps = rnd_runs[0]
            chk.sample({"history": h[:10], "observed": steps[:10]})
    # the property itself, model-free, on every observed history (two-variable model: BASE, current additions)
    orc_bad = []
    for h, steps in runs_all:
        r = oracle(h, steps, base)
        if r:
            orc_bad.append({"history": h, "oracle": r[0], "step": r[1]})
    if runs_all:
        chk.oblige(f"property oracle (model-free) holds on all {len(runs_all)} observed histories", not orc_bad,
                   json.dumps(orc_bad[:3])[:1500])
        bad += orc_bad
    chk.extra["bounds"] = {"exhaustive_max_length": maxlen, "random_max_length": 30,
                           "addition_sets": ADDS, "vocabulary": [".".join(g) for g in VOCAB]}

    def search():
        seen = set()
        cands = [b["history"] for b in bad] + [h for h, _ in runs_all]
        lookup = {json.dumps(h): s for h, s in runs_all}
        for h in cands:
            key = json.dumps(h)
            if key in seen:
                continue
            seen.add(key)
            steps = lookup.get(key)
            if steps is None:
                res = run_child([h])
                steps = res["runs"][0]
            r = oracle(h, steps, base)
            if r:
                small = shrink(h[: r[1] + 1])
                res = run_child([small])
                r2 = oracle(small, res["runs"][0], res["base"]) or r
                return {"oracle": r2[0], "history": small, "step": r2[1], "observed": res["runs"][0],
                        "adds_table": ADDS, "vocabulary": [".".join(g) for g in VOCAB],
                        "original_history": h}
        return None

    report_broken_obligations(chk, search)
    return chk.finish()


def replay(path):
    doc = json.load(open(path))
    case = doc.get("case")
    if not case or "history" not in case:
        print("replay: no concrete history recorded; re-running the quick check")
        return main("quick", doc.get("seed", 0))
    res = run_child([case["history"]])
    r = oracle(case["history"], res["runs"][0], res["base"])
    if r:
        print(f"VIOLATION property=C11 replay={path}")
        print(f"step {r[1]}: {r[0]}")
        return 1
    print("replay: the recorded history no longer fails")
    return 0
