"""Child process of the C13 check: answers of the REAL fickling for a list of pickles, in a fresh
interpreter with the PYTHONHASHSEED the parent chose (object addresses differ per process too).

stdin : JSON {"pickles": [hex, ...]}
stdout: JSON {"seed": <PYTHONHASHSEED>, "answers": [{text, verdict, findings, order, dumps} | null ...]}"""
import json
import os
import sys

sys.setrecursionlimit(3000)


def main():
    job = json.load(sys.stdin)
    from fickling.fickle import Pickled
    from harness import cachelib
    out = []
    for h in job["pickles"]:
        try:
            p = Pickled.load(bytes.fromhex(h))
        except Exception:
            out.append(None)
            continue
        out.append(cachelib.standard_observables(p))
    json.dump({"seed": os.environ.get("PYTHONHASHSEED"), "answers": out}, sys.stdout)


if __name__ == "__main__":
    sys.path.insert(0, os.path.dirname(os.path.dirname(os.path.abspath(__file__))))
    main()
